//go:build verif

package safelog

import (
	"fmt"
	"os"
	"testing"
)

// TestVerifPatterns prints the regular expressions this package actually compiled, one per
// line as `<name>\t<pattern source>`; harness/overlay/zz_verif/regex2coq turns them into
// coq/Gen/SafelogPatterns.v.  Run only when VERIF_PATTERNS=1.
func TestVerifPatterns(t *testing.T) {
	if os.Getenv("VERIF_PATTERNS") != "1" {
		t.Skip()
	}
	for _, p := range scrubberPatterns {
		fmt.Printf("@@full\t%s\n", p.String())
	}
	fmt.Printf("@@addr\t%s\n", addressPattern)
}
