//go:build verif

package turbotunnel

// In-package driver for clientMapInner with an explicit clock (see coq/Model/ClientMap.v,
// coq/Run/TurbotunnelRun.v: "turbotunnel cm <timeout> <ops>").  Injected with go build -overlay;
// /repo is not modified.

import (
	"fmt"
	"net"
	"os"
	"sort"
	"strconv"
	"strings"
	"testing"
	"time"

	"git.torproject.org/pluggable-transports/snowflake.git/v2/zz_verif/wire"
)

type verifAddr int

func (a verifAddr) Network() string { return "verif" }
func (a verifAddr) String() string  { return strconv.Itoa(int(a)) }

func verifOrE(l []string) string {
	if len(l) == 0 {
		return "e"
	}
	return strings.Join(l, ";")
}

func verifCM(args []string) string {
	tmo, err := strconv.ParseInt(args[0], 10, 64)
	if err != nil {
		return "!badcase"
	}
	timeout := time.Duration(tmo) * time.Millisecond
	base := time.Unix(1700000000, 0)
	at := func(s string) time.Time {
		v, _ := strconv.ParseInt(s, 10, 64)
		return base.Add(time.Duration(v) * time.Millisecond)
	}
	inner := &clientMapInner{byAge: make([]*clientRecord, 0), byAddr: make(map[net.Addr]int)}
	qid := map[chan []byte]int{}
	var queues []chan []byte
	closed := map[int]bool{}
	dump := func() string {
		var ages []string
		for _, r := range inner.byAge {
			id, ok := qid[r.SendQueue]
			if !ok {
				id = -1
			}
			ages = append(ages, r.Addr.String()+"."+strconv.FormatInt(int64(r.LastSeen.Sub(base)/time.Millisecond), 10)+"."+strconv.Itoa(id))
		}
		type kv struct{ a, i int }
		var kvs []kv
		for a, i := range inner.byAddr {
			kvs = append(kvs, kv{int(a.(verifAddr)), i})
		}
		sort.Slice(kvs, func(x, y int) bool { return kvs[x].a < kvs[y].a })
		var addrs []string
		for _, e := range kvs {
			addrs = append(addrs, strconv.Itoa(e.a)+"="+strconv.Itoa(e.i))
		}
		for id, ch := range queues {
			if closed[id] {
				continue
			}
			select {
			case _, ok := <-ch:
				if !ok {
					closed[id] = true
				}
			default:
			}
		}
		var dead []string
		for id := range queues {
			if closed[id] {
				dead = append(dead, strconv.Itoa(id))
			}
		}
		return verifOrE(ages) + "/" + verifOrE(addrs) + "/" + verifOrE(dead)
	}
	var out []string
	for _, t := range wire.List(args[1]) {
		switch t[0] {
		case 's':
			parts := strings.Split(t[1:], "@")
			a, _ := strconv.Atoi(parts[0])
			ch := inner.SendQueue(verifAddr(a), at(parts[1]))
			id, ok := qid[ch]
			if !ok {
				id = len(queues)
				qid[ch] = id
				queues = append(queues, ch)
			}
			out = append(out, "q"+strconv.Itoa(id)+"/"+dump())
		case 'e':
			inner.removeExpired(at(t[1:]), timeout)
			out = append(out, dump())
		default:
			return "!badop"
		}
	}
	return wire.PrintList(out)
}

// ---------------------------------------------------------------- cmb: MANY clients, explicit clock
//
// "turbotunnel cmb <timeout> <ops>": inner.SendQueue / inner.removeExpired as for cm, with bulk operations and a
// summary of the map after every operation (count boundaries of a sweep: 1025, 2048, 5000 records expired at once):
//
//	S<lo>-<hi>@<now>:<m>   SendQueue(a, now + (a mod m)) for a = lo..hi
//	s<addr>@<now> | e<now>  as for cm
//
// answer per operation: n<len(byAge)>/<addresses in byAddr, as ranges>/<identities of the closed queues, as ranges>
// (!index appended when byAddr and byAge disagree).  The queues stay empty: a closed channel is always ready to be
// received from, an open empty one is not.

func verifRanges(l []int) string {
	sort.Ints(l)
	var out []string
	for i := 0; i < len(l); {
		j := i
		for j+1 < len(l) && l[j+1] == l[j]+1 {
			j++
		}
		if j == i {
			out = append(out, strconv.Itoa(l[i]))
		} else {
			out = append(out, strconv.Itoa(l[i])+"-"+strconv.Itoa(l[j]))
		}
		i = j + 1
	}
	if len(out) == 0 {
		return "e"
	}
	return strings.Join(out, ".")
}

func verifCMB(args []string) string {
	tmo, err := strconv.ParseInt(args[0], 10, 64)
	if err != nil {
		return "!badcase"
	}
	timeout := time.Duration(tmo) * time.Millisecond
	base := time.Unix(1700000000, 0)
	at := func(v int64) time.Time { return base.Add(time.Duration(v) * time.Millisecond) }
	inner := &clientMapInner{byAge: make([]*clientRecord, 0), byAddr: make(map[net.Addr]int)}
	qid := map[chan []byte]int{}
	var queues []chan []byte
	closed := map[int]bool{}
	send := func(a int, now int64) {
		ch := inner.SendQueue(verifAddr(a), at(now))
		if _, ok := qid[ch]; !ok {
			qid[ch] = len(queues)
			queues = append(queues, ch)
		}
	}
	dump := func() string {
		var addrs []int
		bad := len(inner.byAddr) != len(inner.byAge)
		for a, i := range inner.byAddr {
			addrs = append(addrs, int(a.(verifAddr)))
			if i < 0 || i >= len(inner.byAge) || inner.byAge[i].Addr != a {
				bad = true
			}
		}
		var dead []int
		for id, ch := range queues {
			if !closed[id] {
				// a closed channel is always ready to be received from; an open empty one is not
				select {
				case _, ok := <-ch:
					if !ok {
						closed[id] = true
					}
				default:
				}
			}
			if closed[id] {
				dead = append(dead, id)
			}
		}
		r := "n" + strconv.Itoa(len(inner.byAge)) + "/" + verifRanges(addrs) + "/" + verifRanges(dead)
		if bad {
			r += "!index"
		}
		return r
	}
	var out []string
	for _, t := range wire.List(args[1]) {
		switch t[0] {
		case 'S':
			var lo, hi int
			var now, m int64
			if n, _ := fmt.Sscanf(t, "S%d-%d@%d:%d", &lo, &hi, &now, &m); n != 4 || m < 1 || hi < lo {
				return "!badop"
			}
			for a := lo; a <= hi; a++ {
				send(a, now+int64(a)%m)
			}
		case 's':
			var a int
			var now int64
			if n, _ := fmt.Sscanf(t, "s%d@%d", &a, &now); n != 2 {
				return "!badop"
			}
			send(a, now)
		case 'e':
			now, err := strconv.ParseInt(t[1:], 10, 64)
			if err != nil {
				return "!badop"
			}
			inner.removeExpired(at(now), timeout)
		default:
			return "!badop"
		}
		out = append(out, dump())
	}
	return wire.PrintList(out)
}

// ---------------------------------------------------------------- qm: outgoing queues, explicit clock
//
// "turbotunnel qm <cap> <timeout> <ops>...": the histories of coq/Model/QueueConn.v [qstep] (every
// operation: QWrite, QOutRecv, QHeldRecv, QSweep, QIncoming, QRead, QClose) against a real
// QueuePacketConn, with chosen clock readings and no sleeping.  The conn is built without
// NewClientMap, so no sweeper goroutine runs: the sweeps are the case's.  The exported methods read
// time.Now(); the driver calls them and then puts the instant of the case into the record they
// touched (inner.SendQueue(addr, now): LastSeen = now, heap.Fix), before anything else looks at it:
//
//	w<addr>:<payload>@<now>  conn.WriteTo(p, addr); when it succeeded: inner.SendQueue(addr, now)   (E when it failed:
//	                         then the map must not have been touched, which the printed map shows)
//	o<addr>@<now>            conn.OutgoingQueue(addr), inner.SendQueue(addr, now) (the same channel); non-blocking receive on it
//	h<k>                     non-blocking receive on the k-th queue ever handed out
//	e<now>                   inner.removeExpired(now, timeout)       (the sweeper's body)
//	i<addr>:<payload>        conn.QueueIncoming(p, addr)
//	r<n>                     conn.ReadFrom(buf[n]), non-blocking view: a sentinel packet is queued behind whatever is
//	                         there, so the call returns; B when it returned the sentinel; the sentinel is taken out again
//	c                        conn.Close()
//
// After every operation the whole map is printed: every live record (address, last seen, queue
// identity, queue contents) and the identities of the closed queues.  A receive on a queue that
// is no longer in the map answers D when the channel is closed (whatever is left in it).

func verifQPrint(q [][]byte) string {
	hx := func(p []byte) string { return "x" + wire.Hex(p) }
	if len(q) <= 6 {
		var l []string
		for _, p := range q {
			l = append(l, hx(p))
		}
		if len(l) == 0 {
			return "e"
		}
		return strings.Join(l, "+")
	}
	return hx(q[0]) + "+" + hx(q[1]) + "+#" + strconv.Itoa(len(q)) + "+" + hx(q[len(q)-1])
}

func verifQM(args []string) string {
	if len(args) < 3 {
		return "!badcase"
	}
	if c, err := strconv.Atoi(args[0]); err != nil || c != queueSize {
		return "!cap:" + strconv.Itoa(queueSize)
	}
	tmo, err := strconv.ParseInt(args[1], 10, 64)
	if err != nil {
		return "!badcase"
	}
	timeout := time.Duration(tmo) * time.Millisecond
	base := time.Unix(1700000000, 0)
	at := func(s string) (time.Time, bool) {
		v, err := strconv.ParseInt(s, 10, 64)
		return base.Add(time.Duration(v) * time.Millisecond), err == nil
	}
	conn := &QueuePacketConn{
		clients:   &ClientMap{inner: clientMapInner{byAge: make([]*clientRecord, 0), byAddr: make(map[net.Addr]int)}},
		localAddr: verifAddr(0),
		recvQueue: make(chan taggedPacket, queueSize),
		closed:    make(chan struct{}),
	}
	inner := &conn.clients.inner
	const sentinel = verifAddr(-77)
	qid := map[chan []byte]int{}
	var queues []chan []byte
	// queues that are no longer in the map: drained once into rest (a closed channel cannot be
	// refilled), with whether the channel was found closed
	gone := map[int]bool{}
	closed := map[int]bool{}
	rest := map[int][][]byte{}
	idOf := func(ch chan []byte) int {
		id, ok := qid[ch]
		if !ok {
			id = len(queues)
			qid[ch] = id
			queues = append(queues, ch)
		}
		return id
	}
	// contents of a live queue, in order, left in place; ok=false when the channel is closed
	peek := func(ch chan []byte) ([][]byte, bool) {
		var items [][]byte
		for {
			select {
			case p, ok := <-ch:
				if !ok {
					return items, false
				}
				items = append(items, p)
				continue
			default:
			}
			break
		}
		for _, p := range items {
			ch <- p
		}
		return items, true
	}
	dump := func() string {
		live := map[int]bool{}
		type rec struct {
			a int
			s string
		}
		var recs []rec
		for _, r := range inner.byAge {
			id, ok := qid[r.SendQueue]
			if !ok {
				id = -1
			} else {
				live[id] = true
			}
			q, open := peek(r.SendQueue)
			c := verifQPrint(q)
			if !open {
				c = "!closed"
			}
			a := int(r.Addr.(verifAddr))
			recs = append(recs, rec{a, strconv.Itoa(a) + "." + strconv.FormatInt(int64(r.LastSeen.Sub(base)/time.Millisecond), 10) + "." + strconv.Itoa(id) + "=" + c})
		}
		sort.Slice(recs, func(x, y int) bool { return recs[x].a < recs[y].a })
		var ls []string
		for _, r := range recs {
			ls = append(ls, r.s)
		}
		if len(inner.byAddr) != len(inner.byAge) {
			ls = append(ls, "!index")
		}
		for a, i := range inner.byAddr {
			if i < 0 || i >= len(inner.byAge) || inner.byAge[i].Addr != a {
				ls = append(ls, "!index")
				break
			}
		}
		var dead []string
		for id, ch := range queues {
			if live[id] {
				continue
			}
			if !gone[id] {
				gone[id] = true
				for {
					select {
					case p, ok := <-ch:
						if !ok {
							closed[id] = true
						} else {
							rest[id] = append(rest[id], p)
							continue
						}
					default:
					}
					break
				}
			}
			if closed[id] {
				dead = append(dead, strconv.Itoa(id))
			} else {
				dead = append(dead, strconv.Itoa(id)+"!open")
			}
		}
		return verifOrE(ls) + "/" + verifOrE(dead)
	}
	var ops []string
	for _, f := range args[2:] {
		ops = append(ops, wire.List(f)...)
	}
	var out []string
	for _, t := range ops {
		var res string
		switch t[0] {
		case 'w':
			i := strings.LastIndexByte(t, '@')
			j := strings.IndexByte(t, ':')
			if i < 0 || j < 0 || j > i {
				return "!badop"
			}
			a, err1 := strconv.Atoi(t[1:j])
			p, err2 := wire.Payload(t[j+1 : i])
			now, ok := at(t[i+1:])
			if err1 != nil || err2 != nil || !ok {
				return "!badop"
			}
			// what WriteTo itself does to the record is observed: the exported method stamps it with time.Now()
			// (years after the case's instants); only a record it really refreshed (or created) is then re-stamped
			// with the instant of the case. A record WriteTo left alone keeps its old instant and heap position.
			var seenBefore time.Time
			idx, had := inner.byAddr[verifAddr(a)]
			if had {
				seenBefore = inner.byAge[idx].LastSeen
			}
			n, werr := conn.WriteTo(p, verifAddr(a))
			for k := range p {
				p[k] ^= 0xa5 // the caller owns p again
			}
			if werr != nil {
				res = "E"
			} else {
				idx2, has := inner.byAddr[verifAddr(a)]
				if has && had && inner.byAge[idx2].LastSeen.Equal(seenBefore) {
					idOf(inner.byAge[idx2].SendQueue) // accepted, but the record was not refreshed by WriteTo
				} else {
					idOf(inner.SendQueue(verifAddr(a), now)) // the record WriteTo touched, at the case's instant
				}
				res = "n" + strconv.Itoa(n)
			}
		case 'o':
			parts := strings.Split(t[1:], "@")
			if len(parts) != 2 {
				return "!badop"
			}
			a, err1 := strconv.Atoi(parts[0])
			now, ok := at(parts[1])
			if err1 != nil || !ok {
				return "!badop"
			}
			// as for w: only a record OutgoingQueue itself refreshed (or created) is re-stamped with the case's instant
			var seenBefore time.Time
			idx, had := inner.byAddr[verifAddr(a)]
			if had {
				seenBefore = inner.byAge[idx].LastSeen
			}
			och := conn.OutgoingQueue(verifAddr(a))
			var ch chan []byte
			if idx2, has := inner.byAddr[verifAddr(a)]; has && had && inner.byAge[idx2].LastSeen.Equal(seenBefore) {
				ch = inner.byAge[idx2].SendQueue
			} else {
				ch = inner.SendQueue(verifAddr(a), now)
			}
			idOf(ch)
			if (<-chan []byte)(ch) != och {
				return "!queue-identity"
			}
			select {
			case p, ok := <-och:
				if ok {
					res = "x" + wire.Hex(p)
					for k := range p {
						p[k] ^= 0xa5 // the receiver owns p
					}
				} else {
					res = "C"
				}
			default:
				res = "B"
			}
		case 'h':
			k, err1 := strconv.Atoi(t[1:])
			if err1 != nil {
				return "!badop"
			}
			switch {
			case k >= len(queues):
				res = "B" // never handed out: not a channel anybody holds
			case gone[k]:
				// a discarded queue: what is left in it is not part of the property
				if closed[k] {
					res = "D"
				} else {
					res = "O"
				}
			default:
				select {
				case p, ok := <-queues[k]:
					if ok {
						res = "x" + wire.Hex(p)
						for i := range p {
							p[i] ^= 0xa5
						}
					} else {
						res = "C"
					}
				default:
					res = "B"
				}
			}
		case 'e':
			now, ok := at(t[1:])
			if !ok {
				return "!badop"
			}
			inner.removeExpired(now, timeout)
			res = "-"
		case 'i':
			j := strings.IndexByte(t, ':')
			if j < 0 {
				return "!badop"
			}
			a, err1 := strconv.Atoi(t[1:j])
			p, err2 := wire.Payload(t[j+1:])
			if err1 != nil || err2 != nil {
				return "!badop"
			}
			conn.QueueIncoming(p, verifAddr(a))
			for k := range p {
				p[k] ^= 0xa5
			}
			res = "-"
		case 'r':
			n, err1 := strconv.Atoi(t[1:])
			if err1 != nil {
				return "!badop"
			}
			// behind whatever is queued (dropped when the queue is full or the conn closed: then ReadFrom returns anyway)
			conn.QueueIncoming([]byte{0x5e}, sentinel)
			buf := make([]byte, n)
			got, ra, rerr := conn.ReadFrom(buf)
			switch {
			case rerr != nil:
				res = "E"
			case ra == sentinel:
				res = "B"
			default:
				va, ok := ra.(verifAddr)
				if !ok {
					return "!addr"
				}
				res = "x" + wire.Hex(buf[:got]) + "@" + strconv.Itoa(int(va))
			}
			for k := range buf {
				buf[k] ^= 0xa5 // the reader owns its buffer again
			}
			// take the sentinel out again, everything else stays in order
			var keep []taggedPacket
			for drained := false; !drained; {
				select {
				case tp := <-conn.recvQueue:
					if tp.Addr != sentinel {
						keep = append(keep, tp)
					}
				default:
					drained = true
				}
			}
			for _, tp := range keep {
				conn.recvQueue <- tp
			}
		case 'c':
			if err := conn.Close(); err != nil {
				res = "E"
			} else {
				res = "ok"
			}
		default:
			return "!badop"
		}
		out = append(out, res+"/"+dump())
	}
	return wire.PrintList(out)
}

// sweephold <T ms> <hold ms>: the REAL sweeper of NewClientMap while another goroutine is inside a critical section of
// the map at every instant the sweeper comes (a goroutine descheduled while it holds the lock): m.lock is held from
// <hold> ms before to <hold> ms after every multiple of T/2 since the map was made, for 3 T.  One client is seen once, at
// 0.3 T.  A sweeper that WAITS for the lock runs right after each window: the queue must be closed by the window that
// follows the first sweep instant at or after 1.3 T.  Answer: closed:<us after last seen> | open:<us> (still open 2.5 T
// after it was last seen) | early:<us> | !timing (this process could not keep the windows).
func verifSweepHold(args []string) string {
	tms, e1 := strconv.Atoi(args[0])
	hms, e2 := strconv.Atoi(args[1])
	if e1 != nil || e2 != nil || tms < 20 || hms < 1 || 4*hms >= tms {
		return "!badcase"
	}
	T := time.Duration(tms) * time.Millisecond
	H := time.Duration(hms) * time.Millisecond
	t0 := time.Now()
	m := NewClientMap(T)
	stop := make(chan struct{})
	late := make(chan bool, 1)
	go func() {
		missed := false
		for k := 1; ; k++ {
			start := t0.Add(time.Duration(k)*T/2 - H)
			if d := time.Until(start); d > 0 {
				select {
				case <-stop:
					late <- missed
					return
				case <-time.After(d):
				}
			} else if -d > H/2 {
				missed = true // the window would start after (or too close to) the sweep instant
			}
			m.lock.Lock()
			time.Sleep(time.Until(t0.Add(time.Duration(k)*T/2 + H)))
			m.lock.Unlock()
			select {
			case <-stop:
				late <- missed
				return
			default:
			}
		}
	}()
	time.Sleep(time.Until(t0.Add(3 * T / 10)))
	addr := verifAddr(7)
	q := m.SendQueue(addr)
	seen := time.Now()
	res := ""
	for {
		time.Sleep(T / 50)
		now := time.Now()
		closed := false
		select {
		case _, ok := <-q:
			closed = !ok
		default:
		}
		if closed {
			if now.Sub(seen) < T-T/50 {
				res = "early:" + strconv.FormatInt(now.Sub(seen).Microseconds(), 10)
			} else {
				res = "closed:" + strconv.FormatInt(now.Sub(seen).Microseconds(), 10)
			}
			break
		}
		if now.Sub(seen) > 5*T/2 {
			res = "open:" + strconv.FormatInt(now.Sub(seen).Microseconds(), 10)
			break
		}
	}
	close(stop)
	if <-late && strings.HasPrefix(res, "open") {
		return "!timing"
	}
	return res
}

func TestVerifDriver(t *testing.T) {
	if os.Getenv("VERIF_DRIVER") != "1" {
		t.Skip("driver mode only")
	}
	wire.Loop(func(args []string) string {
		if len(args) >= 3 && args[0] == "cm" {
			return verifCM(args[1:])
		}
		if len(args) >= 3 && args[0] == "cmb" {
			return verifCMB(args[1:])
		}
		if len(args) >= 4 && args[0] == "qm" {
			return verifQM(args[1:])
		}
		if len(args) == 3 && args[0] == "sweephold" {
			return verifSweepHold(args[1:])
		}
		return "!badcase"
	})
	os.Exit(0)
}
