//go:build verif

package turbotunnel

// In-package driver for clientMapInner with an explicit clock (see coq/Model/ClientMap.v,
// coq/Run/TurbotunnelRun.v: "turbotunnel cm <timeout> <ops>").  Injected with go build -overlay;
// /repo is not modified.

import (
	"net"
	"os"
	"sort"
	"strconv"
	"strings"
	"testing"
	"time"

	"git.torproject.org/pluggable-transports/snowflake.git/v2/zz_verif/wire"
)

type verifAddr int

func (a verifAddr) Network() string { return "verif" }
func (a verifAddr) String() string  { return strconv.Itoa(int(a)) }

func verifOrE(l []string) string {
	if len(l) == 0 {
		return "e"
	}
	return strings.Join(l, ";")
}

func verifCM(args []string) string {
	tmo, err := strconv.ParseInt(args[0], 10, 64)
	if err != nil {
		return "!badcase"
	}
	timeout := time.Duration(tmo) * time.Millisecond
	base := time.Unix(1700000000, 0)
	at := func(s string) time.Time {
		v, _ := strconv.ParseInt(s, 10, 64)
		return base.Add(time.Duration(v) * time.Millisecond)
	}
	inner := &clientMapInner{byAge: make([]*clientRecord, 0), byAddr: make(map[net.Addr]int)}
	qid := map[chan []byte]int{}
	var queues []chan []byte
	closed := map[int]bool{}
	dump := func() string {
		var ages []string
		for _, r := range inner.byAge {
			id, ok := qid[r.SendQueue]
			if !ok {
				id = -1
			}
			ages = append(ages, r.Addr.String()+"."+strconv.FormatInt(int64(r.LastSeen.Sub(base)/time.Millisecond), 10)+"."+strconv.Itoa(id))
		}
		type kv struct{ a, i int }
		var kvs []kv
		for a, i := range inner.byAddr {
			kvs = append(kvs, kv{int(a.(verifAddr)), i})
		}
		sort.Slice(kvs, func(x, y int) bool { return kvs[x].a < kvs[y].a })
		var addrs []string
		for _, e := range kvs {
			addrs = append(addrs, strconv.Itoa(e.a)+"="+strconv.Itoa(e.i))
		}
		for id, ch := range queues {
			if closed[id] {
				continue
			}
			select {
			case _, ok := <-ch:
				if !ok {
					closed[id] = true
				}
			default:
			}
		}
		var dead []string
		for id := range queues {
			if closed[id] {
				dead = append(dead, strconv.Itoa(id))
			}
		}
		return verifOrE(ages) + "/" + verifOrE(addrs) + "/" + verifOrE(dead)
	}
	var out []string
	for _, t := range wire.List(args[1]) {
		switch t[0] {
		case 's':
			parts := strings.Split(t[1:], "@")
			a, _ := strconv.Atoi(parts[0])
			ch := inner.SendQueue(verifAddr(a), at(parts[1]))
			id, ok := qid[ch]
			if !ok {
				id = len(queues)
				qid[ch] = id
				queues = append(queues, ch)
			}
			out = append(out, "q"+strconv.Itoa(id)+"/"+dump())
		case 'e':
			inner.removeExpired(at(t[1:]), timeout)
			out = append(out, dump())
		default:
			return "!badop"
		}
	}
	return wire.PrintList(out)
}

func TestVerifDriver(t *testing.T) {
	if os.Getenv("VERIF_DRIVER") != "1" {
		t.Skip("driver mode only")
	}
	wire.Loop(func(args []string) string {
		if len(args) >= 3 && args[0] == "cm" {
			return verifCM(args[1:])
		}
		return "!badcase"
	})
	os.Exit(0)
}
