//go:build verif

// C20 race workload for common/turbotunnel: QueuePacketConn + ClientMap under concurrent
// QueueIncoming / ReadFrom / WriteTo / OutgoingQueue from many goroutines while the
// ClientMap expiry goroutine runs (short timeout) and the conn is finally closed under load.
package turbotunnel

import (
	"fmt"
	"os"
	"strconv"
	"sync"
	"sync/atomic"
	"testing"
	"time"
)

func c20EnvInt(name string, def int) int {
	if v, err := strconv.Atoi(os.Getenv(name)); err == nil {
		return v
	}
	return def
}

type c20Addr string

func (a c20Addr) Network() string { return "c20" }
func (a c20Addr) String() string  { return string(a) }

func TestVerifC20QueueConn(t *testing.T) {
	n := c20EnvInt("VERIF_C20_N", 16)
	runFor := time.Duration(c20EnvInt("VERIF_C20_MS", 700)) * time.Millisecond
	timeout := 200 * time.Millisecond // expiry goroutine wakes every 100 ms
	c := NewQueuePacketConn(c20Addr("local"), timeout)
	stop := make(chan struct{})
	var wg sync.WaitGroup
	var in, out, rd, drained, panics int64
	guard := func(f func()) {
		defer wg.Done()
		defer func() {
			if r := recover(); r != nil {
				atomic.AddInt64(&panics, 1)
				fmt.Printf("C20 PANIC turbotunnel %v\n", r)
			}
		}()
		f()
	}
	stopped := func() bool {
		select {
		case <-stop:
			return true
		default:
			return false
		}
	}
	for k := 0; k < n; k++ {
		hot := c20Addr(fmt.Sprintf("hot-%d", k%4)) // shared between goroutines on purpose
		id := NewClientID()
		id[0] = byte(k)
		wg.Add(4)
		// carrier side: incoming packets and draining of the outgoing queue (as server/lib does)
		go guard(func() {
			p := make([]byte, 64)
			for !stopped() {
				p[0]++
				c.QueueIncoming(p, hot)
				c.QueueIncoming(p, id)
				atomic.AddInt64(&in, 2)
			}
		})
		go guard(func() {
			for !stopped() {
				select {
				case _, ok := <-c.OutgoingQueue(hot):
					if ok {
						atomic.AddInt64(&drained, 1)
					}
				case _, ok := <-c.OutgoingQueue(id):
					if ok {
						atomic.AddInt64(&drained, 1)
					}
				case <-stop:
				}
			}
		})
		// engine side (as kcp does): ReadFrom / WriteTo
		go guard(func() {
			buf := make([]byte, 128)
			for !stopped() {
				if _, _, err := c.ReadFrom(buf); err != nil {
					return
				}
				atomic.AddInt64(&rd, 1)
			}
		})
		go guard(func() {
			p := make([]byte, 48)
			for !stopped() {
				p[1]++
				if _, err := c.WriteTo(p, hot); err != nil {
					return
				}
				if _, err := c.WriteTo(p, id); err != nil {
					return
				}
				atomic.AddInt64(&out, 2)
			}
		})
	}
	// cold clients: seen once, then left to expire while everything else runs
	wg.Add(1)
	go guard(func() {
		for j := 0; j < 200 && !stopped(); j++ {
			a := c20Addr(fmt.Sprintf("cold-%d", j))
			q := c.OutgoingQueue(a)
			wg.Add(1)
			go guard(func() {
				for {
					select {
					case _, ok := <-q:
						if !ok {
							return // expired: queue closed by the expiry goroutine
						}
					case <-stop:
						return
					}
				}
			})
			time.Sleep(time.Millisecond)
		}
	})
	time.Sleep(runFor)
	// close under load, twice (second close takes the error path)
	e1 := c.Close()
	e2 := c.Close()
	close(stop)
	wg.Wait()
	// let the expiry goroutine retire every record (it closes their send queues) before the
	// process exits, so that a close not ordered after the last send is seen by the detector
	time.Sleep(timeout + timeout/2 + 50*time.Millisecond)
	fmt.Printf("C20 turbotunnel done=true n=%d in=%d out=%d read=%d drained=%d panics=%d close1=%v close2err=%v\n",
		n, in, out, rd, drained, panics, e1, e2 != nil)
}
