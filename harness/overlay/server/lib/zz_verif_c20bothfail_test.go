//go:build verif

// C20 race workload for server/lib: carriers that fail in BOTH directions at the same moment.
// Each carrier is turbotunnelMode over a net.Pipe whose far end stops reading; downstream
// packets for its ClientID are queued, so the write loop is blocked inside a Write while the
// read loop is blocked inside a Read; then the connection is reset (the near end is closed under
// both): Read returns a non-EOF error and Write returns an error at once, and the two goroutines
// of turbotunnelMode run their failure paths concurrently.  Variants: far end closed (EOF on the
// read side, error on the write side), reset before any downstream packet, reset between packets.
package snowflake_server

import (
	"fmt"
	"io"
	"log"
	"math/rand"
	"net"
	"sync"
	"sync/atomic"
	"testing"
	"time"

	"git.torproject.org/pluggable-transports/snowflake.git/v2/common/encapsulation"
	"git.torproject.org/pluggable-transports/snowflake.git/v2/common/turbotunnel"
)

func TestVerifC20ServerBothFail(t *testing.T) {
	log.SetOutput(io.Discard)
	n := c20EnvInt("VERIF_C20_N", 24)
	seed := int64(c20EnvInt("VERIF_SEED", 1))
	pconn := turbotunnel.NewQueuePacketConn(ClientMapAddr("local"), 10*time.Second)
	defer pconn.Close()
	var wg sync.WaitGroup
	var returned, resets, farCloses int64
	for k := 0; k < n; k++ {
		rng := rand.New(rand.NewSource(seed*7919 + int64(k)))
		id := turbotunnel.NewClientID()
		cli, srv := net.Pipe()
		variant := k % 4
		queued := 1 + rng.Intn(6)
		delay := time.Duration(rng.Intn(3000)) * time.Microsecond
		wg.Add(2)
		go func(k int) {
			defer wg.Done()
			turbotunnelMode(srv, clientAddr(fmt.Sprintf("10.1.%d.%d", k/256, k%256)), pconn)
			atomic.AddInt64(&returned, 1)
		}(k)
		go func() {
			defer wg.Done()
			if _, err := cli.Write(id[:]); err != nil {
				return
			}
			p := make([]byte, 64)
			for j := 0; j < 3; j++ { // upstream packets: the read loop is alive and then blocks in Read
				p[0] = byte(j)
				if _, err := encapsulation.WriteData(cli, p); err != nil {
					return
				}
			}
			// downstream packets for this ClientID: the write loop takes the first and blocks in
			// Write, because nobody reads the far end (variant 2: nothing is queued yet)
			if variant != 2 {
				for j := 0; j < queued; j++ {
					pconn.WriteTo(make([]byte, 200), id)
				}
			}
			time.Sleep(delay)
			switch variant {
			case 0, 2: // connection reset: both directions of the near end fail at once
				srv.Close()
				atomic.AddInt64(&resets, 1)
			case 1: // the peer goes away: EOF upstream, error downstream
				cli.Close()
				atomic.AddInt64(&farCloses, 1)
			case 3: // reset while the far end drains one packet (the write loop is between packets)
				go encapsulation.ReadData(cli)
				time.Sleep(50 * time.Microsecond)
				srv.Close()
				atomic.AddInt64(&resets, 1)
			}
			if variant == 2 {
				for j := 0; j < queued; j++ {
					pconn.WriteTo(make([]byte, 200), id)
				}
			}
			time.Sleep(2 * time.Millisecond)
			cli.Close()
		}()
	}
	done := make(chan struct{})
	go func() { wg.Wait(); close(done) }()
	ok := true
	select {
	case <-done:
	case <-time.After(30 * time.Second):
		ok = false
	}
	fmt.Printf("C20 server-bothfail done=%v carriers=%d returned=%d resets=%d farcloses=%d\n", ok, n, returned, resets, farCloses)
}
