//go:build verif

// In-package driver for property C18 (clientIDMap ring, clientAddr sanitiser, and the
// attribution of a client address to accepted connections through Transport.Listen).
// Injected with `go test -c -overlay`; never part of a normal build.
//
//	clientid ring <cap> <ops>        newClientIDMap/Set/Get
//	clientid parse x<hex>            what net.ParseIP returns (library boundary)
//	clientid san x<hex> <parsed>     clientAddr(string).String()
//	clientid bb|bb0 <cap> <events>   real server: WebSocket carriers + KCP/smux sessions
//	                                 (c = carrier, a = new session + first stream, t<k> = further stream of session k)
//	clientid bbe <cap> <events>      as bb, plus e<k>: the client closes the k-th carrier of the scenario (0-based, in the
//	                                 order of the c-events); the driver goes on when the server's handler of that carrier
//	                                 has returned (one goroutine fewer inside httpHandler.ServeHTTP), so that whatever the
//	                                 handler does when its carrier ends has happened before the next event. A session is
//	                                 established over the oldest carrier of its ClientID that is still open and unused.
//	clientid burst <cap> <events>    the same plus bursts  b<m>+<id>.<streams>.<rank>+...: the sessions
//	                                 of the items (distinct ClientIDs, one unused carrier each) are set
//	                                 up with their first packets held back; then all first packets are
//	                                 delivered together, so that the KCP listener queues the sessions
//	                                 and acceptSessions accepts them back to back:
//	                                   m=1  injected into the server's QueuePacketConn in one go while the
//	                                        process runs on one P (the accept loop gets through all of
//	                                        them before any session goroutine is scheduled)
//	                                   m=n  injected in one go, scheduler left alone
//	                                   m=w  released through the WebSocket carriers concurrently
//	                                 every stream announces (session, stream number) in its first bytes,
//	                                 so each accepted connection is attributed to its session whatever
//	                                 the order of arrival; output: per item, RemoteAddr() of its streams
package snowflake_server

import (
	"bufio"
	"encoding/hex"
	"fmt"
	"io"
	"log"
	"net"
	"net/url"
	"os"
	"runtime"
	"strconv"
	"strings"
	"sync"
	"testing"
	"time"

	"git.torproject.org/pluggable-transports/snowflake.git/v2/common/encapsulation"
	"git.torproject.org/pluggable-transports/snowflake.git/v2/common/turbotunnel"
	"git.torproject.org/pluggable-transports/snowflake.git/v2/common/websocketconn"
	"git.torproject.org/pluggable-transports/snowflake.git/v2/zz_verif/wire"
	"github.com/gorilla/websocket"
	"github.com/xtaci/kcp-go/v5"
	"github.com/xtaci/smux"
)

func TestVerifDriver(t *testing.T) {
	if os.Getenv("VERIF_DRIVER") != "1" {
		t.Skip("driver mode only")
	}
	log.SetOutput(io.Discard)
	wire.Loop(verifC18)
	os.Exit(0)
}

func verifC18(args []string) string {
	if len(args) < 2 {
		return "!badcase"
	}
	switch args[0] {
	case "ring":
		return verifRing(args[1], args[2])
	case "parse":
		return verifParse(args[1])
	case "san":
		s, err := wire.Payload(args[1])
		if err != nil {
			return "!badcase"
		}
		return verifAddrPrint(clientAddr(string(s)))
	case "bb", "bb0", "bbe", "burst":
		return verifBlackBox(args[1], args[2])
	}
	return "!badcase"
}

func verifID(t string) turbotunnel.ClientID {
	var id turbotunnel.ClientID
	b, err := hex.DecodeString(t)
	if err != nil || len(b) != len(id) {
		panic("bad id " + t)
	}
	copy(id[:], b)
	return id
}

func verifAddrPrint(a net.Addr) string {
	if a == nil {
		return "n"
	}
	return "x" + hex.EncodeToString([]byte(a.String()))
}

func verifRing(capTok, opsTok string) string {
	capacity, err := strconv.Atoi(capTok)
	if err != nil {
		return "!badcase"
	}
	m := newClientIDMap(capacity)
	var gets []string
	for _, op := range wire.List(opsTok) {
		switch op[0] {
		case 's':
			parts := strings.Split(op[1:], ":")
			var a net.Addr
			if parts[1] != "n" {
				b, err := hex.DecodeString(parts[1][1:])
				if err != nil {
					return "!badcase"
				}
				a = ClientMapAddr(string(b))
			}
			m.Set(verifID(parts[0]), a)
		case 'g':
			a, ok := m.Get(verifID(op[1:]))
			if !ok {
				gets = append(gets, "_")
			} else {
				gets = append(gets, verifAddrPrint(a))
			}
		default:
			return "!badcase"
		}
	}
	return fmt.Sprintf("gets=%s len=%d cur=%d", wire.PrintList(gets), len(m.entries), len(m.current))
}

func verifParse(tok string) string {
	s, err := wire.Payload(tok)
	if err != nil {
		return "!badcase"
	}
	if len(s) == 0 {
		return "a"
	}
	ip := net.ParseIP(string(s))
	if ip == nil {
		return "u"
	}
	return "p" + hex.EncodeToString(ip)
}

// ---- black box: the real listener, real WebSocket carriers, real KCP/smux sessions ----

type verifAddr struct{}

func (verifAddr) Network() string { return "verif" }
func (verifAddr) String() string  { return "verif" }

// verifPacketConn: packets over a carrier stream (what client/lib does over WebRTC).
type verifPacketConn struct {
	conn net.Conn
	bw   *bufio.Writer
	lock sync.Mutex
	hold bool     // keep outgoing packets instead of sending them
	held [][]byte // the packets kept back, in order
}

func (c *verifPacketConn) ReadFrom(p []byte) (int, net.Addr, error) {
	data, err := encapsulation.ReadData(c.conn)
	if err != nil {
		return 0, verifAddr{}, err
	}
	return copy(p, data), verifAddr{}, nil
}

func (c *verifPacketConn) WriteTo(p []byte, addr net.Addr) (int, error) {
	c.lock.Lock()
	defer c.lock.Unlock()
	if c.hold {
		c.held = append(c.held, append([]byte(nil), p...))
		return len(p), nil
	}
	_, err := encapsulation.WriteData(c.bw, p)
	if err == nil {
		err = c.bw.Flush()
	}
	if err != nil {
		return 0, err
	}
	return len(p), nil
}
func (c *verifPacketConn) Close() error                       { return c.conn.Close() }
func (c *verifPacketConn) LocalAddr() net.Addr                { return verifAddr{} }
func (c *verifPacketConn) SetDeadline(t time.Time) error      { return nil }
func (c *verifPacketConn) SetReadDeadline(t time.Time) error  { return nil }
func (c *verifPacketConn) SetWriteDeadline(t time.Time) error { return nil }

type verifSnap struct {
	oldest  int
	entries string
}

func verifSnapshot() verifSnap {
	m := clientIDAddrMap
	m.lock.Lock()
	defer m.lock.Unlock()
	var sb strings.Builder
	for _, e := range m.entries {
		sb.WriteString(hex.EncodeToString(e.clientID[:]))
		sb.WriteString(verifAddrPrint(e.addr))
		sb.WriteByte(';')
	}
	return verifSnap{m.oldest, sb.String()}
}

var verifStackBuf = make([]byte, 4<<20)

// verifHandlers: how many goroutines are inside the server's WebSocket handler right now
func verifHandlers() int {
	n := runtime.Stack(verifStackBuf, true)
	return strings.Count(string(verifStackBuf[:n]), "(*httpHandler).ServeHTTP(")
}

func verifFreePort() int {
	l, err := net.Listen("tcp", "127.0.0.1:0")
	if err != nil {
		panic(err)
	}
	defer l.Close()
	return l.Addr().(*net.TCPAddr).Port
}

func verifBlackBox(capTok, evTok string) (result string) {
	capacity, err := strconv.Atoi(capTok)
	if err != nil {
		return "!badcase"
	}
	saved := clientIDAddrMap
	clientIDAddrMap = newClientIDMap(capacity)
	defer func() { clientIDAddrMap = saved }()

	port := verifFreePort()
	ln, err := NewSnowflakeServer(nil).Listen(&net.TCPAddr{IP: net.IPv4(127, 0, 0, 1), Port: port})
	if err != nil {
		return "!listen " + err.Error()
	}
	var closers []io.Closer
	defer func() {
		for _, c := range closers {
			c.Close()
		}
		ln.Close()
	}()
	for i := 0; ; i++ {
		c, err := net.Dial("tcp", fmt.Sprintf("127.0.0.1:%d", port))
		if err == nil {
			c.Close()
			break
		}
		if i > 200 {
			return "!server-not-up"
		}
		time.Sleep(10 * time.Millisecond)
	}

	patience := 20 * time.Second // generous: on a heavily loaded machine the handler goroutine may be scheduled late
	unused := map[turbotunnel.ClientID][]net.Conn{} // carriers no session has used yet, oldest first
	var out []string
	var sessions []*smux.Session // established sessions, in order of their a-events
	var carriers []net.Conn      // every carrier of the scenario, in order of the c-events
	ended := map[net.Conn]bool{}
	var sessCarrier []net.Conn // the carrier each session was established over
	// open one more stream on a session, send on it, and report RemoteAddr() of the connection
	// the listener hands out for it (events are sequential: it is the next one accepted)
	openAndAccept := func(sess *smux.Session) string {
		st, err := sess.OpenStream()
		if err != nil {
			return "!stream " + err.Error()
		}
		if _, err := st.Write([]byte("hello")); err != nil {
			return "!stwrite " + err.Error()
		}
		type acc struct {
			c   net.Conn
			err error
		}
		ch := make(chan acc, 1)
		go func() {
			c, err := ln.Accept()
			ch <- acc{c, err}
		}()
		select {
		case a := <-ch:
			if a.err != nil {
				return "!accept " + a.err.Error()
			}
			out = append(out, verifAddrPrint(a.c.RemoteAddr()))
			closers = append(closers, a.c)
		case <-time.After(25 * time.Second):
			return "!accept-timeout"
		}
		return ""
	}
	// a KCP + smux client over a carrier (what client/lib does); hold: keep its packets back
	newSession := func(conn net.Conn, hold bool) (*verifPacketConn, *smux.Session, string) {
		pconn := &verifPacketConn{conn: conn, bw: bufio.NewWriter(conn), hold: hold}
		kc, err := kcp.NewConn2(verifAddr{}, nil, 0, 0, pconn)
		if err != nil {
			return nil, nil, "!kcp " + err.Error()
		}
		closers = append(closers, kc)
		kc.SetStreamMode(true)
		kc.SetWindowSize(WindowSize, WindowSize)
		kc.SetNoDelay(0, 0, 0, 1)
		cfg := smux.DefaultConfig()
		cfg.Version = 2
		cfg.KeepAliveTimeout = 10 * time.Minute
		cfg.MaxStreamBuffer = StreamSize
		sess, err := smux.Client(kc, cfg)
		if err != nil {
			return nil, nil, "!smux " + err.Error()
		}
		closers = append(closers, sess)
		return pconn, sess, ""
	}
	for _, ev := range wire.List(evTok) {
		switch ev[0] {
		case 'c':
			parts := strings.Split(ev[1:], ":")
			id := verifID(parts[0])
			s, err := wire.Payload(parts[1])
			if err != nil {
				return "!badcase"
			}
			before := verifSnapshot()
			u := fmt.Sprintf("ws://127.0.0.1:%d/?client_ip=%s", port, url.QueryEscape(string(s)))
			ws, _, err := websocket.DefaultDialer.Dial(u, nil)
			if err != nil {
				return "!dial " + err.Error()
			}
			conn := websocketconn.New(ws)
			closers = append(closers, conn)
			if _, err := conn.Write(append(append([]byte{}, turbotunnel.Token[:]...), id[:]...)); err != nil {
				return "!write " + err.Error()
			}
			// Wait until the handler's Set has happened (the ring changed). A Set that cannot
			// change the ring (capacity 0; capacity 1 re-setting the same pair) commutes with
			// everything that follows up to the next change, so a short grace period is enough.
			same := hex.EncodeToString(id[:]) + verifAddrPrint(clientAddr(string(s))) + ";"
			if capacity == 0 || (capacity == 1 && before.entries == same) {
				time.Sleep(30 * time.Millisecond)
			} else {
				// If no change shows up the scenario goes on (the accepted connections will
				// then carry the wrong address, which is what gets reported); later carriers of
				// the same scenario wait only briefly.
				deadline := time.Now().Add(patience)
				for verifSnapshot() == before {
					if time.Now().After(deadline) {
						patience = 100 * time.Millisecond
						break
					}
					time.Sleep(time.Millisecond)
				}
			}
			unused[id] = append(unused[id], conn)
			carriers = append(carriers, conn)
		case 'e':
			k, err := strconv.Atoi(ev[1:])
			if err != nil || k < 0 || k >= len(carriers) || ended[carriers[k]] {
				return "!badcase no such open carrier"
			}
			conn := carriers[k]
			ended[conn] = true
			for id, l := range unused {
				for i, c := range l {
					if c == conn {
						unused[id] = append(append([]net.Conn{}, l[:i]...), l[i+1:]...)
					}
				}
			}
			before := verifHandlers()
			conn.Close()
			// wait until the handler of this carrier has returned; when the handlers cannot be counted (the
			// function was renamed) a grace period has to do
			if before == 0 {
				time.Sleep(200 * time.Millisecond)
			} else {
				// (a handler that had not even started when the count was taken makes the count useless: go on
				// after the deadline, the scenario is then simply less sharp)
				deadline := time.Now().Add(20 * time.Second)
				for verifHandlers() >= before && time.Now().Before(deadline) {
					time.Sleep(2 * time.Millisecond)
				}
			}
		case 'a':
			id := verifID(ev[1:])
			if len(unused[id]) == 0 {
				return "!badcase no unused carrier"
			}
			conn := unused[id][0]
			unused[id] = unused[id][1:]
			_, sess, e := newSession(conn, false)
			if e != "" {
				return e
			}
			sessions = append(sessions, sess)
			sessCarrier = append(sessCarrier, conn)
			if e := openAndAccept(sess); e != "" {
				return e
			}
		case 't':
			k, err := strconv.Atoi(ev[1:])
			if err != nil || k < 0 || k >= len(sessions) {
				return "!badcase no such session"
			}
			if k < len(sessCarrier) && ended[sessCarrier[k]] {
				return "!badcase the session's carrier has ended"
			}
			if e := openAndAccept(sessions[k]); e != "" {
				return e
			}
		case 'b':
			if len(ev) < 4 || ev[2] != '+' {
				return "!badcase"
			}
			if e := verifBurst(ln, ev[1], strings.Split(ev[3:], "+"), unused, &sessions, &closers, &out, newSession); e != "" {
				return e
			}
		default:
			return "!badcase"
		}
	}
	return wire.PrintList(out)
}

type verifBurstItem struct {
	id    turbotunnel.ClientID
	n     int
	pconn *verifPacketConn
	sess  *smux.Session
	index int // session index (position among all sessions of the scenario)
}

// verifTagged accepts connections until want of them have been attributed by the tag their
// client wrote first ("s<session>.<stream>\n"); res[session index][stream] = RemoteAddr().
func verifTagged(ln *SnowflakeListener, want int, res map[int][]string, closers *[]io.Closer) string {
	type tagged struct {
		sess, stream int
		addr         string
		err          string
	}
	ch := make(chan tagged, want)
	deadline := time.Now().Add(40 * time.Second)
	for k := 0; k < want; k++ {
		type acc struct {
			c   net.Conn
			err error
		}
		ach := make(chan acc, 1)
		go func() {
			c, err := ln.Accept()
			ach <- acc{c, err}
		}()
		var a acc
		select {
		case a = <-ach:
		case <-time.After(time.Until(deadline)):
			return "!accept-timeout"
		}
		if a.err != nil {
			return "!accept " + a.err.Error()
		}
		*closers = append(*closers, a.c)
		go func(c net.Conn) {
			addr := verifAddrPrint(c.RemoteAddr())
			line, err := bufio.NewReader(c).ReadString('\n')
			if err != nil {
				ch <- tagged{err: "!tag-read " + err.Error()}
				return
			}
			var t tagged
			if _, err := fmt.Sscanf(line, "s%d.%d\n", &t.sess, &t.stream); err != nil {
				ch <- tagged{err: "!tag " + strconv.Quote(line)}
				return
			}
			t.addr = addr
			ch <- t
		}(a.c)
	}
	for k := 0; k < want; k++ {
		select {
		case t := <-ch:
			if t.err != "" {
				return t.err
			}
			r, ok := res[t.sess]
			if !ok || t.stream < 0 || t.stream >= len(r) || r[t.stream] != "" {
				return fmt.Sprintf("!tag-unexpected s%d.%d", t.sess, t.stream)
			}
			r[t.stream] = t.addr
		case <-time.After(time.Until(deadline)):
			return "!tag-timeout"
		}
	}
	return ""
}

func verifBurst(ln *SnowflakeListener, mode byte, toks []string, unused map[turbotunnel.ClientID][]net.Conn,
	sessions *[]*smux.Session, closers *[]io.Closer, out *[]string,
	newSession func(conn net.Conn, hold bool) (*verifPacketConn, *smux.Session, string)) string {
	var items []*verifBurstItem
	seen := map[turbotunnel.ClientID]bool{}
	for _, t := range toks {
		f := strings.Split(t, ".")
		if len(f) != 3 {
			return "!badcase"
		}
		n, err := strconv.Atoi(f[1])
		if err != nil || n < 1 {
			return "!badcase"
		}
		id := verifID(f[0])
		if seen[id] || len(unused[id]) == 0 {
			return "!badcase burst needs distinct ClientIDs with an unused carrier each"
		}
		seen[id] = true
		items = append(items, &verifBurstItem{id: id, n: n})
	}
	res := map[int][]string{}
	for _, it := range items {
		conn := unused[it.id][0]
		unused[it.id] = unused[it.id][1:]
		pc, sess, e := newSession(conn, true)
		if e != "" {
			return e
		}
		it.pconn, it.sess, it.index = pc, sess, len(*sessions)
		*sessions = append(*sessions, sess)
		res[it.index] = make([]string, it.n)
		// the first stream: its SYN and data go into the held packets
		st, err := sess.OpenStream()
		if err != nil {
			return "!stream " + err.Error()
		}
		if _, err := st.Write([]byte(fmt.Sprintf("s%d.0\n", it.index))); err != nil {
			return "!stwrite " + err.Error()
		}
	}
	// what each session has produced so far (at least the packet that creates the session)
	first := make([][][]byte, len(items))
	for k, it := range items {
		it.pconn.lock.Lock()
		first[k] = it.pconn.held
		it.pconn.held = nil
		it.pconn.lock.Unlock()
		if len(first[k]) == 0 {
			return "!no-first-packet"
		}
	}
	release := func() {
		for _, it := range items {
			it.pconn.lock.Lock()
			it.pconn.hold = false
			late := it.pconn.held
			it.pconn.held = nil
			it.pconn.lock.Unlock()
			for _, p := range late {
				it.pconn.WriteTo(p, nil)
			}
		}
	}
	switch mode {
	case '1', 'n':
		h, ok := ln.server.Handler.(*httpHandler)
		if !ok {
			return "!handler"
		}
		procs := 0
		if mode == '1' {
			procs = runtime.GOMAXPROCS(1)
		}
		for k, it := range items {
			for _, p := range first[k] {
				h.pconn.QueueIncoming(p, it.id)
			}
		}
		e := verifTagged(ln, len(items), res, closers)
		if mode == '1' {
			runtime.GOMAXPROCS(procs)
		}
		release()
		if e != "" {
			return e
		}
	case 'w':
		var wg sync.WaitGroup
		start := make(chan struct{})
		for k, it := range items {
			wg.Add(1)
			go func(k int, it *verifBurstItem) {
				defer wg.Done()
				<-start
				it.pconn.lock.Lock()
				it.pconn.hold = false
				ps := append(first[k], it.pconn.held...)
				it.pconn.held = nil
				for _, p := range ps {
					encapsulation.WriteData(it.pconn.bw, p)
				}
				it.pconn.bw.Flush()
				it.pconn.lock.Unlock()
			}(k, it)
		}
		close(start)
		wg.Wait()
		if e := verifTagged(ln, len(items), res, closers); e != "" {
			return e
		}
	default:
		return "!badcase"
	}
	// the remaining streams of the sessions, round robin, all in flight together
	more := 0
	for s := 1; ; s++ {
		any := false
		for _, it := range items {
			if s < it.n {
				any = true
				st, err := it.sess.OpenStream()
				if err != nil {
					return "!stream " + err.Error()
				}
				if _, err := st.Write([]byte(fmt.Sprintf("s%d.%d\n", it.index, s))); err != nil {
					return "!stwrite " + err.Error()
				}
				more++
			}
		}
		if !any {
			break
		}
	}
	if more > 0 {
		if e := verifTagged(ln, more, res, closers); e != "" {
			return e
		}
	}
	for _, it := range items {
		*out = append(*out, res[it.index]...)
	}
	return ""
}
