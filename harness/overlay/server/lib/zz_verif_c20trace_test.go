//go:build verif

// C20 trace recording for server/lib.  Run ONLY in the binary built from the instrumented copies of the
// sources (locktable -instr): the package's race workloads run once, small, with the recorder on;
// lib/checks/c20.py turns the dump into a `locktrace check` case for the extracted checker.
package snowflake_server

import (
	"fmt"
	"os"
	"testing"

	"git.torproject.org/pluggable-transports/snowflake.git/v2/zz_verif/ltrace"
)

func TestVerifC20Trace(t *testing.T) {
	out := os.Getenv("VERIF_LTRACE_OUT")
	if out == "" {
		t.Skip("trace recording only")
	}
	ltrace.Enable()
	os.Setenv("VERIF_C20_N", "6")
	TestVerifC20ServerCarriers(t)
	TestVerifC20ServerBothFail(t)
	n, err := ltrace.Dump(out)
	if err != nil {
		t.Fatal(err)
	}
	fmt.Printf("C20 trace server/lib done=true events=%d\n", n)
}
