//go:build verif

package snowflake_server

// Driver for C05 (carrier layer): the real httpHandler behind an httptest server, WebSocket carriers
// dialled with gorilla/websocket, and a QueuePacketConn owned by the driver so that what the
// server queues upstream and writes downstream is observed without KCP in between.
//
//   carrierlayer run <ops>   ops: n | r<i>:x<hex> | c<i> | w:x<cid>:x<hex> | s<i> (ignored: scheduling) | f (ignored)
//   -> up=<x<cid>:x<pkt>,...|-> k<i>=<open|closed>:x<downstream bytes> ...
//   carrierlayer trun <timeout ms> <ops>   the same with the client map's retention: the QueuePacketConn is made with
//        that timeout (60000 = the server's own constant clientMapTimeout); ops carry the model's clock readings
//        (r<i>:x<hex>:<now>, w:x<cid>:x<hex>:<now>, s<i>:<now>: ignored here, real time flows); v<now> = the sweeper ran
//        without consequence (no-op here); V<now> = an idle gap of more than timeout + sweep period (= 1.5 timeouts):
//        the driver really waits that long, after which every record has expired whatever the scheduler did.
//   (moving sessions through the real Listen/Accept path: the black-box driver harness/overlay/zz_verif/c05bb)

import (
	"bufio"
	"encoding/hex"
	"fmt"
	"io"
	"log"
	"net"
	"net/http/httptest"
	"os"
	"strconv"
	"strings"
	"sync"
	"sync/atomic"
	"testing"
	"time"

	"git.torproject.org/pluggable-transports/snowflake.git/v2/common/turbotunnel"
	"github.com/gorilla/websocket"
)

type c05carrier struct {
	ws     *websocket.Conn
	mu     sync.Mutex
	down   []byte
	closed bool
}

func c05hex(s string) []byte {
	b, err := hex.DecodeString(strings.TrimPrefix(s, "x"))
	if err != nil {
		panic(err)
	}
	return b
}

func c05Run(ops string, timeout time.Duration) string {
	pconn := turbotunnel.NewQueuePacketConn(dummyAddrC05{}, timeout)
	defer pconn.Close()
	srv := httptest.NewServer(&httpHandler{pconn: pconn})
	defer srv.Close()
	base := "ws" + strings.TrimPrefix(srv.URL, "http") + "/"
	var carriers []*c05carrier
	var upMu sync.Mutex
	var up []string
	go func() {
		buf := make([]byte, 1<<16)
		for {
			n, addr, err := pconn.ReadFrom(buf)
			if err != nil {
				return
			}
			upMu.Lock()
			up = append(up, "x"+addr.String()+":x"+hex.EncodeToString(buf[:n]))
			upMu.Unlock()
		}
	}()
	// wait until the observable state (upstream packets surfaced, downstream bytes, closed flags) has been
	// stable for a few polls, so that a loaded machine cannot reorder the effects of consecutive ops
	snapshot := func() string {
		upMu.Lock()
		s := strconv.Itoa(len(up))
		upMu.Unlock()
		for _, c := range carriers {
			c.mu.Lock()
			s += fmt.Sprintf("/%d:%v", len(c.down), c.closed)
			c.mu.Unlock()
		}
		return s
	}
	settleFor := func(rounds int, max time.Duration) {
		deadline := time.Now().Add(max)
		last, same := snapshot(), 0
		for same < rounds && time.Now().Before(deadline) {
			time.Sleep(3 * time.Millisecond)
			cur := snapshot()
			if cur == last {
				same++
			} else {
				last, same = cur, 0
			}
		}
	}
	settle := func() { settleFor(3, 500*time.Millisecond) }
	var wbuf []byte
	// an op may carry expectations "@u<N>" (N upstream packets surfaced so far) and "@d<i>=<n>" (n downstream
	// bytes on carrier i so far): the driver waits for them (bounded) so that scheduling cannot reorder effects
	waitFor := func(exps []string) {
		deadline := time.Now().Add(8 * time.Second)
		for time.Now().Before(deadline) {
			ok := true
			for _, e := range exps {
				if e[0] == 'u' {
					n, _ := strconv.Atoi(e[1:])
					upMu.Lock()
					if len(up) < n {
						ok = false
					}
					upMu.Unlock()
				} else if e[0] == 'k' {
					i, _ := strconv.Atoi(e[1:])
					if i < len(carriers) {
						carriers[i].mu.Lock()
						if !carriers[i].closed {
							ok = false
						}
						carriers[i].mu.Unlock()
					}
				} else if e[0] == 'S' {
					// S<i>+<j>+...=<n>: the carriers i, j, ... together have been written n downstream bytes
					f := strings.SplitN(e[1:], "=", 2)
					n, _ := strconv.Atoi(f[1])
					tot := 0
					for _, is := range strings.Split(f[0], "+") {
						i, _ := strconv.Atoi(is)
						if i < len(carriers) {
							carriers[i].mu.Lock()
							tot += len(carriers[i].down)
							carriers[i].mu.Unlock()
						}
					}
					if tot < n {
						ok = false
					}
				} else if e[0] == 'd' {
					f := strings.SplitN(e[1:], "=", 2)
					i, _ := strconv.Atoi(f[0])
					n, _ := strconv.Atoi(f[1])
					if i < len(carriers) {
						carriers[i].mu.Lock()
						if len(carriers[i].down) < n {
							ok = false
						}
						carriers[i].mu.Unlock()
					}
				}
			}
			if ok {
				return
			}
			time.Sleep(2 * time.Millisecond)
		}
	}
	for _, opx := range strings.Split(ops, ",") {
		parts := strings.Split(opx, "@")
		op := parts[0]
		exps := parts[1:]
		switch {
		case op == "n" || strings.HasPrefix(op, "n:"):
			// "n:x<hex>" gives the raw query string of this carrier's URL (any client_ip value, also malformed ones)
			url := base + "?client_ip=192.0.2.5"
			if strings.HasPrefix(op, "n:") {
				url = base + "?" + string(c05hex(op[2:]))
			}
			ws, _, err := websocket.DefaultDialer.Dial(url, nil)
			if err != nil {
				return "!dial:" + err.Error()
			}
			c := &c05carrier{ws: ws}
			carriers = append(carriers, c)
			go func() {
				for {
					_, msg, err := ws.ReadMessage()
					c.mu.Lock()
					if err != nil {
						c.closed = true
						c.mu.Unlock()
						return
					}
					c.down = append(c.down, msg...)
					c.mu.Unlock()
				}
			}()
		case op[0] == 'r':
			f := strings.Split(op[1:], ":")
			i, _ := strconv.Atoi(f[0])
			carriers[i].ws.WriteMessage(websocket.BinaryMessage, c05hex(f[1]))
		case op[0] == 'V':
			// more than retention + sweep period with nothing touching the client map
			time.Sleep(timeout + timeout/2 + timeout/4 + 50*time.Millisecond)
		case op[0] == 'c':
			i, _ := strconv.Atoi(op[1:])
			carriers[i].ws.Close()
		case op[0] == 'w':
			f := strings.Split(op, ":")
			var cid turbotunnel.ClientID
			copy(cid[:], c05hex(f[1]))
			// like kcp-go, hand WriteTo a buffer that is reused (overwritten) right after the call returns
			pkt := c05hex(f[2])
			if cap(wbuf) < len(pkt) {
				wbuf = make([]byte, len(pkt), 2*len(pkt)+16)
			}
			wbuf = wbuf[:len(pkt)]
			copy(wbuf, pkt)
			pconn.WriteTo(wbuf, cid)
			for j := range wbuf {
				wbuf[j] ^= 0xa5
			}
		case op == "z": // no-op carrying final expectations
		default:
			continue
		}
		if len(exps) > 0 {
			waitFor(exps)
		}
		settle()
	}
	settleFor(25, 3*time.Second)
	upMu.Lock()
	out := []string{"up=" + func() string {
		if len(up) == 0 {
			return "-"
		}
		return strings.Join(up, ",")
	}()}
	upMu.Unlock()
	for i, c := range carriers {
		c.mu.Lock()
		st := "open"
		if c.closed {
			st = "closed"
		}
		out = append(out, fmt.Sprintf("k%d=%s:x%s", i, st, hex.EncodeToString(c.down)))
		c.mu.Unlock()
		c.ws.Close()
	}
	return strings.Join(out, " ")
}


// ---------------------------------------------------------------- failing downstream writes
//
//   carrierlayer frun <ops>   ops: n | r<i>:x<hex> | c<i> | w:x<cid>:x<hex> | F<i>:<n> | z, with @-expectations
//
// turbotunnelMode itself (what ServeHTTP calls once it has read the token) over connections made by the driver, so
// that the underlying Write can be made to FAIL at a chosen byte: F<i>:<n> arms carrier i: of the bytes written to it
// from now on the first n are taken, then the Write that goes beyond them reports an error (and every later one).
// The first r-op of a carrier must carry the token followed by the ClientID (the driver takes the token off, as
// ServeHTTP does - the token logic is exercised by run/trun/move); c<i> = the peer closes (EOF upstream).
//   -> up=... k<i>=<open|closed>:x<every byte the server wrote on the connection> (closed = turbotunnelMode returned)
// All carriers of a case share one QueuePacketConn; the cases of a run share the process (and whatever
// package-level state the carrier code may keep: pools, caches): a run with GOMAXPROCS=1 and the cases one after
// the other makes the reuse of such state as likely as it can be.

type c05fconn struct {
	mu      sync.Mutex
	in      chan []byte
	rbuf    []byte
	gone    chan struct{}
	once    sync.Once
	wrote   []byte
	budget  int // < 0: writes succeed; otherwise the bytes that may still be written before Write fails
	failed  bool
	started bool // token taken off
}

var errC05Write = fmt.Errorf("write: broken pipe (verif)")

func (c *c05fconn) Read(p []byte) (int, error) {
	for {
		c.mu.Lock()
		if len(c.rbuf) > 0 {
			n := copy(p, c.rbuf)
			c.rbuf = c.rbuf[n:]
			c.mu.Unlock()
			return n, nil
		}
		c.mu.Unlock()
		select {
		case b, ok := <-c.in:
			if !ok {
				return 0, io.EOF
			}
			c.mu.Lock()
			c.rbuf = append(c.rbuf, b...)
			c.mu.Unlock()
		case <-c.gone:
			return 0, io.ErrClosedPipe
		}
	}
}

func (c *c05fconn) Write(p []byte) (int, error) {
	c.mu.Lock()
	defer c.mu.Unlock()
	select {
	case <-c.gone:
		return 0, io.ErrClosedPipe
	default:
	}
	if c.failed {
		return 0, errC05Write
	}
	if c.budget < 0 {
		c.wrote = append(c.wrote, p...)
		return len(p), nil
	}
	k := len(p)
	if k > c.budget {
		k = c.budget
	}
	c.wrote = append(c.wrote, p[:k]...)
	c.budget -= k
	if k < len(p) {
		c.failed = true
		return k, errC05Write
	}
	return k, nil
}

func (c *c05fconn) Close() error {
	c.once.Do(func() { close(c.gone) })
	return nil
}
func (c *c05fconn) LocalAddr() net.Addr                { return dummyAddrC05{} }
func (c *c05fconn) RemoteAddr() net.Addr               { return dummyAddrC05{} }
func (c *c05fconn) SetDeadline(t time.Time) error      { return nil }
func (c *c05fconn) SetReadDeadline(t time.Time) error  { return nil }
func (c *c05fconn) SetWriteDeadline(t time.Time) error { return nil }

func c05FRun(ops string) string {
	pconn := turbotunnel.NewQueuePacketConn(dummyAddrC05{}, time.Hour)
	defer pconn.Close()
	var carriers []*c05fconn
	var returned []*int32
	var upMu sync.Mutex
	var up []string
	go func() {
		buf := make([]byte, 1<<16)
		for {
			n, addr, err := pconn.ReadFrom(buf)
			if err != nil {
				return
			}
			upMu.Lock()
			up = append(up, "x"+addr.String()+":x"+hex.EncodeToString(buf[:n]))
			upMu.Unlock()
		}
	}()
	snapshot := func() string {
		upMu.Lock()
		s := strconv.Itoa(len(up))
		upMu.Unlock()
		for i, c := range carriers {
			c.mu.Lock()
			s += fmt.Sprintf("/%d:%d", len(c.wrote), atomic.LoadInt32(returned[i]))
			c.mu.Unlock()
		}
		return s
	}
	settle := func(rounds int, max time.Duration) {
		deadline := time.Now().Add(max)
		last, same := snapshot(), 0
		for same < rounds && time.Now().Before(deadline) {
			time.Sleep(500 * time.Microsecond)
			cur := snapshot()
			if cur == last {
				same++
			} else {
				last, same = cur, 0
			}
		}
	}
	waitFor := func(exps []string) {
		deadline := time.Now().Add(8 * time.Second)
		for time.Now().Before(deadline) {
			ok := true
			for _, e := range exps {
				switch e[0] {
				case 'u':
					n, _ := strconv.Atoi(e[1:])
					upMu.Lock()
					if len(up) < n {
						ok = false
					}
					upMu.Unlock()
				case 'k':
					i, _ := strconv.Atoi(e[1:])
					if i < len(carriers) && atomic.LoadInt32(returned[i]) == 0 {
						ok = false
					}
				case 'd':
					f := strings.SplitN(e[1:], "=", 2)
					i, _ := strconv.Atoi(f[0])
					n, _ := strconv.Atoi(f[1])
					if i < len(carriers) {
						carriers[i].mu.Lock()
						if len(carriers[i].wrote) < n {
							ok = false
						}
						carriers[i].mu.Unlock()
					}
				}
			}
			if ok {
				return
			}
			time.Sleep(200 * time.Microsecond)
		}
	}
	var wbuf []byte
	for _, opx := range strings.Split(ops, ",") {
		parts := strings.Split(opx, "@")
		op := parts[0]
		switch {
		case op == "n":
			c := &c05fconn{in: make(chan []byte, 64), gone: make(chan struct{}), budget: -1}
			flag := new(int32)
			carriers = append(carriers, c)
			returned = append(returned, flag)
		case op[0] == 'r':
			f := strings.Split(op[1:], ":")
			i, _ := strconv.Atoi(f[0])
			b := c05hex(f[1])
			c := carriers[i]
			if !c.started {
				if len(b) < len(turbotunnel.Token) || string(b[:len(turbotunnel.Token)]) != string(turbotunnel.Token[:]) {
					return "!badcase: the first bytes of a carrier must be the token"
				}
				b = b[len(turbotunnel.Token):]
				c.started = true
				flag := returned[i]
				go func() {
					turbotunnelMode(c, clientAddr("192.0.2.7"), pconn)
					atomic.StoreInt32(flag, 1)
				}()
			}
			if len(b) > 0 {
				select {
				case c.in <- b:
				case <-c.gone:
				}
			}
		case op[0] == 'c':
			i, _ := strconv.Atoi(op[1:])
			close(carriers[i].in)
		case op[0] == 'F':
			f := strings.Split(op[1:], ":")
			i, _ := strconv.Atoi(f[0])
			n, _ := strconv.Atoi(f[1])
			carriers[i].mu.Lock()
			carriers[i].budget = n
			carriers[i].mu.Unlock()
		case op[0] == 'w':
			f := strings.Split(op, ":")
			var cid turbotunnel.ClientID
			copy(cid[:], c05hex(f[1]))
			pkt := c05hex(f[2])
			if cap(wbuf) < len(pkt) {
				wbuf = make([]byte, len(pkt), 2*len(pkt)+16)
			}
			wbuf = wbuf[:len(pkt)]
			copy(wbuf, pkt)
			pconn.WriteTo(wbuf, cid)
			for j := range wbuf {
				wbuf[j] ^= 0xa5
			}
		case op == "z":
		default:
			continue
		}
		if len(parts) > 1 {
			waitFor(parts[1:])
		}
		settle(3, 200*time.Millisecond)
	}
	settle(20, time.Second)
	upMu.Lock()
	out := []string{"up=" + func() string {
		if len(up) == 0 {
			return "-"
		}
		return strings.Join(up, ",")
	}()}
	upMu.Unlock()
	for i, c := range carriers {
		c.mu.Lock()
		st := "open"
		if atomic.LoadInt32(returned[i]) != 0 {
			st = "closed"
		}
		out = append(out, fmt.Sprintf("k%d=%s:x%s", i, st, hex.EncodeToString(c.wrote)))
		c.mu.Unlock()
		c.Close()
	}
	return strings.Join(out, " ")
}

type dummyAddrC05 struct{}

func (dummyAddrC05) Network() string { return "dummy" }
func (dummyAddrC05) String() string  { return "dummy" }

var _ net.Addr = dummyAddrC05{}

func TestVerifC05Driver(t *testing.T) {
	if os.Getenv("VERIF_DRIVER") != "c05" {
		t.Skip("driver mode off")
	}
	log.SetOutput(io.Discard)
	sc := bufio.NewScanner(os.Stdin)
	sc.Buffer(make([]byte, 1<<20), 1<<26)
	var lines []string
	for sc.Scan() {
		lines = append(lines, sc.Text())
	}
	res := make([]string, len(lines))
	par := 48
	if os.Getenv("VERIF_C05_SERIAL") == "1" {
		par = 1
	}
	sem := make(chan struct{}, par)
	var wg sync.WaitGroup
	for idx, line := range lines {
		idx, line := idx, line
		wg.Add(1)
		sem <- struct{}{}
		go func() {
			defer wg.Done()
			defer func() { <-sem }()
			defer func() {
				if r := recover(); r != nil {
					res[idx] = "!panic " + strings.ReplaceAll(fmt.Sprint(r), "\n", " ")
				}
			}()
			a := strings.Split(line, " ")
			switch {
			case len(a) == 3 && a[1] == "frun":
				res[idx] = c05FRun(a[2])
			case len(a) == 3 && a[1] == "run":
				res[idx] = c05Run(a[2], time.Hour)
			case len(a) == 4 && a[1] == "trun":
				ms, err := strconv.Atoi(a[2])
				if err != nil {
					res[idx] = "!badcase"
					return
				}
				tmo := time.Duration(ms) * time.Millisecond
				if ms == 60000 {
					tmo = clientMapTimeout // the server's own retention
				}
				res[idx] = c05Run(a[3], tmo)
			default:
				res[idx] = "!badcase"
			}
		}()
	}
	wg.Wait()
	w := bufio.NewWriter(os.Stdout)
	for _, r := range res {
		w.WriteString(r + "\n")
	}
	w.Flush()
	os.Exit(0)
}
