//go:build verif

// C20 race workload for server/lib: many carriers (turbotunnelMode over net.Pipe) feeding
// one QueuePacketConn, several carriers per ClientID, with concurrent clientIDAddrMap
// lookups (what handleStream does) and engine-side ReadFrom/WriteTo.
package snowflake_server

import (
	"fmt"
	"io"
	"log"
	"net"
	"os"
	"strconv"
	"sync"
	"sync/atomic"
	"testing"
	"time"

	"git.torproject.org/pluggable-transports/snowflake.git/v2/common/encapsulation"
	"git.torproject.org/pluggable-transports/snowflake.git/v2/common/turbotunnel"
)

func c20EnvInt(name string, def int) int {
	if v, err := strconv.Atoi(os.Getenv(name)); err == nil {
		return v
	}
	return def
}

func TestVerifC20ServerCarriers(t *testing.T) {
	log.SetOutput(io.Discard)
	n := c20EnvInt("VERIF_C20_N", 12)
	pconn := turbotunnel.NewQueuePacketConn(ClientMapAddr("local"), 10*time.Second)
	var wg, eng sync.WaitGroup
	var rx, tx, gets int64
	stop := make(chan struct{})
	ids := make([]turbotunnel.ClientID, 1+n/3)
	for k := range ids {
		ids[k] = turbotunnel.NewClientID()
	}
	// engine side: echo every packet back to its ClientID; look the address up like handleStream
	for k := 0; k < 2; k++ {
		eng.Add(1)
		go func() {
			defer eng.Done()
			buf := make([]byte, 2048)
			for {
				m, addr, err := pconn.ReadFrom(buf)
				if err != nil {
					return
				}
				atomic.AddInt64(&rx, 1)
				if id, ok := addr.(turbotunnel.ClientID); ok {
					clientIDAddrMap.Get(id)
					atomic.AddInt64(&gets, 1)
				}
				pconn.WriteTo(buf[:m], addr)
			}
		}()
	}
	for k := 0; k < n; k++ {
		id := ids[k%len(ids)] // several carriers share one session
		cli, srv := net.Pipe()
		wg.Add(3)
		go func(k int) { // the server side of one WebSocket carrier
			defer wg.Done()
			turbotunnelMode(srv, clientAddr(fmt.Sprintf("10.0.%d.%d", k/256, k%256)), pconn)
		}(k)
		go func() { // client writes: ClientID then packets, then hangs up
			defer wg.Done()
			cli.Write(id[:])
			p := make([]byte, 100)
			for j := 0; j < 60; j++ {
				p[0] = byte(j)
				if _, err := encapsulation.WriteData(cli, p); err != nil {
					return
				}
			}
			time.Sleep(5 * time.Millisecond)
			cli.Close()
		}()
		go func() { // client reads the downstream
			defer wg.Done()
			for {
				if _, err := encapsulation.ReadData(cli); err != nil {
					return
				}
				atomic.AddInt64(&tx, 1)
			}
		}()
	}
	done := make(chan struct{})
	go func() { wg.Wait(); close(done) }()
	ok := true
	select {
	case <-done:
	case <-time.After(20 * time.Second):
		ok = false
	}
	close(stop)
	pconn.Close()
	eng.Wait()
	fmt.Printf("C20 server done=%v carriers=%d rx=%d tx=%d gets=%d\n", ok, n, rx, tx, gets)
}
