//go:build verif

// C19 driver, part 2: op sequences through the real IPC handlers of a private BrokerContext, then the
// figures of printMetrics (parsed from the metrics logger) and of the prometheus registry.
package main

import (
	"bytes"
	"fmt"
	"io"
	"log"
	"os"
	"sort"
	"strconv"
	"strings"
	"sync"
	"time"

	"git.torproject.org/pluggable-transports/snowflake.git/v2/common/messages"
	"github.com/prometheus/client_golang/prometheus"
)

func prometheusCounterOptsC19() prometheus.CounterOpts {
	return prometheus.CounterOpts{Namespace: "c19", Name: "rounded_test_total", Help: "driver counter"}
}

var c19Types = []string{"standalone", "webext", "badge", "iptproxy", "unknown", "foo", ""}
var c19Nats = []string{"unknown", "restricted", "unrestricted"}

func c19TypeName(t int) string {
	if t < len(c19Types) {
		return c19Types[t]
	}
	return "t" + strconv.Itoa(t)
}

func c19Code(list []string, s string) string {
	for i, x := range list {
		if x == s {
			return strconv.Itoa(i)
		}
	}
	return "?" + s
}

var c19LogNames = map[string]string{
	"snowflake-ips-standalone": "ips.0", "snowflake-ips-webext": "ips.1", "snowflake-ips-badge": "ips.2",
	"snowflake-ips-iptproxy": "ips.3", "snowflake-ips-total": "ips.total", "snowflake-idle-count": "idle",
	"snowflake-proxy-poll-with-relay-url-count":    "with",
	"snowflake-proxy-poll-without-relay-url-count": "without",
	"snowflake-proxy-rejected-for-relay-url-count": "rejected",
	"client-denied-count":                          "denied",
	"client-restricted-denied-count":               "rdenied",
	"client-unrestricted-denied-count":             "udenied",
	"client-snowflake-match-count":                 "matched",
	"snowflake-ips-nat-restricted":                 "nat.r",
	"snowflake-ips-nat-unrestricted":               "nat.u",
	"snowflake-ips-nat-unknown":                    "nat.k",
}
var c19LogOrder = []string{"ips.0", "ips.1", "ips.2", "ips.3", "ips.total", "idle", "with", "without", "rejected",
	"denied", "rdenied", "udenied", "matched", "nat.r", "nat.u", "nat.k"}

// c19ParseReport projects the text printMetrics wrote to name:value items.
func c19ParseReport(text string) string {
	vals := map[string]string{}
	var ccs []string
	for _, line := range strings.Split(text, "\n") {
		f := strings.Fields(line)
		if len(f) == 0 {
			continue
		}
		if f[0] == "snowflake-ips" {
			if len(f) > 1 && f[1] != "" {
				for _, kv := range strings.Split(f[1], ",") {
					p := strings.SplitN(kv, "=", 2)
					if len(p) == 2 {
						ccs = append(ccs, "cc."+p[0]+":"+p[1])
					}
				}
			}
			continue
		}
		if n, ok := c19LogNames[f[0]]; ok && len(f) == 2 {
			vals[n] = f[1]
		}
	}
	sort.Strings(ccs)
	items := ccs
	for _, n := range c19LogOrder {
		v, ok := vals[n]
		if !ok {
			v = "?"
		}
		items = append(items, n+":"+v)
	}
	return strings.Join(items, ",")
}

type c19Pending struct {
	sid  string
	done chan struct{}
}

func c19WaitRegistered(ctx *BrokerContext, sid string) bool {
	deadline := time.Now().Add(5 * time.Second)
	for time.Now().Before(deadline) {
		ctx.snowflakeLock.Lock()
		_, ok := ctx.idToSnowflake[sid]
		ctx.snowflakeLock.Unlock()
		if ok {
			return true
		}
		time.Sleep(200 * time.Microsecond)
	}
	return false
}

var c19LogOnce sync.Once

func c19Ipc(args []string) string {
	if len(args) != 2 {
		return "!badcase"
	}
	c19LogOnce.Do(func() { log.SetOutput(io.Discard) })
	var buf bytes.Buffer
	ctx := NewBrokerContext(log.New(&buf, "", 0))
	ctx.allowedRelayPattern = "snowflake.torproject.net$"
	if args[0] == "1" {
		dir := os.Getenv("VERIF_C19_GEOIP_DIR")
		if err := ctx.metrics.LoadGeoipDatabases(dir+"/test_geoip", dir+"/test_geoip6"); err != nil {
			return "!geoip " + err.Error()
		}
	}
	go ctx.Broker()
	defer close(ctx.proxyPolls)
	ipc := &IPC{ctx}

	var async sync.WaitGroup
	var pending *c19Pending
	var reports []string
	seq := 0
	barrier := func() { async.Wait() }

	var ops []string
	if args[1] != "-" {
		ops = strings.Split(args[1], ";")
	}
	for _, o := range ops {
		f := strings.Split(o, ",")
		if pending != nil && f[0] != "cm" && f[0] != "ct" {
			return "!badcase matched poll without client"
		}
		switch f[0] {
		case "pb":
			var resp []byte
			ipc.ProxyPolls(messages.Arg{Body: []byte(`{"Sid":"x","Version":"2.0"}`), RemoteAddr: "1.2.3.4:5"}, &resp)
		case "pp":
			if len(f) != 7 {
				return "!badcase"
			}
			t, e1 := strconv.Atoi(f[3])
			n, e2 := strconv.Atoi(f[4])
			if e1 != nil || e2 != nil || n < 0 || n > 2 {
				return "!badcase"
			}
			seq++
			sid := "sid" + strconv.Itoa(seq)
			var body []byte
			if f[5] == "1" {
				pat := "torproject.net$"
				if f[6] == "r" {
					pat = "example.com$"
				}
				body, _ = messages.EncodeProxyPollRequestWithRelayPrefix(sid, c19TypeName(t), c19Nats[n], 0, pat)
			} else {
				body = []byte(fmt.Sprintf(`{"Sid":%q,"Version":"1.2","Type":%q,"NAT":%q,"Clients":0}`, sid, c19TypeName(t), c19Nats[n]))
				if f[6] == "r" {
					ctx.presumedPatternForLegacyClient = "example.com$"
				} else {
					ctx.presumedPatternForLegacyClient = "torproject.net$"
				}
			}
			remote := "no-port-here"
			if f[1] != "-" {
				if strings.Contains(f[1], ":") {
					remote = "[" + f[1] + "]:4321"
				} else {
					remote = f[1] + ":4321"
				}
			}
			arg := messages.Arg{Body: body, RemoteAddr: remote}
			switch f[6] {
			case "r":
				var resp []byte
				ipc.ProxyPolls(arg, &resp)
			case "i", "m":
				done := make(chan struct{})
				async.Add(1)
				go func() {
					defer async.Done()
					defer close(done)
					var resp []byte
					ipc.ProxyPolls(arg, &resp)
				}()
				if !c19WaitRegistered(ctx, sid) {
					return "!driver proxy poll did not register"
				}
				if f[6] == "m" {
					pending = &c19Pending{sid: sid, done: done}
				}
			default:
				return "!badcase"
			}
		case "cd", "cm", "ct":
			n, e := strconv.Atoi(f[1])
			if e != nil || n < 0 || n > 2 {
				return "!badcase"
			}
			req := &messages.ClientPollRequest{Offer: "offer", NAT: c19Nats[n]}
			body, _ := req.EncodeClientPollRequest()
			arg := messages.Arg{Body: body, RemoteAddr: "9.9.9.9:9"}
			if f[0] == "cd" {
				var resp []byte
				ipc.ClientOffers(arg, &resp)
				break
			}
			if pending == nil {
				return "!badcase client match without waiting proxy"
			}
			cdone := make(chan struct{})
			async.Add(1)
			go func() {
				defer async.Done()
				defer close(cdone)
				var resp []byte
				ipc.ClientOffers(arg, &resp)
			}()
			select {
			case <-pending.done:
			case <-time.After(8 * time.Second):
				return "!driver client did not reach the waiting proxy (NAT combination cannot match)"
			}
			if f[0] == "cm" {
				ans, _ := messages.EncodeAnswerRequest("answer", pending.sid)
				var resp []byte
				ipc.ProxyAnswers(messages.Arg{Body: ans, RemoteAddr: "1.1.1.1:1"}, &resp)
				<-cdone
			}
			pending = nil
		case "gl":
			// LoadGeoipDatabases as the SIGHUP handler calls it, polls of the period may still be waiting for a client:
			// 0 = files that do not exist (the load fails), 1 = the repo's test files, 2 = a second pair of files
			// (VERIF_C19_GEOIP_ALT_DIR) in which the same ranges belong to other countries
			if len(f) != 2 {
				return "!badcase"
			}
			dir := os.Getenv("VERIF_C19_GEOIP_DIR")
			switch f[1] {
			case "0":
				if err := ctx.metrics.LoadGeoipDatabases(dir+"/no_such_geoip", dir+"/no_such_geoip6"); err == nil {
					return "!driver loading files that do not exist succeeded"
				}
			case "1", "2":
				if f[1] == "2" {
					dir = os.Getenv("VERIF_C19_GEOIP_ALT_DIR")
				}
				if err := ctx.metrics.LoadGeoipDatabases(dir+"/test_geoip", dir+"/test_geoip6"); err != nil {
					return "!geoip " + err.Error()
				}
			default:
				return "!badcase"
			}
		case "pr":
			barrier()
			buf.Reset()
			ctx.metrics.printMetrics()
			reports = append(reports, c19ParseReport(buf.String()))
		case "ze":
			barrier()
			ctx.metrics.zeroMetrics()
		default:
			return "!badcase"
		}
	}
	if pending != nil {
		return "!badcase matched poll without client"
	}
	barrier()

	// prometheus registry
	fams, err := ctx.metrics.promMetrics.registry.Gather()
	if err != nil {
		return "!gather " + err.Error()
	}
	short := map[string]string{
		"snowflake_rounded_proxy_poll_total":                              "pp",
		"snowflake_rounded_client_poll_total":                             "cp",
		"snowflake_rounded_proxy_poll_with_relay_url_extension_total":     "wr",
		"snowflake_rounded_proxy_poll_without_relay_url_extension_total":  "wo",
		"snowflake_rounded_proxy_poll_rejected_relay_url_extension_total": "rj",
	}
	var prom, ptotal []string
	for _, fam := range fams {
		name := fam.GetName()
		for _, m := range fam.GetMetric() {
			lab := map[string]string{}
			for _, lp := range m.GetLabel() {
				lab[lp.GetName()] = lp.GetValue()
			}
			v := strconv.FormatUint(uint64(m.GetCounter().GetValue()), 10)
			if s, ok := short[name]; ok {
				second := ""
				if s == "pp" || s == "cp" {
					second = c19Code([]string{"idle", "matched"}, lab["status"])
					if lab["status"] == "denied" {
						second = "0"
					}
				} else {
					second = c19Code(c19Types[:5], lab["type"])
				}
				prom = append(prom, s+"."+c19Code(c19Nats, lab["nat"])+"."+second+":"+v)
			} else if name == "snowflake_proxy_total" {
				ptotal = append(ptotal, c19Code(c19Types[:5], lab["type"])+"."+c19Code(c19Nats, lab["nat"])+"."+lab["cc"]+":"+v)
			}
		}
	}
	sort.Strings(prom)
	sort.Strings(ptotal)
	pl := func(l []string) string {
		if len(l) == 0 {
			return "-"
		}
		return strings.Join(l, ",")
	}
	rep := "-"
	if len(reports) > 0 {
		rep = strings.Join(reports, "/")
	}
	return "reports=" + rep + " prom=" + pl(prom) + " ptotal=" + pl(ptotal)
}
