//go:build verif

package main

import "github.com/prometheus/client_golang/prometheus"

func prometheusCounterOptsC19() prometheus.CounterOpts {
	return prometheus.CounterOpts{Namespace: "c19", Name: "rounded_test_total", Help: "driver counter"}
}

func c19Ipc(args []string) string { return "!todo" }
