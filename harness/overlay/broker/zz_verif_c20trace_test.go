//go:build verif

// C20 trace recording for the broker (package main).  Run ONLY in the binary built from the
// instrumented copies of the sources (locktable -instr): lock operations, accesses to the
// tracked fields and go statements of broker/*.go log themselves through zz_verif/ltrace; this
// test drives polls, offers, answers, the metrics printer and scrapes, then dumps the log.
// lib/checks/c20.py turns the dump into a `locktrace check` case for the extracted checker.
package main

import (
	"fmt"
	"io"
	"log"
	"math/rand"
	"net/http/httptest"
	"os"
	"sync"
	"testing"
	"time"

	"git.torproject.org/pluggable-transports/snowflake.git/v2/zz_verif/ltrace"
	"github.com/prometheus/client_golang/prometheus/promhttp"
)

func TestVerifC20Trace(t *testing.T) {
	out := os.Getenv("VERIF_LTRACE_OUT")
	if out == "" {
		t.Skip("trace recording only")
	}
	log.SetOutput(io.Discard)
	n := c20EnvInt("VERIF_C20_N", 12)
	seed := int64(c20EnvInt("VERIF_SEED", 1))
	ltrace.Enable()
	// constructors first: their accesses are the table's init rows (before the first go statement)
	ctx := NewBrokerContext(log.New(io.Discard, "", 0))
	if err := ctx.metrics.LoadGeoipDatabases("test_geoip", "test_geoip6"); err != nil {
		fmt.Fprintln(os.Stderr, "c20: geoip not loaded:", err)
	}
	ltrace.Go(ctx.Broker)
	i := &IPC{ctx}
	st := &c20Stats{}
	var wg, bg sync.WaitGroup
	stop := make(chan struct{})
	prom := promhttp.HandlerFor(ctx.metrics.promMetrics.registry, promhttp.HandlerOpts{})
	bg.Add(2)
	ltrace.Go(func() { // the periodic metrics goroutine's loop body
		defer bg.Done()
		for k := 0; ; k++ {
			select {
			case <-stop:
				return
			default:
			}
			ctx.metrics.printMetrics()
			if k%3 == 2 {
				ctx.metrics.zeroMetrics()
			}
			time.Sleep(time.Millisecond)
		}
	})
	ltrace.Go(func() { // scrapes and /debug
		defer bg.Done()
		for {
			select {
			case <-stop:
				return
			default:
			}
			prom.ServeHTTP(httptest.NewRecorder(), httptest.NewRequest("GET", "http://snowflake.broker/prometheus", nil))
			debugHandler(i, httptest.NewRecorder(), httptest.NewRequest("GET", "http://snowflake.broker/debug", nil))
			time.Sleep(time.Millisecond)
		}
	})
	nats := []string{NATUnrestricted, NATRestricted, NATUnknown}
	ptypes := []string{"standalone", "badge", "webext", "iptproxy", "strange"}
	for k := 0; k < n; k++ {
		rng := rand.New(rand.NewSource(seed*100003 + int64(k)))
		sid := fmt.Sprintf("tr-%d-%d", seed, k)
		pnat := nats[rng.Intn(len(nats))]
		ptype := ptypes[rng.Intn(len(ptypes))]
		remote := fmt.Sprintf("%d.%d.%d.%d:%d", 1+rng.Intn(220), rng.Intn(256), rng.Intn(256), rng.Intn(256), 1024+rng.Intn(60000))
		cnat := NATUnrestricted
		if pnat == NATUnrestricted {
			cnat = []string{NATRestricted, NATUnknown}[rng.Intn(2)]
		}
		clients := rng.Intn(20)
		wg.Add(2)
		ltrace.Go(func() {
			defer wg.Done()
			if c20Poll(i, st, sid, ptype, pnat, clients, remote) {
				c20Answer(i, st, sid)
			}
		})
		ltrace.Go(func() {
			defer wg.Done()
			for tries := 0; tries < 4000; tries++ {
				if c20Offer(i, st, cnat) != "denied" {
					return
				}
				time.Sleep(500 * time.Microsecond)
			}
		})
	}
	done := c20WaitTimeout(&wg, 40*time.Second)
	close(stop)
	c20WaitTimeout(&bg, 5*time.Second)
	ne, err := ltrace.Dump(out)
	if err != nil {
		t.Fatal(err)
	}
	fmt.Printf("C20 trace broker done=%v events=%d polls=%d matched=%d offers=%d prints=%d\n", done, ne, st.polls, st.matchedPolls, st.offers, st.prints)
}
