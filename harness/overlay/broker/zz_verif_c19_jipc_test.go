//go:build verif

// C19 driver, part 3: the distinct-IP journal behind the real IPC.ProxyPolls.
//
//	metrics jipc <k> <op,op,...>     ops:  p<tick>.<ip>.<type>.<a|r|n>   proxy poll from address <ip> (a number,
//	                                         printed as 10.x.y.z) of proxy type <type>:  a = passes the relay
//	                                         pattern check, r = relay pattern rejected, n = RemoteAddr without port
//	                                       z<tick>   zeroMetrics (end of a metrics period)
//	                                       f<tick>   WriteIPSetToDisk
//
// A private BrokerContext gets a sinkcluster.ClusterWriter over a bytes.Buffer as metrics.distinctIPWriter
// (what main does for -ip-count-log), with write interval k ticks + half a tick.  The ops run in real time on a
// tick grid (like c19journal's jwrite): op at tick t starts at t0 + t*tick and must end within a quarter tick,
// otherwise the whole case is repeated on a grid twice as coarse.  A goroutine plays the broker loop and answers
// every poll at once with "no client", so ProxyPolls returns promptly (idle outcome).
// Result: the journal's chunks (start:end in ticks, cardinal of the chunk's own sketch), the ClusterCounter
// result for every window [start of chunk i, end of chunk j], and the unique-address figures of printMetrics.
package main

import (
	"bytes"
	"encoding/json"
	"fmt"
	"io"
	"log"
	"strconv"
	"strings"
	"time"

	"git.torproject.org/pluggable-transports/snowflake.git/v2/common/ipsetsink"
	"git.torproject.org/pluggable-transports/snowflake.git/v2/common/ipsetsink/sinkcluster"
	"git.torproject.org/pluggable-transports/snowflake.git/v2/common/messages"
)

type c19SyncBuf struct{ bytes.Buffer }

func (s *c19SyncBuf) Sync() error { return nil }

type c19Jop struct {
	kind byte // 'p', 'z', 'f'
	tick int64
	arg  messages.Arg
}

func c19IPString(v int) string {
	return fmt.Sprintf("10.%d.%d.%d", (v>>16)&255, (v>>8)&255, v&255)
}

func c19SpinUntil(t time.Time) {
	for time.Now().Before(t) {
	}
}

func c19JipcParse(list string) ([]c19Jop, bool) {
	var ops []c19Jop
	if list == "-" {
		return ops, true
	}
	seq := 0
	for _, tok := range strings.Split(list, ",") {
		if len(tok) < 2 {
			return nil, false
		}
		switch tok[0] {
		case 'z', 'f':
			n, err := strconv.ParseInt(tok[1:], 10, 64)
			if err != nil {
				return nil, false
			}
			ops = append(ops, c19Jop{kind: tok[0], tick: n})
		case 'p':
			f := strings.Split(tok[1:], ".")
			if len(f) != 4 {
				return nil, false
			}
			n, e1 := strconv.ParseInt(f[0], 10, 64)
			ip, e2 := strconv.Atoi(f[1])
			ty, e3 := strconv.Atoi(f[2])
			if e1 != nil || e2 != nil || e3 != nil || ty < 0 {
				return nil, false
			}
			seq++
			pat := "torproject.net$"
			remote := c19IPString(ip) + ":4321"
			switch f[3] {
			case "a":
			case "r":
				pat = "example.com$"
			case "n":
				remote = "no-port-here"
			default:
				return nil, false
			}
			body, err := messages.EncodeProxyPollRequestWithRelayPrefix("jsid"+strconv.Itoa(seq), c19TypeName(ty), "unknown", 0, pat)
			if err != nil {
				return nil, false
			}
			ops = append(ops, c19Jop{kind: 'p', tick: n, arg: messages.Arg{Body: body, RemoteAddr: remote}})
		default:
			return nil, false
		}
	}
	return ops, true
}

// one attempt on a grid of the given tick; ok=false when an operation left its time slot
func c19JipcOnce(k int64, ops []c19Jop, tick time.Duration) (string, bool) {
	var logbuf bytes.Buffer
	ctx := NewBrokerContext(log.New(&logbuf, "", 0))
	ctx.allowedRelayPattern = "snowflake.torproject.net$"
	// the broker loop, answering every poll with "no client" at once
	go func() {
		for p := range ctx.proxyPolls {
			p.offerChannel <- nil
		}
	}()
	defer close(ctx.proxyPolls)
	ipc := &IPC{ctx}

	journal := &c19SyncBuf{}
	t0 := time.Now()
	ctx.metrics.distinctIPWriter = sinkcluster.NewClusterWriter(journal, time.Duration(k)*tick+tick/2, ipsetsink.NewIPSetSink("verif-key"))
	if time.Since(t0) >= tick/4 {
		return "", false
	}
	var last int64
	for _, o := range ops {
		at := t0.Add(time.Duration(o.tick) * tick)
		if !time.Now().Before(at) {
			return "", false
		}
		c19SpinUntil(at)
		switch o.kind {
		case 'p':
			var resp []byte
			ipc.ProxyPolls(o.arg, &resp)
		case 'z':
			ctx.metrics.zeroMetrics()
		case 'f':
			ctx.metrics.lock.Lock()
			ctx.metrics.distinctIPWriter.WriteIPSetToDisk()
			ctx.metrics.lock.Unlock()
		}
		if time.Now().Sub(at) >= tick/4 {
			return "", false
		}
		last = o.tick
	}
	_ = last

	ctx.metrics.lock.Lock()
	text := journal.String()
	ctx.metrics.lock.Unlock()
	var entries []sinkcluster.SinkEntry
	var chunks []string
	for _, line := range strings.Split(strings.TrimSpace(text), "\n") {
		if line == "" {
			continue
		}
		var e sinkcluster.SinkEntry
		if err := json.Unmarshal([]byte(line), &e); err != nil {
			return "!journal " + err.Error(), true
		}
		one, err := sinkcluster.NewClusterCounter(e.RecordingStart, e.RecordingEnd).Count(bytes.NewBufferString(line + "\n"))
		if err != nil {
			return "!count " + err.Error(), true
		}
		entries = append(entries, e)
		chunks = append(chunks, fmt.Sprintf("%d:%d:%d", int64(e.RecordingStart.Sub(t0)/tick), int64(e.RecordingEnd.Sub(t0)/tick), one.Sum))
	}
	var wins []string
	for i := range entries {
		for j := i; j < len(entries); j++ {
			r, err := sinkcluster.NewClusterCounter(entries[i].RecordingStart, entries[j].RecordingEnd).Count(strings.NewReader(text))
			if err != nil {
				return "!count " + err.Error(), true
			}
			wins = append(wins, fmt.Sprintf("%d-%d:%d:%d", i, j, r.Sum, r.ChunkIncluded))
		}
	}
	logbuf.Reset()
	ctx.metrics.printMetrics()
	items := map[string]string{}
	for _, it := range strings.Split(c19ParseReport(logbuf.String()), ",") {
		if p := strings.SplitN(it, ":", 2); len(p) == 2 {
			items[p[0]] = p[1]
		}
	}
	var uniq []string
	for _, n := range []string{"ips.0", "ips.1", "ips.2", "ips.3", "ips.total"} {
		v, ok := items[n]
		if !ok {
			v = "?"
		}
		uniq = append(uniq, v)
	}
	pl := func(l []string, sep string) string {
		if len(l) == 0 {
			return "-"
		}
		return strings.Join(l, sep)
	}
	return "chunks=" + pl(chunks, ";") + " wins=" + pl(wins, ",") + " uniq=" + strings.Join(uniq, "."), true
}

func c19Jipc(args []string) string {
	if len(args) != 2 {
		return "!badcase"
	}
	c19LogOnce.Do(func() { log.SetOutput(io.Discard) })
	k, err := strconv.ParseInt(args[0], 10, 64)
	if err != nil || k < 0 {
		return "!badcase"
	}
	ops, ok := c19JipcParse(args[1])
	if !ok {
		return "!badcase"
	}
	tick := time.Millisecond
	for try := 0; try < 12; try++ {
		if r, ok := c19JipcOnce(k, ops, tick); ok {
			return r
		}
		tick *= 2
	}
	return "!timing"
}
