//go:build verif

// C19 driver, part 3: the distinct-IP journal behind the real IPC.ProxyPolls.
//
//	metrics jipc <k> <op,op,...>     ops:  p<tick>.<ip>.<type>.<a|r|n>   proxy poll from address <ip> (a number,
//	                                         printed as 10.x.y.z) of proxy type <type>:  a = passes the relay
//	                                         pattern check, r = relay pattern rejected, n = RemoteAddr without port
//	                                       z<tick>   zeroMetrics (end of a metrics period)
//	                                       f<tick>   WriteIPSetToDisk
//
// A private BrokerContext gets a sinkcluster.ClusterWriter over a bytes.Buffer as metrics.distinctIPWriter
// (what main does for -ip-count-log), with write interval k ticks + half a tick.  The ops run in real time on a
// tick grid (like c19journal's jwrite): op at tick t starts at t0 + t*tick and must end within a quarter tick,
// otherwise the whole case is repeated on a grid twice as coarse.  A goroutine plays the broker loop and answers
// every poll at once with "no client", so ProxyPolls returns promptly (idle outcome).
// Result: the journal's chunks (start:end in ticks, cardinal of the chunk's own sketch), the ClusterCounter
// result for every window [start of chunk i, end of chunk j], and the unique-address figures of printMetrics.
package main

import (
	"bytes"
	"encoding/json"
	"errors"
	"fmt"
	"io"
	"log"
	"strconv"
	"strings"
	"time"

	"git.torproject.org/pluggable-transports/snowflake.git/v2/common/ipsetsink"
	"git.torproject.org/pluggable-transports/snowflake.git/v2/common/ipsetsink/sinkcluster"
	"git.torproject.org/pluggable-transports/snowflake.git/v2/common/messages"
)

type c19SyncBuf struct{ bytes.Buffer }

func (s *c19SyncBuf) Sync() error { return nil }

type c19Jop struct {
	kind byte // 'p', 'z', 'f'
	tick int64
	arg  messages.Arg
}

func c19IPString(v int) string {
	return fmt.Sprintf("10.%d.%d.%d", (v>>16)&255, (v>>8)&255, v&255)
}

func c19SpinUntil(t time.Time) {
	for time.Now().Before(t) {
	}
}

func c19JipcParse(list string) ([]c19Jop, bool) {
	var ops []c19Jop
	if list == "-" {
		return ops, true
	}
	seq := 0
	for _, tok := range strings.Split(list, ",") {
		if len(tok) < 2 {
			return nil, false
		}
		switch tok[0] {
		case 'z', 'f':
			n, err := strconv.ParseInt(tok[1:], 10, 64)
			if err != nil {
				return nil, false
			}
			ops = append(ops, c19Jop{kind: tok[0], tick: n})
		case 'p':
			f := strings.Split(tok[1:], ".")
			if len(f) != 4 {
				return nil, false
			}
			n, e1 := strconv.ParseInt(f[0], 10, 64)
			ip, e2 := strconv.Atoi(f[1])
			ty, e3 := strconv.Atoi(f[2])
			if e1 != nil || e2 != nil || e3 != nil || ty < 0 {
				return nil, false
			}
			seq++
			pat := "torproject.net$"
			remote := c19IPString(ip) + ":4321"
			switch f[3] {
			case "a":
			case "r":
				pat = "example.com$"
			case "n":
				remote = "no-port-here"
			default:
				return nil, false
			}
			body, err := messages.EncodeProxyPollRequestWithRelayPrefix("jsid"+strconv.Itoa(seq), c19TypeName(ty), "unknown", 0, pat)
			if err != nil {
				return nil, false
			}
			ops = append(ops, c19Jop{kind: 'p', tick: n, arg: messages.Arg{Body: body, RemoteAddr: remote}})
		default:
			return nil, false
		}
	}
	return ops, true
}

// one attempt on a grid of the given tick; ok=false when an operation left its time slot
func c19JipcOnce(k int64, ops []c19Jop, tick time.Duration) (string, bool) {
	return c19JipcOnceSink(k, ops, tick, "", false)
}

// c19FailSink is a WriteSyncer over a buffer whose successive Write calls behave as the plan says:
// o ok, s ok but Sync fails, n error with nothing written, t error after half the line, l error after
// all but the newline, w whole line written and error.
type c19FailSink struct {
	buf      bytes.Buffer
	plan     string
	n        int
	syncFail bool
}

var errC19Sink = errors.New("verif: sink failure")

func (s *c19FailSink) Write(p []byte) (int, error) {
	mode := byte('o')
	if s.n < len(s.plan) {
		mode = s.plan[s.n]
	}
	s.n++
	switch mode {
	case 'n':
		return 0, errC19Sink
	case 't':
		k := len(p) / 2
		s.buf.Write(p[:k])
		return k, errC19Sink
	case 'l':
		s.buf.Write(p[:len(p)-1])
		return len(p) - 1, errC19Sink
	case 'w':
		s.buf.Write(p)
		return len(p), errC19Sink
	}
	s.syncFail = mode == 's'
	return s.buf.Write(p)
}

func (s *c19FailSink) Sync() error {
	if s.syncFail {
		s.syncFail = false
		return errC19Sink
	}
	return nil
}

// with failing: the journal is printed line by line (x = a line that does not parse) and the windows
// are "err" when the reader fails
func c19JipcOnceSink(k int64, ops []c19Jop, tick time.Duration, plan string, failing bool) (string, bool) {
	var logbuf bytes.Buffer
	ctx := NewBrokerContext(log.New(&logbuf, "", 0))
	ctx.allowedRelayPattern = "snowflake.torproject.net$"
	// the broker loop, answering every poll with "no client" at once
	go func() {
		for p := range ctx.proxyPolls {
			p.offerChannel <- nil
		}
	}()
	defer close(ctx.proxyPolls)
	ipc := &IPC{ctx}

	journal := &c19FailSink{plan: plan}
	t0 := time.Now()
	ctx.metrics.distinctIPWriter = sinkcluster.NewClusterWriter(journal, time.Duration(k)*tick+tick/2, ipsetsink.NewIPSetSink("verif-key"))
	if time.Since(t0) >= tick/4 {
		return "", false
	}
	var last int64
	for _, o := range ops {
		at := t0.Add(time.Duration(o.tick) * tick)
		if !time.Now().Before(at) {
			return "", false
		}
		c19SpinUntil(at)
		switch o.kind {
		case 'p':
			var resp []byte
			ipc.ProxyPolls(o.arg, &resp)
		case 'z':
			ctx.metrics.zeroMetrics()
		case 'f':
			ctx.metrics.lock.Lock()
			ctx.metrics.distinctIPWriter.WriteIPSetToDisk()
			ctx.metrics.lock.Unlock()
		}
		if time.Now().Sub(at) >= tick/4 {
			return "", false
		}
		last = o.tick
	}
	_ = last

	ctx.metrics.lock.Lock()
	text := journal.buf.String()
	ctx.metrics.lock.Unlock()
	var entries []sinkcluster.SinkEntry
	var chunks []string
	lines := strings.Split(text, "\n")
	if len(lines) > 0 && lines[len(lines)-1] == "" {
		lines = lines[:len(lines)-1] // terminated; otherwise the rest is a last line for the reader's scanner
	}
	damaged := false
	for _, line := range lines {
		var e sinkcluster.SinkEntry
		if err := json.Unmarshal([]byte(line), &e); err != nil {
			if !failing {
				return "!journal " + err.Error(), true
			}
			damaged = true
			chunks = append(chunks, "x")
			continue
		}
		one, err := sinkcluster.NewClusterCounter(e.RecordingStart, e.RecordingEnd).Count(bytes.NewBufferString(line + "\n"))
		if err != nil {
			return "!count " + err.Error(), true
		}
		entries = append(entries, e)
		chunks = append(chunks, fmt.Sprintf("%d:%d:%d", int64(e.RecordingStart.Sub(t0)/tick), int64(e.RecordingEnd.Sub(t0)/tick), one.Sum))
	}
	var wins []string
	readerFailed := false
	for i := range entries {
		for j := i; j < len(entries); j++ {
			r, err := sinkcluster.NewClusterCounter(entries[i].RecordingStart, entries[j].RecordingEnd).Count(strings.NewReader(text))
			if err != nil {
				if !failing {
					return "!count " + err.Error(), true
				}
				readerFailed = true
				continue
			}
			wins = append(wins, fmt.Sprintf("%d-%d:%d:%d", i, j, r.Sum, r.ChunkIncluded))
		}
	}
	if damaged && len(entries) == 0 {
		// no parsable chunk to build a window from: ask for the whole run
		if _, err := sinkcluster.NewClusterCounter(t0.Add(-tick), time.Now()).Count(strings.NewReader(text)); err != nil {
			readerFailed = true
		}
	}
	logbuf.Reset()
	ctx.metrics.printMetrics()
	items := map[string]string{}
	for _, it := range strings.Split(c19ParseReport(logbuf.String()), ",") {
		if p := strings.SplitN(it, ":", 2); len(p) == 2 {
			items[p[0]] = p[1]
		}
	}
	var uniq []string
	for _, n := range []string{"ips.0", "ips.1", "ips.2", "ips.3", "ips.total"} {
		v, ok := items[n]
		if !ok {
			v = "?"
		}
		uniq = append(uniq, v)
	}
	pl := func(l []string, sep string) string {
		if len(l) == 0 {
			return "-"
		}
		return strings.Join(l, sep)
	}
	if failing {
		w := pl(wins, ",")
		if readerFailed || damaged {
			if !readerFailed {
				return "!reader accepted a journal with a line that does not parse", true
			}
			w = "err"
		}
		return "lines=" + pl(chunks, ";") + " wins=" + w + " uniq=" + strings.Join(uniq, "."), true
	}
	return "chunks=" + pl(chunks, ";") + " wins=" + pl(wins, ",") + " uniq=" + strings.Join(uniq, "."), true
}

// metrics jipcf <k> <plan> <ops>: jipc with a journal sink that fails as the plan says
func c19Jipcf(args []string) string {
	if len(args) != 3 {
		return "!badcase"
	}
	c19LogOnce.Do(func() { log.SetOutput(io.Discard) })
	k, err := strconv.ParseInt(args[0], 10, 64)
	if err != nil || k < 0 {
		return "!badcase"
	}
	plan := args[1]
	if plan == "-" {
		plan = ""
	}
	if strings.Trim(plan, "osntlw") != "" {
		return "!badcase"
	}
	ops, ok := c19JipcParse(args[2])
	if !ok {
		return "!badcase"
	}
	tick := time.Millisecond
	for try := 0; try < 12; try++ {
		if r, ok := c19JipcOnceSink(k, ops, tick, plan, true); ok {
			return r
		}
		tick *= 2
	}
	return "!timing"
}

func c19Jipc(args []string) string {
	if len(args) != 2 {
		return "!badcase"
	}
	c19LogOnce.Do(func() { log.SetOutput(io.Discard) })
	k, err := strconv.ParseInt(args[0], 10, 64)
	if err != nil || k < 0 {
		return "!badcase"
	}
	ops, ok := c19JipcParse(args[1])
	if !ok {
		return "!badcase"
	}
	tick := time.Millisecond
	for try := 0; try < 12; try++ {
		if r, ok := c19JipcOnce(k, ops, tick); ok {
			return r
		}
		tick *= 2
	}
	return "!timing"
}
