//go:build verif

package main

// Concurrent soak for C14: a real net/http server with the routes of main(); many waiting proxies, a
// steady stream of registrations / matches / answers (insertions into and deletions from the broker's
// tables) while every route - /debug, /metrics, /prometheus, /robots.txt, OPTIONS, malformed and
// oversize posts - is requested in loops from many goroutines. Observable: every request got a complete
// well-formed response of the expected status, and the process is alive at the end. A runtime fatal
// error (e.g. concurrent map iteration and map write) kills this process: lib/checks/c14live.py runs it
// as a child of its own and reports `broker-process-died` with the stderr tail.
//
// The broker context carries the distinct-IP journal exactly as main() builds it for -ip-count-log / -ip-count-mask /
// -ip-count-interval (a sinkcluster.ClusterWriter over an append-mode file, interval 300 ms so that chunks are flushed during
// the soak).  Every TCP connection of the soak's client is made from its own loopback source address (127.x.y.z), so the
// polls reach the journal with distinct addresses, and waves of a few hundred /proxy polls released by one barrier go
// through the same mux with forged RemoteAddr values (10.x.y.z, 2001:db8::x) - the accounting of many polls overlaps.
//
//   VERIF_DRIVER=brokersoak VERIF_SOAK_MS=<n> broker.test -test.run ^TestVerifHttpSoak$
//   -> soak ok=<0|1> matches=<n> polls=<n> debug=<n> metrics=<n> prom=<n> misc=<n> bad=<n> first=<text>

import (
	"bytes"
	"context"
	"fmt"
	"io"
	"log"
	"net"
	"net/http"
	"net/http/httptest"
	"os"
	"path/filepath"
	"strconv"
	"strings"
	"sync"
	"sync/atomic"
	"testing"
	"time"

	"git.torproject.org/pluggable-transports/snowflake.git/v2/common/ipsetsink"
	"git.torproject.org/pluggable-transports/snowflake.git/v2/common/ipsetsink/sinkcluster"
	"git.torproject.org/pluggable-transports/snowflake.git/v2/common/messages"
	"github.com/prometheus/client_golang/prometheus/promhttp"
)

var ptypesSoak = []string{"standalone", "badge", "webext", "iptproxy", "strange"}

func TestVerifHttpSoak(t *testing.T) {
	if os.Getenv("VERIF_DRIVER") != "brokersoak" {
		t.Skip("driver mode off")
	}
	log.SetOutput(io.Discard)
	ms, _ := strconv.Atoi(os.Getenv("VERIF_SOAK_MS"))
	if ms <= 0 {
		ms = 3000
	}
	dir, err := os.MkdirTemp(os.Getenv("VERIF_SOAK_DIR"), "soak")
	if err != nil {
		t.Fatal(err)
	}
	defer os.RemoveAll(dir)
	metricsFile := filepath.Join(dir, "metrics.log")
	if err := os.WriteFile(metricsFile, []byte("snowflake-stats-end 2026-01-01 00:00:00 (86400 s)\nsnowflake-ips \n"), 0644); err != nil {
		t.Fatal(err)
	}
	ctx := NewBrokerContext(log.New(io.Discard, "", 0))
	// as main() does with -ip-count-log <file> -ip-count-mask <key> -ip-count-interval 300ms
	ipCountFile, err := os.OpenFile(filepath.Join(dir, "ip-count.log"), os.O_APPEND|os.O_CREATE|os.O_WRONLY, 0644)
	if err != nil {
		t.Fatal(err)
	}
	ipSetSink := ipsetsink.NewIPSetSink("verif-masking-key")
	ctx.metrics.distinctIPWriter = sinkcluster.NewClusterWriter(ipCountFile, 300*time.Millisecond, ipSetSink)
	go ctx.Broker()
	i := &IPC{ctx}
	mux := http.NewServeMux()
	mux.HandleFunc("/robots.txt", robotsTxtHandler)
	mux.Handle("/proxy", SnowflakeHandler{i, proxyPolls})
	mux.Handle("/client", SnowflakeHandler{i, clientOffers})
	mux.Handle("/answer", SnowflakeHandler{i, proxyAnswers})
	mux.Handle("/debug", SnowflakeHandler{i, debugHandler})
	mux.Handle("/metrics", MetricsHandler{metricsFile, metricsHandler})
	mux.Handle("/prometheus", promhttp.HandlerFor(ctx.metrics.promMetrics.registry, promhttp.HandlerOpts{}))
	mux.Handle("/amp/client/", SnowflakeHandler{i, ampClientOffers})
	srv := httptest.NewUnstartedServer(mux)
	srv.Config.ErrorLog = log.New(io.Discard, "", 0)
	srv.Start()
	// every connection from its own loopback source address (the broker sees it as the proxy's address); if this host
	// does not let us bind 127.x.y.z the connection is made from the default address
	var dialN uint32
	dial := func(dctx context.Context, network, addr string) (net.Conn, error) {
		n := atomic.AddUint32(&dialN, 1)
		d := net.Dialer{LocalAddr: &net.TCPAddr{IP: net.IPv4(127, byte(1+n>>16&127), byte(n>>8), byte(n))}}
		c, err := d.DialContext(dctx, network, addr)
		if err != nil {
			c, err = (&net.Dialer{}).DialContext(dctx, network, addr)
		}
		return c, err
	}
	hc := &http.Client{Transport: &http.Transport{DialContext: dial, MaxIdleConnsPerHost: 2000, MaxConnsPerHost: 0}, Timeout: 40 * time.Second}

	var bad int64
	var firstMu sync.Mutex
	first := ""
	fail := func(format string, args ...interface{}) {
		if atomic.AddInt64(&bad, 1) == 1 {
			firstMu.Lock()
			first = strings.ReplaceAll(fmt.Sprintf(format, args...), "\n", "\\n")
			firstMu.Unlock()
		}
	}
	do := func(method, path string, body []byte) (int, []byte, error) {
		req, err := http.NewRequest(method, srv.URL+path, bytes.NewReader(body))
		if err != nil {
			return 0, nil, err
		}
		if len(body) > 0 && body[0] == '{' && path == "/client" {
			req.Header.Set("Snowflake-NAT-Type", "bogus") // a legacy request that is refused at once
		}
		resp, err := hc.Do(req)
		if err != nil {
			return 0, nil, err
		}
		defer resp.Body.Close()
		b, err := io.ReadAll(resp.Body)
		return resp.StatusCode, b, err
	}
	stop := make(chan struct{})
	stopped := func() bool {
		select {
		case <-stop:
			return true
		default:
			return false
		}
	}
	var wg sync.WaitGroup // the looping workers (the idle polls are not waited for: they last ProxyTimeout)
	var matches, polls, debugs, metricsN, proms, misc, bursts int64

	// waves of polls released together, through the mux with forged peer addresses: their IP accounting overlaps
	// (they wait in the restricted pool for ProxyTimeout like the idle ones and are not waited for)
	go func() {
		for wave := 0; wave < 6 && !stopped(); wave++ {
			start := make(chan struct{})
			var ready sync.WaitGroup
			const perWave = 400
			for n := 0; n < perWave; n++ {
				n := n + wave*perWave
				ready.Add(1)
				go func() {
					body, _ := messages.EncodeProxyPollRequest(fmt.Sprintf("burst-%d", n), ptypesSoak[n%len(ptypesSoak)], []string{NATRestricted, NATUnknown}[n%2], n%9)
					r, _ := http.NewRequest("POST", srv.URL+"/proxy", bytes.NewReader(body))
					if n%5 == 4 {
						r.RemoteAddr = fmt.Sprintf("[2001:db8::%x]:4000", n)
					} else {
						r.RemoteAddr = fmt.Sprintf("10.%d.%d.%d:4000", n>>16&255, n>>8&255, n&255)
					}
					w := httptest.NewRecorder()
					ready.Done()
					<-start
					atomic.AddInt64(&bursts, 1)
					mux.ServeHTTP(w, r)
					if w.Code != 200 && !stopped() {
						fail("burst proxy poll: status %d", w.Code)
					}
				}()
			}
			ready.Wait()
			close(start)
			time.Sleep(400 * time.Millisecond)
		}
	}()

	// waiting proxies of every type / NAT class in the restricted pool (the clients below never take them)
	ptypes := ptypesSoak
	for n := 0; n < 200; n++ {
		n := n
		go func() {
			nat := []string{NATRestricted, NATUnknown}[n%2]
			body, _ := messages.EncodeProxyPollRequest(fmt.Sprintf("idle-%d", n), ptypes[n%len(ptypes)], nat, n%7)
			code, _, err := do("POST", "/proxy", body)
			if !stopped() && (err != nil || code != 200) {
				fail("idle proxy poll: status %d err %v", code, err)
			}
		}()
	}
	// proxy / client pairs matched over and over: a registration and a removal per round
	for k := 0; k < 12; k++ {
		k := k
		wg.Add(1)
		go func() {
			defer wg.Done()
			for round := 0; !stopped(); round++ {
				sid := fmt.Sprintf("busy-%d-%d", k, round)
				done := make(chan struct{})
				go func() {
					defer close(done)
					body, _ := messages.EncodeProxyPollRequest(sid, ptypes[round%len(ptypes)], NATUnrestricted, 0)
					code, resp, err := do("POST", "/proxy", body)
					atomic.AddInt64(&polls, 1)
					if err != nil || code != 200 {
						if !stopped() {
							fail("proxy poll: status %d err %v", code, err)
						}
						return
					}
					offer, _, _, derr := messages.DecodePollResponseWithRelayURL(resp)
					if derr != nil {
						fail("proxy poll: undecodable response %q", resp)
						return
					}
					if offer == "" {
						return
					}
					abody, _ := messages.EncodeAnswerRequest("answer:"+offer, sid)
					if code, _, err := do("POST", "/answer", abody); err != nil || code != 200 {
						fail("proxy answer: status %d err %v", code, err)
					}
				}()
				req := &messages.ClientPollRequest{Offer: "offer-" + sid, NAT: []string{NATUnknown, NATRestricted}[round%2]}
				cbody, _ := req.EncodeClientPollRequest()
				for tries := 0; tries < 20000 && !stopped(); tries++ {
					code, resp, err := do("POST", "/client", cbody)
					if err != nil || code != 200 {
						fail("client poll: status %d err %v", code, err)
						break
					}
					cr, derr := messages.DecodeClientPollResponse(resp)
					if derr != nil {
						fail("client poll: undecodable response %q", resp)
						break
					}
					if cr.Error == messages.StrNoProxies {
						time.Sleep(200 * time.Microsecond)
						continue
					}
					if cr.Answer != "" {
						atomic.AddInt64(&matches, 1)
					}
					break
				}
				if stopped() {
					return // the pending poll of this round ends with the server
				}
				<-done
			}
		}()
	}
	loop := func(n int, f func()) {
		for k := 0; k < n; k++ {
			wg.Add(1)
			go func() {
				defer wg.Done()
				for !stopped() {
					f()
				}
			}()
		}
	}
	loop(4, func() {
		code, b, err := do("GET", "/debug", nil)
		if stopped() {
			return
		}
		if err != nil || code != 200 || !strings.HasPrefix(string(b), "current snowflakes available: ") || !strings.Contains(string(b), "\nNAT Types available:") {
			fail("GET /debug: status %d err %v body %.80q", code, err, b)
		}
		atomic.AddInt64(&debugs, 1)
	})
	loop(2, func() {
		code, b, err := do("GET", "/metrics", nil)
		if stopped() {
			return
		}
		if err != nil || code != 200 || !strings.HasPrefix(string(b), "snowflake-stats-end ") {
			fail("GET /metrics: status %d err %v body %.80q", code, err, b)
		}
		atomic.AddInt64(&metricsN, 1)
	})
	loop(2, func() {
		code, b, err := do("GET", "/prometheus", nil)
		if stopped() {
			return
		}
		if err != nil || code != 200 || !strings.Contains(string(b), "# TYPE ") {
			fail("GET /prometheus: status %d err %v body %.80q", code, err, b)
		}
		atomic.AddInt64(&proms, 1)
	})
	big := bytes.Repeat([]byte("z"), readLimit+1)
	type probe struct {
		method, path string
		body         []byte
		want         int
	}
	probes := []probe{
		{"GET", "/robots.txt", nil, 200}, {"OPTIONS", "/client", nil, 200}, {"OPTIONS", "/debug", nil, 200},
		{"POST", "/proxy", []byte("notjson"), 400}, {"POST", "/answer", []byte("{}"), 400}, {"POST", "/client", big, 400},
		{"POST", "/proxy", big, 400}, {"POST", "/client", []byte("1.0\n{}"), 200}, {"POST", "/client", []byte("{\"x\":1}"), 400},
		{"GET", "/amp/client/1/x", nil, 200}, {"GET", "/nosuch", nil, 404}, {"POST", "/answer", []byte(`{"Version":"1.0","Sid":"nosuch","Answer":"a"}`), 200},
	}
	var pk int64
	loop(4, func() {
		p := probes[int(atomic.AddInt64(&pk, 1))%len(probes)]
		code, _, err := do(p.method, p.path, p.body)
		if stopped() {
			return
		}
		if err != nil || code != p.want {
			fail("%s %s: status %d (want %d) err %v", p.method, p.path, code, p.want, err)
		}
		atomic.AddInt64(&misc, 1)
	})

	time.Sleep(time.Duration(ms) * time.Millisecond)
	close(stop)
	finished := make(chan struct{})
	go func() { wg.Wait(); close(finished) }()
	select {
	case <-finished:
	case <-time.After(25 * time.Second):
		fail("workers still blocked 25 s after the end of the soak")
	}
	// liveness at the end
	if code, _, err := do("GET", "/debug", nil); err != nil || code != 200 {
		fail("final GET /debug: status %d err %v", code, err)
	}
	ok := 1
	if atomic.LoadInt64(&bad) > 0 {
		ok = 0
	}
	firstMu.Lock()
	f := first
	firstMu.Unlock()
	jsize := int64(-1)
	if st, err := os.Stat(filepath.Join(dir, "ip-count.log")); err == nil {
		jsize = st.Size()
	}
	fmt.Printf("soak ok=%d matches=%d polls=%d debug=%d metrics=%d prom=%d misc=%d bursts=%d conns=%d ipjournal=%d bad=%d first=%s\n", ok, matches, polls, debugs, metricsN, proms, misc, atomic.LoadInt64(&bursts), atomic.LoadUint32(&dialN), jsize, bad, f)
	os.Stdout.Sync()
	os.Exit(0)
}
