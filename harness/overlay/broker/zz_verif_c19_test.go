//go:build verif

// C19 in-package driver (package main of the broker): rounded counts, unique addresses.
// Run through the compiled test binary: VERIF_DRIVER=1 broker.test -test.run '^TestVerifC19Driver$'
// Reads case lines `metrics <op> <args...>` from stdin, prints one result line per case
// (same line as coq/Run/MetricsRun.v prints for the same case).
package main

import (
	"bufio"
	"fmt"
	"os"
	"runtime"
	"strconv"
	"strings"
	"sync"
	"sync/atomic"
	"testing"
	"time"

	dto "github.com/prometheus/client_model/go"
)

func c19ReadValue(c RoundedCounter) uint64 {
	var m dto.Metric
	if err := c.Write(&m); err != nil {
		panic(err)
	}
	return uint64(m.GetCounter().GetValue())
}

func c19NewCounter() RoundedCounter {
	vec := NewRoundedCounterVec(prometheusCounterOptsC19(), []string{"nat", "status"})
	return vec.With(map[string]string{"nat": "unknown", "status": "idle"})
}

// metrics inc <n>: n sequential Incs on a fresh counter -> published value
func c19Inc(n uint64) string {
	c := c19NewCounter()
	for i := uint64(0); i < n; i++ {
		c.Inc()
	}
	return fmt.Sprintf("value=%d", c19ReadValue(c))
}

// metrics conc <k> <n> <rounds>: rounds times: k goroutines released together, each n Incs on one shared counter;
// prints the published value after each round (cumulative), comma separated.
func c19Conc(k, n, rounds int) string {
	c := c19NewCounter()
	var out []string
	for r := 0; r < rounds; r++ {
		var wg sync.WaitGroup
		start := make(chan struct{})
		for g := 0; g < k; g++ {
			wg.Add(1)
			go func() {
				defer wg.Done()
				<-start
				for i := 0; i < n; i++ {
					c.Inc()
				}
			}()
		}
		close(start)
		wg.Wait()
		out = append(out, strconv.FormatUint(c19ReadValue(c), 10))
	}
	return "values=" + strings.Join(out, ",")
}

// metrics race <k> <rounds>: every round starts with the true count at a multiple of 8; k (<= 8) persistent worker
// goroutines, spinning on a phase word, are released together and each does one Inc; the published value is read;
// then 8-k sequential Incs.  excess = published - true count right after the k concurrent Incs (8-k when the
// counter is right).  Persistent spinning workers (no goroutine start per round) make hundreds of thousands of
// boundary crossings per second, which is what a window of a few instructions needs.
func c19Race(k, rounds int) string {
	c := c19NewCounter()
	total := uint64(0)
	minEx, maxEx := int64(1<<62), int64(-(1 << 62))
	var phase, done, stop int64
	var wg sync.WaitGroup
	for g := 0; g < k; g++ {
		wg.Add(1)
		go func() {
			defer wg.Done()
			for p := int64(1); ; p++ {
				for spins := 0; atomic.LoadInt64(&phase) < p; spins++ {
					if atomic.LoadInt64(&stop) != 0 {
						return
					}
					if spins&4095 == 4095 {
						runtime.Gosched() // stay live on a loaded machine
					}
				}
				c.Inc()
				atomic.AddInt64(&done, 1)
			}
		}()
	}
	// The concurrent part is time-boxed: spinning workers behind a barrier crawl when the machine is oversubscribed
	// (every barrier crossing can cost a scheduler quantum). After the budget the workers are stopped and the remaining
	// rounds are done by this goroutine alone, so the answer keeps its shape (final = 8*rounds, excess 8-k every round).
	budget := 3 * time.Second
	if ms, err := strconv.Atoi(os.Getenv("VERIF_C19_RACE_MS")); err == nil && ms > 0 {
		budget = time.Duration(ms) * time.Millisecond
	}
	deadline := time.Now().Add(budget)
	sequential := false
	for r := 1; r <= rounds; r++ {
		if !sequential && r&255 == 0 && time.Now().After(deadline) {
			atomic.StoreInt64(&stop, 1)
			wg.Wait()
			sequential = true
		}
		if sequential {
			for j := 0; j < k; j++ {
				c.Inc()
			}
		} else {
			atomic.StoreInt64(&phase, int64(r)) // release all workers
			for atomic.LoadInt64(&done) != int64(r)*int64(k) {
				runtime.Gosched()
			}
		}
		total += uint64(k)
		ex := int64(c19ReadValue(c)) - int64(total)
		if ex < minEx {
			minEx = ex
		}
		if ex > maxEx {
			maxEx = ex
		}
		for j := k; j < 8; j++ {
			c.Inc()
			total++
		}
	}
	atomic.StoreInt64(&stop, 1)
	wg.Wait()
	if rounds == 0 {
		minEx, maxEx = 0, 0
	}
	return fmt.Sprintf("final=%d min=%d max=%d", c19ReadValue(c), minEx, maxEx)
}

func c19Case(args []string) string {
	if len(args) == 0 {
		return "!badcase"
	}
	switch args[0] {
	case "bin":
		n, err := strconv.ParseUint(args[1], 10, 64)
		if err != nil {
			return "!badcase"
		}
		return strconv.FormatUint(uint64(binCount(uint(n))), 10)
	case "inc":
		n, err := strconv.ParseUint(args[1], 10, 64)
		if err != nil {
			return "!badcase"
		}
		return c19Inc(n)
	case "conc":
		k, e1 := strconv.Atoi(args[1])
		n, e2 := strconv.Atoi(args[2])
		r, e3 := strconv.Atoi(args[3])
		if e1 != nil || e2 != nil || e3 != nil {
			return "!badcase"
		}
		return c19Conc(k, n, r)
	case "race":
		k, e1 := strconv.Atoi(args[1])
		r, e2 := strconv.Atoi(args[2])
		if e1 != nil || e2 != nil || k < 1 || k > 8 {
			return "!badcase"
		}
		return c19Race(k, r)
	case "ipc":
		return c19Ipc(args[1:])
	case "jipc":
		return c19Jipc(args[1:])
	case "jipcf":
		return c19Jipcf(args[1:])
	case "sched":
		return c19Sched(args[1:])
	case "jconc":
		return c19Jconc(args[1:])
	case "jsoak":
		return c19Jsoak(args[1:])
	}
	return "!badcase"
}

func c19Safe(args []string) (res string) {
	defer func() {
		if r := recover(); r != nil {
			res = "!panic " + strings.ReplaceAll(fmt.Sprint(r), "\n", " ")
		}
	}()
	return c19Case(args)
}

// TestVerifC19Driver is the line-protocol loop. `ipc` cases (each owns a private BrokerContext and may
// wait for the broker's 10 s proxy timeout) run concurrently; all other cases run one at a time.
func TestVerifC19Driver(t *testing.T) {
	if os.Getenv("VERIF_DRIVER") != "1" {
		t.Skip("driver only")
	}
	if runtime.GOMAXPROCS(0) < 4 {
		runtime.GOMAXPROCS(4)
	}
	sc := bufio.NewScanner(os.Stdin)
	sc.Buffer(make([]byte, 1<<20), 1<<28)
	var lines []string
	for sc.Scan() {
		lines = append(lines, sc.Text())
	}
	res := make([]string, len(lines))
	var wg sync.WaitGroup
	sem := make(chan struct{}, 32)
	for i, line := range lines {
		args := strings.Split(line, " ")
		if len(args) >= 2 && args[1] == "ipc" {
			wg.Add(1)
			sem <- struct{}{}
			go func(i int, a []string) {
				defer wg.Done()
				defer func() { <-sem }()
				res[i] = c19Safe(a)
			}(i, args[1:])
		}
	}
	wg.Wait()
	for i, line := range lines {
		args := strings.Split(line, " ")
		if !(len(args) >= 2 && args[1] == "ipc") {
			res[i] = c19Safe(args[1:])
		}
	}
	w := bufio.NewWriterSize(os.Stdout, 1<<20)
	for _, r := range res {
		w.WriteString(r)
		w.WriteByte('\n')
	}
	w.Flush()
	os.Exit(0)
}
