//go:build verif

// C19 driver, part 5: the distinct-IP journal behind the real IPC.ProxyPolls with CONCURRENT polls and a slow disk.
//
//	metrics jconc <k> <op,op,...>    the ops of jipc (p<tick>.<ip>.<type>.<a|r|n>, z<tick>, f<tick>) and
//	                                   h<tick>   the journal's next Write is held open (the line reaches the file,
//	                                             the call does not return: the disk is busy)
//	                                   r<tick>   the held Write returns; every poll in flight is waited for
//
// Every poll runs in its own goroutine.  While no Write is held the driver waits for the poll to return (or to
// become the one whose flush is held) before going on; polls issued while a Write is held are concurrent callers:
// with the journal call under metrics.lock they block until r, and then run at the clock reading of r.
// Result: the journal's chunks (start:end in ticks, cardinal), for every accepted poll the chunks whose sketch
// holds its address (merging the sketch of the address alone, built under the same key, leaves the count unchanged) and
// the tick at which ProxyPolls returned, and the unique-address figures.
//
//	metrics jsoak <goroutines> <polls each> <interval µs> <write µs>
//
// goroutines x polls accepted polls, every one from its own address, all at once through IPC.ProxyPolls; the
// journal's write interval is <interval> and every Write of the sink takes <write> (a slow disk at every flush).
// Each poll is bracketed by two clock readings of the driver.  Afterwards the journal is flushed and read back
// with the journal's OWN timestamps: lost = polled addresses that are in no chunk; misplaced = members of a chunk
// whose poll was not in flight inside the chunk's span; twice = sum of the chunk cardinals minus the cardinal of
// their union; tiled = every chunk starts where the previous one ended.
package main

import (
	"bytes"
	"encoding/json"
	"fmt"
	"io"
	"log"
	"math"
	"os"
	"os/exec"
	"strconv"
	"strings"
	"sync"
	"sync/atomic"
	"testing"
	"time"

	"git.torproject.org/pluggable-transports/snowflake.git/v2/common/ipsetsink"
	"git.torproject.org/pluggable-transports/snowflake.git/v2/common/ipsetsink/sinkcluster"
	"git.torproject.org/pluggable-transports/snowflake.git/v2/common/messages"
	"github.com/clarkduvall/hyperloglog"
)

const c19JournalKey = "verif-key"

// c19GateSink: a WriteSyncer over a buffer; when armed, the next Write appends its bytes and then does not
// return until released.
type c19GateSink struct {
	mu      sync.Mutex
	buf     bytes.Buffer
	armed   bool
	reached chan struct{}
	release chan struct{}
	delay   time.Duration
}

func newC19GateSink() *c19GateSink {
	return &c19GateSink{reached: make(chan struct{}, 1), release: make(chan struct{})}
}

func (s *c19GateSink) Write(p []byte) (int, error) {
	s.mu.Lock()
	n, err := s.buf.Write(p)
	hold := s.armed
	s.armed = false
	s.mu.Unlock()
	if hold {
		s.reached <- struct{}{}
		<-s.release
	}
	if s.delay > 0 {
		time.Sleep(s.delay)
	}
	return n, err
}

func (s *c19GateSink) Sync() error { return nil }

func (s *c19GateSink) arm(v bool) {
	s.mu.Lock()
	s.armed = v
	s.mu.Unlock()
}

func (s *c19GateSink) isArmed() bool {
	s.mu.Lock()
	defer s.mu.Unlock()
	return s.armed
}

func (s *c19GateSink) text() string {
	s.mu.Lock()
	defer s.mu.Unlock()
	return s.buf.String()
}

type c19Chunk struct {
	e    sinkcluster.SinkEntry
	line string
	card uint64
}

func c19ReadJournal(text string) ([]c19Chunk, error) {
	var out []c19Chunk
	lines := strings.Split(text, "\n")
	if len(lines) > 0 && lines[len(lines)-1] == "" {
		lines = lines[:len(lines)-1]
	}
	for _, line := range lines {
		var e sinkcluster.SinkEntry
		if err := json.Unmarshal([]byte(line), &e); err != nil {
			return nil, err
		}
		one, err := sinkcluster.NewClusterCounter(e.RecordingStart, e.RecordingEnd).Count(strings.NewReader(line + "\n"))
		if err != nil {
			return nil, err
		}
		out = append(out, c19Chunk{e: e, line: line, card: one.Sum})
	}
	return out, nil
}

// c19MemberMatrix[i][j]: the sketch of chunk j holds addrs[i].  The sketch of the chunk is restored as the reader
// restores it and merged, as the reader merges, with the sketch an IPSetSink under the same key builds from the one
// address: the address is in the chunk iff the merge leaves the count as it is.  (A merge that adds an address
// leaves it in the restored copy; the addresses tested occupy different cells, so later tests are not affected.)
func c19MemberMatrix(chunks []c19Chunk, addrs []string) ([][]bool, error) {
	single := map[string]*hyperloglog.HyperLogLogPlus{}
	for _, a := range addrs {
		if single[a] != nil {
			continue
		}
		s := ipsetsink.NewIPSetSink(c19JournalKey)
		s.AddIPToSet(a)
		data, err := s.Dump()
		if err != nil {
			return nil, err
		}
		h, _ := hyperloglog.NewPlus(18)
		if err := h.GobDecode(data); err != nil {
			return nil, err
		}
		single[a] = h
	}
	out := make([][]bool, len(addrs))
	for j := range chunks {
		hc, _ := hyperloglog.NewPlus(18)
		if err := hc.GobDecode(chunks[j].e.Recorded); err != nil {
			return nil, err
		}
		seen := map[string]bool{} // an address is tested once per chunk
		for i, a := range addrs {
			in, done := seen[a]
			if !done {
				before := hc.Count()
				if err := hc.Merge(single[a]); err != nil {
					return nil, err
				}
				in = hc.Count() == before
				seen[a] = in
			}
			out[i] = append(out[i], in)
		}
	}
	return out, nil
}

type c19CJop struct {
	kind byte // p z f h r
	tick int64
	arg  messages.Arg
	addr string // accepted polls only
}

func c19JconcParse(list string) ([]c19CJop, bool) {
	var ops []c19CJop
	if list == "-" {
		return ops, true
	}
	for _, tok := range strings.Split(list, ",") {
		if len(tok) < 2 {
			return nil, false
		}
		switch tok[0] {
		case 'h', 'r':
			n, err := strconv.ParseInt(tok[1:], 10, 64)
			if err != nil {
				return nil, false
			}
			ops = append(ops, c19CJop{kind: tok[0], tick: n})
		default:
			one, ok := c19JipcParse(tok)
			if !ok || len(one) != 1 {
				return nil, false
			}
			o := c19CJop{kind: one[0].kind, tick: one[0].tick, arg: one[0].arg}
			if o.kind == 'p' {
				// distinct session ids over the whole case
				f := strings.Split(tok[1:], ".")
				ip, _ := strconv.Atoi(f[1])
				ty, _ := strconv.Atoi(f[2])
				pat := "torproject.net$"
				if f[3] == "r" {
					pat = "example.com$"
				}
				body, err := messages.EncodeProxyPollRequestWithRelayPrefix("csid"+strconv.Itoa(len(ops)), c19TypeName(ty), "unknown", 0, pat)
				if err != nil {
					return nil, false
				}
				o.arg.Body = body
				if f[3] == "a" {
					o.addr = c19IPString(ip)
				}
			}
			ops = append(ops, o)
		}
	}
	return ops, true
}

func c19NewJournalBroker(sink sinkcluster.WriteSyncer, interval time.Duration) (*BrokerContext, *IPC, *bytes.Buffer, time.Time) {
	logbuf := &bytes.Buffer{}
	ctx := NewBrokerContext(log.New(logbuf, "", 0))
	ctx.allowedRelayPattern = "snowflake.torproject.net$"
	go func() { // the broker loop, answering every poll with "no client" at once
		for p := range ctx.proxyPolls {
			p.offerChannel <- nil
		}
	}()
	t0 := time.Now()
	ctx.metrics.distinctIPWriter = sinkcluster.NewClusterWriter(sink, interval, ipsetsink.NewIPSetSink(c19JournalKey))
	return ctx, &IPC{ctx}, logbuf, t0
}

func c19Uniq(ctx *BrokerContext, logbuf *bytes.Buffer) string {
	logbuf.Reset()
	ctx.metrics.printMetrics()
	items := map[string]string{}
	for _, it := range strings.Split(c19ParseReport(logbuf.String()), ",") {
		if p := strings.SplitN(it, ":", 2); len(p) == 2 {
			items[p[0]] = p[1]
		}
	}
	var uniq []string
	for _, n := range []string{"ips.0", "ips.1", "ips.2", "ips.3", "ips.total"} {
		v, ok := items[n]
		if !ok {
			v = "?"
		}
		uniq = append(uniq, v)
	}
	return strings.Join(uniq, ".")
}

// one attempt on a grid of the given tick; ok=false when an operation left its time slot
func c19JconcOnce(k int64, ops []c19CJop, tick time.Duration) (res string, ok bool) {
	sink := newC19GateSink()
	ctx, ipc, logbuf, t0 := c19NewJournalBroker(sink, time.Duration(k)*tick+tick/2)
	defer close(ctx.proxyPolls)
	if time.Since(t0) >= tick/4 {
		return "", false
	}
	var wg sync.WaitGroup
	holding := false
	letGo := func() {
		sink.arm(false)
		if holding {
			sink.release <- struct{}{}
			holding = false
		}
		wg.Wait()
	}
	defer letGo()
	nacc := 0
	for _, o := range ops {
		if o.addr != "" {
			nacc++
		}
	}
	rets := make([]int64, nacc)
	for i := range rets {
		rets[i] = -1
	}
	var addrs []string
	for _, o := range ops {
		at := t0.Add(time.Duration(o.tick) * tick)
		if !time.Now().Before(at) {
			return "", false
		}
		c19SpinUntil(at)
		switch o.kind {
		case 'p':
			idx := -1
			if o.addr != "" {
				idx = len(addrs)
				addrs = append(addrs, o.addr)
			}
			done := make(chan struct{})
			wg.Add(1)
			go func(arg messages.Arg, idx int) {
				defer wg.Done()
				defer close(done)
				var resp []byte
				ipc.ProxyPolls(arg, &resp)
				if idx >= 0 {
					atomic.StoreInt64(&rets[idx], int64(time.Since(t0)/tick))
				}
			}(o.arg, idx)
			if !holding {
				select {
				case <-done:
				case <-sink.reached:
					holding = true
				case <-time.After(10 * time.Second):
					return "!driver a poll neither returned nor reached the held Write", true
				}
			}
		case 'h':
			sink.arm(true)
		case 'r':
			letGo()
		case 'z':
			if holding {
				return "!badcase", true
			}
			ctx.metrics.zeroMetrics()
		case 'f':
			if holding || sink.isArmed() {
				return "!badcase", true
			}
			ctx.metrics.lock.Lock()
			ctx.metrics.distinctIPWriter.WriteIPSetToDisk()
			ctx.metrics.lock.Unlock()
		}
		if time.Now().Sub(at) >= tick/4 {
			return "", false
		}
	}
	if holding {
		return "!badcase", true
	}
	letGo()

	ctx.metrics.lock.Lock()
	text := sink.text()
	ctx.metrics.lock.Unlock()
	chunks, err := c19ReadJournal(text)
	if err != nil {
		return "!journal " + err.Error(), true
	}
	var cs, memb, ret []string
	for _, c := range chunks {
		cs = append(cs, fmt.Sprintf("%d:%d:%d", int64(c.e.RecordingStart.Sub(t0)/tick), int64(c.e.RecordingEnd.Sub(t0)/tick), c.card))
	}
	matrix, err := c19MemberMatrix(chunks, addrs)
	if err != nil {
		return "!sketch " + err.Error(), true
	}
	for i := range addrs {
		var in []string
		for j := range chunks {
			if matrix[i][j] {
				in = append(in, strconv.Itoa(j))
			}
		}
		if len(in) == 0 {
			memb = append(memb, "-")
		} else {
			memb = append(memb, strings.Join(in, "+"))
		}
		ret = append(ret, strconv.FormatInt(atomic.LoadInt64(&rets[i]), 10))
	}
	pl := func(l []string, sep string) string {
		if len(l) == 0 {
			return "-"
		}
		return strings.Join(l, sep)
	}
	return "chunks=" + pl(cs, ";") + " memb=" + pl(memb, ",") + " ret=" + pl(ret, ",") + " uniq=" + c19Uniq(ctx, logbuf), true
}

func c19Jconc(args []string) string {
	if len(args) != 2 {
		return "!badcase"
	}
	c19LogOnce.Do(func() { log.SetOutput(io.Discard) })
	k, err := strconv.ParseInt(args[0], 10, 64)
	if err != nil || k < 0 {
		return "!badcase"
	}
	ops, ok := c19JconcParse(args[1])
	if !ok {
		return "!badcase"
	}
	tick := time.Millisecond
	for try := 0; try < 12; try++ {
		if r, ok := c19JconcOnce(k, ops, tick); ok {
			return r
		}
		tick *= 2
	}
	return "!timing"
}

// ---------------------------------------------------------------- soak

// c19Universe returns n addresses no two of which share a sketch cell (so that the merged-count membership test
// is exact): the sketch of all of them must count what n distinct cells count.
func c19Universe(n int) []string {
	var out []string
	s := ipsetsink.NewIPSetSink(c19JournalKey)
	count := func() uint64 {
		data, _ := s.Dump()
		b, _ := json.Marshal(&sinkcluster.SinkEntry{Recorded: data})
		r, err := sinkcluster.NewClusterCounter(time.Time{}, time.Time{}).Count(strings.NewReader(string(b) + "\n"))
		if err != nil {
			return 0
		}
		return r.Sum
	}
	for v := 1 << 16; len(out) < n; v++ {
		a := c19IPString(v)
		s.AddIPToSet(a)
		out = append(out, a)
	}
	// the library's linear counting over 2^25 cells: n occupied cells count uint64(m ln(m/(m-n)))
	m := float64(uint32(1) << 25)
	if want := uint64(m * math.Log(m/float64(uint32(1)<<25-uint32(n)))); count() == want {
		return out
	}
	// some pair collides: build the set one by one, keeping the addresses that add a cell
	out = out[:0]
	s = ipsetsink.NewIPSetSink(c19JournalKey)
	last := uint64(0)
	for v := 1 << 16; len(out) < n; v++ {
		a := c19IPString(v)
		s.AddIPToSet(a)
		if c := count(); c > last {
			out = append(out, a)
			last = c
		}
	}
	return out
}

// c19Jsoak runs the soak in a child process (this test binary again): unsynchronised access to the journal's sketch makes
// the Go runtime stop the whole process ("fatal error: concurrent map writes"), which no recover() catches.
func c19Jsoak(args []string) string {
	if len(args) != 4 {
		return "!badcase"
	}
	for _, a := range args {
		if n, err := strconv.Atoi(a); err != nil || n < 0 {
			return "!badcase"
		}
	}
	cmd := exec.Command(os.Args[0], "-test.run", "^TestVerifC19SoakChild$")
	cmd.Env = append(os.Environ(), "VERIF_C19_SOAK_ARGS="+strings.Join(args, " "))
	var out, errb bytes.Buffer
	cmd.Stdout, cmd.Stderr = &out, &errb
	runErr := cmd.Run()
	for _, l := range strings.Split(out.String(), "\n") {
		if strings.HasPrefix(l, "SOAK-RESULT ") {
			return strings.TrimPrefix(l, "SOAK-RESULT ")
		}
	}
	for _, l := range strings.Split(errb.String()+"\n"+out.String(), "\n") {
		if strings.HasPrefix(l, "fatal error: ") || strings.HasPrefix(l, "panic: ") {
			return "!fatal " + strings.ReplaceAll(l, " ", "_")
		}
	}
	return "!fatal child_ended_without_result_" + strings.ReplaceAll(fmt.Sprint(runErr), " ", "_")
}

func TestVerifC19SoakChild(t *testing.T) {
	a := os.Getenv("VERIF_C19_SOAK_ARGS")
	if a == "" {
		t.Skip("child of the jsoak op only")
	}
	fmt.Println("SOAK-RESULT " + c19JsoakRun(strings.Split(a, " ")))
	os.Exit(0)
}

func c19JsoakRun(args []string) string {
	if len(args) != 4 {
		return "!badcase"
	}
	c19LogOnce.Do(func() { log.SetOutput(io.Discard) })
	var v [4]int
	for i := range v {
		n, err := strconv.Atoi(args[i])
		if err != nil || n < 0 {
			return "!badcase"
		}
		v[i] = n
	}
	g, per := v[0], v[1]
	if g < 1 || per < 1 || g*per > 6000 { // linear counting over 2^25 cells is exact below 8192
		return "!badcase"
	}
	addrs := c19Universe(g * per)
	sink := newC19GateSink()
	sink.delay = time.Duration(v[3]) * time.Microsecond
	ctx, ipc, _, t0 := c19NewJournalBroker(sink, time.Duration(v[2])*time.Microsecond)
	defer close(ctx.proxyPolls)
	type bracket struct{ a, b time.Time }
	br := make([]bracket, g*per)
	bodies := make([][]byte, g*per)
	for i := range bodies {
		b, err := messages.EncodeProxyPollRequestWithRelayPrefix("ssid"+strconv.Itoa(i), "standalone", "unknown", 0, "torproject.net$")
		if err != nil {
			return "!driver " + err.Error()
		}
		bodies[i] = b
	}
	var wg sync.WaitGroup
	start := make(chan struct{})
	for w := 0; w < g; w++ {
		wg.Add(1)
		go func(w int) {
			defer wg.Done()
			<-start
			for i := w * per; i < (w+1)*per; i++ {
				var resp []byte
				a := time.Now()
				ipc.ProxyPolls(messages.Arg{Body: bodies[i], RemoteAddr: addrs[i] + ":4321"}, &resp)
				br[i] = bracket{a, time.Now()}
			}
		}(w)
	}
	close(start)
	wg.Wait()
	ctx.metrics.lock.Lock()
	ctx.metrics.distinctIPWriter.WriteIPSetToDisk()
	ctx.metrics.lock.Unlock()
	chunks, err := c19ReadJournal(sink.text())
	if err != nil {
		return "!journal " + err.Error()
	}
	tiled := 1
	prev := t0
	for i, c := range chunks {
		if i > 0 && !c.e.RecordingStart.Equal(prev) || c.e.RecordingEnd.Before(c.e.RecordingStart) {
			tiled = 0
		}
		if i == 0 && c.e.RecordingStart.Before(t0.Add(-time.Second)) {
			tiled = 0
		}
		prev = c.e.RecordingEnd
	}
	if len(chunks) == 0 {
		return "!journal empty"
	}
	// Sets are compared through the reader's own merge (ClusterCounter.Count over lines of the journal plus lines
	// built here with IPSetSink under the same key); all addresses occupy different cells, so the counts are exact:
	// |X n Y| = |X| + |Y| - |X u Y|.
	lineOf := func(list []string, from, to time.Time) string {
		sk := ipsetsink.NewIPSetSink(c19JournalKey)
		for _, a := range list {
			sk.AddIPToSet(a)
		}
		data, _ := sk.Dump()
		b, _ := json.Marshal(&sinkcluster.SinkEntry{RecordingStart: from, RecordingEnd: to, Recorded: data})
		return string(b) + "\n"
	}
	count := func(text string, from, to time.Time) (int64, bool) {
		r, err := sinkcluster.NewClusterCounter(from, to).Count(strings.NewReader(text))
		if err != nil {
			return 0, false
		}
		return int64(r.Sum), true
	}
	first, last := chunks[0].e.RecordingStart, chunks[0].e.RecordingEnd
	var sum int64
	var whole strings.Builder
	for _, c := range chunks {
		if c.e.RecordingStart.Before(first) {
			first = c.e.RecordingStart
		}
		if c.e.RecordingEnd.After(last) {
			last = c.e.RecordingEnd
		}
		sum += int64(c.card)
		whole.WriteString(c.line + "\n")
	}
	union, ok1 := count(whole.String(), first, last)
	withAll, ok2 := count(whole.String()+lineOf(addrs, first, last), first, last)
	if !ok1 || !ok2 {
		return "!count"
	}
	found := int64(len(addrs)) + union - withAll // polled addresses that are in some chunk
	lost := int64(len(addrs)) - found
	twice := sum - union // addresses that are in more than one chunk, counted once per extra chunk
	var misplaced int64
	for j := range chunks {
		c := &chunks[j]
		var cands []string
		for i, a := range addrs {
			if !c.e.RecordingEnd.Before(br[i].a) && !c.e.RecordingStart.After(br[i].b) {
				cands = append(cands, a)
			}
		}
		both, ok := count(c.line+"\n"+lineOf(cands, c.e.RecordingStart, c.e.RecordingEnd), c.e.RecordingStart, c.e.RecordingEnd)
		if !ok {
			return "!count"
		}
		inside := int64(len(cands)) + int64(c.card) - both // members of the chunk whose poll was in flight inside its span
		misplaced += int64(c.card) - inside
	}
	return fmt.Sprintf("polls=%d lost=%d misplaced=%d twice=%d tiled=%d", g*per, lost, misplaced, twice, tiled)
}
