//go:build verif

// C19 driver, part 4: the real roundedCounter under a FORCED schedule.
//
//	metrics sched <k> <t.t.t...>
//
// k goroutines share one counter; each waits for a go-ahead, performs one c.Inc() (the mutex of the
// repaired counter is taken by whoever is released: the order of lock acquisitions IS the schedule)
// and reports back.  The schedule is a list of thread ids as in Model/Round8.v runr: an entry for an
// idle thread while the mutex is free lets that goroutine run Inc; while a thread is "inside Inc"
// the following entries for it are its remaining steps (total++ ; compare ; value += 8 when the
// published value changed ; unlock) and entries for other threads are skipped (they would block on
// the mutex).  After every entry: `-` while an Inc is in progress, else
// <completed Incs>:<published value>, read through Write(), the path the Prometheus collector uses.
package main

import (
	"strconv"
	"strings"
)

func c19Sched(args []string) string {
	if len(args) != 2 {
		return "!badcase"
	}
	k, err := strconv.Atoi(args[0])
	if err != nil || k < 0 || k > 64 {
		return "!badcase"
	}
	var sched []int
	if args[1] != "-" {
		for _, t := range strings.Split(args[1], ".") {
			i, err := strconv.Atoi(t)
			if err != nil || i < 0 || i >= k {
				return "!badcase"
			}
			sched = append(sched, i)
		}
	}
	c := c19NewCounter()
	cmd := make([]chan struct{}, k)
	ack := make(chan int)
	for g := 0; g < k; g++ {
		cmd[g] = make(chan struct{})
		go func(g int) {
			for range cmd[g] {
				c.Inc()
				ack <- g
			}
		}(g)
	}
	defer func() {
		for g := 0; g < k; g++ {
			close(cmd[g])
		}
	}()
	holder, left, done := -1, 0, 0
	var obs []string
	for _, i := range sched {
		switch {
		case holder == -1:
			before := c19ReadValue(c)
			cmd[i] <- struct{}{}
			<-ack
			// lock taken; then total++, compare, (value += 8), unlock
			holder, left = i, 3
			if c19ReadValue(c) != before {
				left = 4
			}
		case i == holder:
			left--
			if left == 0 {
				holder = -1
				done++
			}
		}
		if holder == -1 {
			obs = append(obs, strconv.Itoa(done)+":"+strconv.FormatUint(c19ReadValue(c), 10))
		} else {
			obs = append(obs, "-")
		}
	}
	o := "-"
	if len(obs) > 0 {
		o = strings.Join(obs, ",")
	}
	return "obs=" + o + " done=" + strconv.Itoa(done)
}
