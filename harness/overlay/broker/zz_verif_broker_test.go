//go:build verif

package main

// Scenario driver for the broker matching core (C02, C03, C04, C14).
// Each stdin line "broker scen <bridges> <events>" is run against its own BrokerContext, all
// lines concurrently (the protocol's 10 s timers dominate), results printed in input order.
//
//   bridges : comma list of <fp40hex>=<url>   ("-" : keep only the built-in default bridge)
//   events  : comma list, times in ms from scenario start
//     P<k>:<sid>:<nat>:<type>:<clients>@<t>      proxy poll through the /proxy handler (body from the stock encoder)
//     P<k>:<sid>:<nat>:<type>:<clients>:<ver>@<t>  the same with a hand-built body carrying Version <ver> ("1.0", "1", "1.10" ...);
//                                                a trailing "!" leaves the AcceptedRelayPattern field out (proxies older than
//                                                the relay-pattern extension), a trailing "~" leaves the NAT field out when the
//                                                NAT is empty. The same <sid> may occur in several P events (a repeated poll).
//     C<k>:<nat>:<fp|->:<offer>:<mode>@<t>       client poll; mode v=/client versioned, l=/client legacy, a=/amp/client
//     A<k>:<sid>:<answer>@<t>                    proxy answer at absolute time t
//     A<k>:<sid>:<answer>@P<j>+<dt>              proxy answer dt ms after poll j returned (only if it got an offer)
//     L<k>:<dur>@<t>                             hold ctx.snowflakeLock for dur ms from t
//     I<k>:<fp>=<url>;<fp>=<url>@<t>             InstallBridgeListProfile at t (replaces the whole list; "-" = empty list)
//     J<k>:<hex of file text>@<t>                InstallBridgeListProfile of a bridge-list FILE given as text (the real line
//                                                loader of bridge-list.go); result "installed" or "err:..."
//     H<k>:<workers>:<dur>@<t>                   denial hammer: <workers> goroutines issue client polls of NAT "unrestricted"
//                                                (offer {hammer}; the scenario must hold no restricted proxy, so each is
//                                                denied) back to back for dur ms; result denied:<count>, other:<response>
//                                                when one was answered anything else, "blocked" when a call never returned
//     W<k>:<ms>@0                                watchdog: total observation time of the scenario
//     D<k>:<n>@0                                 delivery barrier: every client handler of the scenario gets a ResponseWriter
//                                                whose first Write blocks (a slow connection) until n client handlers
//                                                have reached their first Write (or 4 s passed), so that the delivery
//                                                phases of the client responses overlap; Write reads its argument only
//                                                after the barrier, as io.Writer permits
// Output: space separated  P<k>=..  C<k>=..  A<k>=..  avail=<len(idToSnowflake)> heapU=<n> heapR=<n> gauge=<sum> freshR=.. freshU=..
//         tP<k>=<sent>:<seen registered>:<returned>  tC<k>=<sent>:<returned>   (ms since scenario start, -1 = never; the
//         registration time is an upper bound: the id map is polled every ms while the poll is outstanding)

import (
	"bufio"
	"bytes"
	"container/heap"
	"encoding/hex"
	"encoding/json"
	"fmt"
	"io"
	"log"
	"net/http"
	"net/http/httptest"
	"os"
	"sort"
	"strconv"
	"strings"
	"sync"
	"testing"
	"time"

	"git.torproject.org/pluggable-transports/snowflake.git/v2/common/amp"
	"git.torproject.org/pluggable-transports/snowflake.git/v2/common/messages"
	dto "github.com/prometheus/client_model/go"
)

var _ = heap.Init

type vbEvent struct {
	kind   byte
	k      int
	f      []string
	at     int // ms; -1 when relative
	relTo  int
	relDt  int
	isRel  bool
}

func vbParseEvents(t string) []vbEvent {
	var evs []vbEvent
	if t == "-" {
		return evs
	}
	for _, e := range strings.Split(t, ",") {
		at := strings.LastIndex(e, "@")
		head, when := e[:at], e[at+1:]
		f := strings.Split(head, ":")
		ev := vbEvent{kind: f[0][0], f: f[1:]}
		ev.k, _ = strconv.Atoi(f[0][1:])
		if strings.HasPrefix(when, "P") {
			parts := strings.Split(when[1:], "+")
			ev.isRel = true
			ev.relTo, _ = strconv.Atoi(parts[0])
			ev.relDt, _ = strconv.Atoi(parts[1])
		} else {
			ev.at, _ = strconv.Atoi(when)
		}
		evs = append(evs, ev)
	}
	return evs
}

func vbGaugeSum(ctx *BrokerContext) int {
	mfs, err := ctx.metrics.promMetrics.registry.Gather()
	if err != nil {
		return -999
	}
	sum := 0.0
	for _, mf := range mfs {
		if mf.GetName() == "snowflake_available_proxies" && mf.GetType() == dto.MetricType_GAUGE {
			for _, m := range mf.GetMetric() {
				sum += m.GetGauge().GetValue()
			}
		}
	}
	return int(sum)
}

// vbBarrier / vbSlowWriter: see event D
type vbBarrier struct {
	mu      sync.Mutex
	n       int
	arrived int
	ch      chan struct{}
}

func (b *vbBarrier) wait() {
	b.mu.Lock()
	b.arrived++
	if b.arrived == b.n {
		close(b.ch)
	}
	b.mu.Unlock()
	select {
	case <-b.ch:
	case <-time.After(4 * time.Second):
	}
}

type vbSlowWriter struct {
	http.ResponseWriter
	bar  *vbBarrier
	once sync.Once
}

func (w *vbSlowWriter) Write(p []byte) (int, error) {
	w.once.Do(w.bar.wait)
	return w.ResponseWriter.Write(p)
}

func vbDoClient(i *IPC, nat, fp, offer, mode string) string {
	return vbDoClientW(i, nat, fp, offer, mode, nil)
}

func vbDoClientW(i *IPC, nat, fp, offer, mode string, bar *vbBarrier) string {
	var rec *httptest.ResponseRecorder
	var body []byte
	rec = httptest.NewRecorder()
	var rw http.ResponseWriter = rec
	if bar != nil {
		rw = &vbSlowWriter{ResponseWriter: rec, bar: bar}
	}
	switch mode {
	case "v", "a":
		var b []byte
		var err error
		if fp != "-" {
			req := messages.ClientPollRequest{Offer: offer, NAT: nat, Fingerprint: fp}
			b, err = req.EncodeClientPollRequest()
		} else {
			// a client that names no bridge: the fingerprint field is absent (old clients) or empty on the wire; the
			// encoder of common/messages would fill the default in, so the message is built here
			var body []byte
			if len(offer)%2 == 0 {
				body, err = json.Marshal(struct {
					Offer string `json:"offer"`
					NAT   string `json:"nat"`
				}{offer, nat})
			} else {
				body, err = json.Marshal(struct {
					Offer       string `json:"offer"`
					NAT         string `json:"nat"`
					Fingerprint string `json:"fingerprint"`
				}{offer, nat, ""})
			}
			b = append([]byte(messages.ClientVersion+"\n"), body...)
		}
		if err != nil {
			return "err:encode"
		}
		if mode == "v" {
			r := httptest.NewRequest("POST", "/client", bytes.NewReader(b))
			SnowflakeHandler{i, clientOffers}.ServeHTTP(rw, r)
			body = rec.Body.Bytes()
		} else {
			r := httptest.NewRequest("GET", "/amp/client/"+amp.EncodePath(b), nil)
			SnowflakeHandler{i, ampClientOffers}.ServeHTTP(rw, r)
			if rec.Code == 200 {
				dec, err := amp.NewArmorDecoder(bytes.NewReader(rec.Body.Bytes()))
				if err != nil {
					return "err:armor"
				}
				body, err = io.ReadAll(dec)
				if err != nil {
					return "err:armor"
				}
			}
		}
		if rec.Code != 200 {
			return "http:" + strconv.Itoa(rec.Code)
		}
		resp, err := messages.DecodeClientPollResponse(body)
		if err != nil {
			return "err:decode"
		}
		switch resp.Error {
		case "":
			return "answer:" + vbEscAnswer(resp.Answer)
		case messages.StrNoProxies:
			return "noproxies"
		case messages.StrTimedOut:
			return "timeout"
		}
		return "error"
	case "l":
		// legacy: body is the bare offer (must start with '{'), NAT in a header, default bridge
		r := httptest.NewRequest("POST", "/client", strings.NewReader(offer))
		if nat != "" {
			r.Header.Set("Snowflake-NAT-Type", nat)
		}
		SnowflakeHandler{i, clientOffers}.ServeHTTP(rw, r)
		switch rec.Code {
		case 200:
			return "answer:" + vbEscAnswer(rec.Body.String())
		case http.StatusServiceUnavailable:
			return "noproxies"
		case http.StatusGatewayTimeout:
			return "timeout"
		}
		return "http:" + strconv.Itoa(rec.Code)
	}
	return "err:mode"
}

// vbPollBody: the /proxy request body. ver == "": what EncodeProxyPollRequestWithRelayPrefix produces (the current
// version); otherwise the JSON is built here, field for field, with the given version string.
func vbPollBody(sid, nat, ptype string, clients int, ver string) ([]byte, error) {
	if ver == "" {
		return messages.EncodeProxyPollRequestWithRelayPrefix(sid, ptype, nat, clients, "")
	}
	noPattern := strings.Contains(ver, "!")
	noNat := strings.Contains(ver, "~") && nat == ""
	ver = strings.NewReplacer("!", "", "~", "").Replace(ver)
	m := []struct {
		k string
		v interface{}
	}{{"Sid", sid}, {"Version", ver}, {"Type", ptype}}
	if !noNat {
		m = append(m, struct {
			k string
			v interface{}
		}{"NAT", nat})
	}
	m = append(m, struct {
		k string
		v interface{}
	}{"Clients", clients})
	if !noPattern {
		m = append(m, struct {
			k string
			v interface{}
		}{"AcceptedRelayPattern", ""})
	}
	var sb bytes.Buffer
	sb.WriteByte('{')
	for n, kv := range m {
		if n > 0 {
			sb.WriteByte(',')
		}
		kb, _ := json.Marshal(kv.k)
		vb, err := json.Marshal(kv.v)
		if err != nil {
			return nil, err
		}
		sb.Write(kb)
		sb.WriteByte(':')
		sb.Write(vb)
	}
	sb.WriteByte('}')
	return sb.Bytes(), nil
}

func vbDoPoll(i *IPC, sid, nat, ptype string, clients int, ver string) (string, bool) {
	b, err := vbPollBody(sid, nat, ptype, clients, ver)
	if err != nil {
		return "err:encode", false
	}
	rec := httptest.NewRecorder()
	r := httptest.NewRequest("POST", "/proxy", bytes.NewReader(b))
	r.RemoteAddr = "192.0.2.77:4444"
	SnowflakeHandler{i, proxyPolls}.ServeHTTP(rec, r)
	if rec.Code != 200 {
		return "http:" + strconv.Itoa(rec.Code), false
	}
	offer, cnat, relay, err := messages.DecodePollResponseWithRelayURL(rec.Body.Bytes())
	if err != nil {
		return "err:" + strings.ReplaceAll(err.Error(), " ", "_"), false
	}
	if offer == "" {
		return "nomatch", false
	}
	return "match:" + offer + ":" + cnat + ":" + relay, true
}

// Answers are opaque byte strings to the broker. In a scenario line an answer (and in the result line an answer a client
// received) that contains a byte the line format cannot carry (white space, control bytes, ',', ':', '@', non-ASCII) or
// that starts with '~' is written "~<hex>"; every other answer is written as it is. The form is canonical: equal
// strings iff equal bytes.
func vbEscAnswer(s string) string {
	plain := !strings.HasPrefix(s, "~")
	for k := 0; k < len(s) && plain; k++ {
		c := s[k]
		if c <= 0x20 || c >= 0x7f || c == ',' || c == ':' || c == '@' {
			plain = false
		}
	}
	if plain {
		return s
	}
	return "~" + hex.EncodeToString([]byte(s))
}

func vbUnescAnswer(s string) string {
	if strings.HasPrefix(s, "~") {
		if b, err := hex.DecodeString(s[1:]); err == nil {
			return string(b)
		}
	}
	return s
}

func vbDoAnswer(i *IPC, sid, answer string) string {
	answer = vbUnescAnswer(answer)
	b, err := messages.EncodeAnswerRequest(answer, sid)
	if err != nil {
		return "err:encode"
	}
	rec := httptest.NewRecorder()
	r := httptest.NewRequest("POST", "/answer", bytes.NewReader(b))
	SnowflakeHandler{i, proxyAnswers}.ServeHTTP(rec, r)
	if rec.Code != 200 {
		return "http:" + strconv.Itoa(rec.Code)
	}
	ok, err := messages.DecodeAnswerResponse(rec.Body.Bytes())
	if err != nil {
		return "err:decode"
	}
	if ok {
		return "ok"
	}
	return "fail"
}

func vbInstall(ctx *BrokerContext, list string, sep string) (string, error) {
	first := "-"
	var sb strings.Builder
	if list != "-" {
		for n, b := range strings.Split(list, sep) {
			kv := strings.SplitN(b, "=", 2)
			if n == 0 {
				first = kv[0]
			}
			fmt.Fprintf(&sb, "{\"displayName\":\"b\", \"webSocketAddress\":%q, \"fingerprint\":%q}\n", kv[1], kv[0])
		}
	}
	return first, ctx.InstallBridgeListProfile(strings.NewReader(sb.String()), "", "")
}

func vbRunScenario(args []string) string {
	if len(args) < 3 || args[0] != "scen" {
		return "!badcase"
	}
	ctx := NewBrokerContext(log.New(io.Discard, "", 0))
	freshFp := "-" // the fresh clients at the end name a bridge that is in the installed list
	var freshMu sync.Mutex
	if args[1] != "-" {
		fp, err := vbInstall(ctx, args[1], ",")
		if err != nil {
			return "!bridges:" + err.Error()
		}
		freshFp = fp
	}
	go ctx.Broker()
	i := &IPC{ctx}
	evs := vbParseEvents(args[2])
	watchdog := 26000
	var mu sync.Mutex
	results := map[string]string{}
	pollDone := map[int]chan bool{}
	for _, e := range evs {
		if e.kind == 'P' {
			pollDone[e.k] = make(chan bool, 1)
		}
		if e.kind == 'W' {
			watchdog, _ = strconv.Atoi(e.f[0])
		}
	}
	set := func(k, v string) { mu.Lock(); results[k] = v; mu.Unlock() }
	times := map[string][]int64{}
	stamp := func(k string, slot int, t time.Time, start time.Time) {
		mu.Lock()
		v := times[k]
		if v == nil {
			v = []int64{-1, -1, -1}
			times[k] = v
		}
		if v[slot] < 0 {
			v[slot] = t.Sub(start).Milliseconds()
		}
		mu.Unlock()
	}
	// Sequenced mode (event Q): an event scheduled at time t is not launched before the effects of the events
	// scheduled at least 100 ms earlier have taken place (poll registered; poll expired when its 10 s are over;
	// client refused or its offer returned by a poll; answer / installation returned), so that a loaded machine cannot
	// reorder well-separated events. Herds do not use it.
	sequenced := false
	var bar *vbBarrier
	for _, e := range evs {
		if e.kind == 'Q' {
			sequenced = true
		}
		if e.kind == 'D' {
			n, _ := strconv.Atoi(e.f[0])
			bar = &vbBarrier{n: n, ch: make(chan struct{})}
		}
	}
	type evState struct {
		arrived  time.Time
		returned bool
	}
	states := map[string]*evState{}
	var stMu sync.Mutex
	mark := func(key string, ret bool) {
		stMu.Lock()
		st := states[key]
		if st == nil {
			st = &evState{}
			states[key] = st
		}
		if ret {
			st.returned = true
		} else {
			st.arrived = time.Now()
		}
		stMu.Unlock()
	}
	get := func(key string) evState {
		stMu.Lock()
		defer stMu.Unlock()
		if st := states[key]; st != nil {
			return *st
		}
		return evState{}
	}
	deliveredOffers := map[string]bool{}
	delivered := func(offer string) bool {
		stMu.Lock()
		defer stMu.Unlock()
		return deliveredOffers[offer]
	}
	// "registered" is per poll EVENT: the id map holds, under the event's session id, a record other than the one it
	// held when the event was launched (nil for a fresh id) - a repeated poll under an id that is still registered
	// counts as registered once ITS record is in the map. If the implementation never files a second record for a
	// repeated id the gate gives up after its deadline.
	prevRec := map[string]*Snowflake{}
	launched := map[string]bool{}
	current := func(sid string) *Snowflake {
		ctx.snowflakeLock.Lock()
		s := ctx.idToSnowflake[sid]
		ctx.snowflakeLock.Unlock()
		return s
	}
	noteLaunch := func(key, sid string) {
		cur := current(sid)
		stMu.Lock()
		prevRec[key] = cur
		launched[key] = true
		stMu.Unlock()
	}
	registered := func(key, sid string) bool {
		stMu.Lock()
		prev, ok := prevRec[key], launched[key]
		stMu.Unlock()
		if !ok {
			return false
		}
		cur := current(sid)
		return cur != nil && cur != prev
	}
	// set by the poll's own watcher goroutine (below) once it has seen the registration: the gate must not take the
	// matching lock itself (an L event may hold it, and the gated event may be meant to queue behind it)
	regSeen := map[string]bool{}
	sawRegistered := func(key string) bool {
		stMu.Lock()
		defer stMu.Unlock()
		return regSeen[key]
	}
	gate := func(e vbEvent) {
		if !sequenced || e.isRel {
			return
		}
		deadline := time.Now().Add(6 * time.Second)
		for _, p := range evs {
			if p.isRel || p.kind == 'W' || p.kind == 'Q' || p.kind == 'D' || p.kind == 'L' || p.at+100 > e.at || (p.kind == e.kind && p.k == e.k) {
				continue
			}
			key := fmt.Sprintf("%c%d", p.kind, p.k)
			for time.Now().Before(deadline) {
				st := get(key)
				ok := false
				switch p.kind {
				case 'P':
					ok = st.returned || (!st.arrived.IsZero() && sawRegistered(key))
					if ok && p.at+10000+100 <= e.at && !st.returned {
						// its 10 s are over: it must have expired or been matched (then it has returned too)
						ok = false
					}
				case 'C':
					// its matchSnowflake has taken place once it has returned (refused) or a poll has returned its offer
					ok = st.returned || delivered(p.f[2])
				default:
					ok = st.returned
				}
				if ok {
					break
				}
				time.Sleep(3 * time.Millisecond)
			}
		}
	}
	start := time.Now()
	var wg sync.WaitGroup
	for _, e := range evs {
		e := e
		key := fmt.Sprintf("%c%d", e.kind, e.k)
		if e.kind == 'W' || e.kind == 'Q' || e.kind == 'D' {
			continue
		}
		set(key, "blocked")
		wg.Add(1)
		go func() {
			defer wg.Done()
			defer func() {
				if r := recover(); r != nil {
					set(key, "panic:"+strings.ReplaceAll(fmt.Sprint(r), " ", "_"))
				}
			}()
			if e.isRel {
				select {
				case got := <-pollDone[e.relTo]:
					pollDone[e.relTo] <- got
					if !got {
						set(key, "skipped")
						return
					}
				case <-time.After(time.Duration(watchdog) * time.Millisecond):
					set(key, "skipped")
					return
				}
				time.Sleep(time.Duration(e.relDt) * time.Millisecond)
			} else {
				time.Sleep(time.Until(start.Add(time.Duration(e.at) * time.Millisecond)))
				gate(e)
			}
			mark(key, false)
			defer mark(key, true)
			switch e.kind {
			case 'P':
				cl, _ := strconv.Atoi(e.f[3])
				ver := ""
				if len(e.f) > 4 {
					ver = e.f[4]
				}
				noteLaunch(key, e.f[0])
				stamp("t"+key, 0, time.Now(), start)
				stop := make(chan struct{})
				go func() {
					for {
						if registered(key, e.f[0]) {
							stamp("t"+key, 1, time.Now(), start)
							stMu.Lock()
							regSeen[key] = true
							stMu.Unlock()
							return
						}
						select {
						case <-stop:
							return
						case <-time.After(time.Millisecond):
						}
					}
				}()
				res, got := vbDoPoll(i, e.f[0], e.f[1], e.f[2], cl, ver)
				close(stop)
				stamp("t"+key, 2, time.Now(), start)
				set(key, res)
				if got {
					if f := strings.SplitN(res, ":", 3); len(f) == 3 {
						stMu.Lock()
						deliveredOffers[f[1]] = true
						stMu.Unlock()
					}
				}
				mark(key, true)
				pollDone[e.k] <- got
			case 'C':
				stamp("t"+key, 0, time.Now(), start)
				res := vbDoClientW(i, e.f[0], e.f[1], e.f[2], e.f[3], bar)
				stamp("t"+key, 2, time.Now(), start)
				set(key, res)
			case 'A':
				set(key, vbDoAnswer(i, e.f[0], e.f[1]))
			case 'I':
				fp, err := vbInstall(ctx, strings.Join(e.f, ":"), ";")
				if err != nil {
					set(key, "err:"+strings.ReplaceAll(err.Error(), " ", "_"))
				} else {
					freshMu.Lock()
					freshFp = fp
					freshMu.Unlock()
					set(key, "installed")
				}
			case 'J':
				text, err := hex.DecodeString(e.f[0])
				if err == nil {
					err = ctx.InstallBridgeListProfile(bytes.NewReader(text), "", "")
				}
				if err != nil {
					set(key, "err:"+strings.ReplaceAll(err.Error(), " ", "_"))
				} else {
					set(key, "installed")
				}
			case 'H':
				workers, _ := strconv.Atoi(e.f[0])
				d, _ := strconv.Atoi(e.f[1])
				until := time.Now().Add(time.Duration(d) * time.Millisecond)
				var hw sync.WaitGroup
				var hmu sync.Mutex
				denied, other := 0, ""
				for w := 0; w < workers; w++ {
					hw.Add(1)
					go func() {
						defer hw.Done()
						for time.Now().Before(until) {
							r := vbDoClient(i, "unrestricted", "-", "{hammer}", "v")
							hmu.Lock()
							if r == "noproxies" {
								denied++
							} else if other == "" {
								other = r
							}
							hmu.Unlock()
						}
					}()
				}
				hw.Wait()
				if other != "" {
					set(key, "other:"+other)
				} else {
					set(key, "denied:"+strconv.Itoa(denied))
				}
			case 'L':
				d, _ := strconv.Atoi(e.f[0])
				ctx.snowflakeLock.Lock()
				time.Sleep(time.Duration(d) * time.Millisecond)
				ctx.snowflakeLock.Unlock()
				set(key, "held")
			}
		}()
	}
	done := make(chan struct{})
	go func() { wg.Wait(); close(done) }()
	select {
	case <-done:
	case <-time.After(time.Until(start.Add(time.Duration(watchdog) * time.Millisecond))):
	}
	// final observation; the lock is taken with a timeout so that a leaked lock shows as such
	avail, hu, hr := -1, -1, -1
	lk := make(chan struct{})
	go func() {
		ctx.snowflakeLock.Lock()
		avail = len(ctx.idToSnowflake)
		hu = ctx.snowflakes.Len()
		hr = ctx.restrictedSnowflakes.Len()
		ctx.snowflakeLock.Unlock()
		close(lk)
	}()
	select {
	case <-lk:
	case <-time.After(2 * time.Second):
	}
	fresh := func(nat string) string {
		ch := make(chan string, 1)
		freshMu.Lock()
		ffp := freshFp
		freshMu.Unlock()
		go func() { ch <- vbDoClient(i, nat, ffp, "{fresh}", "v") }()
		select {
		case r := <-ch:
			return r
		case <-time.After(1500 * time.Millisecond):
			return "blocked"
		}
	}
	mu.Lock()
	keys := make([]string, 0, len(results))
	for k := range results {
		keys = append(keys, k)
	}
	sort.Strings(keys)
	var out []string
	for _, k := range keys {
		out = append(out, k+"="+results[k])
	}
	tkeys := make([]string, 0, len(times))
	for k := range times {
		tkeys = append(tkeys, k)
	}
	sort.Strings(tkeys)
	for _, k := range tkeys {
		v := times[k]
		if k[1] == 'P' {
			out = append(out, fmt.Sprintf("%s=%d:%d:%d", k, v[0], v[1], v[2]))
		} else {
			out = append(out, fmt.Sprintf("%s=%d:%d", k, v[0], v[2]))
		}
	}
	mu.Unlock()
	out = append(out, fmt.Sprintf("avail=%d heapU=%d heapR=%d gauge=%d", avail, hu, hr, vbGaugeSum(ctx)))
	// fresh clients only make sense (and are harmless) when nothing is waiting
	if hu == 0 && hr == 0 {
		out = append(out, "freshR="+fresh("restricted"), "freshU="+fresh("unrestricted"))
	}
	return strings.Join(out, " ")
}

// "broker heap <ops>": scripted operations on a real SnowflakeHeap through container/heap, guarded as the broker
// guards them (Pop: Len() > 0; Remove/Fix: a valid index).
//   ops: comma list of  u:<id>:<clients>:<proxyType>  heap.Push of a new Snowflake
//                       o                            heap.Pop
//                       r:<i>                        heap.Remove(h, i)
//                       f:<i>:<clients>              (*h)[i].clients = clients; heap.Fix(h, i)
// Output, one segment per op:  <id handed back|->/<slice: id:clients:index . ...>/<left the heap: id:index . ...>
func vbRunHeap(ops string) string {
	h := new(SnowflakeHeap)
	heap.Init(h)
	var left []*Snowflake
	var segs []string
	if ops == "-" {
		return ""
	}
	for _, op := range strings.Split(ops, ",") {
		f := strings.Split(op, ":")
		ret := "-"
		switch f[0] {
		case "u":
			s := new(Snowflake)
			s.id = f[1]
			s.clients, _ = strconv.Atoi(f[2])
			s.proxyType = f[3]
			s.natType = NATUnrestricted
			heap.Push(h, s)
		case "o":
			if h.Len() > 0 {
				s := heap.Pop(h).(*Snowflake)
				ret = s.id
				left = append(left, s)
			}
		case "r":
			i, _ := strconv.Atoi(f[1])
			if i < h.Len() {
				s := heap.Remove(h, i).(*Snowflake)
				ret = s.id
				left = append(left, s)
			}
		case "f":
			i, _ := strconv.Atoi(f[1])
			if i < h.Len() {
				(*h)[i].clients, _ = strconv.Atoi(f[2])
				heap.Fix(h, i)
			}
		default:
			return "!badcase"
		}
		var arr, out []string
		for _, s := range *h {
			arr = append(arr, fmt.Sprintf("%s:%d:%d", s.id, s.clients, s.index))
		}
		for _, s := range left {
			out = append(out, fmt.Sprintf("%s:%d", s.id, s.index))
		}
		a, o := "-", "-"
		if len(arr) > 0 {
			a = strings.Join(arr, ".")
		}
		if len(out) > 0 {
			o = strings.Join(out, ".")
		}
		segs = append(segs, ret+"/"+a+"/"+o)
	}
	return strings.Join(segs, " ")
}

// "broker bload <hex of file text>": the text through LoadBridgeInfo of a fresh holder that already holds one bridge
// (so that a failed load is seen to leave the old map alone). Output: "ok <FP>=<url>;..." sorted by fingerprint
// ("ok -" for an empty map) or "err" (then the old map must still be there, else "err-map-changed").
func vbRunBload(hx string) string {
	text, err := hex.DecodeString(hx)
	if hx == "-" {
		text, err = nil, nil
	}
	if err != nil {
		return "!badcase"
	}
	h := NewBridgeListHolder()
	const oldFp, oldURL = "0123456789ABCDEF0123456789ABCDEF01234567", "wss://old.example/"
	if err := h.LoadBridgeInfo(strings.NewReader(fmt.Sprintf("{\"displayName\":\"old\", \"webSocketAddress\":%q, \"fingerprint\":%q}\n", oldURL, oldFp))); err != nil {
		return "!preload"
	}
	lerr := h.LoadBridgeInfo(bytes.NewReader(text))
	m := h.(*bridgeListHolder)
	m.accessBridgeInfo.RLock()
	defer m.accessBridgeInfo.RUnlock()
	var items []string
	for fp, info := range m.bridgeInfo {
		items = append(items, strings.ToUpper(hex.EncodeToString(fp.ToBytes()))+"="+info.WebSocketAddress)
	}
	sort.Strings(items)
	if lerr != nil {
		if len(items) != 1 || items[0] != oldFp+"="+oldURL {
			return "err-map-changed"
		}
		return "err"
	}
	if len(items) == 0 {
		return "ok -"
	}
	return "ok " + strings.Join(items, ";")
}

// "broker burst <n> <limit ms>": n idle proxy polls at the same time through the /proxy handler against one broker; no
// client ever comes, so every poll must be answered "no match" when its ProxyTimeout (10 s) is over.
// Output: n= done= nomatch= other= late=<polls not answered within the limit> maxms=<latest answer> avail= heapU= heapR= gauge=
func vbRunBurst(args []string) string {
	if len(args) != 2 {
		return "!badcase"
	}
	n, _ := strconv.Atoi(args[0])
	limit, _ := strconv.Atoi(args[1])
	ctx := NewBrokerContext(log.New(io.Discard, "", 0))
	go ctx.Broker()
	i := &IPC{ctx}
	nats := []string{"unrestricted", "restricted", "unknown"}
	var mu sync.Mutex
	done, nomatch, other := 0, 0, 0
	var maxms int64
	start := time.Now()
	var wg sync.WaitGroup
	for j := 0; j < n; j++ {
		j := j
		wg.Add(1)
		go func() {
			defer wg.Done()
			defer func() { recover() }()
			r, _ := vbDoPoll(i, fmt.Sprintf("burst%d", j), nats[j%3], "standalone", j%5, "")
			ms := time.Since(start).Milliseconds()
			mu.Lock()
			done++
			if r == "nomatch" {
				nomatch++
			} else {
				other++
			}
			if ms > maxms {
				maxms = ms
			}
			mu.Unlock()
		}()
	}
	fin := make(chan struct{})
	go func() { wg.Wait(); close(fin) }()
	select {
	case <-fin:
	case <-time.After(time.Until(start.Add(time.Duration(limit) * time.Millisecond))):
	}
	mu.Lock()
	out := fmt.Sprintf("n=%d done=%d nomatch=%d other=%d late=%d maxms=%d", n, done, nomatch, other, n-done, maxms)
	mu.Unlock()
	avail, hu, hr := -1, -1, -1
	lk := make(chan struct{})
	go func() {
		ctx.snowflakeLock.Lock()
		avail = len(ctx.idToSnowflake)
		hu = ctx.snowflakes.Len()
		hr = ctx.restrictedSnowflakes.Len()
		ctx.snowflakeLock.Unlock()
		close(lk)
	}()
	select {
	case <-lk:
	case <-time.After(2 * time.Second):
	}
	return out + fmt.Sprintf(" avail=%d heapU=%d heapR=%d gauge=%d", avail, hu, hr, vbGaugeSum(ctx))
}

func TestVerifBrokerDriver(t *testing.T) {
	if os.Getenv("VERIF_DRIVER") != "broker" {
		t.Skip("driver mode off")
	}
	log.SetOutput(io.Discard)
	sc := bufio.NewScanner(os.Stdin)
	sc.Buffer(make([]byte, 1<<20), 1<<26)
	var lines []string
	for sc.Scan() {
		lines = append(lines, sc.Text())
	}
	res := make([]string, len(lines))
	sem := make(chan struct{}, 256)
	var wg sync.WaitGroup
	for idx, line := range lines {
		idx, line := idx, line
		wg.Add(1)
		sem <- struct{}{}
		go func() {
			defer wg.Done()
			defer func() { <-sem }()
			args := strings.Split(line, " ")
			if len(args) == 3 && (args[1] == "heap" || args[1] == "heapz") {
				res[idx] = vbRunHeap(args[2])
				return
			}
			if len(args) == 3 && args[1] == "bload" {
				res[idx] = vbRunBload(args[2])
				return
			}
			if len(args) == 4 && args[1] == "burst" {
				res[idx] = vbRunBurst(args[2:])
				return
			}
			res[idx] = vbRunScenario(args[1:])
		}()
	}
	wg.Wait()
	w := bufio.NewWriter(os.Stdout)
	for _, r := range res {
		w.WriteString(r)
		w.WriteByte('\n')
	}
	w.Flush()
	os.Exit(0)
}
