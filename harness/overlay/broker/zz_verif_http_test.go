//go:build verif

package main

// Raw-HTTP driver for C14: a real net/http server with the broker's routes (as in main()), one
// BrokerContext per driver run (no proxies are ever registered by these cases, so every request has an
// immediate outcome), raw requests over TCP, a follow-up request on the same connection.
//
//   brokerhttp req <raw request x-hex> <twin none|client|proxy|answer> <twin body x-hex> <nat header x-hex>
//   -> status=<n> body=x<hex> reuse=<ok|closed|bad:<n>> ms=<n> ipc=<ok|bad|internal|other|-> resp=x<hex> dec=<none|x<answer>:x<error>>

import (
	"bufio"
	"bytes"
	"encoding/hex"
	"errors"
	"fmt"
	"io"
	"log"
	"net"
	"net/http"
	"net/http/httptest"
	"os"
	"strings"
	"sync"
	"sync/atomic"
	"testing"
	"time"

	"git.torproject.org/pluggable-transports/snowflake.git/v2/common/amp"
	"git.torproject.org/pluggable-transports/snowflake.git/v2/common/messages"
	"github.com/prometheus/client_golang/prometheus/promhttp"
)

func vhMux(ctx *BrokerContext) *http.ServeMux {
	i := &IPC{ctx}
	mux := http.NewServeMux()
	mux.HandleFunc("/robots.txt", robotsTxtHandler)
	mux.Handle("/proxy", SnowflakeHandler{i, proxyPolls})
	mux.Handle("/client", SnowflakeHandler{i, clientOffers})
	mux.Handle("/answer", SnowflakeHandler{i, proxyAnswers})
	mux.Handle("/debug", SnowflakeHandler{i, debugHandler})
	mux.Handle("/metrics", MetricsHandler{"", metricsHandler})
	mux.Handle("/prometheus", promhttp.HandlerFor(ctx.metrics.promMetrics.registry, promhttp.HandlerOpts{}))
	mux.Handle("/amp/client/", SnowflakeHandler{i, ampClientOffers})
	return mux
}

func vhHex(s string) []byte {
	b, err := hex.DecodeString(strings.TrimPrefix(s, "x"))
	if err != nil {
		panic(err)
	}
	return b
}

func vhIpcClass(err error) string {
	switch {
	case err == nil:
		return "ok"
	case errors.Is(err, messages.ErrBadRequest):
		return "bad"
	case errors.Is(err, messages.ErrInternal):
		return "internal"
	}
	return "other"
}

var vhNoResponse int32 // requests that got no response so far; the batch is cut short once the server is clearly wedged

func vhOne(addr string, i *IPC, args []string) string {
	if len(args) < 5 || args[0] != "req" {
		return "!badcase"
	}
	if atomic.LoadInt32(&vhNoResponse) >= 24 {
		return "status=0 body=x reuse=noresponse ms=0 ipc=- resp=x dec=none"
	}
	raw := vhHex(args[1])
	start := time.Now()
	conn, err := net.DialTimeout("tcp", addr, 5*time.Second)
	if err != nil {
		return "!dial"
	}
	defer conn.Close()
	conn.SetDeadline(time.Now().Add(12 * time.Second))
	go func() { conn.Write(raw) }()
	br := bufio.NewReader(conn)
	method := "GET"
	if sp := bytes.IndexByte(raw, ' '); sp > 0 {
		method = string(raw[:sp])
	}
	resp, err := http.ReadResponse(br, &http.Request{Method: method})
	status, body, reuse := 0, []byte(nil), "closed"
	if err != nil {
		reuse = "noresponse"
		atomic.AddInt32(&vhNoResponse, 1)
	} else {
		status = resp.StatusCode
		body, err = io.ReadAll(resp.Body)
		resp.Body.Close()
		if err != nil {
			reuse = "badbody"
		} else if !resp.Close {
			// the same connection must serve a following well-formed request
			fmt.Fprintf(conn, "GET /robots.txt HTTP/1.1\r\nHost: x\r\n\r\n")
			r2, err := http.ReadResponse(br, &http.Request{Method: "GET"})
			if err != nil {
				reuse = "closed"
			} else {
				io.Copy(io.Discard, r2.Body)
				r2.Body.Close()
				if r2.StatusCode == 200 {
					reuse = "ok"
				} else {
					reuse = fmt.Sprintf("bad:%d", r2.StatusCode)
				}
			}
		} else {
			reuse = "closehdr"
		}
	}
	ms := time.Since(start).Milliseconds()
	if status == 200 && strings.Contains(string(raw[:min(len(raw), 40)]), "/amp/client/") {
		if dec, err := amp.NewArmorDecoder(bytes.NewReader(body)); err == nil {
			if d, err := io.ReadAll(dec); err == nil {
				body = d
			} else {
				body = []byte("!armor")
			}
		} else {
			body = []byte("!armor")
		}
	}
	ipc, respHex, dec := "-", "x", "none"
	if args[2] != "none" && atomic.LoadInt32(&vhNoResponse) < 24 {
		twin := vhHex(args[3])
		type ipcOut struct {
			response []byte
			err      error
		}
		ch := make(chan ipcOut, 1)
		go func() {
			var response []byte
			var err error
			switch args[2] {
			case "client":
				err = i.ClientOffers(messages.Arg{Body: twin, RemoteAddr: ""}, &response)
			case "proxy":
				err = i.ProxyPolls(messages.Arg{Body: twin, RemoteAddr: "192.0.2.9:1"}, &response)
			case "answer":
				err = i.ProxyAnswers(messages.Arg{Body: twin, RemoteAddr: ""}, &response)
			}
			ch <- ipcOut{response, err}
		}()
		select {
		case o := <-ch:
			ipc = vhIpcClass(o.err)
			if o.err == nil {
				respHex = "x" + hex.EncodeToString(o.response)
				if args[2] == "client" {
					if r, derr := messages.DecodeClientPollResponse(o.response); derr == nil {
						dec = "x" + hex.EncodeToString([]byte(r.Answer)) + ":x" + hex.EncodeToString([]byte(r.Error))
					}
				}
			}
		case <-time.After(10 * time.Second):
			ipc = "blocked"
			atomic.AddInt32(&vhNoResponse, 1)
		}
	}
	if len(body) > 4096 {
		body = body[:4096]
	}
	return fmt.Sprintf("status=%d body=x%s reuse=%s ms=%d ipc=%s resp=%s dec=%s", status, hex.EncodeToString(body), reuse, ms, ipc, respHex, dec)
}

func min(a, b int) int {
	if a < b {
		return a
	}
	return b
}

func TestVerifHttpDriver(t *testing.T) {
	if os.Getenv("VERIF_DRIVER") != "brokerhttp" {
		t.Skip("driver mode off")
	}
	log.SetOutput(io.Discard)
	ctx := NewBrokerContext(log.New(io.Discard, "", 0))
	// an allowed relay pattern, so that proxy polls with a narrower pattern take the rejection path
	if err := ctx.InstallBridgeListProfile(strings.NewReader(
		`{"displayName":"default", "webSocketAddress":"wss://snowflake.torproject.net/", "fingerprint":"2B280B23E1107BB62ABFC40DDCC8824814F80A72"}`+"\n"),
		"snowflake.torproject.net$", "snowflake.torproject.net$"); err != nil {
		t.Fatal(err)
	}
	go ctx.Broker()
	srv := httptest.NewUnstartedServer(vhMux(ctx))
	srv.Config.ErrorLog = log.New(io.Discard, "", 0)
	srv.Start()
	defer srv.Close()
	addr := srv.Listener.Addr().String()
	i := &IPC{ctx}
	sc := bufio.NewScanner(os.Stdin)
	sc.Buffer(make([]byte, 1<<20), 1<<26)
	var lines []string
	for sc.Scan() {
		lines = append(lines, sc.Text())
	}
	res := make([]string, len(lines))
	sem := make(chan struct{}, 32)
	var wg sync.WaitGroup
	for idx, line := range lines {
		idx, line := idx, line
		wg.Add(1)
		sem <- struct{}{}
		go func() {
			defer wg.Done()
			defer func() { <-sem }()
			defer func() {
				if r := recover(); r != nil {
					res[idx] = "!panic " + strings.ReplaceAll(fmt.Sprint(r), "\n", " ")
				}
			}()
			res[idx] = vhOne(addr, i, strings.Split(line, " ")[1:])
		}()
	}
	wg.Wait()
	// liveness after everything: the server still answers
	alive := "dead"
	if r, err := (&http.Client{Timeout: 10 * time.Second}).Get("http://" + addr + "/debug"); err == nil {
		io.Copy(io.Discard, r.Body)
		r.Body.Close()
		if r.StatusCode == 200 {
			alive = "alive"
		}
	}
	w := bufio.NewWriter(os.Stdout)
	for _, r := range res {
		w.WriteString(r + " srv=" + alive + "\n")
	}
	w.Flush()
	os.Exit(0)
}
