//go:build verif

package main

// Raw-HTTP driver for C14: a real net/http server with the broker's routes (as in main()), one
// BrokerContext per driver run (no proxies are ever registered by these cases, so every request has an
// immediate outcome), raw requests over TCP, a follow-up request on the same connection.
//
//   brokerhttp req <raw request x-hex> <twin none|client|proxy|answer> <twin body x-hex> <nat header x-hex>
//   -> status=<n> body=x<hex> reuse=<ok|closed|bad:<n>> ms=<n> ipc=<ok|bad|internal|other|-> resp=x<hex> dec=<none|x<answer>:x<error>> cors=<0|1> nat=x<hex>|!
//      (cors: Access-Control-Allow-Origin "*" present; nat: r.Header.Get("Snowflake-NAT-Type") of the request as net/http parses it)
//   brokerhttp direct <amp|metrics> <method x> <urlpath x> <body x> <metrics n|x..> <twin none|client> <twin body x>
//   -> status=<n> body=x<hex> cors=<0|1> ipc=.. resp=.. dec=..   (the handler called in-package: a URL.Path the mux does not let through / another metrics file)
//   brokerhttp debugview <ptype:nat,...|->      -> x<hex of GET /debug on a broker with exactly these registered proxies>
//   brokerhttp hdrget <k:v,...|-> <key x>       -> x<hex of Header.Get(key) of a request with these header lines>
//   brokerhttp twinenc <legacy body x|g> <nat x>  -> len=<n> twin=x<hex>: the versioned body clientOffers shims this legacy body into
//       (messages.ClientPollRequest{Offer: body, NAT: nat}.EncodeClientPollRequest(), as in broker/http.go)
//   brokerhttp seq <event;event;...>            -> one result per event, on a fresh broker and server, strictly one after the other
//       P:<sid x>:<ptype x>:<nat x>   a proxy poll over TCP left waiting (it answers "ANS:"+offer when matched); result P=ok once registered
//       R:<raw request x>             result R=<status>,<cors>,x<body (armor-decoded for /amp/client/)>  or R=noresponse
//   brokerhttp duppoll <pending|matched|expired> <sid x> <nat x>
//       the same /proxy request POSTed again over TCP (fresh broker and server) while the first poll with that session id is
//       pending (two repeats) / has been handed a client's offer and that client still waits / has just been answered
//       "no match"; every request is given 16 s from the moment it was sent
//   -> polls=<status>:<match|nomatch|other|->:<ms>,...  client=<status>:<ms>|-   (status 0 = no complete response)

import (
	"bufio"
	"bytes"
	"encoding/hex"
	"errors"
	"fmt"
	"io"
	"log"
	"net"
	"net/http"
	"net/http/httptest"
	"os"
	"strings"
	"sync"
	"sync/atomic"
	"testing"
	"time"

	"git.torproject.org/pluggable-transports/snowflake.git/v2/common/amp"
	"git.torproject.org/pluggable-transports/snowflake.git/v2/common/messages"
	"git.torproject.org/pluggable-transports/snowflake.git/v2/zz_verif/wire"
	"github.com/prometheus/client_golang/prometheus/promhttp"
)

func vhMux(ctx *BrokerContext, metricsFile string) *http.ServeMux {
	i := &IPC{ctx}
	mux := http.NewServeMux()
	mux.HandleFunc("/robots.txt", robotsTxtHandler)
	mux.Handle("/proxy", SnowflakeHandler{i, proxyPolls})
	mux.Handle("/client", SnowflakeHandler{i, clientOffers})
	mux.Handle("/answer", SnowflakeHandler{i, proxyAnswers})
	mux.Handle("/debug", SnowflakeHandler{i, debugHandler})
	mux.Handle("/metrics", MetricsHandler{metricsFile, metricsHandler})
	mux.Handle("/prometheus", promhttp.HandlerFor(ctx.metrics.promMetrics.registry, promhttp.HandlerOpts{}))
	mux.Handle("/amp/client/", SnowflakeHandler{i, ampClientOffers})
	return mux
}

func vhHex(s string) []byte {
	if strings.HasPrefix(s, "g") {
		b, err := wire.Payload(s)
		if err != nil {
			panic(err)
		}
		return b
	}
	b, err := hex.DecodeString(strings.TrimPrefix(s, "x"))
	if err != nil {
		panic(err)
	}
	return b
}

func vhIpcClass(err error) string {
	switch {
	case err == nil:
		return "ok"
	case errors.Is(err, messages.ErrBadRequest):
		return "bad"
	case errors.Is(err, messages.ErrInternal):
		return "internal"
	}
	return "other"
}

var vhNoResponse int32 // requests that got no response so far; the batch is cut short once the server is clearly wedged

func vhOne(addr string, i *IPC, args []string) string {
	if len(args) < 5 || args[0] != "req" {
		return "!badcase"
	}
	if atomic.LoadInt32(&vhNoResponse) >= 24 {
		return "status=0 body=x reuse=noresponse ms=0 ipc=- resp=x dec=none"
	}
	raw := vhHex(args[1])
	start := time.Now()
	conn, err := net.DialTimeout("tcp", addr, 5*time.Second)
	if err != nil {
		return "!dial"
	}
	defer conn.Close()
	conn.SetDeadline(time.Now().Add(12 * time.Second))
	go func() { conn.Write(raw) }()
	br := bufio.NewReader(conn)
	method := "GET"
	if sp := bytes.IndexByte(raw, ' '); sp > 0 {
		method = string(raw[:sp])
	}
	resp, err := http.ReadResponse(br, &http.Request{Method: method})
	status, body, reuse := 0, []byte(nil), "closed"
	cors := "0"
	if err == nil && resp.Header.Get("Access-Control-Allow-Origin") == "*" {
		cors = "1"
	}
	if err != nil {
		reuse = "noresponse"
		atomic.AddInt32(&vhNoResponse, 1)
	} else {
		status = resp.StatusCode
		body, err = io.ReadAll(resp.Body)
		resp.Body.Close()
		if err != nil {
			reuse = "badbody"
		} else if !resp.Close {
			// the same connection must serve a following well-formed request
			fmt.Fprintf(conn, "GET /robots.txt HTTP/1.1\r\nHost: x\r\n\r\n")
			r2, err := http.ReadResponse(br, &http.Request{Method: "GET"})
			if err != nil {
				reuse = "closed"
			} else {
				io.Copy(io.Discard, r2.Body)
				r2.Body.Close()
				if r2.StatusCode == 200 {
					reuse = "ok"
				} else {
					reuse = fmt.Sprintf("bad:%d", r2.StatusCode)
				}
			}
		} else {
			reuse = "closehdr"
		}
	}
	ms := time.Since(start).Milliseconds()
	if status == 200 && len(body) > 0 && strings.Contains(string(raw[:min(len(raw), 40)]), "/amp/client/") {
		if dec, err := amp.NewArmorDecoder(bytes.NewReader(body)); err == nil {
			if d, err := io.ReadAll(dec); err == nil {
				body = d
			} else {
				body = []byte("!armor")
			}
		} else {
			body = []byte("!armor")
		}
	}
	ipc, respHex, dec := "-", "x", "none"
	if args[2] != "none" && atomic.LoadInt32(&vhNoResponse) < 24 {
		twin := vhHex(args[3])
		type ipcOut struct {
			response []byte
			err      error
		}
		ch := make(chan ipcOut, 1)
		go func() {
			var response []byte
			var err error
			// a body that makes the IPC function itself panic (the HTTP request has then been observed already:
			// noresponse) must not take the driver process down
			defer func() {
				if r := recover(); r != nil {
					ch <- ipcOut{nil, fmt.Errorf("verif: ipc panic")}
				}
			}()
			switch args[2] {
			case "client":
				err = i.ClientOffers(messages.Arg{Body: twin, RemoteAddr: ""}, &response)
			case "proxy":
				err = i.ProxyPolls(messages.Arg{Body: twin, RemoteAddr: "192.0.2.9:1"}, &response)
			case "answer":
				err = i.ProxyAnswers(messages.Arg{Body: twin, RemoteAddr: ""}, &response)
			}
			ch <- ipcOut{response, err}
		}()
		select {
		case o := <-ch:
			ipc = vhIpcClass(o.err)
			if o.err == nil {
				respHex = "x" + hex.EncodeToString(o.response)
				if args[2] == "client" {
					if r, derr := messages.DecodeClientPollResponse(o.response); derr == nil {
						dec = "x" + hex.EncodeToString([]byte(r.Answer)) + ":x" + hex.EncodeToString([]byte(r.Error))
					}
				}
			}
		case <-time.After(10 * time.Second):
			ipc = "blocked"
			atomic.AddInt32(&vhNoResponse, 1)
		}
	}
	if len(body) > 4096 {
		body = body[:4096]
	}
	nat := "!"
	if rq, err := http.ReadRequest(bufio.NewReader(bytes.NewReader(raw))); err == nil {
		nat = "x" + hex.EncodeToString([]byte(rq.Header.Get("Snowflake-NAT-Type")))
	}
	return fmt.Sprintf("status=%d body=x%s reuse=%s ms=%d ipc=%s resp=%s dec=%s cors=%s nat=%s", status, hex.EncodeToString(body), reuse, ms, ipc, respHex, dec, cors, nat)
}

func vhArmorDecode(body []byte) []byte {
	if dec, err := amp.NewArmorDecoder(bytes.NewReader(body)); err == nil {
		if d, err := io.ReadAll(dec); err == nil {
			return d
		}
	}
	return []byte("!armor")
}

// the IPC outcome of the twin body, as in vhOne (immediate outcomes only)
func vhTwin(i *IPC, kind string, twin []byte) (ipc, respHex, dec string) {
	ipc, respHex, dec = "-", "x", "none"
	if kind != "client" {
		return
	}
	var response []byte
	err := i.ClientOffers(messages.Arg{Body: twin, RemoteAddr: ""}, &response)
	ipc = vhIpcClass(err)
	if err == nil {
		respHex = "x" + hex.EncodeToString(response)
		if r, derr := messages.DecodeClientPollResponse(response); derr == nil {
			dec = "x" + hex.EncodeToString([]byte(r.Answer)) + ":x" + hex.EncodeToString([]byte(r.Error))
		}
	}
	return
}

var vhTmpDir string

func vhDirect(i *IPC, args []string) string {
	if len(args) < 8 {
		return "!badcase"
	}
	method, path, body := string(vhHex(args[2])), string(vhHex(args[3])), vhHex(args[4])
	w := httptest.NewRecorder()
	r, err := http.NewRequest(method, "http://broker.example/", bytes.NewReader(body))
	if err != nil {
		return "!badcase"
	}
	r.URL.Path = path
	switch args[1] {
	case "amp":
		SnowflakeHandler{i, ampClientOffers}.ServeHTTP(w, r)
	case "metrics":
		name := ""
		if args[5] != "n" {
			f, err := os.CreateTemp(vhTmpDir, "metrics")
			if err != nil {
				return "!tmp"
			}
			f.Write(vhHex(args[5]))
			f.Close()
			defer os.Remove(f.Name())
			name = f.Name()
		}
		MetricsHandler{name, metricsHandler}.ServeHTTP(w, r)
	default:
		return "!badcase"
	}
	out := w.Body.Bytes()
	if args[1] == "amp" && w.Code == 200 && len(out) > 0 {
		out = vhArmorDecode(out)
	}
	cors := "0"
	if w.Header().Get("Access-Control-Allow-Origin") == "*" {
		cors = "1"
	}
	ipc, respHex, dec := vhTwin(i, args[6], vhHex(args[7]))
	return fmt.Sprintf("status=%d body=x%s cors=%s ipc=%s resp=%s dec=%s", w.Code, hex.EncodeToString(out), cors, ipc, respHex, dec)
}

func vhTwinEnc(args []string) string {
	if len(args) < 3 {
		return "!badcase"
	}
	req := messages.ClientPollRequest{Offer: string(vhHex(args[1])), NAT: string(vhHex(args[2]))}
	b, err := req.EncodeClientPollRequest()
	if err != nil {
		return "!encode"
	}
	return fmt.Sprintf("len=%d twin=x%s", len(b), hex.EncodeToString(b))
}

func vhKVs(tok string) [][2]string {
	var out [][2]string
	if tok == "-" || tok == "" {
		return out
	}
	for _, it := range strings.Split(tok, ",") {
		kv := strings.SplitN(it, ":", 2)
		if len(kv) != 2 {
			panic("bad k:v list")
		}
		out = append(out, [2]string{string(vhHex(kv[0])), string(vhHex(kv[1]))})
	}
	return out
}

func vhDebugView(args []string) string {
	ctx := NewBrokerContext(log.New(io.Discard, "", 0))
	for k, kv := range vhKVs(args[1]) {
		ctx.AddSnowflake(fmt.Sprintf("sid-%d", k), kv[0], kv[1], 0)
	}
	w := httptest.NewRecorder()
	SnowflakeHandler{&IPC{ctx}, debugHandler}.ServeHTTP(w, httptest.NewRequest("GET", "http://broker.example/debug", nil))
	if w.Code != 200 {
		return fmt.Sprintf("!status%d", w.Code)
	}
	return "x" + hex.EncodeToString(w.Body.Bytes())
}

func vhHdrGet(args []string) string {
	var b bytes.Buffer
	b.WriteString("GET / HTTP/1.1\r\nHost: x\r\n")
	for _, kv := range vhKVs(args[1]) {
		b.WriteString(kv[0] + ":" + kv[1] + "\r\n")
	}
	b.WriteString("\r\n")
	rq, err := http.ReadRequest(bufio.NewReader(&b))
	if err != nil {
		return "!parse"
	}
	return "x" + hex.EncodeToString([]byte(rq.Header.Get(string(vhHex(args[2])))))
}

// one raw request on a fresh connection -> status, cors, body
func vhRaw(addr string, raw []byte) string {
	conn, err := net.DialTimeout("tcp", addr, 5*time.Second)
	if err != nil {
		return "R=noresponse"
	}
	defer conn.Close()
	conn.SetDeadline(time.Now().Add(15 * time.Second))
	go func() { conn.Write(raw) }()
	method := "GET"
	if sp := bytes.IndexByte(raw, ' '); sp > 0 {
		method = string(raw[:sp])
	}
	resp, err := http.ReadResponse(bufio.NewReader(conn), &http.Request{Method: method})
	if err != nil {
		return "R=noresponse"
	}
	body, err := io.ReadAll(resp.Body)
	resp.Body.Close()
	if err != nil {
		return "R=noresponse"
	}
	if resp.StatusCode == 200 && len(body) > 0 && bytes.Contains(raw[:min(len(raw), 40)], []byte("/amp/client/")) {
		body = vhArmorDecode(body)
	}
	cors := "0"
	if resp.Header.Get("Access-Control-Allow-Origin") == "*" {
		cors = "1"
	}
	if len(body) > 8192 {
		body = body[:8192]
	}
	return fmt.Sprintf("R=%d,%s,x%s", resp.StatusCode, cors, hex.EncodeToString(body))
}

func vhSeq(args []string, metricsFile string) string {
	ctx := NewBrokerContext(log.New(io.Discard, "", 0))
	go ctx.Broker()
	srv := httptest.NewUnstartedServer(vhMux(ctx, metricsFile))
	srv.Config.ErrorLog = log.New(io.Discard, "", 0)
	srv.Start()
	// not closed: proxy polls left waiting end with the process (Close would wait for them)
	addr := srv.Listener.Addr().String()
	var out []string
	for _, ev := range strings.Split(args[1], ";") {
		f := strings.Split(ev, ":")
		switch {
		case f[0] == "P" && len(f) == 4:
			sid := string(vhHex(f[1]))
			body, _ := messages.EncodeProxyPollRequest(sid, string(vhHex(f[2])), string(vhHex(f[3])), 0)
			go func() {
				resp, err := http.Post("http://"+addr+"/proxy", "application/json", bytes.NewReader(body))
				if err != nil {
					return
				}
				b, _ := io.ReadAll(resp.Body)
				resp.Body.Close()
				if offer, _, _, derr := messages.DecodePollResponseWithRelayURL(b); derr == nil && offer != "" {
					ab, _ := messages.EncodeAnswerRequest("ANS:"+offer, sid)
					if r2, err := http.Post("http://"+addr+"/answer", "application/json", bytes.NewReader(ab)); err == nil {
						io.Copy(io.Discard, r2.Body)
						r2.Body.Close()
					}
				}
			}()
			res := "P=timeout"
			for deadline := time.Now().Add(10 * time.Second); time.Now().Before(deadline); time.Sleep(200 * time.Microsecond) {
				ctx.snowflakeLock.Lock()
				_, ok := ctx.idToSnowflake[sid]
				ctx.snowflakeLock.Unlock()
				if ok {
					res = "P=ok"
					break
				}
			}
			out = append(out, res)
		case f[0] == "R" && len(f) == 2:
			out = append(out, vhRaw(addr, vhHex(f[1])))
		default:
			out = append(out, "!badevent")
		}
	}
	return strings.Join(out, ";")
}

// one POST over a raw TCP connection; the response must be complete within 16 s
func vhTimedPost(addr, path string, body []byte) (int, []byte, int64) {
	start := time.Now()
	conn, err := net.DialTimeout("tcp", addr, 5*time.Second)
	if err != nil {
		return 0, nil, time.Since(start).Milliseconds()
	}
	defer conn.Close()
	conn.SetDeadline(start.Add(16 * time.Second))
	fmt.Fprintf(conn, "POST %s HTTP/1.1\r\nHost: x\r\nContent-Length: %d\r\n\r\n", path, len(body))
	conn.Write(body)
	resp, err := http.ReadResponse(bufio.NewReader(conn), &http.Request{Method: "POST"})
	if err != nil {
		return 0, nil, time.Since(start).Milliseconds()
	}
	b, err := io.ReadAll(resp.Body)
	resp.Body.Close()
	if err != nil {
		return 0, nil, time.Since(start).Milliseconds()
	}
	return resp.StatusCode, b, time.Since(start).Milliseconds()
}

func vhDupPoll(args []string) string {
	if len(args) != 4 {
		return "!badcase"
	}
	mode, sid, nat := args[1], string(vhHex(args[2])), string(vhHex(args[3]))
	ctx := NewBrokerContext(log.New(io.Discard, "", 0))
	go ctx.Broker()
	srv := httptest.NewUnstartedServer(vhMux(ctx, ""))
	srv.Config.ErrorLog = log.New(io.Discard, "", 0)
	srv.Start()
	// not closed: a poll left hanging would make Close wait for ever
	addr := srv.Listener.Addr().String()
	body, _ := messages.EncodeProxyPollRequestWithRelayPrefix(sid, "standalone", nat, 0, "")
	var mu sync.Mutex
	var wg sync.WaitGroup
	polls := []string{}
	slot := func() int { mu.Lock(); polls = append(polls, "0:-:-1"); n := len(polls) - 1; mu.Unlock(); return n }
	firstDone := make(chan string, 1)
	poll := func(n int, first bool) {
		defer wg.Done()
		st, b, ms := vhTimedPost(addr, "/proxy", body)
		class := "-"
		if st == 200 {
			class = "other"
			if offer, _, _, err := messages.DecodePollResponseWithRelayURL(b); err == nil {
				if offer == "" {
					class = "nomatch"
				} else {
					class = "match"
				}
			}
		}
		mu.Lock()
		polls[n] = fmt.Sprintf("%d:%s:%d", st, class, ms)
		mu.Unlock()
		if first {
			firstDone <- class
		}
	}
	current := func() *Snowflake {
		ctx.snowflakeLock.Lock()
		defer ctx.snowflakeLock.Unlock()
		return ctx.idToSnowflake[sid]
	}
	// wait (bounded) until the id map holds a record other than prev under the session id
	waitNew := func(prev *Snowflake) *Snowflake {
		for deadline := time.Now().Add(6 * time.Second); time.Now().Before(deadline); time.Sleep(500 * time.Microsecond) {
			if cur := current(); cur != nil && cur != prev {
				return cur
			}
		}
		return current()
	}
	client := "-"
	wg.Add(1)
	go poll(slot(), true)
	rec := waitNew(nil)
	switch mode {
	case "pending":
		for k := 0; k < 2; k++ {
			wg.Add(1)
			go poll(slot(), false)
			rec = waitNew(rec)
		}
	case "matched":
		cnat := "unrestricted"
		if nat == "unrestricted" {
			cnat = "unknown"
		}
		req := messages.ClientPollRequest{Offer: "dup-offer", NAT: cnat, Fingerprint: "2B280B23E1107BB62ABFC40DDCC8824814F80A72"}
		cb, _ := req.EncodeClientPollRequest()
		wg.Add(1)
		go func() {
			defer wg.Done()
			st, _, ms := vhTimedPost(addr, "/client", cb)
			mu.Lock()
			client = fmt.Sprintf("%d:%d", st, ms)
			mu.Unlock()
		}()
		select {
		case <-firstDone: // the first poll has been handed the offer; its client now waits for an answer that never comes
		case <-time.After(12 * time.Second):
		}
		wg.Add(1)
		go poll(slot(), false)
	case "expired":
		select {
		case <-firstDone:
		case <-time.After(16 * time.Second):
		}
		wg.Add(1)
		go poll(slot(), false)
	default:
		return "!badcase"
	}
	wg.Wait()
	return "polls=" + strings.Join(polls, ",") + " client=" + client
}

func min(a, b int) int {
	if a < b {
		return a
	}
	return b
}

func TestVerifHttpDriver(t *testing.T) {
	if os.Getenv("VERIF_DRIVER") != "brokerhttp" {
		t.Skip("driver mode off")
	}
	log.SetOutput(io.Discard)
	ctx := NewBrokerContext(log.New(io.Discard, "", 0))
	// an allowed relay pattern, so that proxy polls with a narrower pattern take the rejection path
	if err := ctx.InstallBridgeListProfile(strings.NewReader(
		`{"displayName":"default", "webSocketAddress":"wss://snowflake.torproject.net/", "fingerprint":"2B280B23E1107BB62ABFC40DDCC8824814F80A72"}`+"\n"),
		"snowflake.torproject.net$", "snowflake.torproject.net$"); err != nil {
		t.Fatal(err)
	}
	go ctx.Broker()
	tmp, err := os.MkdirTemp(os.Getenv("VERIF_TMP_DIR"), "c14http")
	if err != nil {
		t.Fatal(err)
	}
	vhTmpDir = tmp
	metricsFile := tmp + "/metrics.log"
	if err := os.WriteFile(metricsFile, []byte(vhMetricsContent), 0644); err != nil {
		t.Fatal(err)
	}
	srv := httptest.NewUnstartedServer(vhMux(ctx, metricsFile))
	srv.Config.ErrorLog = log.New(io.Discard, "", 0)
	srv.Start()
	defer srv.Close()
	addr := srv.Listener.Addr().String()
	i := &IPC{ctx}
	sc := bufio.NewScanner(os.Stdin)
	sc.Buffer(make([]byte, 1<<20), 1<<26)
	var lines []string
	for sc.Scan() {
		lines = append(lines, sc.Text())
	}
	res := make([]string, len(lines))
	sem := make(chan struct{}, 32)
	var wg sync.WaitGroup
	for idx, line := range lines {
		idx, line := idx, line
		wg.Add(1)
		sem <- struct{}{}
		go func() {
			defer wg.Done()
			defer func() { <-sem }()
			defer func() {
				if r := recover(); r != nil {
					res[idx] = "!panic " + strings.ReplaceAll(fmt.Sprint(r), "\n", " ")
				}
			}()
			a := strings.Split(line, " ")[1:]
			switch a[0] {
			case "direct":
				res[idx] = vhDirect(i, a)
			case "debugview":
				res[idx] = vhDebugView(a)
			case "hdrget":
				res[idx] = vhHdrGet(a)
			case "seq":
				res[idx] = vhSeq(a, metricsFile)
			case "twinenc":
				res[idx] = vhTwinEnc(a)
			case "duppoll":
				res[idx] = vhDupPoll(a)
			default:
				res[idx] = vhOne(addr, i, a)
			}
		}()
	}
	wg.Wait()
	// liveness after everything: the server still answers
	alive := "dead"
	if r, err := (&http.Client{Timeout: 10 * time.Second}).Get("http://" + addr + "/debug"); err == nil {
		io.Copy(io.Discard, r.Body)
		r.Body.Close()
		if r.StatusCode == 200 {
			alive = "alive"
		}
	}
	w := bufio.NewWriter(os.Stdout)
	for _, r := range res {
		w.WriteString(r + " srv=" + alive + "\n")
	}
	w.Flush()
	os.RemoveAll(tmp)
	os.Exit(0)
}

// what GET /metrics of the driver's server shows (the metrics log is written by the broker once a day: fixed here)
const vhMetricsContent = "snowflake-stats-end 2026-01-01 00:00:00 (86400 s)\nsnowflake-ips \nsnowflake-idle-count 0\n"
