//go:build verif

// C20 race workload for the broker (package main), built with -race by lib/checks/c20.py.
// Many concurrent proxy polls, client offers and proxy answers go through the real HTTP
// handlers (proxyPolls / clientOffers / proxyAnswers -> IPC -> BrokerContext) while the
// body of the periodic metrics goroutine (printMetrics; zeroMetrics, exactly what
// Metrics.logMetrics does on every tick), prometheus scrapes and the /debug handler run
// next to them. The race detector's reports on stderr are the result; stdout carries
// one summary line.
package main

import (
	"bytes"
	"fmt"
	"io"
	"log"
	"math/rand"
	"net/http/httptest"
	"os"
	"strconv"
	"strings"
	"sync"
	"sync/atomic"
	"testing"
	"time"

	"git.torproject.org/pluggable-transports/snowflake.git/v2/common/messages"
	"github.com/prometheus/client_golang/prometheus/promhttp"
)

func c20EnvInt(name string, def int) int {
	if v, err := strconv.Atoi(os.Getenv(name)); err == nil {
		return v
	}
	return def
}

// c20WaitTimeout waits for wg but gives up after d (the broker has known hangs, C04).
func c20WaitTimeout(wg *sync.WaitGroup, d time.Duration) bool {
	ch := make(chan struct{})
	go func() { wg.Wait(); close(ch) }()
	select {
	case <-ch:
		return true
	case <-time.After(d):
		return false
	}
}

type c20Stats struct {
	polls, matchedPolls, idlePolls, offers, matchedOffers, deniedOffers, timedOutOffers, answers, scrapes, prints int64
}

func c20Poll(i *IPC, st *c20Stats, sid, ptype, nat string, clients int, remote string) (matched bool) {
	body, err := messages.EncodeProxyPollRequestWithRelayPrefix(sid, ptype, nat, clients, "")
	if err != nil {
		panic(err)
	}
	w := httptest.NewRecorder()
	r := httptest.NewRequest("POST", "http://snowflake.broker/proxy", bytes.NewReader(body))
	r.RemoteAddr = remote
	proxyPolls(i, w, r)
	atomic.AddInt64(&st.polls, 1)
	offer, _, _, err := messages.DecodePollResponseWithRelayURL(w.Body.Bytes())
	if err == nil && offer != "" {
		atomic.AddInt64(&st.matchedPolls, 1)
		return true
	}
	atomic.AddInt64(&st.idlePolls, 1)
	return false
}

func c20Answer(i *IPC, st *c20Stats, sid string) {
	body, err := messages.EncodeAnswerRequest("answer-for-"+sid, sid)
	if err != nil {
		panic(err)
	}
	w := httptest.NewRecorder()
	r := httptest.NewRequest("POST", "http://snowflake.broker/answer", bytes.NewReader(body))
	proxyAnswers(i, w, r)
	atomic.AddInt64(&st.answers, 1)
}

// c20Offer returns "matched", "denied", "timeout" or "other".
func c20Offer(i *IPC, st *c20Stats, nat string) string {
	body := []byte("1.0\n{\"offer\": \"fake\", \"nat\": \"" + nat + "\", \"fingerprint\": \"2B280B23E1107BB62ABFC40DDCC8824814F80A72\"}")
	w := httptest.NewRecorder()
	r := httptest.NewRequest("POST", "http://snowflake.broker/client", bytes.NewReader(body))
	clientOffers(i, w, r)
	atomic.AddInt64(&st.offers, 1)
	s := w.Body.String()
	switch {
	case strings.Contains(s, "\"answer\""):
		atomic.AddInt64(&st.matchedOffers, 1)
		return "matched"
	case strings.Contains(s, messages.StrNoProxies):
		atomic.AddInt64(&st.deniedOffers, 1)
		return "denied"
	case strings.Contains(s, messages.StrTimedOut):
		atomic.AddInt64(&st.timedOutOffers, 1)
		return "timeout"
	}
	return "other"
}

func c20Background(ctx *BrokerContext, i *IPC, st *c20Stats, stop chan struct{}, wg *sync.WaitGroup) {
	prom := promhttp.HandlerFor(ctx.metrics.promMetrics.registry, promhttp.HandlerOpts{})
	// the periodic metrics goroutine's loop body (Metrics.logMetrics), at a much shorter period
	wg.Add(1)
	go func() {
		defer wg.Done()
		for {
			select {
			case <-stop:
				return
			default:
			}
			ctx.metrics.printMetrics()
			ctx.metrics.zeroMetrics()
			atomic.AddInt64(&st.prints, 1)
			time.Sleep(2 * time.Millisecond)
		}
	}()
	for k := 0; k < 2; k++ {
		wg.Add(1)
		go func() {
			defer wg.Done()
			for {
				select {
				case <-stop:
					return
				default:
				}
				w := httptest.NewRecorder()
				prom.ServeHTTP(w, httptest.NewRequest("GET", "http://snowflake.broker/prometheus", nil))
				w2 := httptest.NewRecorder()
				debugHandler(i, w2, httptest.NewRequest("GET", "http://snowflake.broker/debug", nil))
				atomic.AddInt64(&st.scrapes, 1)
				time.Sleep(time.Millisecond)
			}
		}()
	}
}

func c20NewBroker() (*BrokerContext, *IPC) {
	ctx := NewBrokerContext(log.New(io.Discard, "", 0))
	// geoip so that UpdateCountryStats runs to its end (country counts, ProxyTotal)
	if err := ctx.metrics.LoadGeoipDatabases("test_geoip", "test_geoip6"); err != nil {
		fmt.Fprintln(os.Stderr, "c20: geoip not loaded:", err)
	}
	go ctx.Broker()
	return ctx, &IPC{ctx}
}

// TestVerifC20BrokerMatched: n proxy/client/answer triples, all matched at once (no 10 s waits).
func TestVerifC20BrokerMatched(t *testing.T) {
	log.SetOutput(io.Discard)
	n := c20EnvInt("VERIF_C20_N", 64)
	seed := int64(c20EnvInt("VERIF_SEED", 1))
	ctx, i := c20NewBroker()
	st := &c20Stats{}
	stop := make(chan struct{})
	var bg sync.WaitGroup
	c20Background(ctx, i, st, stop, &bg)

	var wg sync.WaitGroup
	nats := []string{NATUnrestricted, NATRestricted, NATUnknown}
	ptypes := []string{"standalone", "badge", "webext", "iptproxy", "strange"}
	for k := 0; k < n; k++ {
		rng := rand.New(rand.NewSource(seed*100003 + int64(k)))
		sid := fmt.Sprintf("sid-%d-%d", seed, k)
		pnat := nats[rng.Intn(len(nats))]
		ptype := ptypes[rng.Intn(len(ptypes))]
		remote := fmt.Sprintf("%d.%d.%d.%d:%d", 1+rng.Intn(220), rng.Intn(256), rng.Intn(256), rng.Intn(256), 1024+rng.Intn(60000))
		if rng.Intn(4) == 0 {
			remote = fmt.Sprintf("[2001:%x::%x]:%d", rng.Intn(65536), rng.Intn(65536), 1024+rng.Intn(60000))
		}
		// a client that can take this proxy: unrestricted proxies serve restricted/unknown
		// clients; the other proxies sit in restrictedSnowflakes and serve unrestricted clients
		cnat := NATUnrestricted
		if pnat == NATUnrestricted {
			cnat = []string{NATRestricted, NATUnknown}[rng.Intn(2)]
		}
		wg.Add(2)
		go func() {
			defer wg.Done()
			if c20Poll(i, st, sid, ptype, pnat, rng.Intn(20), remote) {
				c20Answer(i, st, sid)
			}
		}()
		go func() {
			defer wg.Done()
			// retry until some proxy of the right pool is registered
			for tries := 0; tries < 4000; tries++ {
				if c20Offer(i, st, cnat) != "denied" {
					return
				}
				time.Sleep(500 * time.Microsecond)
			}
		}()
	}
	done := c20WaitTimeout(&wg, 40*time.Second)
	close(stop)
	c20WaitTimeout(&bg, 5*time.Second)
	fmt.Printf("C20 broker-matched done=%v n=%d polls=%d matchedPolls=%d offers=%d matchedOffers=%d denied=%d timeouts=%d answers=%d scrapes=%d prints=%d\n",
		done, n, st.polls, st.matchedPolls, st.offers, st.matchedOffers, st.deniedOffers, st.timedOutOffers, st.answers, st.scrapes, st.prints)
}

// TestVerifC20BrokerHerd: proxies poll at t=0, clients arrive in a herd around the 10 s
// proxy timeout; answers follow whenever a poll was matched.
func TestVerifC20BrokerHerd(t *testing.T) {
	log.SetOutput(io.Discard)
	n := c20EnvInt("VERIF_C20_HERD", 24)
	seed := int64(c20EnvInt("VERIF_SEED", 1))
	ctx, i := c20NewBroker()
	st := &c20Stats{}
	stop := make(chan struct{})
	var bg sync.WaitGroup
	c20Background(ctx, i, st, stop, &bg)
	var wg sync.WaitGroup
	t0 := time.Now()
	for k := 0; k < n; k++ {
		rng := rand.New(rand.NewSource(seed*7919 + int64(k)))
		sid := fmt.Sprintf("herd-%d-%d", seed, k)
		pnat := []string{NATUnrestricted, NATRestricted}[k%2]
		cnat := NATUnrestricted
		if pnat == NATUnrestricted {
			cnat = NATUnknown
		}
		remote := fmt.Sprintf("10.%d.%d.%d:9", rng.Intn(256), rng.Intn(256), rng.Intn(256))
		delay := time.Duration(ProxyTimeout)*time.Second + time.Duration(rng.Intn(40000)-10000)*time.Microsecond
		wg.Add(2)
		go func() {
			defer wg.Done()
			if c20Poll(i, st, sid, "standalone", pnat, 0, remote) {
				c20Answer(i, st, sid)
			}
		}()
		noClient := k%6 == 5
		go func() {
			defer wg.Done()
			if noClient {
				return // no client for this proxy: its poll runs into the timeout (idle path)
			}
			time.Sleep(time.Until(t0.Add(delay)))
			c20Offer(i, st, cnat)
		}()
	}
	// a matched-but-unanswered client waits ClientTimeout more; a client racing the timer can hang (C04)
	done := c20WaitTimeout(&wg, time.Duration(ProxyTimeout+ClientTimeout+3)*time.Second)
	close(stop)
	c20WaitTimeout(&bg, 5*time.Second)
	fmt.Printf("C20 broker-herd done=%v n=%d polls=%d matchedPolls=%d idle=%d offers=%d matchedOffers=%d denied=%d timeouts=%d answers=%d scrapes=%d prints=%d\n",
		done, n, st.polls, st.matchedPolls, st.idlePolls, st.offers, st.matchedOffers, st.deniedOffers, st.timedOutOffers, st.answers, st.scrapes, st.prints)
}
