//go:build verif

// In-package driver for property C06 (broker side): the relay pattern decision of
// IPC.ProxyPolls, observed through the real IPC path of a BrokerContext whose matching
// goroutine (ctx.Broker) is running.  Line protocol: see coq/Run/NameMatcherRun.v, op "poll".
//
//   namematcher poll <allowed> <presumed> <kind> <pattern>
//
// Result "accept": the poll was registered (its sid is in idToSnowflake) and, when a client
// offer is then sent through IPC.ClientOffers, the poll's response carries that offer.
// Result "reject": ProxyPolls returned at once with a response that the proxy-side decoder
// reports as an error status (not "no match", no offer), the sid was never registered, both
// heaps are empty and a client offer sent afterwards is denied for lack of proxies.
// Anything else is printed verbatim (and so disagrees with the model).
//
//   namematcher pollseq <allowed> <presumed> <ev,ev,...>
//
// A history: ONE BrokerContext (one matching goroutine) lives through the whole line and is sent
// the events in order; ev = s<pattern> | l | n (a poll as above) or c<allowed>;<presumed>
// (InstallBridgeListProfile with new patterns, as on SIGHUP).  Result: the comma list of the
// per-event results ("installed" for c), each poll observed exactly as in the single-shot case.
//
//   namematcher gate <allowed> <presumed> <ev,ev,...>     ev = p:<nat u|r|k>:<clients>:<kind s|l|n>:<pattern> | c:<nat>
//   namematcher bseq <allowed> <presumed> <ev,ev,...>     ev = b:<body>:<jv> | i:<allowed>:<presumed> | c:<nat>
//
// Histories of the gated matching machine (coq/Model/BrokerGate.v grun / brun, adapters in
// coq/Run/NameMatcherGate.v): ONE BrokerContext; polls stay registered while later events arrive; a client
// offer (c) is sent through IPC.ClientOffers, the poll that is handed it is identified, its answer is posted
// and the client is awaited.  b = the request body as given (bytes), through the real decoder.  Result: per
// event registered | rejected | badrequest | installed | served:<position of the poll> | noproxies, then
// avail=<len(idToSnowflake)> heap=<both heaps> (bseq: with= without= rej= the three relay-extension counters).
package main

import (
	"encoding/json"
	"fmt"
	"io"
	"log"
	"os"
	"strconv"
	"strings"
	"testing"
	"time"

	"git.torproject.org/pluggable-transports/snowflake.git/v2/common/messages"
	"git.torproject.org/pluggable-transports/snowflake.git/v2/zz_verif/wire"
)

const verifC06Bridges = `{"displayName":"default", "webSocketAddress":"wss://snowflake.torproject.net/", "fingerprint":"2B280B23E1107BB62ABFC40DDCC8824814F80A72"}
{"displayName":"second", "webSocketAddress":"wss://02.snowflake.torproject.net/", "fingerprint":"8838024498816A039FCBBAB14E6F40A0843051FA"}
`

type verifC06LegacyPoll struct {
	Sid     string
	Version string
	Type    string
	NAT     string
	Clients int
}

type verifC06NullPoll struct {
	Sid                  string
	Version              string
	Type                 string
	NAT                  string
	Clients              int
	AcceptedRelayPattern *string
}

type verifC06PollResult struct {
	resp []byte
	err  error
}

func verifC06Str(t string) string {
	b, err := wire.Payload(t)
	if err != nil {
		panic("bad payload " + t)
	}
	return string(b)
}

func verifC06ClientOffer(i *IPC, sdp string, nat string) (answer string, errText string) {
	req := &messages.ClientPollRequest{Offer: sdp, NAT: nat, Fingerprint: "8838024498816A039FCBBAB14E6F40A0843051FA"}
	body, err := req.EncodeClientPollRequest()
	if err != nil {
		panic(err)
	}
	var resp []byte
	if err := i.ClientOffers(messages.Arg{Body: body, RemoteAddr: "192.0.2.77:1234"}, &resp); err != nil {
		return "", "ipc-error"
	}
	r, err := messages.DecodeClientPollResponse(resp)
	if err != nil {
		return "", "undecodable"
	}
	return r.Answer, r.Error
}

var verifC06Seq int

func verifC06NewContext(allowed, presumed string) *BrokerContext {
	ctx := NewBrokerContext(log.New(io.Discard, "", 0))
	if err := ctx.InstallBridgeListProfile(strings.NewReader(verifC06Bridges), allowed, presumed); err != nil {
		panic(err)
	}
	go ctx.Broker()
	return ctx
}

func verifC06Poll(allowed, presumed, kind, pattern string) string {
	ctx := verifC06NewContext(allowed, presumed)
	defer close(ctx.proxyPolls)
	return verifC06PollOn(ctx, kind, pattern)
}

// a history of polls and re-configurations on one long-lived broker context
func verifC06PollSeq(allowed, presumed string, events []string) string {
	ctx := verifC06NewContext(allowed, presumed)
	defer close(ctx.proxyPolls)
	var out []string
	for _, ev := range events {
		if ev == "" {
			return "!badcase"
		}
		switch ev[0] {
		case 's':
			out = append(out, verifC06PollOn(ctx, "s", verifC06Str(ev[1:])))
		case 'l', 'n':
			if len(ev) != 1 {
				return "!badcase"
			}
			out = append(out, verifC06PollOn(ctx, ev, ""))
		case 'c':
			ps := strings.Split(ev[1:], ";")
			if len(ps) != 2 {
				return "!badcase"
			}
			if err := ctx.InstallBridgeListProfile(strings.NewReader(verifC06Bridges), verifC06Str(ps[0]), verifC06Str(ps[1])); err != nil {
				panic(err)
			}
			out = append(out, "installed")
		default:
			return "!badcase"
		}
	}
	return wire.PrintList(out)
}

func verifC06PollOn(ctx *BrokerContext, kind, pattern string) string {
	i := &IPC{ctx}
	verifC06Seq++
	sid := fmt.Sprintf("verif-sid-%d", verifC06Seq)
	// alternate the proxy NAT type so that both heaps are exercised
	proxyNAT, clientNAT := NATUnrestricted, NATUnknown
	if verifC06Seq%3 == 0 {
		proxyNAT, clientNAT = NATRestricted, NATUnrestricted
	}
	var body []byte
	var err error
	switch kind {
	case "s":
		body, err = messages.EncodeProxyPollRequestWithRelayPrefix(sid, "standalone", proxyNAT, 0, pattern)
	case "l":
		ver := "1.2"
		if verifC06Seq%2 == 0 {
			ver = "1.3"
		}
		body, err = json.Marshal(verifC06LegacyPoll{Sid: sid, Version: ver, Type: "standalone", NAT: proxyNAT})
	case "n":
		body, err = json.Marshal(verifC06NullPoll{Sid: sid, Version: "1.3", Type: "standalone", NAT: proxyNAT})
	default:
		return "!badcase"
	}
	if err != nil {
		panic(err)
	}
	done := make(chan verifC06PollResult, 1)
	go func() {
		var resp []byte
		err := i.ProxyPolls(messages.Arg{Body: body, RemoteAddr: "192.0.2.55:4321"}, &resp)
		done <- verifC06PollResult{resp, err}
	}()
	registered := false
	var res verifC06PollResult
	finished := false
	deadline := time.Now().Add(8 * time.Second)
	for !finished && !registered {
		select {
		case res = <-done:
			finished = true
		default:
			ctx.snowflakeLock.Lock()
			_, registered = ctx.idToSnowflake[sid]
			ctx.snowflakeLock.Unlock()
			if !registered {
				if time.Now().After(deadline) {
					return "stuck"
				}
				time.Sleep(20 * time.Microsecond)
			}
		}
	}
	const sdp = "verif-offer-sdp"
	if registered {
		// a client arrives: the registered poll must be handed its offer
		clientDone := make(chan [2]string, 1)
		go func() {
			a, e := verifC06ClientOffer(i, sdp, clientNAT)
			clientDone <- [2]string{a, e}
		}()
		select {
		case res = <-done:
		case <-time.After(8 * time.Second):
			return "registered-but-no-offer-delivered"
		}
		if res.err != nil {
			return "registered-then-ipc-error"
		}
		offer, _, relayURL, derr := messages.DecodePollResponseWithRelayURL(res.resp)
		if derr != nil || offer != sdp {
			return "registered-then-bad-response"
		}
		if relayURL != "wss://02.snowflake.torproject.net/" {
			return "accept-but-relay-url-is-not-the-bridge-of-the-client"
		}
		// release the client handler
		ans, _ := messages.EncodeAnswerRequest("verif-answer", sid)
		var aresp []byte
		go i.ProxyAnswers(messages.Arg{Body: ans, RemoteAddr: "192.0.2.55:4321"}, &aresp)
		select {
		case c := <-clientDone:
			if c[0] != "verif-answer" {
				return "accept-but-client-got-no-answer"
			}
		case <-time.After(8 * time.Second):
			return "accept-but-client-stuck"
		}
		return "accept"
	}
	// ProxyPolls returned without registering
	if res.err != nil {
		return "ipc-error"
	}
	offer, _, _, derr := messages.DecodePollResponseWithRelayURL(res.resp)
	if offer != "" {
		return "unregistered-but-offer"
	}
	if derr == nil {
		return "idle" // "no match": not an explicit rejection
	}
	ctx.snowflakeLock.Lock()
	n := len(ctx.idToSnowflake) + ctx.snowflakes.Len() + ctx.restrictedSnowflakes.Len()
	ctx.snowflakeLock.Unlock()
	if n != 0 {
		return "reject-but-registered"
	}
	for _, cn := range []string{NATUnknown, NATUnrestricted} {
		a, e := verifC06ClientOffer(i, sdp, cn)
		if a != "" || e != messages.StrNoProxies {
			return "reject-but-client-served"
		}
	}
	return "reject"
}

type verifC06Pending struct {
	k    int
	sid  string
	done chan verifC06PollResult
}

var verifC06NatNames = map[string]string{"u": NATUnrestricted, "r": NATRestricted, "k": NATUnknown}

func verifC06Keys(ctx *BrokerContext) map[string]bool {
	ctx.snowflakeLock.Lock()
	defer ctx.snowflakeLock.Unlock()
	m := make(map[string]bool, len(ctx.idToSnowflake))
	for k := range ctx.idToSnowflake {
		m[k] = true
	}
	return m
}

// one poll of a history: the body goes through IPC.ProxyPolls; "registered" as soon as a new sid shows in idToSnowflake
func verifC06HistPoll(ctx *BrokerContext, k int, body []byte, pending *[]*verifC06Pending) string {
	i := &IPC{ctx}
	before := verifC06Keys(ctx)
	done := make(chan verifC06PollResult, 1)
	go func() {
		var resp []byte
		err := i.ProxyPolls(messages.Arg{Body: body, RemoteAddr: "192.0.2.55:4321"}, &resp)
		done <- verifC06PollResult{resp, err}
	}()
	deadline := time.Now().Add(8 * time.Second)
	for {
		select {
		case res := <-done:
			after := verifC06Keys(ctx)
			for sid := range after {
				if !before[sid] {
					return "returned-but-registered"
				}
			}
			if res.err == messages.ErrBadRequest {
				return "badrequest"
			}
			if res.err != nil {
				return "ipc-error"
			}
			offer, _, _, derr := messages.DecodePollResponseWithRelayURL(res.resp)
			if offer != "" {
				return "unregistered-but-offer"
			}
			if derr == nil {
				return "idle"
			}
			return "rejected"
		default:
		}
		for sid := range verifC06Keys(ctx) {
			if !before[sid] {
				*pending = append(*pending, &verifC06Pending{k: k, sid: sid, done: done})
				return "registered"
			}
		}
		if time.Now().After(deadline) {
			return "stuck"
		}
		time.Sleep(20 * time.Microsecond)
	}
}

// one client offer of a history, served to the end
func verifC06HistClient(ctx *BrokerContext, k int, nat string, pending *[]*verifC06Pending) string {
	i := &IPC{ctx}
	sdp := fmt.Sprintf("verif-offer-%d", k)
	answer := fmt.Sprintf("verif-answer-%d", k)
	clientDone := make(chan [2]string, 1)
	go func() {
		a, e := verifC06ClientOffer(i, sdp, nat)
		clientDone <- [2]string{a, e}
	}()
	deadline := time.Now().Add(8 * time.Second)
	for {
		select {
		case c := <-clientDone:
			if c[0] == "" && c[1] == messages.StrNoProxies {
				return "noproxies"
			}
			return "client-returned-early"
		default:
		}
		for idx, p := range *pending {
			select {
			case res := <-p.done:
				*pending = append((*pending)[:idx:idx], (*pending)[idx+1:]...)
				if res.err != nil {
					return "poll-ipc-error"
				}
				offer, _, relayURL, derr := messages.DecodePollResponseWithRelayURL(res.resp)
				if derr != nil || offer == "" {
					return fmt.Sprintf("poll-%d-returned-without-offer", p.k)
				}
				if offer != sdp {
					return "poll-got-another-offer"
				}
				if relayURL != "wss://02.snowflake.torproject.net/" {
					return "relay-url-is-not-the-bridge-of-the-client"
				}
				ans, _ := messages.EncodeAnswerRequest(answer, p.sid)
				var aresp []byte
				go i.ProxyAnswers(messages.Arg{Body: ans, RemoteAddr: "192.0.2.55:4321"}, &aresp)
				select {
				case c := <-clientDone:
					if c[0] != answer {
						return "client-got-no-answer"
					}
				case <-time.After(8 * time.Second):
					return "client-stuck"
				}
				return fmt.Sprintf("served:%d", p.k)
			default:
			}
		}
		if time.Now().After(deadline) {
			return "client-stuck"
		}
		time.Sleep(20 * time.Microsecond)
	}
}

func verifC06Hist(viaBody bool, allowed, presumed string, events []string) string {
	ctx := verifC06NewContext(allowed, presumed)
	defer close(ctx.proxyPolls)
	verifC06Seq++
	var pending []*verifC06Pending
	var out []string
	for n, ev := range events {
		k := n + 1
		f := strings.Split(ev, ":")
		switch {
		case f[0] == "c" && len(f) == 2 && verifC06NatNames[f[1]] != "":
			out = append(out, verifC06HistClient(ctx, k, verifC06NatNames[f[1]], &pending))
		case !viaBody && f[0] == "p" && len(f) == 5 && verifC06NatNames[f[1]] != "":
			clients, err := strconv.Atoi(f[2])
			if err != nil {
				return "!badcase"
			}
			sid := fmt.Sprintf("verif-h%d-%d", verifC06Seq, k)
			var body []byte
			switch f[3] {
			case "s":
				body, err = messages.EncodeProxyPollRequestWithRelayPrefix(sid, "standalone", verifC06NatNames[f[1]], clients, verifC06Str(f[4]))
			case "l":
				body, err = json.Marshal(verifC06LegacyPoll{Sid: sid, Version: "1.2", Type: "standalone", NAT: verifC06NatNames[f[1]], Clients: clients})
			case "n":
				body, err = json.Marshal(verifC06NullPoll{Sid: sid, Version: "1.3", Type: "standalone", NAT: verifC06NatNames[f[1]], Clients: clients})
			default:
				return "!badcase"
			}
			if err != nil {
				panic(err)
			}
			out = append(out, verifC06HistPoll(ctx, k, body, &pending))
		case viaBody && f[0] == "b" && len(f) == 3:
			out = append(out, verifC06HistPoll(ctx, k, []byte(verifC06Str(f[1])), &pending))
		case viaBody && f[0] == "i" && len(f) == 3:
			if err := ctx.InstallBridgeListProfile(strings.NewReader(verifC06Bridges), verifC06Str(f[1]), verifC06Str(f[2])); err != nil {
				panic(err)
			}
			out = append(out, "installed")
		default:
			return "!badcase"
		}
	}
	ctx.snowflakeLock.Lock()
	avail := len(ctx.idToSnowflake)
	heapLen := ctx.snowflakes.Len() + ctx.restrictedSnowflakes.Len()
	ctx.snowflakeLock.Unlock()
	res := fmt.Sprintf("%s avail=%d heap=%d", wire.PrintList(out), avail, heapLen)
	if viaBody {
		ctx.metrics.lock.Lock()
		res += fmt.Sprintf(" with=%d without=%d rej=%d", ctx.metrics.proxyPollWithRelayURLExtension,
			ctx.metrics.proxyPollWithoutRelayURLExtension, ctx.metrics.proxyPollRejectedWithRelayURLExtension)
		ctx.metrics.lock.Unlock()
	}
	return res
}

func TestVerifDriverC06(t *testing.T) {
	if os.Getenv("VERIF_DRIVER") != "1" {
		t.Skip("driver mode only")
	}
	log.SetOutput(io.Discard)
	wire.Loop(func(args []string) string {
		if len(args) == 5 && args[0] == "poll" {
			return verifC06Poll(verifC06Str(args[1]), verifC06Str(args[2]), args[3], verifC06Str(args[4]))
		}
		if len(args) == 4 && (args[0] == "gate" || args[0] == "bseq") {
			return verifC06Hist(args[0] == "bseq", verifC06Str(args[1]), verifC06Str(args[2]), wire.List(args[3]))
		}
		if len(args) == 4 && args[0] == "pollseq" {
			return verifC06PollSeq(verifC06Str(args[1]), verifC06Str(args[2]), wire.List(args[3]))
		}
		return "!badcase"
	})
	os.Exit(0)
}
