//go:build verif

// C20 whole-component race workload for the broker: a real net/http server on loopback with
// the route table of main() (/robots.txt /proxy /client /answer /debug /metrics /prometheus
// /amp/client/), the metrics log file and the distinct-IP journal attached as main does, the
// periodic metrics goroutine's body on a short period; real HTTP clients poll, offer, answer
// (matches, denials, a few proxy timeouts), scrape /debug /metrics /prometheus, send OPTIONS
// preflights and AMP requests, all at once.  Built with -race by lib/checks/c20.py.
package main

import (
	"bytes"
	"fmt"
	"io"
	"log"
	"math/rand"
	"net/http"
	"net/http/httptest"
	"os"
	"path/filepath"
	"strings"
	"sync"
	"sync/atomic"
	"testing"
	"time"

	"git.torproject.org/pluggable-transports/snowflake.git/v2/common/amp"
	"git.torproject.org/pluggable-transports/snowflake.git/v2/common/ipsetsink"
	"git.torproject.org/pluggable-transports/snowflake.git/v2/common/ipsetsink/sinkcluster"
	"git.torproject.org/pluggable-transports/snowflake.git/v2/common/messages"
	"github.com/prometheus/client_golang/prometheus/promhttp"
)

type c20HTTPStats struct {
	polls, matched, idle, offers, answers, gets, amps, preflights, errs int64
}

func c20Do(cl *http.Client, st *c20HTTPStats, method, url string, body []byte) ([]byte, int) {
	req, err := http.NewRequest(method, url, bytes.NewReader(body))
	if err != nil {
		atomic.AddInt64(&st.errs, 1)
		return nil, 0
	}
	resp, err := cl.Do(req)
	if err != nil {
		atomic.AddInt64(&st.errs, 1)
		return nil, 0
	}
	defer resp.Body.Close()
	b, _ := io.ReadAll(io.LimitReader(resp.Body, 1<<20))
	return b, resp.StatusCode
}

func TestVerifC20BrokerHTTPSoak(t *testing.T) {
	log.SetOutput(io.Discard)
	n := c20EnvInt("VERIF_C20_N", 32)
	idleN := c20EnvInt("VERIF_C20_IDLE", 2)
	seed := int64(c20EnvInt("VERIF_SEED", 1))
	dir := t.TempDir()
	metricsFilename := filepath.Join(dir, "metrics.log")
	metricsFile, err := os.OpenFile(metricsFilename, os.O_APPEND|os.O_CREATE|os.O_WRONLY, 0644)
	if err != nil {
		t.Fatal(err)
	}
	defer metricsFile.Close()
	ctx := NewBrokerContext(log.New(metricsFile, "", 0))
	if err := ctx.metrics.LoadGeoipDatabases("test_geoip", "test_geoip6"); err != nil {
		fmt.Fprintln(os.Stderr, "c20: geoip not loaded:", err)
	}
	ipCountFile, err := os.OpenFile(filepath.Join(dir, "ipcount.log"), os.O_APPEND|os.O_CREATE|os.O_WRONLY, 0644)
	if err != nil {
		t.Fatal(err)
	}
	defer ipCountFile.Close()
	ctx.metrics.distinctIPWriter = sinkcluster.NewClusterWriter(ipCountFile, 5*time.Millisecond, ipsetsink.NewIPSetSink("c20-key"))
	go ctx.Broker()
	i := &IPC{ctx}
	mux := http.NewServeMux()
	mux.HandleFunc("/robots.txt", robotsTxtHandler)
	mux.Handle("/proxy", SnowflakeHandler{i, proxyPolls})
	mux.Handle("/client", SnowflakeHandler{i, clientOffers})
	mux.Handle("/answer", SnowflakeHandler{i, proxyAnswers})
	mux.Handle("/debug", SnowflakeHandler{i, debugHandler})
	mux.Handle("/metrics", MetricsHandler{metricsFilename, metricsHandler})
	mux.Handle("/prometheus", promhttp.HandlerFor(ctx.metrics.promMetrics.registry, promhttp.HandlerOpts{}))
	mux.Handle("/amp/client/", SnowflakeHandler{i, ampClientOffers})
	srv := httptest.NewServer(mux)
	defer srv.Close()
	cl := &http.Client{Timeout: 40 * time.Second, Transport: &http.Transport{MaxIdleConnsPerHost: 64}}
	st := &c20HTTPStats{}
	stop := make(chan struct{})
	var bg, wg sync.WaitGroup

	bg.Add(1)
	go func() { // Metrics.logMetrics' loop body
		defer bg.Done()
		for {
			select {
			case <-stop:
				return
			default:
			}
			ctx.metrics.printMetrics()
			ctx.metrics.zeroMetrics()
			time.Sleep(3 * time.Millisecond)
		}
	}()
	if os.Getenv("VERIF_C20_GEOIP_RELOAD") != "0" {
		bg.Add(1)
		go func() { // what main()'s SIGHUP goroutine does: reload the geoip databases while polls are served
			defer bg.Done()
			for {
				select {
				case <-stop:
					return
				default:
				}
				ctx.metrics.LoadGeoipDatabases("test_geoip", "test_geoip6")
				time.Sleep(20 * time.Millisecond)
			}
		}()
	}
	for k := 0; k < 3; k++ {
		bg.Add(1)
		go func(k int) { // monitoring side: every read-only route, and preflights of the others
			defer bg.Done()
			paths := []string{"/debug", "/metrics", "/prometheus", "/robots.txt"}
			for j := 0; ; j++ {
				select {
				case <-stop:
					return
				default:
				}
				c20Do(cl, st, "GET", srv.URL+paths[(j+k)%len(paths)], nil)
				atomic.AddInt64(&st.gets, 1)
				if j%5 == 0 {
					c20Do(cl, st, "OPTIONS", srv.URL+[]string{"/proxy", "/client", "/answer", "/metrics"}[j/5%4], nil)
					atomic.AddInt64(&st.preflights, 1)
				}
				time.Sleep(time.Millisecond)
			}
		}(k)
	}

	nats := []string{NATUnrestricted, NATRestricted, NATUnknown}
	ptypes := []string{"standalone", "badge", "webext", "iptproxy", "strange"}
	offerBody := func(nat string) []byte {
		return []byte("1.0\n{\"offer\": \"fake\", \"nat\": \"" + nat + "\", \"fingerprint\": \"2B280B23E1107BB62ABFC40DDCC8824814F80A72\"}")
	}
	for k := 0; k < n; k++ {
		rng := rand.New(rand.NewSource(seed*100003 + int64(k)))
		sid := fmt.Sprintf("h-%d-%d", seed, k)
		pnat := nats[rng.Intn(len(nats))]
		ptype := ptypes[rng.Intn(len(ptypes))]
		cnat := NATUnrestricted
		if pnat == NATUnrestricted {
			cnat = []string{NATRestricted, NATUnknown}[rng.Intn(2)]
		}
		noClient := k < idleN // these polls run into the broker's proxy timeout (idle path)
		useAmp := k%4 == 3
		clients := rng.Intn(20)
		wg.Add(2)
		go func() {
			defer wg.Done()
			body, err := messages.EncodeProxyPollRequestWithRelayPrefix(sid, ptype, pnat, clients, "")
			if err != nil {
				panic(err)
			}
			resp, _ := c20Do(cl, st, "POST", srv.URL+"/proxy", body)
			atomic.AddInt64(&st.polls, 1)
			offer, _, _, err := messages.DecodePollResponseWithRelayURL(resp)
			if err == nil && offer != "" {
				atomic.AddInt64(&st.matched, 1)
				ans, err := messages.EncodeAnswerRequest("answer-for-"+sid, sid)
				if err != nil {
					panic(err)
				}
				c20Do(cl, st, "POST", srv.URL+"/answer", ans)
				atomic.AddInt64(&st.answers, 1)
			} else {
				atomic.AddInt64(&st.idle, 1)
			}
		}()
		go func() {
			defer wg.Done()
			if noClient {
				return
			}
			for tries := 0; tries < 3000; tries++ {
				var resp []byte
				if useAmp {
					enc := amp.EncodePath(offerBody(cnat))
					resp, _ = c20Do(cl, st, "GET", srv.URL+"/amp/client/"+enc, nil)
					atomic.AddInt64(&st.amps, 1)
					if dec, err := amp.NewArmorDecoder(bytes.NewReader(resp)); err == nil {
						resp, _ = io.ReadAll(dec)
					}
				} else {
					resp, _ = c20Do(cl, st, "POST", srv.URL+"/client", offerBody(cnat))
				}
				atomic.AddInt64(&st.offers, 1)
				if !strings.Contains(string(resp), messages.StrNoProxies) {
					return
				}
				time.Sleep(time.Millisecond)
			}
		}()
	}
	done := c20WaitTimeout(&wg, time.Duration(ProxyTimeout+ClientTimeout+8)*time.Second)
	close(stop)
	c20WaitTimeout(&bg, 5*time.Second)
	fmt.Printf("C20 broker-http done=%v n=%d polls=%d matched=%d idle=%d offers=%d amps=%d answers=%d gets=%d preflights=%d errs=%d\n",
		done, n, st.polls, st.matched, st.idle, st.offers, st.amps, st.answers, st.gets, st.preflights, st.errs)
}
