//go:build verif

// In-package driver for the C11 check: the same client poll through clientOffers (POST
// /client) and ampClientOffers (GET /amp/client/<path>) on twin broker contexts with
// identical scripted proxies. Runs only when VERIF_DRIVER=c11
// (as `broker.test -test.run ^TestVerifC11Driver$`).
package main

import (
	"bytes"
	"io"
	"io/ioutil"
	"log"
	"net/http"
	"net/http/httptest"
	"os"
	"strconv"
	"testing"

	"git.torproject.org/pluggable-transports/snowflake.git/v2/common/amp"
	"git.torproject.org/pluggable-transports/snowflake.git/v2/common/messages"
	"git.torproject.org/pluggable-transports/snowflake.git/v2/zz_verif/wire"
)

func c11x(b []byte) string { return "x" + wire.Hex(b) }

func c11Payload(t string) []byte {
	b, err := wire.Payload(t)
	if err != nil {
		panic(err)
	}
	return b
}

// a fresh broker; with scenario "proxy" one waiting proxy per NAT pool, each answering
// whatever offer it gets with the scripted answer
func c11Broker(scenario string, answer []byte) *IPC {
	ctx := NewBrokerContext(log.New(io.Discard, "", 0))
	if scenario == "proxy" {
		for _, nat := range []string{NATUnrestricted, NATRestricted} {
			s := ctx.AddSnowflake("proxy-"+nat, "standalone", nat, 0)
			go func(s *Snowflake) {
				<-s.offerChannel
				s.answerChannel <- string(answer)
			}(s)
		}
	}
	return &IPC{ctx}
}

func c11Post(scenario string, answer, body []byte) (int, []byte) {
	i := c11Broker(scenario, answer)
	w := httptest.NewRecorder()
	r, err := http.NewRequest("POST", "http://broker.example/client", bytes.NewReader(body))
	if err != nil {
		panic(err)
	}
	clientOffers(i, w, r)
	return w.Code, w.Body.Bytes()
}

func c11Amp(scenario string, answer []byte, path string) string {
	i := c11Broker(scenario, answer)
	w := httptest.NewRecorder()
	r, err := http.NewRequest("GET", "http://broker.example/", nil)
	if err != nil {
		panic(err)
	}
	r.URL.Path = path
	ampClientOffers(i, w, r)
	if w.Code != http.StatusOK {
		return strconv.Itoa(w.Code) + ",x" + wire.Hex(w.Body.Bytes())
	}
	dec, err := amp.NewArmorDecoder(bytes.NewReader(w.Body.Bytes()))
	if err != nil {
		return "200,!undecodable"
	}
	d, err := ioutil.ReadAll(dec)
	if err != nil {
		return "200,!undecodable"
	}
	return "200," + c11x(d)
}

// IPC.ClientOffers called directly on a fresh twin broker: "ok,x<response>" or "err"
func c11Ipc(scenario string, answer, body []byte) string {
	i := c11Broker(scenario, answer)
	var response []byte
	if err := i.ClientOffers(messages.Arg{Body: body, RemoteAddr: ""}, &response); err != nil {
		return "err"
	}
	return "ok," + c11x(response)
}

// for a '{'-leading body: the call clientOffers' legacy branch makes (the body shimmed into a versioned poll, no NAT
// header) on another twin: "<class>,x<response>,<none|x<answer>:x<error>>"; "n" for other bodies
func c11Shim(scenario string, answer, body []byte) string {
	if len(body) == 0 || body[0] != '{' {
		return "n"
	}
	req := messages.ClientPollRequest{Offer: string(body), NAT: ""}
	enc, err := req.EncodeClientPollRequest()
	if err != nil {
		return "!shim"
	}
	i := c11Broker(scenario, answer)
	var response []byte
	err = i.ClientOffers(messages.Arg{Body: enc, RemoteAddr: ""}, &response)
	dec := "none"
	if err == nil {
		if r, derr := messages.DecodeClientPollResponse(response); derr == nil {
			dec = c11x([]byte(r.Answer)) + ":" + c11x([]byte(r.Error))
		}
	}
	return vhIpcClass(err) + "," + c11x(response) + "," + dec
}

func c11Case(a []string) string {
	switch a[0] {
	case "brokeripc":
		// brokeripc <scenario> <answer> <body>
		return c11Ipc(a[1], c11Payload(a[2]), c11Payload(a[3])) + " " + c11Shim(a[1], c11Payload(a[2]), c11Payload(a[3]))
	case "broker2":
		// broker2 <scenario> <answer> <body> <urlpath> <ipc> <shim> <errresp>: both endpoints, each on a fresh twin
		answer, body := c11Payload(a[2]), c11Payload(a[3])
		if c11Ipc(a[1], answer, body) != a[5] || c11Shim(a[1], answer, body) != a[6] {
			return "!oracle-mismatch"
		}
		st, b := c11Post(a[1], answer, body)
		return "post=" + strconv.Itoa(st) + "," + c11x(b) + " amp=" + c11Amp(a[1], answer, string(c11Payload(a[4])))
	case "brokerpost":
		// brokerpost <scenario> <answer> <body>
		st, b := c11Post(a[1], c11Payload(a[2]), c11Payload(a[3]))
		return strconv.Itoa(st) + " " + c11x(b)
	case "brokererr":
		// the response the AMP endpoint gives for a path it cannot decode (reference: empty path)
		return c11Amp("noproxy", nil, "/amp/client/")
	case "broker":
		// broker <scenario> <answer> <body> <urlpath> <poststatus> <postbody> <errresp>
		st, b := c11Post(a[1], c11Payload(a[2]), c11Payload(a[3]))
		if strconv.Itoa(st) != a[5] || c11x(b) != a[6] {
			return "!oracle-mismatch"
		}
		return "amp=" + c11Amp(a[1], c11Payload(a[2]), string(c11Payload(a[4])))
	}
	return "!badcase"
}

func TestVerifC11Driver(t *testing.T) {
	if os.Getenv("VERIF_DRIVER") != "c11" {
		t.Skip("driver for the C11 check; set VERIF_DRIVER=c11")
	}
	log.SetOutput(io.Discard)
	wire.Loop(c11Case)
	os.Exit(0)
}
