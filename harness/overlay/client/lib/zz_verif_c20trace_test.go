//go:build verif

// C20 trace recording for client/lib.  Run ONLY in the binary built from the instrumented copies of the
// sources (locktable -instr): the package's race workloads run once, small, with the recorder on;
// lib/checks/c20.py turns the dump into a `locktrace check` case for the extracted checker.
package snowflake_client

import (
	"fmt"
	"os"
	"testing"

	"git.torproject.org/pluggable-transports/snowflake.git/v2/zz_verif/ltrace"
)

func TestVerifC20Trace(t *testing.T) {
	out := os.Getenv("VERIF_LTRACE_OUT")
	if out == "" {
		t.Skip("trace recording only")
	}
	ltrace.Enable()
	os.Setenv("VERIF_C20_N", "1") // one round: NewPeers (the table's init rows) runs before the first go statement
	TestVerifC20Peers(t)
	n, err := ltrace.Dump(out)
	if err != nil {
		t.Fatal(err)
	}
	fmt.Printf("C20 trace client/lib done=true events=%d\n", n)
}
