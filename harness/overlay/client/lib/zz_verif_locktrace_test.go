//go:build verif

// C20 race workload for client/lib Peers: Collect / Pop / Close churn from several
// goroutines with a fake Tongue, ended by End() under load.
package snowflake_client

import (
	"fmt"
	"io"
	"log"
	"os"
	"strconv"
	"sync"
	"sync/atomic"
	"testing"
	"time"
)

func c20EnvInt(name string, def int) int {
	if v, err := strconv.Atoi(os.Getenv(name)); err == nil {
		return v
	}
	return def
}

type c20Tongue struct {
	max    int
	caught int64
}

func (g *c20Tongue) Catch() (*WebRTCPeer, error) {
	k := atomic.AddInt64(&g.caught, 1)
	if k%7 == 0 {
		return nil, fmt.Errorf("c20: no snowflake this time")
	}
	// same shape as the repo's own FakeDialer, plus the pipe that cleanup() closes
	c := &WebRTCPeer{closed: make(chan struct{})}
	c.recvPipe, c.writePipe = io.Pipe()
	c.bytesLogger = &bytesNullLogger{}
	return c, nil
}
func (g *c20Tongue) GetMax() int { return g.max }

func TestVerifC20Peers(t *testing.T) {
	log.SetOutput(io.Discard)
	rounds := c20EnvInt("VERIF_C20_N", 20)
	var collected, popped, closedBy, ends int64
	for r := 0; r < rounds; r++ {
		tongue := &c20Tongue{max: 1 + r%4}
		p, err := NewPeers(tongue)
		if err != nil {
			t.Fatal(err)
		}
		p.bytesLogger = &bytesNullLogger{}
		var wg sync.WaitGroup
		stop := make(chan struct{})
		// collectors (connectLoop makes one; dial paths may make more)
		for k := 0; k < 3; k++ {
			wg.Add(1)
			go func() {
				defer wg.Done()
				for {
					select {
					case <-p.Melted():
						return
					default:
					}
					if _, err := p.Collect(); err == nil {
						atomic.AddInt64(&collected, 1)
					} else {
						time.Sleep(50 * time.Microsecond)
					}
				}
			}()
		}
		// consumers: pop a snowflake, use it briefly, close it (as the redial adapter does)
		for k := 0; k < 2; k++ {
			wg.Add(1)
			go func() {
				defer wg.Done()
				for {
					s := p.Pop()
					if s == nil {
						return
					}
					atomic.AddInt64(&popped, 1)
					s.Close()
					atomic.AddInt64(&closedBy, 1)
				}
			}()
		}
		time.Sleep(time.Duration(2+r%5) * time.Millisecond)
		p.End()
		atomic.AddInt64(&ends, 1)
		close(stop)
		done := make(chan struct{})
		go func() { wg.Wait(); close(done) }()
		select {
		case <-done:
		case <-time.After(5 * time.Second):
			fmt.Printf("C20 peers round %d: workers did not stop\n", r)
		}
	}
	fmt.Printf("C20 peers done=true rounds=%d collected=%d popped=%d closed=%d ends=%d\n", rounds, collected, popped, closedBy, ends)
}
