//go:build verif

// In-package driver for C08 at the client's call site: (*BrokerChannel).Negotiate on a channel built
// by newBrokerChannelFromConfig(ClientConfig{BrokerURL, AmpCacheURL, FrontDomain, KeepLocalAddresses}).
// The rendezvous object and its Exchange are the real ones; only the http.RoundTripper at the very
// bottom is replaced by a recorder that plays the broker: it decodes the client poll request it is
// handed (POST body, or the AMP path) and answers with a well-formed poll response.  Runs only when
// the compiled test binary is started with `-test.run ^TestVerifC08Driver$ -verif.c08`; line protocol
// of coq/Run/SdpstripRun.v (`csend`).
package snowflake_client

import (
	"bytes"
	"flag"
	"io"
	"io/ioutil"
	"log"
	"net/http"
	"os"
	"strings"
	"testing"

	"git.torproject.org/pluggable-transports/snowflake.git/v2/common/amp"
	"git.torproject.org/pluggable-transports/snowflake.git/v2/common/messages"
	"git.torproject.org/pluggable-transports/snowflake.git/v2/common/util"
	"git.torproject.org/pluggable-transports/snowflake.git/v2/zz_verif/sdpstrip/sdplines"
	"git.torproject.org/pluggable-transports/snowflake.git/v2/zz_verif/wire"
	"github.com/pion/webrtc/v3"
)

var verifC08 = flag.Bool("verif.c08", false, "run the C08 call-site line-protocol driver")

const c08Answer = `{"type":"answer","sdp":"v=0\r\n"}`

// c08Broker is the broker seen from the RoundTripper: it records the encoded client poll requests.
type c08Broker struct {
	reqs [][]byte
	bad  string
}

func (b *c08Broker) RoundTrip(req *http.Request) (*http.Response, error) {
	resp, _ := (&messages.ClientPollResponse{Answer: c08Answer}).EncodePollResponse()
	var body []byte
	const marker = "/amp/client/"
	if i := strings.Index(req.URL.Path, marker); i >= 0 && req.Method == "GET" {
		enc, err := amp.DecodePath(req.URL.Path[i+len(marker):])
		if err != nil {
			b.bad = "amp-path-undecodable"
		}
		b.reqs = append(b.reqs, enc)
		var buf bytes.Buffer
		w, _ := amp.NewArmorEncoder(&buf)
		w.Write(resp)
		w.Close()
		body = buf.Bytes()
	} else if req.Method == "POST" && strings.HasSuffix(req.URL.Path, "/client") {
		enc, _ := ioutil.ReadAll(req.Body)
		b.reqs = append(b.reqs, enc)
		body = resp
	} else {
		b.bad = "unexpected-request " + req.Method + " " + req.URL.Path
	}
	return &http.Response{Status: "200 OK", StatusCode: 200, Header: http.Header{}, Body: ioutil.NopCloser(bytes.NewReader(body)), Request: req}, nil
}

func c08ClientSend(viaClient bool, keep bool, brokerURL, cacheURL, front string, text string) string {
	config := ClientConfig{
		BrokerURL:          brokerURL,
		AmpCacheURL:        cacheURL,
		FrontDomain:        front,
		KeepLocalAddresses: keep,
	}
	var bc *BrokerChannel
	if viaClient {
		// the exported constructor; the channel is the one its dialer will negotiate through
		t, err := NewSnowflakeClient(config)
		if err != nil {
			return "nochannel"
		}
		bc = t.dialer.BrokerChannel
	} else {
		var err error
		if bc, err = newBrokerChannelFromConfig(config); err != nil {
			return "nochannel"
		}
	}
	b := &c08Broker{}
	switch r := bc.Rendezvous.(type) {
	case *httpRendezvous:
		r.transport = b
	case *ampCacheRendezvous:
		r.transport = b
	default:
		return "!unknown-rendezvous-method"
	}
	answer, nerr := bc.Negotiate(&webrtc.SessionDescription{Type: webrtc.SDPTypeOffer, SDP: text})
	if b.bad != "" {
		return "!" + b.bad
	}
	if len(b.reqs) != 1 {
		if nerr != nil {
			return "!nothing-sent " + strings.ReplaceAll(nerr.Error(), "\n", " ")
		}
		return "!requests-sent-" + string(rune('0'+len(b.reqs)))
	}
	if nerr != nil || answer == nil || answer.SDP != "v=0\r\n" {
		return "!negotiate-did-not-return-the-answer"
	}
	req, err := messages.DecodeClientPollRequest(b.reqs[0])
	if err != nil {
		return "!poll-request-undecodable"
	}
	d, err := util.DeserializeSessionDescription(req.Offer)
	if err != nil {
		return "!offer-undeserialisable"
	}
	if d.Type != webrtc.SDPTypeOffer {
		return "!offer-type-changed"
	}
	return sdplines.Structure([]byte(text)).Sent(text, d.SDP)
}

func TestVerifC08Driver(t *testing.T) {
	if !*verifC08 {
		t.Skip("driver mode not requested")
	}
	log.SetOutput(io.Discard)
	wire.Loop(func(a []string) string {
		switch a[0] {
		case "csend", "csendc": // csend <keep> x<broker url> x<amp cache url> x<front domain> <lstruct> x<text>; csendc: through NewSnowflakeClient
			if len(a) != 7 {
				return "!badcase"
			}
			var f [4][]byte
			for i, j := range []int{2, 3, 4, 6} {
				p, err := wire.Payload(a[j])
				if err != nil {
					return "!badcase"
				}
				f[i] = p
			}
			if v := sdplines.Structure(f[3]); v.Tok != a[5] {
				return "!structure-mismatch " + v.Tok
			}
			return c08ClientSend(a[0] == "csendc", a[1] == "1", string(f[0]), string(f[1]), string(f[2]), string(f[3]))
		}
		return "!badcase"
	})
	os.Exit(0)
}
