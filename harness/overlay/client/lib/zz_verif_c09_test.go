//go:build verif

// In-package driver for property C09: client/lib's encapsulationPacketConn (the packet view of a
// stream that KCP uses). Protocol: the "pc" op of coq/Run/EncapRun.v. Identifiers are prefixed c09.
package snowflake_client

import (
	"bytes"
	"io"
	"os"
	"strconv"
	"strings"
	"testing"

	"git.torproject.org/pluggable-transports/snowflake.git/v2/common/encapsulation"
	"git.torproject.org/pluggable-transports/snowflake.git/v2/zz_verif/wire"
)

func TestC09VerifDriver(t *testing.T) {
	if os.Getenv("VERIF_DRIVER") != "1" {
		t.Skip("driver only")
	}
	wire.Loop(c09Dispatch)
	os.Exit(0)
}

type c09Entry struct {
	m   int
	eof bool
}

// c09Stream is the io.ReadWriteCloser under the packet conn: reads follow a fragmentation script
// (see coq/Model/Encap.v), writes are collected.
type c09Stream struct {
	rem    []byte
	script []c09Entry
	out    bytes.Buffer
}

func (r *c09Stream) Write(p []byte) (int, error) { return r.out.Write(p) }
func (r *c09Stream) Close() error                { return nil }
func (r *c09Stream) Read(p []byte) (int, error) {
	if len(p) == 0 {
		return 0, nil
	}
	if len(r.rem) == 0 {
		if len(r.script) > 0 {
			r.script = r.script[1:]
		}
		return 0, io.EOF
	}
	if len(r.script) == 0 {
		n := copy(p, r.rem)
		r.rem = r.rem[n:]
		return n, nil
	}
	e := r.script[0]
	r.script = r.script[1:]
	k := e.m
	if k > len(p) {
		k = len(p)
	}
	n := copy(p[:k], r.rem)
	r.rem = r.rem[n:]
	if len(r.rem) == 0 && e.eof && n > 0 {
		return n, io.EOF
	}
	return n, nil
}

func c09Dispatch(a []string) string {
	if len(a) != 4 || a[0] != "pc" {
		return "!badcase"
	}
	var script []c09Entry
	for _, x := range wire.List(a[2]) {
		e := c09Entry{}
		if strings.HasSuffix(x, "E") {
			e.eof = true
			x = x[:len(x)-1]
		}
		m, err := strconv.Atoi(x)
		if err != nil {
			return "!badcase"
		}
		e.m = m
		script = append(script, e)
	}
	bufsize, err := strconv.Atoi(a[3])
	if err != nil {
		return "!badcase"
	}
	var datas [][]byte
	var stream bytes.Buffer
	for _, it := range wire.List(a[1]) {
		switch it[0] {
		case 'd':
			d, err := wire.Payload(it[1:])
			if err != nil {
				return "!badcase"
			}
			datas = append(datas, d)
			if _, err := encapsulation.WriteData(&stream, d); err != nil {
				return "E:toolong"
			}
		case 'p':
			n, err := strconv.Atoi(it[1:])
			if err != nil {
				return "!badcase"
			}
			if _, err := encapsulation.WritePadding(&stream, n); err != nil {
				return "!padding " + err.Error()
			}
		default:
			return "!badcase"
		}
	}
	// write side: one WriteTo per packet, the caller's buffer is overwritten afterwards
	ws := &c09Stream{}
	wc := newEncapsulationPacketConn(nil, nil, ws)
	for _, d := range datas {
		buf := append([]byte(nil), d...)
		n, err := wc.WriteTo(buf, nil)
		if err != nil {
			return "E:toolong"
		}
		if n != len(d) {
			return "!writeto-count " + strconv.Itoa(n)
		}
		for i := range buf {
			buf[i] ^= 0xff
		}
	}
	// read side
	rs := &c09Stream{rem: stream.Bytes(), script: script}
	rc := newEncapsulationPacketConn(nil, nil, rs)
	var pkts []string
	var rerr error
	buf := make([]byte, bufsize)
	for {
		n, _, err := rc.ReadFrom(buf)
		if err != nil {
			rerr = err
			if n != 0 {
				return "!readfrom-data-with-error"
			}
			break
		}
		pkts = append(pkts, "x"+wire.Hex(buf[:n]))
	}
	ec := "other:" + rerr.Error()
	switch rerr {
	case io.EOF:
		ec = "eof"
	case io.ErrUnexpectedEOF:
		ec = "ueof"
	case encapsulation.ErrTooLong:
		ec = "toolong"
	}
	return "wire=" + wire.Hex(ws.out.Bytes()) + " packets=" + wire.PrintList(pkts) + " err=" + ec
}
