//go:build verif

// In-package driver for property C15 (client peer pool, connect).
// Protocol: see coq/Run/PeersRun.v and coq/Run/ConnectRun.v. Every identifier declared
// here is prefixed c15 (another driver lives in this package on another branch).
package snowflake_client

import (
	"errors"
	"fmt"
	"os"
	"runtime"
	"strconv"
	"strings"
	"sync"
	"testing"
	"time"

	"git.torproject.org/pluggable-transports/snowflake.git/v2/common/event"
	"git.torproject.org/pluggable-transports/snowflake.git/v2/common/messages"
	"git.torproject.org/pluggable-transports/snowflake.git/v2/common/util"
	"git.torproject.org/pluggable-transports/snowflake.git/v2/zz_verif/wire"
	"github.com/pion/webrtc/v3"
)

func TestC15VerifDriver(t *testing.T) {
	if os.Getenv("VERIF_DRIVER") != "1" {
		t.Skip("driver only")
	}
	wire.Loop(c15Dispatch)
	os.Exit(0)
}

func c15Dispatch(args []string) string {
	if len(args) == 0 {
		return "!badcase"
	}
	switch args[0] {
	case "run", "run0":
		if len(args) != 4 {
			return "!badcase"
		}
		return c15RunPeers(args[1], args[2], args[3])
	case "conn", "conn0":
		if len(args) != 3 {
			return "!badcase"
		}
		return c15RunConnect(args[1], args[2])
	}
	return "!badcase"
}

// ---------------------------------------------------------------- scripted Tongue

var c15ErrCatch = errors.New("c15 scripted catch failure")

type c15Tongue struct {
	max     int
	mu      sync.Mutex
	peers   []*WebRTCPeer
	calls   int
	gated   bool
	nextOK  bool
	entered chan struct{}
	gate    chan bool
}

func (t *c15Tongue) GetMax() int { return t.max }

func (t *c15Tongue) Catch() (*WebRTCPeer, error) {
	t.mu.Lock()
	t.calls++
	gated, ok := t.gated, t.nextOK
	t.mu.Unlock()
	t.entered <- struct{}{}
	if gated {
		ok = <-t.gate
	}
	if !ok {
		return nil, c15ErrCatch
	}
	p := &WebRTCPeer{closed: make(chan struct{})}
	t.mu.Lock()
	t.peers = append(t.peers, p)
	t.mu.Unlock()
	return p, nil
}

func (t *c15Tongue) idOf(p *WebRTCPeer) string {
	t.mu.Lock()
	defer t.mu.Unlock()
	for i, q := range t.peers {
		if q == p {
			return strconv.Itoa(i)
		}
	}
	return "unknown"
}

// c15Thread is one call (Collect, Pop or End) running in its own goroutine.
type c15Thread struct {
	done   chan struct{}
	result string
}

func c15Go(f func() string) *c15Thread {
	th := &c15Thread{done: make(chan struct{})}
	go func() {
		defer close(th.done)
		defer func() {
			if r := recover(); r != nil {
				th.result = "panic"
			}
		}()
		th.result = f()
	}()
	return th
}

func (th *c15Thread) finished() bool {
	select {
	case <-th.done:
		return true
	default:
		return false
	}
}

type c15Scenario struct {
	tongue *c15Tongue
	peers  *Peers
	wait   time.Duration
	col    *c15Thread // collector call in progress (nil when none)
	colGat bool       // collector is parked at the gate inside Catch
	endBeg bool       // some End has been started
	colM   bool       // gate was released with "ok" after End had begun
	pops   []*c15Thread
	ends   []*c15Thread
}

// settle waits until every thread that is not parked at the gate has finished, or the
// watchdog expires (then those threads are reported as blocked).
func (sc *c15Scenario) settle() {
	deadline := time.Now().Add(sc.wait)
	for spin := 0; ; spin++ {
		all := true
		if sc.col != nil && !sc.colGat && !sc.col.finished() {
			all = false
		}
		for _, th := range sc.pops {
			if !th.finished() {
				all = false
			}
		}
		for _, th := range sc.ends {
			if !th.finished() {
				all = false
			}
		}
		if all {
			return
		}
		if spin < 2000 {
			runtime.Gosched()
			continue
		}
		if time.Now().After(deadline) {
			return
		}
		time.Sleep(200 * time.Microsecond)
	}
}

func (sc *c15Scenario) collectCall() *c15Thread {
	t := sc.tongue
	return c15Go(func() string {
		t.mu.Lock()
		before := t.calls
		t.mu.Unlock()
		peer, err := sc.peers.Collect()
		t.mu.Lock()
		called := t.calls != before
		t.mu.Unlock()
		switch {
		case err == nil && peer != nil:
			return "ok:" + t.idOf(peer)
		case err == nil:
			return "nilnil"
		case err == c15ErrCatch:
			return "fail"
		case !called:
			return "refused"
		default:
			return "aborted"
		}
	})
}

// report of the collector call: result when finished (and forget it), else blocked/catching
func (sc *c15Scenario) colReport() string {
	if sc.col == nil {
		return "nocall"
	}
	if sc.col.finished() {
		r := sc.col.result
		if sc.colM && (strings.HasPrefix(r, "ok:") || r == "aborted") {
			// End had begun before the in-flight Catch returned a peer: handing it over and
			// giving up on melt are both allowed (select picks either); projected to "m".
			r = "m"
		}
		sc.col, sc.colGat, sc.colM = nil, false, false
		return r
	}
	if sc.colGat {
		return "catching"
	}
	return "blocked"
}

func c15Oldest(l *[]*c15Thread) string {
	if len(*l) == 0 {
		return "nocall"
	}
	th := (*l)[0]
	if th.finished() {
		*l = (*l)[1:]
		return th.result
	}
	return "blocked"
}

func c15Newest(l *[]*c15Thread) string {
	th := (*l)[len(*l)-1]
	if th.finished() {
		*l = (*l)[:len(*l)-1]
		return th.result
	}
	return "blocked"
}

func c15RunPeers(maxS, waitS, script string) string {
	max, err1 := strconv.Atoi(maxS)
	waitMs, err2 := strconv.Atoi(waitS)
	if err1 != nil || err2 != nil {
		return "!badcase"
	}
	t := &c15Tongue{max: max, entered: make(chan struct{}, 64), gate: make(chan bool, 1)}
	p, err := NewPeers(t)
	if err != nil {
		return "!nopeers"
	}
	sc := &c15Scenario{tongue: t, peers: p, wait: time.Duration(waitMs) * time.Millisecond}
	var out []string
	dead := false
	for _, op := range wire.List(script) {
		if !dead && len(out) > 0 && out[len(out)-1] == "panic" {
			// an unrecovered panic ends the process: nothing after it is observable
			dead = true
		}
		if dead {
			out = append(out, "dead")
			continue
		}
		switch {
		case op == "c+" || op == "c-" || op == "cb":
			if sc.col != nil {
				out = append(out, "skip")
				continue
			}
			t.mu.Lock()
			t.gated, t.nextOK = op == "cb", op == "c+"
			t.mu.Unlock()
			sc.col = sc.collectCall()
			if op == "cb" {
				// wait until Catch has been entered or the call returned without it
				deadline := time.Now().Add(sc.wait)
			waitEnter:
				for spin := 0; ; spin++ {
					select {
					case <-t.entered:
						sc.colGat = true
						break waitEnter
					case <-sc.col.done:
						break waitEnter
					default:
						if spin < 2000 {
							runtime.Gosched()
							continue
						}
						if time.Now().After(deadline) {
							break waitEnter
						}
						time.Sleep(200 * time.Microsecond)
					}
				}
			}
			sc.settle()
			if op != "cb" {
				select {
				case <-t.entered:
				default:
				}
			}
			out = append(out, sc.colReport())
		case op == "g+" || op == "g-":
			if sc.col == nil || !sc.colGat {
				out = append(out, "skip")
				continue
			}
			sc.colGat = false
			sc.colM = sc.endBeg && op == "g+"
			t.gate <- op == "g+"
			sc.settle()
			out = append(out, sc.colReport())
		case op == "cw":
			sc.settle()
			out = append(out, sc.colReport())
		case op == "p":
			sc.pops = append(sc.pops, c15Go(func() string {
				peer := p.Pop()
				if peer == nil {
					return "none"
				}
				return "some:" + t.idOf(peer)
			}))
			sc.settle()
			out = append(out, c15Newest(&sc.pops))
		case op == "pw":
			sc.settle()
			out = append(out, c15Oldest(&sc.pops))
		case op == "e":
			sc.endBeg = true
			sc.ends = append(sc.ends, c15Go(func() string {
				p.End()
				return "ret"
			}))
			sc.settle()
			out = append(out, c15Newest(&sc.ends))
		case op == "ew":
			sc.settle()
			out = append(out, c15Oldest(&sc.ends))
		case op == "n":
			out = append(out, "n="+strconv.Itoa(p.Count()))
		case strings.HasPrefix(op, "x"):
			k, err := strconv.Atoi(op[1:])
			t.mu.Lock()
			var peer *WebRTCPeer
			if err == nil && k >= 0 && k < len(t.peers) {
				peer = t.peers[k]
			}
			t.mu.Unlock()
			if peer == nil {
				out = append(out, "-")
			} else {
				peer.Close()
				sc.settle()
				out = append(out, "x")
			}
		default:
			return "!badcase"
		}
	}
	if dead || (len(out) > 0 && out[len(out)-1] == "panic") {
		return wire.PrintList(out) + " dead"
	}
	// summary
	var closed strings.Builder
	t.mu.Lock()
	for _, q := range t.peers {
		if q.Closed() {
			closed.WriteByte('1')
		} else {
			closed.WriteByte('0')
		}
	}
	t.mu.Unlock()
	melt := "0"
	select {
	case <-p.Melted():
		melt = "1"
	default:
	}
	pc := 0
	if sc.col != nil && !sc.col.finished() {
		pc = 1
	}
	pend := fmt.Sprintf("%d/%d/%d", pc, c15Unfinished(sc.pops), c15Unfinished(sc.ends))
	// let a collector parked at the gate go (tidiness; other blocked goroutines stay parked)
	if sc.col != nil && sc.colGat {
		t.gate <- false
	}
	cl := closed.String()
	if cl == "" {
		cl = "-"
	}
	return wire.PrintList(out) + " closed=" + cl + " melt=" + melt + " pend=" + pend
}

func c15Unfinished(l []*c15Thread) int {
	n := 0
	for _, th := range l {
		if !th.finished() {
			n++
		}
	}
	return n
}

// ---------------------------------------------------------------- connect

type c15Events struct {
	mu  sync.Mutex
	log []string
}

func (e *c15Events) OnNewSnowflakeEvent(ev event.SnowflakeEvent) {
	e.mu.Lock()
	defer e.mu.Unlock()
	switch v := ev.(type) {
	case event.EventOnOfferCreated:
		e.log = append(e.log, "offer"+c15ErrTag(v.Error))
	case event.EventOnBrokerRendezvous:
		e.log = append(e.log, "rendezvous"+c15ErrTag(v.Error))
	case event.EventOnSnowflakeConnected:
		e.log = append(e.log, "connected")
	case event.EventOnSnowflakeConnectionFailed:
		e.log = append(e.log, "failed")
	default:
		e.log = append(e.log, "other")
	}
}

func c15ErrTag(err error) string {
	if err != nil {
		return "!"
	}
	return ""
}

// c15Rendezvous is a scripted RendezvousMethod. For "good"/"noopen" it answers with a real
// in-process pion peer.
type c15Rendezvous struct {
	kind   string
	remote *webrtc.PeerConnection
	calls  int
}

func (r *c15Rendezvous) Exchange(enc []byte) ([]byte, error) {
	r.calls++
	answerJSON := func(sdp string) ([]byte, error) {
		resp := &messages.ClientPollResponse{Answer: sdp}
		return resp.EncodePollResponse()
	}
	switch r.kind {
	case "neterr":
		return nil, errors.New("c15 scripted: broker unreachable")
	case "badjson":
		return []byte("\x00\x01 not json"), nil
	case "brokererr":
		resp := &messages.ClientPollResponse{Error: "no snowflake proxies currently available"}
		return resp.EncodePollResponse()
	case "emptyanswer":
		return answerJSON("")
	case "badanswer":
		return answerJSON("{{{")
	case "typenum":
		return answerJSON(`{"type":1,"sdp":"x"}`)
	case "unknowntype":
		return answerJSON(`{"type":"bogus","sdp":"v=0"}`)
	case "garbagesdp":
		return answerJSON(`{"type":"answer","sdp":"garbage"}`)
	case "wrongtype":
		// an offer where an answer is expected: SetRemoteDescription refuses it
		req, err := messages.DecodeClientPollRequest(enc)
		if err != nil {
			return nil, err
		}
		return answerJSON(req.Offer)
	case "good", "noopen":
		req, err := messages.DecodeClientPollRequest(enc)
		if err != nil {
			return nil, err
		}
		offer, err := util.DeserializeSessionDescription(req.Offer)
		if err != nil {
			return nil, err
		}
		pc, err := webrtc.NewPeerConnection(webrtc.Configuration{})
		if err != nil {
			return nil, err
		}
		r.remote = pc
		if err = pc.SetRemoteDescription(*offer); err != nil {
			return nil, err
		}
		done := webrtc.GatheringCompletePromise(pc)
		ans, err := pc.CreateAnswer(nil)
		if err != nil {
			return nil, err
		}
		if err = pc.SetLocalDescription(ans); err != nil {
			return nil, err
		}
		<-done
		s, err := util.SerializeSessionDescription(pc.LocalDescription())
		if err != nil {
			return nil, err
		}
		if r.kind == "noopen" {
			// the proxy vanishes after answering: the data channel never opens
			pc.Close()
		}
		return answerJSON(s)
	}
	return nil, errors.New("c15: unknown rendezvous kind")
}

func c15ICE(kind string) ([]webrtc.ICEServer, bool) {
	switch kind {
	case "none":
		return nil, true
	case "empty":
		return []webrtc.ICEServer{{URLs: []string{""}}}, true
	case "garbage":
		return []webrtc.ICEServer{{URLs: []string{"foo"}}}, true
	case "stunnohost":
		return []webrtc.ICEServer{{URLs: []string{"stun:"}}}, true
	case "http":
		return []webrtc.ICEServer{{URLs: []string{"http://x"}}}, true
	case "turnnocred":
		return []webrtc.ICEServer{{URLs: []string{"turn:127.0.0.1:3478"}}}, true
	case "stun":
		return []webrtc.ICEServer{{URLs: []string{"stun:127.0.0.1:3478"}}}, true
	case "mixed":
		return []webrtc.ICEServer{{URLs: []string{"stun:127.0.0.1:3478"}}, {URLs: []string{""}}}, true
	}
	return nil, false
}

func c15Goroutines(limit int, patience time.Duration) int {
	deadline := time.Now().Add(patience)
	for {
		n := runtime.NumGoroutine()
		if n <= limit || time.Now().After(deadline) {
			return n
		}
		time.Sleep(5 * time.Millisecond)
	}
}

func c15RunConnect(iceKind, rvKind string) string {
	servers, ok := c15ICE(iceKind)
	if !ok {
		return "!badcase"
	}
	base := c15Goroutines(0, 0)
	rv := &c15Rendezvous{kind: rvKind}
	broker := &BrokerChannel{Rendezvous: rv, keepLocalAddresses: true, natType: "unknown"}
	ev := &c15Events{}
	config := &webrtc.Configuration{ICEServers: servers}
	type res struct {
		peer *WebRTCPeer
		err  error
		pan  bool
	}
	ch := make(chan res, 1)
	go func() {
		var r res
		defer func() {
			if x := recover(); x != nil {
				r.pan = true
			}
			ch <- r
		}()
		r.peer, r.err = NewWebRTCPeerWithEvents(config, broker, ev)
	}()
	var r res
	select {
	case r = <-ch:
	case <-time.After(DataChannelTimeout + 20*time.Second):
		return "res=hung"
	}
	out := "res="
	switch {
	case r.pan:
		out += "panic"
	case r.err != nil && r.peer == nil:
		out += "err"
	case r.err == nil && r.peer != nil:
		if r.peer.Closed() {
			out += "okclosed"
		} else {
			out += "ok"
		}
		r.peer.Close()
	default:
		out += "mixed"
	}
	if rv.remote != nil {
		rv.remote.Close()
	}
	ev.mu.Lock()
	out += " events=" + wire.PrintList(ev.log)
	ev.mu.Unlock()
	out += " rv=" + strconv.Itoa(rv.calls)
	// everything acquired for the attempt must have been released: no goroutine of the
	// peer connection survives
	n := c15Goroutines(base, 5*time.Second)
	if n > base {
		out += " leak=1"
	} else {
		out += " leak=0"
	}
	return out
}
