//go:build verif

// In-package driver for property C15 (client peer pool, connect).
// Protocol: see coq/Run/PeersRun.v and coq/Run/ConnectRun.v. Every identifier declared
// here is prefixed c15 (another driver lives in this package on another branch).
package snowflake_client

import (
	"errors"
	"fmt"
	"io"
	"net/http"
	"net/http/httptest"
	"os"
	"reflect"
	"runtime"
	"strconv"
	"strings"
	"sync"
	"sync/atomic"
	"testing"
	"time"
	"unsafe"

	pt "git.torproject.org/pluggable-transports/goptlib.git"
	"git.torproject.org/pluggable-transports/snowflake.git/v2/common/event"
	"git.torproject.org/pluggable-transports/snowflake.git/v2/common/messages"
	"git.torproject.org/pluggable-transports/snowflake.git/v2/common/util"
	"git.torproject.org/pluggable-transports/snowflake.git/v2/zz_verif/wire"
	"github.com/pion/webrtc/v3"
)

func TestC15VerifDriver(t *testing.T) {
	if os.Getenv("VERIF_DRIVER") != "1" {
		t.Skip("driver only")
	}
	// the rendering listener below writes pluggable-transport LOG lines as the client binary does:
	// keep them off the result stream
	pt.Stdout = io.Discard
	wire.Loop(c15Dispatch)
	os.Exit(0)
}

func c15Dispatch(args []string) string {
	if len(args) == 0 {
		return "!badcase"
	}
	switch args[0] {
	case "run", "run0":
		if len(args) != 4 {
			return "!badcase"
		}
		return c15RunPeers(args[1], args[2], args[3])
	case "conn", "conn0":
		if len(args) != 3 {
			return "!badcase"
		}
		return c15RunConnect(args[1], args[2])
	case "batch":
		if len(args) != 2 {
			return "!badcase"
		}
		return c15RunCloseBatch(args[1])
	}
	return "!badcase"
}

// ---------------------------------------------------------------- scripted Tongue

var c15ErrCatch = errors.New("c15 scripted catch failure")

type c15Tongue struct {
	max     int
	mu      sync.Mutex
	peers   []*WebRTCPeer
	calls   int
	flying  int // Catch calls that have not returned (rendezvous attempts in flight)
	gated   bool
	nextOK  bool
	entered chan struct{}
	gate    chan bool
}

func (t *c15Tongue) GetMax() int { return t.max }

func (t *c15Tongue) Catch() (*WebRTCPeer, error) {
	t.mu.Lock()
	t.calls++
	gated, ok := t.gated, t.nextOK
	t.flying++
	t.mu.Unlock()
	t.entered <- struct{}{}
	if gated {
		ok = <-t.gate
	}
	t.mu.Lock()
	defer t.mu.Unlock()
	t.flying--
	if !ok {
		return nil, c15ErrCatch
	}
	// a scripted peer has a (never connected) DataChannel as its transport, so that cleanup() has something to
	// tear down: the driver can park a Close call inside that teardown (ops xb / xe)
	p := &WebRTCPeer{closed: make(chan struct{}), transport: &webrtc.DataChannel{}}
	t.peers = append(t.peers, p)
	return p, nil
}

// c15Shut is the ground truth of "somebody has closed this peer": the state of its closed channel itself, not what
// Closed() makes of it.
func c15Shut(p *WebRTCPeer) bool {
	select {
	case <-p.closed:
		return true
	default:
		return false
	}
}

// c15Gate parks one Close call of a scripted peer inside cleanup(): pion's DataChannel.Close() begins with
// d.mu.Lock(); the driver holds a read lock of that mutex, so the call waits there - after everything Close does
// before the teardown, before everything it does after it - until the read lock is released.
type c15Gate struct {
	mu   *sync.RWMutex
	done chan struct{}
}

func c15DCMutex(dc *webrtc.DataChannel) *sync.RWMutex {
	f := reflect.ValueOf(dc).Elem().FieldByName("mu")
	if !f.IsValid() || f.Type() != reflect.TypeOf(sync.RWMutex{}) {
		return nil
	}
	return (*sync.RWMutex)(unsafe.Pointer(f.UnsafeAddr()))
}

// c15BeginClose starts peer.Close() and returns once that call is parked inside the teardown (a writer is waiting
// for the mutex: TryRLock fails) or has returned without getting there.
func c15BeginClose(peer *WebRTCPeer, patience time.Duration) *c15Gate {
	mu := c15DCMutex(peer.transport)
	if mu == nil {
		return nil
	}
	mu.RLock()
	g := &c15Gate{mu: mu, done: make(chan struct{})}
	go func() {
		defer close(g.done)
		peer.Close()
	}()
	deadline := time.Now().Add(patience)
	for spin := 0; ; spin++ {
		if mu.TryRLock() {
			mu.RUnlock()
		} else {
			return g // parked
		}
		select {
		case <-g.done:
			return g
		default:
		}
		if spin < 2000 {
			runtime.Gosched()
			continue
		}
		if time.Now().After(deadline) {
			return g
		}
		time.Sleep(200 * time.Microsecond)
	}
}

// end lets the parked Close call go on and waits for it to return.
func (g *c15Gate) end(patience time.Duration) bool {
	g.mu.RUnlock()
	select {
	case <-g.done:
		return true
	case <-time.After(patience):
		return false
	}
}

// unfinished reports what an End call that has just returned must not find: rendezvous
// attempts still in flight, peers still open.
func (t *c15Tongue) unfinished() (flying, open int) {
	t.mu.Lock()
	defer t.mu.Unlock()
	for _, q := range t.peers {
		if !c15Shut(q) {
			open++
		}
	}
	return t.flying, open
}

func (t *c15Tongue) idOf(p *WebRTCPeer) string {
	t.mu.Lock()
	defer t.mu.Unlock()
	for i, q := range t.peers {
		if q == p {
			return strconv.Itoa(i)
		}
	}
	return "unknown"
}

// c15Thread is one call (Collect, Pop or End) running in its own goroutine.
type c15Thread struct {
	done   chan struct{}
	result string
}

func c15Go(f func() string) *c15Thread {
	th := &c15Thread{done: make(chan struct{})}
	go func() {
		defer close(th.done)
		defer func() {
			if r := recover(); r != nil {
				th.result = "panic"
			}
		}()
		th.result = f()
	}()
	return th
}

func (th *c15Thread) finished() bool {
	select {
	case <-th.done:
		return true
	default:
		return false
	}
}

type c15Scenario struct {
	tongue *c15Tongue
	peers  *Peers
	wait   time.Duration
	col    *c15Thread // collector call in progress (nil when none)
	colGat bool       // collector is parked at the gate inside Catch
	endBeg bool       // some End has been started
	colM   bool       // gate was released with "ok" after End had begun
	pops   []*c15Thread
	ends   []*c15Thread
}

// settle waits until every thread that is not parked at the gate has finished, or the
// watchdog expires (then those threads are reported as blocked).
func (sc *c15Scenario) settle() {
	deadline := time.Now().Add(sc.wait)
	for spin := 0; ; spin++ {
		all := true
		if sc.col != nil && !sc.colGat && !sc.col.finished() {
			all = false
		}
		for _, th := range sc.pops {
			if !th.finished() {
				all = false
			}
		}
		for _, th := range sc.ends {
			if !th.finished() {
				all = false
			}
		}
		if all {
			return
		}
		if spin < 2000 {
			runtime.Gosched()
			continue
		}
		if time.Now().After(deadline) {
			return
		}
		time.Sleep(200 * time.Microsecond)
	}
}

func (sc *c15Scenario) collectCall() *c15Thread {
	t := sc.tongue
	return c15Go(func() string {
		t.mu.Lock()
		before := t.calls
		t.mu.Unlock()
		peer, err := sc.peers.Collect()
		t.mu.Lock()
		called := t.calls != before
		t.mu.Unlock()
		switch {
		case err == nil && peer != nil:
			return "ok:" + t.idOf(peer)
		case err == nil:
			return "nilnil"
		case err == c15ErrCatch:
			return "fail"
		case !called:
			return "refused"
		default:
			return "aborted"
		}
	})
}

// report of the collector call: result when finished (and forget it), else blocked/catching
func (sc *c15Scenario) colReport() string {
	if sc.col == nil {
		return "nocall"
	}
	if sc.col.finished() {
		r := sc.col.result
		if sc.colM && (strings.HasPrefix(r, "ok:") || r == "aborted") {
			// End had begun before the in-flight Catch returned a peer: handing it over and
			// giving up on melt are both allowed (select picks either); projected to "m".
			r = "m"
		}
		sc.col, sc.colGat, sc.colM = nil, false, false
		return r
	}
	if sc.colGat {
		return "catching"
	}
	return "blocked"
}

func c15Oldest(l *[]*c15Thread) string {
	if len(*l) == 0 {
		return "nocall"
	}
	th := (*l)[0]
	if th.finished() {
		*l = (*l)[1:]
		return th.result
	}
	return "blocked"
}

func c15Newest(l *[]*c15Thread) string {
	th := (*l)[len(*l)-1]
	if th.finished() {
		*l = (*l)[:len(*l)-1]
		return th.result
	}
	return "blocked"
}

func c15RunPeers(maxS, waitS, script string) string {
	max, err1 := strconv.Atoi(maxS)
	waitMs, err2 := strconv.Atoi(waitS)
	if err1 != nil || err2 != nil {
		return "!badcase"
	}
	t := &c15Tongue{max: max, entered: make(chan struct{}, 64), gate: make(chan bool, 1)}
	p, err := NewPeers(t)
	if err != nil {
		return "!nopeers"
	}
	sc := &c15Scenario{tongue: t, peers: p, wait: time.Duration(waitMs) * time.Millisecond}
	gates := map[int]*c15Gate{} // Close calls parked inside their teardown
	defer func() {
		for _, g := range gates {
			g.end(time.Second)
		}
	}()
	peerNo := func(arg string) (int, *WebRTCPeer) {
		k, err := strconv.Atoi(arg)
		t.mu.Lock()
		defer t.mu.Unlock()
		if err != nil || k < 0 || k >= len(t.peers) {
			return -1, nil
		}
		return k, t.peers[k]
	}
	var out []string
	dead := false
	for _, op := range wire.List(script) {
		if !dead && len(out) > 0 && out[len(out)-1] == "panic" {
			// an unrecovered panic ends the process: nothing after it is observable
			dead = true
		}
		if dead {
			out = append(out, "dead")
			continue
		}
		switch {
		case op == "c+" || op == "c-" || op == "cb":
			if sc.col != nil {
				out = append(out, "skip")
				continue
			}
			t.mu.Lock()
			t.gated, t.nextOK = op == "cb", op == "c+"
			t.mu.Unlock()
			sc.col = sc.collectCall()
			if op == "cb" {
				// wait until Catch has been entered or the call returned without it
				deadline := time.Now().Add(sc.wait)
			waitEnter:
				for spin := 0; ; spin++ {
					select {
					case <-t.entered:
						sc.colGat = true
						break waitEnter
					case <-sc.col.done:
						break waitEnter
					default:
						if spin < 2000 {
							runtime.Gosched()
							continue
						}
						if time.Now().After(deadline) {
							break waitEnter
						}
						time.Sleep(200 * time.Microsecond)
					}
				}
			}
			sc.settle()
			if op != "cb" {
				select {
				case <-t.entered:
				default:
				}
			}
			out = append(out, sc.colReport())
		case op == "g+" || op == "g-":
			if sc.col == nil || !sc.colGat {
				out = append(out, "skip")
				continue
			}
			sc.colGat = false
			sc.colM = sc.endBeg && op == "g+"
			t.gate <- op == "g+"
			sc.settle()
			out = append(out, sc.colReport())
		case op == "cw":
			sc.settle()
			out = append(out, sc.colReport())
		case op == "p":
			sc.pops = append(sc.pops, c15Go(func() string {
				peer := p.Pop()
				if peer == nil {
					return "none"
				}
				return "some:" + t.idOf(peer)
			}))
			sc.settle()
			out = append(out, c15Newest(&sc.pops))
		case op == "pw":
			sc.settle()
			out = append(out, c15Oldest(&sc.pops))
		case op == "e":
			sc.endBeg = true
			sc.ends = append(sc.ends, c15Go(func() string {
				p.End()
				// the moment End returns: no attempt in flight, nothing held open
				if f, o := t.unfinished(); f != 0 || o != 0 {
					return "ret-early"
				}
				return "ret"
			}))
			sc.settle()
			out = append(out, c15Newest(&sc.ends))
		case op == "ew":
			sc.settle()
			out = append(out, c15Oldest(&sc.ends))
		case op == "n":
			out = append(out, "n="+strconv.Itoa(p.Count()))
		case strings.HasPrefix(op, "xb"):
			// a Close call of peer k begins (remote close, staleness checker, data path) and is parked in its teardown
			k, peer := peerNo(op[2:])
			switch {
			case peer == nil:
				out = append(out, "-")
			case gates[k] != nil || c15Shut(peer):
				out = append(out, "skip")
			default:
				g := c15BeginClose(peer, sc.wait)
				if g == nil {
					return "!nogate"
				}
				gates[k] = g
				sc.settle()
				out = append(out, "xb")
			}
		case strings.HasPrefix(op, "xe"):
			k, peer := peerNo(op[2:])
			switch {
			case peer == nil:
				out = append(out, "-")
			case gates[k] == nil:
				out = append(out, "skip")
			default:
				ok := gates[k].end(sc.wait + time.Second)
				delete(gates, k)
				sc.settle()
				if ok {
					out = append(out, "xe")
				} else {
					out = append(out, "xe-hung")
				}
			}
		case strings.HasPrefix(op, "x"):
			k, peer := peerNo(op[1:])
			switch {
			case peer == nil:
				out = append(out, "-")
			case gates[k] != nil:
				// sync.Once: this call would wait for the teardown in progress
				out = append(out, "skip")
			default:
				peer.Close()
				sc.settle()
				out = append(out, "x")
			}
		case strings.HasPrefix(op, "s") || strings.HasPrefix(op, "r"):
			// s<k>: the last message from the proxy is older than SnowflakeTimeout (the staleness checker, which
			// looks once per second, has not looked yet); r<k>: a message arrives
			_, peer := peerNo(op[1:])
			if peer == nil {
				out = append(out, "-")
				continue
			}
			peer.mu.Lock()
			if op[0] == 's' {
				peer.lastReceive = time.Now().Add(-SnowflakeTimeout - time.Minute)
			} else {
				peer.lastReceive = time.Now()
			}
			peer.mu.Unlock()
			out = append(out, op[:1])
		default:
			return "!badcase"
		}
	}
	if dead || (len(out) > 0 && out[len(out)-1] == "panic") {
		return wire.PrintList(out) + " dead"
	}
	// summary
	var closed strings.Builder
	t.mu.Lock()
	for _, q := range t.peers {
		if c15Shut(q) {
			closed.WriteByte('1')
		} else {
			closed.WriteByte('0')
		}
	}
	t.mu.Unlock()
	melt := "0"
	select {
	case <-p.Melted():
		melt = "1"
	default:
	}
	pc := 0
	if sc.col != nil && !sc.col.finished() {
		pc = 1
	}
	pend := fmt.Sprintf("%d/%d/%d", pc, c15Unfinished(sc.pops), c15Unfinished(sc.ends))
	// let a collector parked at the gate go (tidiness; other blocked goroutines stay parked)
	if sc.col != nil && sc.colGat {
		t.gate <- false
	}
	cl := closed.String()
	if cl == "" {
		cl = "-"
	}
	return wire.PrintList(out) + " closed=" + cl + " melt=" + melt + " pend=" + pend
}

func c15Unfinished(l []*c15Thread) int {
	n := 0
	for _, th := range l {
		if !th.finished() {
			n++
		}
	}
	return n
}

// ---------------------------------------------------------------- connect

// c15Events is the event listener of every connect / close / retry scenario.  It records a token per
// event and then does with the event exactly what the listener of the client binary does
// (client/snowflake.go ptEventLogger.OnNewSnowflakeEvent: pt.Log(pt.LogSeverityNotice, e.String())).
// Listeners run on the goroutine that emits the event - for everything emitted by connect that is the
// collecting goroutine of connectLoop - so a panic in the rendering ends the client process: it is
// caught here and reported as term=1.
type c15Events struct {
	mu     sync.Mutex
	log    []string
	term   int // renderings that panicked
	nilerr int // failure events without an error
}

func (e *c15Events) OnNewSnowflakeEvent(ev event.SnowflakeEvent) {
	e.mu.Lock()
	defer e.mu.Unlock()
	switch v := ev.(type) {
	case event.EventOnOfferCreated:
		e.log = append(e.log, "offer"+c15ErrTag(v.Error))
	case event.EventOnBrokerRendezvous:
		e.log = append(e.log, "rendezvous"+c15ErrTag(v.Error))
	case event.EventOnSnowflakeConnected:
		e.log = append(e.log, "connected")
	case event.EventOnSnowflakeConnectionFailed:
		if v.Error == nil {
			e.nilerr++
			e.log = append(e.log, "failed?nil")
		} else {
			e.log = append(e.log, "failed")
		}
	default:
		e.log = append(e.log, "other")
	}
	defer func() {
		if r := recover(); r != nil {
			e.term++
		}
	}()
	pt.Log(pt.LogSeverityNotice, ev.String())
}

func (e *c15Events) snapshot() (log []string, term, nilerr int) {
	e.mu.Lock()
	defer e.mu.Unlock()
	return append([]string(nil), e.log...), e.term, e.nilerr
}

func c15Bit(n int) int {
	if n > 0 {
		return 1
	}
	return 0
}

func c15ErrTag(err error) string {
	if err != nil {
		return "!"
	}
	return ""
}

// c15Rendezvous is a scripted RendezvousMethod. For "good"/"noopen" it answers with a real
// in-process pion peer.
type c15Rendezvous struct {
	kind   string
	remote *webrtc.PeerConnection
	calls  int
}

func (r *c15Rendezvous) Exchange(enc []byte) ([]byte, error) {
	r.calls++
	answerJSON := func(sdp string) ([]byte, error) {
		resp := &messages.ClientPollResponse{Answer: sdp}
		return resp.EncodePollResponse()
	}
	switch r.kind {
	case "neterr":
		return nil, errors.New("c15 scripted: broker unreachable")
	case "badjson":
		return []byte("\x00\x01 not json"), nil
	case "brokererr":
		resp := &messages.ClientPollResponse{Error: "no snowflake proxies currently available"}
		return resp.EncodePollResponse()
	case "emptyanswer":
		return answerJSON("")
	case "badanswer":
		return answerJSON("{{{")
	case "typenum":
		return answerJSON(`{"type":1,"sdp":"x"}`)
	case "unknowntype":
		return answerJSON(`{"type":"bogus","sdp":"v=0"}`)
	case "garbagesdp":
		return answerJSON(`{"type":"answer","sdp":"garbage"}`)
	case "wrongtype":
		// an offer where an answer is expected: SetRemoteDescription refuses it
		req, err := messages.DecodeClientPollRequest(enc)
		if err != nil {
			return nil, err
		}
		return answerJSON(req.Offer)
	case "good", "noopen":
		req, err := messages.DecodeClientPollRequest(enc)
		if err != nil {
			return nil, err
		}
		offer, err := util.DeserializeSessionDescription(req.Offer)
		if err != nil {
			return nil, err
		}
		pc, err := webrtc.NewPeerConnection(webrtc.Configuration{})
		if err != nil {
			return nil, err
		}
		r.remote = pc
		if err = pc.SetRemoteDescription(*offer); err != nil {
			return nil, err
		}
		done := webrtc.GatheringCompletePromise(pc)
		ans, err := pc.CreateAnswer(nil)
		if err != nil {
			return nil, err
		}
		if err = pc.SetLocalDescription(ans); err != nil {
			return nil, err
		}
		<-done
		s, err := util.SerializeSessionDescription(pc.LocalDescription())
		if err != nil {
			return nil, err
		}
		if r.kind == "noopen" {
			// the proxy vanishes after answering: the data channel never opens
			pc.Close()
		}
		return answerJSON(s)
	}
	return nil, errors.New("c15: unknown rendezvous kind")
}

func c15ICE(kind string) ([]webrtc.ICEServer, bool) {
	switch kind {
	case "none":
		return nil, true
	case "empty":
		return []webrtc.ICEServer{{URLs: []string{""}}}, true
	case "garbage":
		return []webrtc.ICEServer{{URLs: []string{"foo"}}}, true
	case "stunnohost":
		return []webrtc.ICEServer{{URLs: []string{"stun:"}}}, true
	case "http":
		return []webrtc.ICEServer{{URLs: []string{"http://x"}}}, true
	case "turnnocred":
		return []webrtc.ICEServer{{URLs: []string{"turn:127.0.0.1:3478"}}}, true
	case "stun":
		return []webrtc.ICEServer{{URLs: []string{"stun:127.0.0.1:3478"}}}, true
	case "mixed":
		return []webrtc.ICEServer{{URLs: []string{"stun:127.0.0.1:3478"}}, {URLs: []string{""}}}, true
	}
	return nil, false
}

func c15Goroutines(limit int, patience time.Duration) int {
	deadline := time.Now().Add(patience)
	for {
		n := runtime.NumGoroutine()
		if n <= limit || time.Now().After(deadline) {
			return n
		}
		time.Sleep(5 * time.Millisecond)
	}
}

func c15RunConnect(iceKind, rvKind string) string {
	servers, ok := c15ICE(iceKind)
	if !ok {
		return "!badcase"
	}
	base := c15Goroutines(0, 0)
	rv := &c15Rendezvous{kind: rvKind}
	broker := &BrokerChannel{Rendezvous: rv, keepLocalAddresses: true, natType: "unknown"}
	ev := &c15Events{}
	config := &webrtc.Configuration{ICEServers: servers}
	type res struct {
		peer *WebRTCPeer
		err  error
		pan  bool
	}
	ch := make(chan res, 1)
	go func() {
		var r res
		defer func() {
			if x := recover(); x != nil {
				r.pan = true
			}
			ch <- r
		}()
		r.peer, r.err = NewWebRTCPeerWithEvents(config, broker, ev)
	}()
	var r res
	select {
	case r = <-ch:
	case <-time.After(DataChannelTimeout + 20*time.Second):
		return "res=hung"
	}
	out := "res="
	switch {
	case r.pan:
		out += "panic"
	case r.err != nil && r.peer == nil:
		out += "err"
	case r.err == nil && r.peer != nil:
		if r.peer.Closed() {
			out += "okclosed"
		} else {
			out += "ok"
		}
		r.peer.Close()
	default:
		out += "mixed"
	}
	if rv.remote != nil {
		rv.remote.Close()
	}
	evlog, term, _ := ev.snapshot()
	out += " events=" + wire.PrintList(evlog)
	out += " rv=" + strconv.Itoa(rv.calls)
	// everything acquired for the attempt must have been released: no goroutine of the
	// peer connection survives
	n := c15Goroutines(base, 5*time.Second)
	if n > base {
		out += " leak=1"
	} else {
		out += " leak=0"
	}
	return out + " term=" + strconv.Itoa(c15Bit(term))
}

// ---------------------------------------------------------------- closing a connection (exported API)
//
// closeconn batch <scenario,scenario,...>     scenario = <max>.<broker>.<pre>.<closes>
// Every scenario runs NewSnowflakeClient -> Transport.Dial -> SnowflakeConn against its own scripted
// broker (httptest) which counts the polls of /client; the scenarios of a batch run concurrently
// (each has to watch the broker for two ReconnectTimeouts after Close).
//   broker: fail      every poll is answered "no proxies"
//           good      the first poll is answered by an in-process pion peer (the client then holds a
//                     live peer), later polls fail
//           hold      the first poll is held by the broker until 1.5 s after Close was called (a
//                     rendezvous attempt in flight while the connection is closed), then fails
//           holdgood  same, but the held poll is then answered by a pion peer (a peer is being
//                     collected while the connection is closed)
//           silent    the broker accepts the connection, reads the request and never sends a response
//                     header (until the scenario is torn down): the attempt in flight ends only by the
//                     client's own limit (the ResponseHeaderTimeout of the transport NewBrokerChannel
//                     builds, 15 s); Close is called while it is in flight and is given that limit plus
//                     c15SilentSlack to return
//   pre:    none | sess (the smux session has died before the application calls Close)
//                | pconn (the packet conn was closed first) | stream (the stream was closed first)
//   closes: c (Close once) | cc (twice, one after the other) | c2 (two overlapping calls)
// Result per scenario: ret=<Close calls returned within the bound>/<calls>;inflight=<polls in flight when a
// Close returned>;melt=<collection ended>;open=<peers still open>;after=<polls after the last Close
// returned>;late=<of those, later than 5 s after it>

const (
	c15CloseBound = 15 * time.Second
	c15Straggle   = 5 * time.Second
	// what the client's own transport allows a broker to stay silent for (client/lib/rendezvous.go,
	// createBrokerTransport: ResponseHeaderTimeout), and the slack the driver adds to it
	c15HeaderLimit = 15 * time.Second
	c15SilentSlack = 10 * time.Second
)

// silentPoll: the request has been read; no response header is sent until the client gives up (its
// connection goes away: the request context ends) or the scenario is torn down.
func (b *c15Broker) silentPoll(req *http.Request) {
	select {
	case <-req.Context().Done():
	case <-b.release:
	case <-time.After(10 * time.Minute):
	}
	b.mu.Lock()
	b.inflight--
	b.mu.Unlock()
}

type c15Remote struct {
	pc     *webrtc.PeerConnection
	opened int32
	closed int32
}

func (r *c15Remote) open() bool {
	return atomic.LoadInt32(&r.opened) > 0 && atomic.LoadInt32(&r.closed) == 0
}

type c15Broker struct {
	kind     string
	failKind string // retry scenarios: how the first failN polls fail; poll failN+1 is answered by a proxy
	failN    int
	srv      *httptest.Server
	mu       sync.Mutex
	times    []time.Time // arrival of every poll
	inflight int
	remotes  []*c15Remote
	release  chan struct{}
	relOnce  sync.Once
}

func c15NewBroker(kind string) *c15Broker {
	b := &c15Broker{kind: kind, release: make(chan struct{})}
	mux := http.NewServeMux()
	mux.HandleFunc("/client", b.poll)
	b.srv = httptest.NewServer(mux)
	return b
}

func (b *c15Broker) letGo() { b.relOnce.Do(func() { close(b.release) }) }

func (b *c15Broker) shutdown() {
	b.letGo()
	b.mu.Lock()
	rs := append([]*c15Remote(nil), b.remotes...)
	b.mu.Unlock()
	for _, r := range rs {
		r.pc.Close()
	}
	b.srv.CloseClientConnections()
	b.srv.Close()
}

func (b *c15Broker) polls() int {
	b.mu.Lock()
	defer b.mu.Unlock()
	return len(b.times)
}

func (b *c15Broker) flying() int {
	b.mu.Lock()
	defer b.mu.Unlock()
	return b.inflight
}

func (b *c15Broker) pollsAfter(t time.Time) (n int) {
	b.mu.Lock()
	defer b.mu.Unlock()
	for _, x := range b.times {
		if x.After(t) {
			n++
		}
	}
	return n
}

func (b *c15Broker) remoteOpen() (n int) {
	b.mu.Lock()
	defer b.mu.Unlock()
	for _, r := range b.remotes {
		if r.open() {
			n++
		}
	}
	return n
}

func (b *c15Broker) remoteOpened() (n int) {
	b.mu.Lock()
	defer b.mu.Unlock()
	for _, r := range b.remotes {
		if atomic.LoadInt32(&r.opened) > 0 {
			n++
		}
	}
	return n
}

func (b *c15Broker) poll(w http.ResponseWriter, req *http.Request) {
	body, _ := io.ReadAll(io.LimitReader(req.Body, 1<<20))
	b.mu.Lock()
	b.times = append(b.times, time.Now())
	first := len(b.times) == 1
	b.inflight++
	b.mu.Unlock()
	var resp []byte
	var err error
	if b.kind == "retry" {
		b.mu.Lock()
		n := len(b.times)
		b.mu.Unlock()
		b.retryPoll(w, req, body, n)
		return
	}
	if first && b.kind == "silent" {
		b.silentPoll(req)
		return
	}
	if first && (b.kind == "hold" || b.kind == "holdgood") {
		select {
		case <-b.release:
		case <-time.After(60 * time.Second):
		}
	}
	if first && (b.kind == "good" || b.kind == "holdgood") {
		resp, err = b.answer(body, false)
	} else {
		resp, err = (&messages.ClientPollResponse{Error: "no snowflake proxies currently available"}).EncodePollResponse()
	}
	// the attempt is over for the broker before the client can see the answer
	b.mu.Lock()
	b.inflight--
	b.mu.Unlock()
	if err != nil {
		w.WriteHeader(http.StatusServiceUnavailable)
		return
	}
	w.Write(resp)
}

// retryPoll answers poll number n (1-based) of a retry scenario.
func (b *c15Broker) retryPoll(w http.ResponseWriter, req *http.Request, body []byte, n int) {
	done := func() {
		b.mu.Lock()
		b.inflight--
		b.mu.Unlock()
	}
	noProxies := func() {
		resp, _ := (&messages.ClientPollResponse{Error: "no snowflake proxies currently available"}).EncodePollResponse()
		done()
		w.Write(resp)
	}
	switch {
	case n > b.failN+1:
		noProxies()
	case n == b.failN+1:
		resp, err := b.answer(body, false)
		done()
		if err != nil {
			w.WriteHeader(http.StatusServiceUnavailable)
			return
		}
		w.Write(resp)
	case b.failKind == "silent":
		b.silentPoll(req)
	case b.failKind == "unreach":
		// no HTTP answer at all: the connection is dropped
		done()
		if hj, ok := w.(http.Hijacker); ok {
			if c, _, err := hj.Hijack(); err == nil {
				c.Close()
				return
			}
		}
		panic(http.ErrAbortHandler)
	case b.failKind == "refuse":
		done()
		w.WriteHeader(http.StatusServiceUnavailable)
	case b.failKind == "badjson":
		done()
		w.Write([]byte("\x00\x01 this is not a poll response"))
	case b.failKind == "badsdp":
		resp, _ := (&messages.ClientPollResponse{Answer: `{"type":"answer","sdp":"garbage"}`}).EncodePollResponse()
		done()
		w.Write(resp)
	case b.failKind == "noopen":
		// the proxy answers and vanishes: its data channel never opens
		resp, err := b.answer(body, true)
		done()
		if err != nil {
			w.WriteHeader(http.StatusServiceUnavailable)
			return
		}
		w.Write(resp)
	default:
		noProxies()
	}
}

// answer plays the proxy: a pion peer that accepts the offer and watches the data channel.
func (b *c15Broker) answer(enc []byte, vanish bool) ([]byte, error) {
	req, err := messages.DecodeClientPollRequest(enc)
	if err != nil {
		return nil, err
	}
	offer, err := util.DeserializeSessionDescription(req.Offer)
	if err != nil {
		return nil, err
	}
	pc, err := webrtc.NewPeerConnection(webrtc.Configuration{})
	if err != nil {
		return nil, err
	}
	rem := &c15Remote{pc: pc}
	pc.OnDataChannel(func(dc *webrtc.DataChannel) {
		dc.OnOpen(func() { atomic.AddInt32(&rem.opened, 1) })
		dc.OnClose(func() { atomic.AddInt32(&rem.closed, 1) })
	})
	pc.OnConnectionStateChange(func(s webrtc.PeerConnectionState) {
		switch s {
		case webrtc.PeerConnectionStateClosed, webrtc.PeerConnectionStateFailed, webrtc.PeerConnectionStateDisconnected:
			atomic.AddInt32(&rem.closed, 1)
		}
	})
	b.mu.Lock()
	b.remotes = append(b.remotes, rem)
	b.mu.Unlock()
	if err = pc.SetRemoteDescription(*offer); err != nil {
		return nil, err
	}
	done := webrtc.GatheringCompletePromise(pc)
	ans, err := pc.CreateAnswer(nil)
	if err != nil {
		return nil, err
	}
	if err = pc.SetLocalDescription(ans); err != nil {
		return nil, err
	}
	<-done
	s, err := util.SerializeSessionDescription(pc.LocalDescription())
	if err != nil {
		return nil, err
	}
	if vanish {
		pc.Close()
	}
	return (&messages.ClientPollResponse{Answer: s}).EncodePollResponse()
}

func c15Until(d time.Duration, f func() bool) bool {
	deadline := time.Now().Add(d)
	for !f() {
		if time.Now().After(deadline) {
			return false
		}
		time.Sleep(10 * time.Millisecond)
	}
	return true
}

// c15Held lists the peers the collection holds, if the collector is not inside Collect right now.
func c15Held(p *Peers, patience time.Duration) (held []*WebRTCPeer, ok bool) {
	if !c15Until(patience, p.collectLock.TryLock) {
		return nil, false
	}
	defer p.collectLock.Unlock()
	for e := p.activePeers.Front(); e != nil; e = e.Next() {
		held = append(held, e.Value.(*WebRTCPeer))
	}
	return held, true
}

func c15RunCloseBatch(list string) string {
	specs := wire.List(list)
	out := make([]string, len(specs))
	var wg sync.WaitGroup
	for i, spec := range specs {
		wg.Add(1)
		go func(i int, spec string) {
			defer wg.Done()
			defer func() {
				if r := recover(); r != nil {
					out[i] = "panic"
				}
			}()
			out[i] = c15RunCloseScenario(spec)
		}(i, spec)
	}
	wg.Wait()
	for _, o := range out {
		if o == "!badcase" {
			return o
		}
	}
	return wire.PrintList(out)
}

func c15RunCloseScenario(spec string) string {
	f := strings.Split(spec, ".")
	if len(f) != 4 {
		return "!badcase"
	}
	max, err := strconv.Atoi(f[0])
	kind, pre, closes := f[1], f[2], f[3]
	if closes == "retry" {
		k, err2 := strconv.Atoi(pre)
		if err != nil || err2 != nil || max < 1 || k < 0 || k > 8 {
			return "!badcase"
		}
		return c15RunRetryScenario(max, kind, k)
	}
	ncalls := map[string]int{"c": 1, "cc": 2, "c2": 2}[closes]
	okKind := kind == "fail" || kind == "good" || kind == "hold" || kind == "holdgood" || kind == "silent"
	okPre := pre == "none" || pre == "sess" || pre == "pconn" || pre == "stream"
	if err != nil || max < 1 || ncalls == 0 || !okKind || !okPre {
		return "!badcase"
	}
	br := c15NewBroker(kind)
	defer br.shutdown()
	transport, err := NewSnowflakeClient(ClientConfig{BrokerURL: br.srv.URL + "/", KeepLocalAddresses: true, Max: max})
	if err != nil {
		return "setup=noclient"
	}
	ev := &c15Events{}
	transport.AddSnowflakeEventListener(ev)
	conn, err := transport.Dial()
	if err != nil {
		return "setup=nodial"
	}
	sc := conn.(*SnowflakeConn)
	// whatever happens below, the collection of this scenario is stopped in the end
	defer func() {
		br.letGo()
		sc.snowflakes.End()
		sc.pconn.Close()
		sc.sess.Close()
	}()
	if !c15Until(10*time.Second, func() bool { return br.polls() >= 1 }) {
		return "setup=nopoll"
	}
	var held []*WebRTCPeer
	if kind == "good" {
		if !c15Until(DataChannelTimeout+5*time.Second, func() bool { return br.remoteOpened() >= 1 }) {
			return "setup=nopeer"
		}
		// Collect has handed the peer over once it lets go of the lock
		h, ok := c15Held(sc.snowflakes, 3*time.Second)
		if !ok || len(h) == 0 {
			return "setup=nopeer"
		}
		held = h
	}
	switch pre {
	case "sess":
		sc.sess.Close()
	case "pconn":
		sc.pconn.Close()
		time.Sleep(1500 * time.Millisecond) // KCP notices on its next (re)transmission
	case "stream":
		sc.Stream.Close()
	}
	// the application closes the connection
	type ret struct {
		at       time.Time
		inflight int
	}
	rets := make(chan ret, 2)
	call := func() {
		conn.Close()
		at := time.Now()
		if kind == "silent" {
			// the client has given the attempt up; the broker notices when the connection goes away
			c15Until(3*time.Second, func() bool { return br.flying() == 0 })
		}
		rets <- ret{at, br.flying()}
	}
	start := time.Now()
	switch closes {
	case "c":
		go call()
	case "cc":
		go func() { call(); call() }()
	case "c2":
		go call()
		time.Sleep(100 * time.Millisecond)
		go call()
	}
	if kind == "hold" || kind == "holdgood" {
		time.AfterFunc(1500*time.Millisecond, br.letGo)
	}
	returned, inflight := 0, 0
	last := start
	bound := time.After(c15CloseBound)
	if kind == "silent" {
		if br.flying() < 1 {
			return "setup=notinflight"
		}
		bound = time.After(c15HeaderLimit + c15SilentSlack)
	}
collect:
	for returned < ncalls {
		select {
		case r := <-rets:
			returned++
			if r.inflight > inflight {
				inflight = r.inflight
			}
			if r.at.After(last) {
				last = r.at
			}
		case <-bound:
			last = time.Now()
			break collect
		}
	}
	melt := 0
	select {
	case <-sc.snowflakes.Melted():
		melt = 1
	default:
	}
	if kind == "silent" {
		br.letGo()
		c15Until(5*time.Second, func() bool { return br.flying() == 0 })
	}
	if kind == "hold" || kind == "holdgood" {
		// a Close that did not wait: let the held attempt finish, so that its peer (if any) is seen
		br.letGo()
		c15Until(5*time.Second, func() bool { return br.flying() == 0 })
		if kind == "holdgood" {
			c15Until(DataChannelTimeout+2*time.Second, func() bool { return br.remoteOpened() >= 1 })
		}
	}
	// peers: those held before, those the collection still lists, and what the proxies see
	if h, ok := c15Held(sc.snowflakes, time.Second); ok {
		held = append(held, h...)
	}
	open := 0
	seen := map[*WebRTCPeer]bool{}
	for _, p := range held {
		if !seen[p] && !p.Closed() {
			open++
		}
		seen[p] = true
	}
	c15Until(3*time.Second, func() bool { return br.remoteOpen() == 0 })
	if n := br.remoteOpen(); n > open {
		open = n
	}
	// do the rendezvous attempts stop?
	time.Sleep(time.Until(last.Add(2*ReconnectTimeout + 2*time.Second)))
	after := br.pollsAfter(last)
	late := br.pollsAfter(last.Add(c15Straggle))
	_, term, nilerr := ev.snapshot()
	return fmt.Sprintf("ret=%d/%d;inflight=%d;melt=%d;open=%d;after=%d;late=%d;term=%d;nilerr=%d", returned, ncalls, inflight, melt, open, after, late, c15Bit(term), nilerr)
}

// ---------------------------------------------------------------- failed attempts are retried (exported API)
//
// scenario <max>.<failure>.<k>.retry: the first k rendezvous attempts of the connect loop fail in the given
// way, attempt k+1 meets a proxy (for "ice" the configuration itself is unusable: every attempt fails).
// NewSnowflakeClient -> Dial; the listener counts the attempts (one EventOnOfferCreated each) and renders every
// event as the client binary does.  The client has to come round again after each failure (ReconnectTimeout,
// a constant of 10 s, between attempts; a data channel that never opens takes DataChannelTimeout, another
// constant of 10 s, by itself) and must in the end hold the peer.  Then the connection is closed.
// "silent" = the broker reads the request and never answers: the attempt fails by the client's own 15 s limit.
// Result: att=<attempts made>;ev=<events, '+'-separated>;peer=<live peers held>;ret=<Close returned>/1;melt=;open=;
// fly=<attempts the broker was still holding when the driver's patience was over>;
// term=<a rendering panicked>;nilerr=<failure events without an error>
func c15RunRetryScenario(max int, kind string, k int) string {
	switch kind {
	case "ice", "unreach", "refuse", "badjson", "badsdp", "noopen", "silent":
	default:
		return "!badcase"
	}
	br := c15NewBroker("retry")
	br.failKind, br.failN = kind, k
	defer br.shutdown()
	cfg := ClientConfig{BrokerURL: br.srv.URL + "/", KeepLocalAddresses: true, Max: max}
	if kind == "ice" {
		cfg.ICEAddresses = []string{""} // what the client binary passes for -ice ""
	}
	transport, err := NewSnowflakeClient(cfg)
	if err != nil {
		return "setup=noclient"
	}
	ev := &c15Events{}
	transport.AddSnowflakeEventListener(ev)
	conn, err := transport.Dial()
	if err != nil {
		return "setup=nodial"
	}
	sc := conn.(*SnowflakeConn)
	defer func() {
		br.letGo()
		sc.snowflakes.End()
		sc.pconn.Close()
		sc.sess.Close()
	}()
	attempts := func() (n int) {
		log, _, _ := ev.snapshot()
		for _, t := range log {
			if strings.HasPrefix(t, "offer") {
				n++
			}
		}
		return n
	}
	var held []*WebRTCPeer
	live := func() (n int) {
		h, ok := c15Held(sc.snowflakes, 3*time.Second)
		if !ok {
			return 0
		}
		held = h
		for _, p := range h {
			if !p.Closed() {
				n++
			}
		}
		return n
	}
	// k failed attempts, ReconnectTimeout apart (each of them may take DataChannelTimeout), then the good one
	patience := time.Duration(k)*(ReconnectTimeout+DataChannelTimeout)/2 + time.Duration(k)*2*time.Second + DataChannelTimeout + 10*time.Second
	if kind == "silent" {
		// each failed attempt lasts as long as the client's own limit on a silent broker
		patience += time.Duration(k) * (c15HeaderLimit + c15SilentSlack)
	}
	if kind == "ice" {
		// every attempt fails: wait for attempt k+1 to have been made and reported
		c15Until(patience, func() bool {
			log, _, _ := ev.snapshot()
			return attempts() >= k+1 && len(log) >= k+1
		})
	} else {
		c15Until(patience, func() bool { return br.remoteOpened() >= 1 && live() >= 1 })
	}
	// Collect is over when it lets go of the lock: every event of the attempt has been delivered
	fly := br.flying() // attempts the broker is still holding: a silent one the client has not given up
	if fly > 0 {
		br.letGo()
	}
	peer := live()
	att := attempts()
	log, _, _ := ev.snapshot()
	evs := "-"
	if len(log) > 0 {
		evs = strings.Join(log, "+")
	}
	done := make(chan struct{})
	go func() { conn.Close(); close(done) }()
	returned := 0
	select {
	case <-done:
		returned = 1
	case <-time.After(c15CloseBound):
	}
	melt := 0
	select {
	case <-sc.snowflakes.Melted():
		melt = 1
	default:
	}
	c15Until(3*time.Second, func() bool { return br.remoteOpen() == 0 })
	open := 0
	for _, p := range held {
		if !p.Closed() {
			open++
		}
	}
	if n := br.remoteOpen(); n > open {
		open = n
	}
	_, term, nilerr := ev.snapshot()
	return fmt.Sprintf("att=%d;ev=%s;peer=%d;ret=%d/1;melt=%d;open=%d;fly=%d;term=%d;nilerr=%d", att, evs, peer, returned, melt, open, fly, c15Bit(term), nilerr)
}
