//go:build verif

// In-package driver for C13 at the client's callers: (*BrokerChannel).Negotiate and
// (*WebRTCPeer).connect (through NewWebRTCPeerWithEvents) with a scripted rendezvous method that
// returns the case's bytes as the broker's poll response.  Runs only when the compiled test binary
// is started with `-test.run ^TestVerifC13Driver$ -verif.c13`; line protocol of
// coq/Run/SessdescRun.v (`negotiate`, `connect`; `cparse` is phase 1: what the outer decoder makes
// of a body).
package snowflake_client

import (
	"errors"
	"flag"
	"io"
	"log"
	"os"
	"testing"

	"git.torproject.org/pluggable-transports/snowflake.git/v2/common/messages"
	"git.torproject.org/pluggable-transports/snowflake.git/v2/zz_verif/sessdesc/jvalue"
	"git.torproject.org/pluggable-transports/snowflake.git/v2/zz_verif/wire"
	"github.com/pion/webrtc/v3"
)

var verifC13 = flag.Bool("verif.c13", false, "run the C13 caller line-protocol driver")

type c13Rendezvous struct {
	body []byte
	fail bool
}

func (r *c13Rendezvous) Exchange([]byte) ([]byte, error) {
	if r.fail {
		return nil, errors.New("scripted exchange failure")
	}
	return r.body, nil
}

// c13Outer: the cresp token of a poll response body.
func c13Outer(body []byte) string {
	resp, err := messages.DecodeClientPollResponse(body)
	if err != nil {
		return "b"
	}
	if resp.Error != "" {
		return "r"
	}
	return "a" + jvalue.Value([]byte(resp.Answer))
}

const c13Offer = "v=0\r\no=- 1 2 IN IP4 127.0.0.1\r\ns=-\r\nt=0 0\r\n"

func c13Channel(tok string, body []byte) (*BrokerChannel, string) {
	if tok != "x" {
		if got := c13Outer(body); got != tok {
			return nil, "!outer-mismatch " + got
		}
	}
	bc, err := newBrokerChannelFromConfig(ClientConfig{BrokerURL: "http://broker.invalid/"})
	if err != nil {
		return nil, "!nochannel"
	}
	bc.Rendezvous = &c13Rendezvous{body: body, fail: tok == "x"}
	return bc, ""
}

func TestVerifC13Driver(t *testing.T) {
	if !*verifC13 {
		t.Skip("driver mode not requested")
	}
	log.SetOutput(io.Discard)
	wire.Loop(func(a []string) string {
		switch a[0] {
		case "cparse": // cparse negotiate x<body>
			body, err := wire.Payload(a[2])
			if err != nil || a[1] != "negotiate" {
				return "!badcase"
			}
			return c13Outer(body)
		case "negotiate": // negotiate <cresp> x<body>
			body, err := wire.Payload(a[2])
			if err != nil {
				return "!badcase"
			}
			bc, bad := c13Channel(a[1], body)
			if bad != "" {
				return bad
			}
			answer, err := bc.Negotiate(&webrtc.SessionDescription{Type: webrtc.SDPTypeOffer, SDP: c13Offer})
			switch {
			case err != nil && answer != nil:
				return "!description-and-error"
			case err != nil:
				return "err"
			case answer == nil:
				return "!nilnil"
			}
			return jvalue.Desc(answer)
		case "connect": // connect <cresp> x<body>: the caller that dereferences Negotiate's result
			body, err := wire.Payload(a[2])
			if err != nil {
				return "!badcase"
			}
			bc, bad := c13Channel(a[1], body)
			if bad != "" {
				return bad
			}
			peer, _ := NewWebRTCPeerWithEvents(&webrtc.Configuration{}, bc, nil)
			if peer != nil {
				peer.Close()
			}
			return "ret"
		}
		return "!badcase"
	})
	os.Exit(0)
}
