//go:build verif

// In-package driver for the C11 check: observes the request that httpRendezvous /
// ampCacheRendezvous hand to their http.RoundTripper and serves scripted responses.
// Runs only when VERIF_DRIVER=c11 (as `lib.test -test.run ^TestVerifC11Driver$`).
package snowflake_client

import (
	"bytes"
	"crypto/rand"
	"crypto/sha256"
	"errors"
	"io"
	"io/ioutil"
	"log"
	"net/http"
	"net/url"
	"os"
	"strconv"
	"strings"
	"testing"

	"git.torproject.org/pluggable-transports/snowflake.git/v2/common/amp"
	"git.torproject.org/pluggable-transports/snowflake.git/v2/zz_verif/wire"
	"golang.org/x/net/idna"
)

type c11Recorder struct {
	nomask   bool
	fail     bool // RoundTrip records the request and returns an error
	seen     int
	line     string
	status   int
	location string
	body     []byte
}

func c11x(b []byte) string { return "x" + wire.Hex(b) }

func c11IsURLChar(c byte) bool {
	return c >= 'A' && c <= 'Z' || c >= 'a' && c <= 'z' || c >= '0' && c <= '9' || c == '-' || c == '_'
}

// the 12 random cache-breaker characters after "amp/client/0" are not an observable: mask them
func c11MaskPad(p string) string {
	const marker = "amp/client/0"
	i := strings.Index(p, marker)
	if i < 0 {
		return p
	}
	j := i + len(marker)
	if len(p) < j+12 || (len(p) > j+12 && p[j+12] != '/') {
		return p
	}
	for k := j; k < j+12; k++ {
		if !c11IsURLChar(p[k]) {
			return p
		}
	}
	return p[:j] + "AAAAAAAAAAAA" + p[j+12:]
}

func (rt *c11Recorder) RoundTrip(req *http.Request) (*http.Response, error) {
	rt.seen++
	body := "n"
	if req.Body != nil {
		b, _ := ioutil.ReadAll(req.Body)
		body = c11x(b)
	}
	ep := req.URL.EscapedPath()
	if !rt.nomask {
		ep = c11MaskPad(ep)
	}
	rt.line = strings.Join([]string{c11x([]byte(req.Method)), c11x([]byte(req.URL.Scheme)), c11x([]byte(req.URL.Host)),
		c11x([]byte(req.Host)), c11x([]byte(ep)), c11x([]byte(req.URL.RawQuery)), body}, ",")
	if rt.fail {
		return nil, errors.New("scripted transport error")
	}
	h := http.Header{}
	if rt.location != "" {
		h.Set("Location", rt.location)
	}
	return &http.Response{
		Status:     strconv.Itoa(rt.status) + " scripted",
		StatusCode: rt.status,
		Header:     h,
		Body:       ioutil.NopCloser(bytes.NewReader(rt.body)),
		Request:    req,
	}, nil
}

func c11Payload(t string) []byte {
	b, err := wire.Payload(t)
	if err != nil {
		panic(err)
	}
	return b
}

func c11Opt(s string, err error) string {
	if err != nil {
		return "n"
	}
	return c11x([]byte(s))
}

func c11BrokerFields(u *url.URL) string {
	us := "x"
	if u.User != nil {
		us = "x31"
	}
	return strings.Join([]string{c11x([]byte(u.Scheme)), us, c11x([]byte(u.Host)), c11x([]byte(u.Hostname())), c11x([]byte(u.Port())),
		c11x([]byte(u.EscapedPath()))}, ",")
}

func c11CacheFields(u *url.URL) string {
	us := "n"
	if u.User != nil {
		us = c11x([]byte(u.User.String()))
	}
	return strings.Join([]string{c11x([]byte(u.Scheme)), us, c11x([]byte(u.Hostname())), c11x([]byte(u.Port())),
		c11x([]byte(u.EscapedPath())), c11x([]byte(u.RawQuery)), c11x([]byte(u.Fragment))}, ",")
}

func c11Armor(resp []byte) []byte {
	var buf bytes.Buffer
	enc, err := amp.NewArmorEncoder(&buf)
	if err != nil {
		panic(err)
	}
	enc.Write(resp)
	enc.Close()
	return buf.Bytes()
}

// trailing empty elements and white space after </html>: ignored by the armor
// decoder, counted by the limit (short tokens: the tokenizer's buffer is bounded)
func c11PadBody(body []byte, size int) []byte {
	if size > len(body) {
		k := size - len(body)
		body = append(body, bytes.Repeat([]byte("<i></i>"), k/7)...)
		body = append(body, bytes.Repeat([]byte{' '}, k%7)...)
	}
	return body
}

type c11Exchanger interface {
	Exchange([]byte) ([]byte, error)
}

// seq <h|a> <broker> <cache|n> <front> <bf> <cf|n> <ou> <pre> <oa> <sha> <ev;ev;...>
// ev = <poll>:<cache breaker>:<status|e>:<location>:<response>:<bodysize>:<armored length>
// ONE rendezvous object makes all the Exchanges, in order.  After each of them a NEW object with the same
// configuration makes the same Exchange: "first=same" when the two requests are the same, else the new object's.
func c11Seq(a []string) string {
	broker := string(c11Payload(a[2]))
	bu, err := url.Parse(broker)
	if err != nil {
		return "!parse"
	}
	cache := ""
	cf := "n"
	if a[3] != "n" {
		cache = string(c11Payload(a[3]))
		cu, err := url.Parse(cache)
		if err != nil {
			return "!parse"
		}
		cf = c11CacheFields(cu)
	}
	front := string(c11Payload(a[4]))
	h := sha256.Sum256([]byte(bu.Hostname()))
	if c11BrokerFields(bu) != a[5] || cf != a[6] || c11Opt(idna.ToUnicode(bu.Hostname())) != a[7] || c11x(h[:]) != a[10] {
		return "!oracle-mismatch"
	}
	if a[8] != "n" && c11Opt(idna.ToASCII(string(c11Payload(a[8])))) != a[9] {
		return "!oracle-mismatch"
	}
	isHTTP := a[1] == "h"
	mk := func(rt *c11Recorder) c11Exchanger {
		if isHTTP {
			r, err := newHTTPRendezvous(broker, front, rt)
			if err != nil {
				return nil
			}
			return r
		}
		r, err := newAMPCacheRendezvous(broker, cache, front, rt)
		if err != nil {
			return nil
		}
		return r
	}
	shared := &c11Recorder{nomask: true}
	obj := mk(shared)
	if obj == nil {
		return "!construct"
	}
	old := rand.Reader
	defer func() { rand.Reader = old }()
	var out []string
	for _, e := range strings.Split(a[11], ";") {
		f := strings.Split(e, ":")
		if len(f) != 7 {
			return "!badcase"
		}
		poll, cb, resp := c11Payload(f[0]), c11Payload(f[1]), c11Payload(f[4])
		size, _ := strconv.Atoi(f[5])
		alen, _ := strconv.Atoi(f[6])
		body := resp
		if !isHTTP {
			body = c11Armor(resp)
			if alen != len(body) {
				return "!oracle-mismatch"
			}
			body = c11PadBody(body, size)
		}
		script := func(rt *c11Recorder) {
			rt.seen, rt.line = 0, ""
			rt.fail = f[2] == "e"
			rt.status, _ = strconv.Atoi(f[2])
			rt.location = ""
			if f[3] == "1" {
				rt.location = "https://origin.example/amp/client/"
			}
			rt.body = body
		}
		script(shared)
		rand.Reader = bytes.NewReader(cb)
		d, err := obj.Exchange(append([]byte(nil), poll...))
		res := c11Result(shared, resp, d, err)
		fresh := &c11Recorder{nomask: true}
		script(fresh)
		fobj := mk(fresh)
		if fobj == nil {
			return "!construct"
		}
		rand.Reader = bytes.NewReader(cb)
		fobj.Exchange(append([]byte(nil), poll...))
		if fresh.seen == shared.seen && fresh.line == shared.line {
			res += " first=same"
		} else {
			res += " first=" + strings.TrimPrefix(strings.SplitN(c11Result(fresh, nil, nil, errors.New("x")), " ", 2)[0], "req=")
		}
		out = append(out, res)
	}
	return strings.Join(out, " | ")
}

func c11Result(rt *c11Recorder, served []byte, d []byte, err error) string {
	req := "req=none"
	if rt.seen == 1 {
		req = "req=" + rt.line
	} else if rt.seen > 1 {
		req = "req=many"
	}
	if err != nil {
		return req + " res=err"
	}
	same := "0"
	if bytes.Equal(d, served) {
		same = "1"
	}
	return req + " res=ok n=" + strconv.Itoa(len(d)) + " same=" + same
}

func c11Case(a []string) string {
	switch a[0] {
	case "bparse":
		bu, err := url.Parse(string(c11Payload(a[1])))
		if err != nil {
			return "!parse"
		}
		cf := "n"
		if a[2] != "n" {
			cu, err := url.Parse(string(c11Payload(a[2])))
			if err != nil {
				return "!parse"
			}
			cf = c11CacheFields(cu)
		}
		h := sha256.Sum256([]byte(bu.Hostname()))
		return c11BrokerFields(bu) + " " + cf + " " + c11Opt(idna.ToUnicode(bu.Hostname())) + " " + c11x(h[:])
	case "toascii":
		if a[1] == "n" {
			return "n"
		}
		return c11Opt(idna.ToASCII(string(c11Payload(a[1]))))
	case "armorlen":
		return strconv.Itoa(len(c11Armor(c11Payload(a[1]))))
	case "limit":
		return strconv.Itoa(readLimit)
	case "seq":
		if len(a) != 12 {
			return "!badcase"
		}
		return c11Seq(a)
	case "http":
		// http <broker> <front> <data> <status> <resp> <brokerfields>
		broker := string(c11Payload(a[1]))
		bu, err := url.Parse(broker)
		if err != nil {
			return "!parse"
		}
		if c11BrokerFields(bu) != a[6] {
			return "!oracle-mismatch"
		}
		status, _ := strconv.Atoi(a[4])
		resp := c11Payload(a[5])
		rt := &c11Recorder{status: status, body: resp}
		r, err := newHTTPRendezvous(broker, string(c11Payload(a[2])), rt)
		if err != nil {
			return "!construct"
		}
		d, err := r.Exchange(c11Payload(a[3]))
		return c11Result(rt, resp, d, err)
	case "amp":
		// amp <broker> <cache|n> <front> <data> <status> <loc> <resp> <bodysize> <alen> <bf> <cf|n> <ou> <pre> <oa> <sha>
		broker := string(c11Payload(a[1]))
		bu, err := url.Parse(broker)
		if err != nil {
			return "!parse"
		}
		cache := ""
		cf := "n"
		if a[2] != "n" {
			cache = string(c11Payload(a[2]))
			cu, err := url.Parse(cache)
			if err != nil {
				return "!parse"
			}
			cf = c11CacheFields(cu)
		}
		h := sha256.Sum256([]byte(bu.Hostname()))
		if c11BrokerFields(bu) != a[10] || cf != a[11] || c11Opt(idna.ToUnicode(bu.Hostname())) != a[12] || c11x(h[:]) != a[15] {
			return "!oracle-mismatch"
		}
		if a[13] != "n" && c11Opt(idna.ToASCII(string(c11Payload(a[13])))) != a[14] {
			return "!oracle-mismatch"
		}
		status, _ := strconv.Atoi(a[5])
		resp := c11Payload(a[7])
		body := c11Armor(resp)
		size, _ := strconv.Atoi(a[8])
		alen, _ := strconv.Atoi(a[9])
		if alen != len(body) {
			return "!oracle-mismatch"
		}
		body = c11PadBody(body, size)
		rt := &c11Recorder{status: status, body: body}
		if a[6] == "1" {
			rt.location = "https://origin.example/amp/client/"
		}
		r, err := newAMPCacheRendezvous(broker, cache, string(c11Payload(a[3])), rt)
		if err != nil {
			return "!construct"
		}
		// the cache-breaker bytes of this case: crypto/rand hands out exactly these, and the path is not masked
		if len(a) > 16 {
			old := rand.Reader
			rand.Reader = bytes.NewReader(c11Payload(a[16]))
			rt.nomask = true
			defer func() { rand.Reader = old }()
		}
		d, err := r.Exchange(c11Payload(a[4]))
		return c11Result(rt, resp, d, err)
	}
	return "!badcase"
}

func TestVerifC11Driver(t *testing.T) {
	if os.Getenv("VERIF_DRIVER") != "c11" {
		t.Skip("driver for the C11 check; set VERIF_DRIVER=c11")
	}
	log.SetOutput(io.Discard)
	wire.Loop(c11Case)
	os.Exit(0)
}
