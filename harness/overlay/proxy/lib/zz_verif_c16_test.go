//go:build verif

// In-package driver for C16 (proxy capacity and slot accounting).  It wires a SnowflakeProxy to a
// scripted broker (httptest), a scripted websocket relay and scripted pion clients, and forces one
// exit path of runSession per op of the case line (see coq/Run/ProxySessionRun.v for the ops).
// After each op it prints tokens.count(), len(tokens.ch) and, for every poll body the broker
// received during the op, its Clients figure with tokens.count() at that moment.
//
//	VERIF_DRIVER=1 proxy_lib.test -test.run TestVerifDriver   (case lines on stdin)
package snowflake_proxy

import (
	"bufio"
	"encoding/json"
	"fmt"
	"io"
	"io/ioutil"
	"log"
	"net"
	"net/http"
	"net/http/httptest"
	"os"
	"strconv"
	"strings"
	"sync"
	"sync/atomic"
	"testing"
	"time"

	"git.torproject.org/pluggable-transports/snowflake.git/v2/common/event"
	"git.torproject.org/pluggable-transports/snowflake.git/v2/common/messages"
	"git.torproject.org/pluggable-transports/snowflake.git/v2/common/util"
	"github.com/gorilla/websocket"
	"github.com/pion/webrtc/v3"
)

type c16Sess struct {
	kind      byte
	variant   byte // ops O<x> / Q<x>: what the client's offer (x in p l n 6 m) or data channel (u) looks like
	relayKind byte   // ops Y<x>: what the relay does with the handler's dial (x in r e h z s)
	relayURL  string // ops Y<x>, x in r e h z: the misbehaving relay of this session
	client    *webrtc.PeerConnection
	offer     string
	relayOnce sync.Once
	relayConn chan struct{} // closed when the relay accepted the handler's websocket
	ws        *websocket.Conn
	polled    int
	connected int32         // the client's peer connection reached state connected
	rounds    [][]int       // kind w: sessions to end after each "no match" answer
	answered  chan struct{} // kind w: a "no match" answer was written
}

type c16Poll struct {
	clients int
	inUse   int64
}

type c16Env struct {
	mu       sync.Mutex
	cur      *c16Sess
	polls    []c16Poll
	sessions []*c16Sess
	broker   *httptest.Server
	relay    *httptest.Server
	sf       *SnowflakeProxy
	bare     int64 // slots held by bare gets ('+') not yet returned ('-')
	done     chan struct{} // closed when the case is over: misbehaving relays let go of their connections
	lns      []net.Listener
	// start mode: every poll is a new session; the handler reports its arrival (with the
	// Clients figure) and waits, parked, for the driver to hand it the session script
	start   bool
	arrived chan string
	next    chan *c16Sess
}

func (e *c16Env) relayURL(i int) string {
	return "ws" + strings.TrimPrefix(e.relay.URL, "http") + "/s" + strconv.Itoa(i)
}

// With negotiated set the client's only data channel is pre-negotiated: the client connects
// (ICE, DTLS, SCTP) but never sends DATA_CHANNEL_OPEN, so the proxy's OnDataChannel never fires.
// variant 'u': an unordered, unreliable data channel with an empty label and a protocol string.
func c16NewClient(negotiated bool, connected *int32, variant byte) (*webrtc.PeerConnection, string, error) {
	pc, err := webrtc.NewPeerConnection(webrtc.Configuration{})
	if err != nil {
		return nil, "", err
	}
	pc.OnConnectionStateChange(func(st webrtc.PeerConnectionState) {
		if st == webrtc.PeerConnectionStateConnected {
			atomic.StoreInt32(connected, 1)
		}
	})
	var init *webrtc.DataChannelInit
	label := "c16"
	if negotiated {
		yes, id := true, uint16(0)
		init = &webrtc.DataChannelInit{Negotiated: &yes, ID: &id}
	} else if variant == 'u' {
		no, zero, proto := false, uint16(0), "c16-proto"
		init = &webrtc.DataChannelInit{Ordered: &no, MaxRetransmits: &zero, Protocol: &proto}
		label = ""
	}
	if _, err = pc.CreateDataChannel(label, init); err != nil {
		return nil, "", err
	}
	offer, err := pc.CreateOffer(nil)
	if err != nil {
		return nil, "", err
	}
	done := webrtc.GatheringCompletePromise(pc)
	if err = pc.SetLocalDescription(offer); err != nil {
		return nil, "", err
	}
	<-done
	desc := *pc.LocalDescription()
	if variant != 0 {
		// only the text handed to the proxy is rewritten; the client keeps its real addresses and
		// reaches the proxy through the candidates of the proxy's answer (the proxy learns the
		// client's address from the connectivity checks: peer-reflexive candidate)
		desc.SDP, err = c16RewriteOffer(desc.SDP, variant)
		if err != nil {
			return nil, "", err
		}
	}
	s, err := util.SerializeSessionDescription(&desc)
	return pc, s, err
}

var c16LocalV4 = []string{"10.7.7.7", "172.16.9.9", "192.168.1.77", "100.64.3.3", "169.254.1.1", "127.0.0.1"}
var c16LocalV6 = []string{"fd12:3456::7", "::1"}

// c16RewriteOffer gives the offer the shape named by variant:
//
//	p  as produced (on the test host: a host candidate the proxy takes for a public address)
//	l  only local addresses: RFC1918, CGNAT, link-local, loopback, ULA (a client started with
//	   -keep-local-addresses on a LAN)
//	n  no candidates at all
//	6  IPv6 candidates only, with a public-looking address
//	m  mDNS (".local") candidates only
//	u  as produced (the data channel differs, see c16NewClient)
//
// and checks that webRTCConn.RemoteAddr() will see what the variant is about.
func c16RewriteOffer(sdp string, variant byte) (string, error) {
	var out []string
	n := 0
	for _, line := range strings.Split(sdp, "\r\n") {
		if !strings.HasPrefix(line, "a=candidate:") {
			out = append(out, line)
			continue
		}
		f := strings.Split(line, " ")
		if len(f) < 6 {
			return "", fmt.Errorf("candidate line %q", line)
		}
		v6 := strings.Contains(f[4], ":")
		switch variant {
		case 'p', 'u':
		case 'l':
			if v6 {
				f[4] = c16LocalV6[n%len(c16LocalV6)]
			} else {
				f[4] = c16LocalV4[n%len(c16LocalV4)]
			}
		case 'n':
			continue
		case '6':
			f[4] = "2001:db8::77"
		case 'm':
			f[4] = fmt.Sprintf("5e7e1a2b-0000-4000-8000-%012d.local", n)
		default:
			return "", fmt.Errorf("variant %c", variant)
		}
		n++
		out = append(out, strings.Join(f, " "))
	}
	res := strings.Join(out, "\r\n")
	ip := remoteIPFromSDP(res)
	switch variant {
	case 'l', 'n', 'm':
		if ip != nil {
			return "", fmt.Errorf("variant %c: the offer still has the remote address %v", variant, ip)
		}
	default:
		if ip == nil {
			return "", fmt.Errorf("variant %c: the offer has no remote address", variant)
		}
	}
	return res, nil
}

// The relay kinds of the Y<x> ops.  The relay refusing the connection is op q.
//
//	r  accepts the TCP connection and resets it at once
//	e  reads the upgrade request and closes the connection without answering
//	h  answers the upgrade request with an HTTP error
//	z  reads the upgrade request and never answers (the connection stays open until the case is over)
//	s  completes the WebSocket handshake and then neither reads nor writes (handleRelay, on the ordinary test relay)
const c16HandshakeTimeout = 45 * time.Second // HandshakeTimeout of websocket.DefaultDialer

func (e *c16Env) faultyRelay(kind byte) (string, error) {
	ln, err := net.Listen("tcp", "127.0.0.1:0")
	if err != nil {
		return "", err
	}
	e.lns = append(e.lns, ln)
	readRequest := func(c net.Conn) {
		r := bufio.NewReader(c)
		for {
			line, err := r.ReadString('\n')
			if err != nil || line == "\r\n" || line == "\n" {
				return
			}
		}
	}
	go func() {
		for {
			c, err := ln.Accept()
			if err != nil {
				return
			}
			go func(c net.Conn) {
				defer c.Close()
				switch kind {
				case 'r':
					if tc, ok := c.(*net.TCPConn); ok {
						tc.SetLinger(0)
					}
				case 'e':
					readRequest(c)
				case 'h':
					readRequest(c)
					io.WriteString(c, "HTTP/1.1 403 Forbidden\r\nContent-Length: 0\r\nConnection: close\r\n\r\n")
				case 'z':
					readRequest(c)
					<-e.done
				}
			}(c)
		}
	}()
	return "ws://" + ln.Addr().String() + "/", nil
}

func c16PollBody(offer, relayURL string) []byte {
	b, _ := json.Marshal(map[string]string{"Status": "client match", "Offer": offer, "NAT": "unknown", "RelayURL": relayURL})
	return b
}

func (e *c16Env) handleProxy(w http.ResponseWriter, r *http.Request) {
	body, _ := ioutil.ReadAll(r.Body)
	_, _, _, clients, _, _, err := messages.DecodeProxyPollRequestWithRelayPrefix(body)
	if err != nil {
		clients = -999999
	}
	if e.start {
		e.arrived <- strconv.Itoa(clients)
		select {
		case s := <-e.next:
			e.mu.Lock()
			e.cur = s
			e.mu.Unlock()
		case <-time.After(60 * time.Second):
			http.Error(w, "no script", http.StatusInternalServerError)
			return
		}
	}
	e.mu.Lock()
	s := e.cur
	// the figure was computed just before the request was sent; nothing ends a session between
	// that moment and this one (the driver ends sessions only after a poll has been answered)
	e.polls = append(e.polls, c16Poll{clients, tokens.count()})
	idx := len(e.sessions) - 1
	var n int
	if s != nil {
		s.polled++
		n = s.polled
	}
	e.mu.Unlock()
	if s == nil {
		http.Error(w, "no script", http.StatusInternalServerError)
		return
	}
	switch s.kind {
	case 'e':
		http.Error(w, "scripted failure", http.StatusInternalServerError)
	case 'j':
		w.Write([]byte("test"))
	case 's':
		w.Write([]byte(`{"Status":"","Offer":"x"}`))
	case 'x':
		w.Write([]byte(`{"Status":"some broker error"}`))
	case 'k':
		w.Write([]byte(`{"Status":"client match","Offer":""}`))
	case 'u':
		w.Write(c16PollBody("this is not a session description", ""))
	case 'n':
		if n == 1 {
			w.Write([]byte(`{"Status":"no match"}`))
		} else {
			http.Error(w, "scripted failure", http.StatusInternalServerError)
		}
	case 'w':
		if n <= len(s.rounds) {
			w.Write([]byte(`{"Status":"no match"}`))
			if f, ok := w.(http.Flusher); ok {
				f.Flush()
			}
			s.answered <- struct{}{}
		} else {
			http.Error(w, "scripted failure", http.StatusInternalServerError)
		}
	case 'b':
		w.Write(c16PollBody(s.offer, "ws://bad host/"))
	case 'r':
		w.Write(c16PollBody(s.offer, "ws://relay.example.net/"))
	case 'R': // allowed hostname, but a non-TLS scheme while AllowNonTLSRelay is off for this session
		w.Write(c16PollBody(s.offer, e.relayURL(idx)))
	case 'p':
		// a session description the peer connection cannot be made from; which one depends on the session's index: an
		// offer with an unparsable body, and well-formed descriptions of the three other types (SetRemoteDescription
		// refuses an answer, a provisional answer and a rollback in the stable state)
		const minimal = `v=0\r\no=- 0 0 IN IP4 0.0.0.0\r\ns=-\r\nt=0 0\r\n`
		unusable := []string{`{"type":"offer","sdp":"garbage"}`, `{"type":"answer","sdp":"` + minimal + `"}`,
			`{"type":"pranswer","sdp":"garbage"}`, `{"type":"rollback","sdp":"` + minimal + `"}`}
		w.Write(c16PollBody(unusable[idx%len(unusable)], e.relayURL(idx)))
	case 'q':
		w.Write(c16PollBody(s.offer, "ws://127.0.0.1:1/"))
	case 'Y':
		if s.relayKind == 's' {
			w.Write(c16PollBody(s.offer, e.relayURL(idx)))
		} else {
			w.Write(c16PollBody(s.offer, s.relayURL))
		}
	default: // a g m t T o A
		w.Write(c16PollBody(s.offer, e.relayURL(idx)))
	}
}

func (e *c16Env) handleAnswer(w http.ResponseWriter, r *http.Request) {
	body, _ := ioutil.ReadAll(r.Body)
	e.mu.Lock()
	s := e.cur
	e.mu.Unlock()
	if s == nil {
		http.Error(w, "no script", http.StatusInternalServerError)
		return
	}
	apply := func() {
		answer, _, err := messages.DecodeAnswerRequest(body)
		if err != nil {
			return
		}
		sdp, err := util.DeserializeSessionDescription(answer)
		if err != nil {
			return
		}
		s.client.SetRemoteDescription(*sdp)
	}
	switch s.kind {
	case 'a':
		http.Error(w, "scripted failure", http.StatusInternalServerError)
	case 'g':
		w.Write([]byte(`{"Status":"client gone"}`))
	case 'm':
		w.Write([]byte(`}{`))
	case 't':
		w.Write([]byte(`{"Status":"success"}`))
	case 'A':
		// the broker forwards the answer, the client connects, and only then does the proxy
		// learn that its request "failed"
		apply()
		select {
		case <-s.relayConn:
		case <-time.After(c16Patience(10 * time.Second)):
		}
		http.Error(w, "scripted late failure", http.StatusInternalServerError)
	default: // o q T Y
		apply()
		w.Write([]byte(`{"Status":"success"}`))
	}
}

var c16Upgrader = websocket.Upgrader{CheckOrigin: func(r *http.Request) bool { return true }}

func (e *c16Env) handleRelay(w http.ResponseWriter, r *http.Request) {
	i, err := strconv.Atoi(strings.TrimPrefix(r.URL.Path, "/s"))
	ws, uerr := c16Upgrader.Upgrade(w, r, nil)
	if uerr != nil {
		return
	}
	e.mu.Lock()
	var s *c16Sess
	if err == nil && i >= 0 && i < len(e.sessions) {
		s = e.sessions[i]
		s.ws = ws
	}
	e.mu.Unlock()
	if s != nil {
		s.relayOnce.Do(func() { close(s.relayConn) })
	}
	if s != nil && s.relayKind == 's' {
		// the relay stalls after the handshake: nothing is read, nothing is written
		<-e.done
		ws.Close()
		return
	}
	for {
		if _, _, err := ws.ReadMessage(); err != nil {
			ws.Close()
			return
		}
	}
}

// Once a wait has expired (something that must happen did not: the tree under test is defective)
// later waits of the process are cut short, so that a failing tree is reported quickly.
var c16Degraded bool

// (guards around get/ret/runSession keep their full length: cutting them would misreport a slow
// session as a blocked one)
func c16Patience(d time.Duration) time.Duration {
	if c16Degraded && d > 250*time.Millisecond {
		return 250 * time.Millisecond
	}
	return d
}

func c16GuardFor(d time.Duration, f func()) bool {
	done := make(chan struct{})
	go func() { f(); close(done) }()
	select {
	case <-done:
		return true
	case <-time.After(d):
		c16Degraded = true
		return false
	}
}

func c16Guard(f func()) bool { return c16GuardFor(3*time.Second, f) }

func c16ChLen() int { return len(tokens.ch) }

// wait until count (and the channel length, when there is a channel) moved away from the given values
func c16WaitChange(count int64, chl int) {
	deadline := time.Now().Add(c16Patience(3 * time.Second))
	for time.Now().Before(deadline) && tokens.count() == count {
		time.Sleep(2 * time.Millisecond)
	}
	if tokens.count() == count {
		c16Degraded = true
	}
	if tokens.capacity != 0 {
		d2 := time.Now().Add(500 * time.Millisecond)
		for time.Now().Before(d2) && c16ChLen() == chl {
			time.Sleep(2 * time.Millisecond)
		}
	}
}

func (e *c16Env) result(show bool) string {
	e.mu.Lock()
	defer e.mu.Unlock()
	p := "-"
	if show && len(e.polls) > 0 {
		parts := make([]string, len(e.polls))
		for i, c := range e.polls {
			parts[i] = fmt.Sprintf("%d@%d", c.clients, c.inUse)
		}
		p = strings.Join(parts, ".")
	}
	e.polls = nil
	return fmt.Sprintf("c%dh%dp%s", tokens.count(), c16ChLen(), p)
}

// end the handler of session i: the client closes (c), the relay closes (d), or a bare
// tokens.ret() (-).  Returns "" or the "!..." result.
func (e *c16Env) end(kind byte, i int) string {
	s := e.sessions[i]
	before, chl := tokens.count(), c16ChLen()
	switch kind {
	case 'c':
		if s.client == nil {
			return "!badop"
		}
		s.client.Close()
	case 'd':
		e.mu.Lock()
		ws := s.ws
		e.mu.Unlock()
		if ws == nil && s.client != nil && strings.IndexByte("oA", s.kind) >= 0 {
			// no handler ever reached the relay for this session (the wait after the session op has
			// expired): all that can still end it is its client
			s.client.Close()
		} else if ws == nil {
			return "!badop"
		} else {
			ws.Close()
		}
	case '-':
		if !c16Guard(tokens.ret) {
			return "!blocked-ret"
		}
		e.bare--
		return ""
	}
	c16WaitChange(before, chl)
	return ""
}

// kind w: runSession stays in pollOffer; after each "no match" answer the sessions of that round
// end, well before the next poll of the same session (pollInterval later) is computed.
func (e *c16Env) repoll(s *c16Sess) string {
	done := make(chan struct{})
	go func() { e.sf.runSession(genSessionID()); close(done) }()
	for _, ids := range s.rounds {
		select {
		case <-s.answered:
		case <-done:
			return "!session-returned-early " + e.result(true)
		case <-time.After(pollInterval + 3*time.Second):
			c16Degraded = true
			return "!nopoll " + e.result(true)
		}
		for _, i := range ids {
			k := byte('c')
			if e.sessions[i].kind == '+' {
				k = '-'
			}
			if bad := e.end(k, i); bad != "" {
				return bad + " " + e.result(true)
			}
		}
	}
	select {
	case <-done:
	case <-time.After(pollInterval + 3*time.Second):
		c16Degraded = true
		return "!blocked-session " + e.result(true)
	}
	return e.result(true)
}

func (e *c16Env) op(o string) string {
	kind := o[0]
	if kind == 'S' {
		return e.stress(o) // overlapping gets and rets, then a poll: zz_verif_c16conc_test.go
	}
	if strings.IndexByte("cd-", kind) >= 0 && len(o) > 1 {
		i, err := strconv.Atoi(o[1:])
		if err != nil || i < 0 || i >= len(e.sessions) {
			return "!badop"
		}
		if bad := e.end(kind, i); bad != "" {
			if bad == "!blocked-ret" {
				bad += " " + e.result(true)
			}
			return bad
		}
		return e.result(true)
	}
	s := &c16Sess{kind: kind, relayConn: make(chan struct{})}
	if (kind == 'O' || kind == 'Q') && len(o) == 2 && strings.IndexByte("pln6mu", o[1]) >= 0 {
		// the sessions o / q with a client whose offer or data channel has the given shape
		kind = kind + ('o' - 'O')
		s.kind, s.variant = kind, o[1]
	} else if kind == 'O' || kind == 'Q' {
		return "!badop"
	}
	if kind == 'Y' {
		if len(o) != 2 || strings.IndexByte("rehzs", o[1]) < 0 {
			return "!badop"
		}
		s.relayKind = o[1]
		if o[1] != 's' {
			u, err := e.faultyRelay(o[1])
			if err != nil {
				return "!relay " + err.Error()
			}
			s.relayURL = u
		}
	}
	if kind == 'w' && len(o) > 1 {
		// w<round>/<round>/...  round = "_" or '.'-separated ids of sessions to end
		for _, r := range strings.Split(o[1:], "/") {
			ids := []int{}
			if r != "_" {
				for _, x := range strings.Split(r, ".") {
					i, err := strconv.Atoi(x)
					if err != nil || i < 0 || i >= len(e.sessions) {
						return "!badop"
					}
					ids = append(ids, i)
				}
			}
			s.rounds = append(s.rounds, ids)
		}
		s.answered = make(chan struct{}, len(s.rounds))
	} else if s.variant == 0 && kind != 'Y' && (len(o) != 1 || strings.IndexByte("ejsxkunbrRpagmtToqA+", kind) < 0) {
		return "!badop"
	}
	if strings.IndexByte("brRqagmtToAY", kind) >= 0 {
		pc, offer, err := c16NewClient(kind == 'T', &s.connected, s.variant)
		if err != nil {
			return "!client " + err.Error()
		}
		s.client, s.offer = pc, offer
	}
	e.mu.Lock()
	e.sessions = append(e.sessions, s)
	e.cur = s
	e.mu.Unlock()
	// as in Start: take a slot, then run the session synchronously
	if !c16Guard(tokens.get) {
		return "!blocked-get " + e.result(true)
	}
	if kind == '+' {
		e.bare++
		return e.result(false)
	}
	before, chl := tokens.count(), c16ChLen()
	limit := 3 * time.Second
	if kind == 't' || kind == 'T' || kind == 'n' {
		limit += dataChannelTimeout
	}
	if kind == 'w' {
		return e.repoll(s)
	}
	if kind == 'R' {
		// sessions run one at a time in this mode; later sessions use the non-TLS test relay again
		e.sf.AllowNonTLSRelay = false
		defer func() { e.sf.AllowNonTLSRelay = true }()
	}
	if !c16GuardFor(limit, func() { e.sf.runSession(genSessionID()) }) {
		return "!blocked-session " + e.result(true)
	}
	switch kind {
	case 'o', 'A':
		select {
		case <-s.relayConn:
		case <-time.After(c16Patience(8 * time.Second)):
			c16Degraded = true
		}
	case 'q':
		c16WaitChange(before, chl)
	case 'Y':
		switch s.relayKind {
		case 's':
			select {
			case <-s.relayConn:
			case <-time.After(c16Patience(8 * time.Second)):
				c16Degraded = true
			}
		case 'z':
			// nothing comes from the relay: the handler's dial is bounded by the dialer's handshake timeout only
			deadline := time.Now().Add(c16HandshakeTimeout + 15*time.Second)
			for time.Now().Before(deadline) && tokens.count() == before {
				time.Sleep(20 * time.Millisecond)
			}
			if tokens.count() == before {
				c16Degraded = true
			} else {
				c16WaitChange(before+1, chl) // count moved: let the channel follow
			}
		default:
			c16WaitChange(before, chl)
		}
	case 'T':
		if atomic.LoadInt32(&s.connected) == 0 {
			// the scenario was not exercised (no usable network interface?)
			return "!client-never-connected " + e.result(true)
		}
	}
	if s.client != nil && strings.IndexByte("oA", kind) < 0 && !(kind == 'Y' && s.relayKind == 's') {
		s.client.Close()
	}
	return e.result(true)
}

func (e *c16Env) startOp(o string) string {
	kind := o[0]
	switch {
	case kind == 'B' && len(o) == 1:
		select {
		case smp := <-e.arrived:
			_ = smp
			return "B0"
		case <-time.After(7 * time.Second):
			return "B1"
		}
	case strings.IndexByte("cd", kind) >= 0 && len(o) > 1:
		r := e.op(o)
		if strings.HasPrefix(r, "!") {
			return r
		}
		return "-"
	case len(o) == 1 && strings.IndexByte("ejsxkubrpagmoqAE", kind) >= 0:
		if kind == 'E' {
			kind = 'e'
		}
		s := &c16Sess{kind: kind, relayConn: make(chan struct{})}
		if strings.IndexByte("brqagmoA", kind) >= 0 {
			pc, offer, err := c16NewClient(false, &s.connected, 0)
			if err != nil {
				return "!client " + err.Error()
			}
			s.client, s.offer = pc, offer
		}
		var smp string
		select {
		case smp = <-e.arrived:
		case <-time.After(15 * time.Second):
			return "!nopoll c" + strconv.FormatInt(tokens.count(), 10)
		}
		// the loop is parked in its poll request: the figures are stable (up to handler releases,
		// which the preceding c/d ops have waited for)
		smp = fmt.Sprintf("c%dh%dp%s", tokens.count(), c16ChLen(), smp)
		e.mu.Lock()
		e.sessions = append(e.sessions, s)
		e.mu.Unlock()
		e.next <- s
		if kind == 'o' {
			select {
			case <-s.relayConn:
			case <-time.After(8 * time.Second):
			}
		}
		return smp
	}
	return "!badop"
}

func c16Case(args []string) string {
	if len(args) != 3 || (args[0] != "seq" && args[0] != "seq0" && args[0] != "conc" && args[0] != "start" && args[0] != "start0") {
		return "!badcase"
	}
	capacity, err := strconv.Atoi(args[1])
	if err != nil {
		return "!badcase"
	}
	e := &c16Env{start: strings.HasPrefix(args[0], "start"), arrived: make(chan string, 64), next: make(chan *c16Sess), done: make(chan struct{})}
	mux := http.NewServeMux()
	mux.HandleFunc("/proxy", e.handleProxy)
	mux.HandleFunc("/answer", e.handleAnswer)
	e.broker = httptest.NewServer(mux)
	e.relay = httptest.NewServer(http.HandlerFunc(e.handleRelay))
	defer e.broker.Close()
	defer e.relay.Close()
	e.sf = &SnowflakeProxy{
		Capacity: uint(capacity), BrokerURL: e.broker.URL + "/", RelayURL: e.relayURL(0),
		RelayDomainNamePattern: "127.0.0.1$", AllowNonTLSRelay: true, ProxyType: "standalone",
		EventDispatcher: event.NewSnowflakeEventDispatcher(),
	}
	if e.start {
		// black box: Start itself makes the tokens, probes the NAT type (the probe fails at once)
		// and runs the loop
		e.sf.STUNURL = "stun:127.0.0.1:1"
		e.sf.NATProbeURL = e.broker.URL + "/probe"
		tokens = nil
		go e.sf.Start()
		deadline := time.Now().Add(30 * time.Second)
		for time.Now().Before(deadline) && len(e.arrived) == 0 {
			time.Sleep(5 * time.Millisecond)
		}
	} else {
		e.sf.shutdown = make(chan struct{})
		// what Start sets up
		broker, err = newSignalingServer(e.sf.BrokerURL, false)
		if err != nil {
			return "!broker " + err.Error()
		}
		config = webrtc.Configuration{}
		tokens = newTokens(e.sf.Capacity)
	}

	var out []string
	ops := strings.Split(args[2], ",")
	if args[2] == "-" {
		ops = nil
	}
	for _, o := range ops {
		var r string
		if e.start {
			r = e.startOp(o)
		} else {
			r = e.op(o)
		}
		out = append(out, r)
		if strings.HasPrefix(r, "!") {
			break
		}
	}
	// tear down: end every handler before the next case replaces the global tokens
	close(e.done)
	for _, ln := range e.lns {
		ln.Close()
	}
	close(e.sf.shutdown)
	if e.start {
		select {
		case e.next <- &c16Sess{kind: 'e', relayConn: make(chan struct{})}:
		case <-time.After(100 * time.Millisecond):
		}
	}
	e.mu.Lock()
	ss := e.sessions
	e.mu.Unlock()
	for _, s := range ss {
		if s.client != nil {
			s.client.Close()
		}
	}
	residual := e.bare
	deadline := time.Now().Add(c16Patience(3 * time.Second))
	for time.Now().Before(deadline) && tokens.count() > residual {
		time.Sleep(2 * time.Millisecond)
	}
	time.Sleep(10 * time.Millisecond)
	if len(out) == 0 {
		return "-"
	}
	return strings.Join(out, ",")
}

func TestVerifDriver(t *testing.T) {
	if os.Getenv("VERIF_DRIVER") != "1" {
		t.Skip("driver mode only")
	}
	// pion's default logger and the test framework write to os.Stdout: keep the protocol stream apart
	real := os.Stdout
	os.Stdout = os.Stderr
	log.SetOutput(io.Discard)
	sc := bufio.NewScanner(os.Stdin)
	sc.Buffer(make([]byte, 1<<20), 1<<26)
	w := bufio.NewWriter(real)
	for sc.Scan() {
		args := strings.Split(sc.Text(), " ")
		res := func() (res string) {
			defer func() {
				if r := recover(); r != nil {
					res = "!panic " + strings.ReplaceAll(fmt.Sprint(r), "\n", " ")
				}
			}()
			return c16Case(args[1:])
		}()
		w.WriteString(res)
		w.WriteByte('\n')
		w.Flush()
	}
	os.Exit(0)
}
