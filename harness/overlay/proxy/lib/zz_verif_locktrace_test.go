//go:build verif

// C20 race workload for proxy/lib: the per-connection traffic logger (AddInbound /
// AddOutbound from the two copy directions, ThroughputSummary + GetStat from the
// OnClose callback), the tokens counter (get / ret / count as in Start / pollOffer /
// datachannelHandler) and the NAT type variable.
package snowflake_proxy

import (
	"fmt"
	"io"
	"log"
	"os"
	"strconv"
	"sync"
	"testing"
	"time"
)

func c20EnvInt(name string, def int) int {
	if v, err := strconv.Atoi(os.Getenv(name)); err == nil {
		return v
	}
	return def
}

func TestVerifC20BytesLogger(t *testing.T) {
	log.SetOutput(io.Discard)
	n := c20EnvInt("VERIF_C20_N", 8)
	var wg sync.WaitGroup
	totalIn, totalOut := 0, 0
	var mu sync.Mutex
	for k := 0; k < n; k++ {
		var b bytesLogger = newBytesSyncLogger()
		wg.Add(3)
		go func() { // webRTCConn.Write: relay -> client direction
			defer wg.Done()
			for j := 0; j < 400; j++ {
				b.AddInbound(j%1500 + 1)
			}
		}()
		go func() { // dc.OnMessage: client -> relay direction
			defer wg.Done()
			for j := 0; j < 400; j++ {
				b.AddOutbound(j%1200 + 1)
			}
		}()
		go func() { // dc.OnClose while traffic is still being accounted
			defer wg.Done()
			for j := 0; j < 50; j++ {
				_ = b.ThroughputSummary()
				in, out := b.GetStat()
				mu.Lock()
				totalIn, totalOut = totalIn+in, totalOut+out
				mu.Unlock()
				time.Sleep(20 * time.Microsecond)
			}
		}()
	}
	wg.Wait()
	fmt.Printf("C20 byteslogger done=true n=%d\n", n)
}

func TestVerifC20Tokens(t *testing.T) {
	log.SetOutput(io.Discard)
	n := c20EnvInt("VERIF_C20_N", 8)
	tk := newTokens(uint(n))
	var wg sync.WaitGroup
	stop := make(chan struct{})
	wg.Add(1)
	go func() { // pollOffer: tokens.count() on every poll
		defer wg.Done()
		for {
			select {
			case <-stop:
				return
			default:
			}
			_ = int((tk.count() / 8) * 8)
			_ = getCurrentNATType()
		}
	}()
	var sessions sync.WaitGroup
	for j := 0; j < 200; j++ {
		tk.get() // main loop of Start
		sessions.Add(1)
		go func() { // datachannelHandler: defer tokens.ret()
			defer sessions.Done()
			time.Sleep(10 * time.Microsecond)
			tk.ret()
		}()
	}
	sessions.Wait()
	close(stop)
	wg.Wait()
	fmt.Printf("C20 tokens done=true count=%d\n", tk.count())
}
