//go:build verif

// C20 race workload for proxy/lib: a proxy started with SnowflakeProxy.Start whose NAT type is
// re-measured periodically (NATTypeMeasurementInterval) by the real checkNATType against a local
// probe (the repo's probetest handler without its public STUN server: a pion peer that answers the
// offer and lets the data channel open), while the proxy polls a stub broker and further pollers
// read the NAT type through pollOffer.  currentNATType is written under the RWMutex in write mode
// by the retest and read under RLock by every poll.
package snowflake_proxy

import (
	"fmt"
	"io"
	"io/ioutil"
	"log"
	"net"
	"net/http"
	"net/http/httptest"
	"strings"
	"sync"
	"sync/atomic"
	"testing"
	"time"

	"git.torproject.org/pluggable-transports/snowflake.git/v2/common/event"
	"git.torproject.org/pluggable-transports/snowflake.git/v2/common/messages"
	"git.torproject.org/pluggable-transports/snowflake.git/v2/common/util"
	"github.com/pion/stun"
	"github.com/pion/webrtc/v3"
)

// c20STUN answers binding requests with the sender's own address (so that ICE gathering does
// not wait for an unreachable server).
func c20STUN() (string, func(), error) {
	pc, err := net.ListenUDP("udp4", &net.UDPAddr{IP: net.IPv4(127, 0, 0, 1), Port: 0})
	if err != nil {
		return "", nil, err
	}
	go func() {
		buf := make([]byte, 1500)
		for {
			n, from, err := pc.ReadFromUDP(buf)
			if err != nil {
				return
			}
			m := &stun.Message{Raw: append([]byte(nil), buf[:n]...)}
			if m.Decode() != nil || m.Type != stun.BindingRequest {
				continue
			}
			resp, err := stun.Build(stun.NewTransactionIDSetter(m.TransactionID), stun.BindingSuccess,
				&stun.XORMappedAddress{IP: from.IP, Port: from.Port}, stun.Fingerprint)
			if err == nil {
				pc.WriteToUDP(resp.Raw, from)
			}
		}
	}()
	return fmt.Sprintf("stun:127.0.0.1:%d", pc.LocalAddr().(*net.UDPAddr).Port), func() { pc.Close() }, nil
}

// c20ProbeHandler: accept the proxy's offer, answer, let the data channel open.
func c20ProbeHandler(probes *int64) http.HandlerFunc {
	return func(w http.ResponseWriter, r *http.Request) {
		atomic.AddInt64(probes, 1)
		body, err := ioutil.ReadAll(io.LimitReader(r.Body, 100000))
		if err != nil {
			w.WriteHeader(400)
			return
		}
		offer, _, err := messages.DecodePollResponse(body)
		if err != nil || offer == "" {
			w.WriteHeader(400)
			return
		}
		sdp, err := util.DeserializeSessionDescription(offer)
		if err != nil {
			w.WriteHeader(400)
			return
		}
		pc, err := webrtc.NewPeerConnection(webrtc.Configuration{})
		if err != nil {
			w.WriteHeader(500)
			return
		}
		opened := make(chan struct{})
		pc.OnDataChannel(func(dc *webrtc.DataChannel) {
			dc.OnOpen(func() { close(opened) })
		})
		done := webrtc.GatheringCompletePromise(pc)
		if err = pc.SetRemoteDescription(*sdp); err != nil {
			pc.Close()
			w.WriteHeader(500)
			return
		}
		ans, err := pc.CreateAnswer(nil)
		if err == nil {
			err = pc.SetLocalDescription(ans)
		}
		if err != nil {
			pc.Close()
			w.WriteHeader(500)
			return
		}
		<-done
		as, _ := util.SerializeSessionDescription(pc.LocalDescription())
		out, err := messages.EncodeAnswerRequest(as, "stub-sid")
		if err != nil {
			pc.Close()
			w.WriteHeader(500)
			return
		}
		w.Write(out)
		go func() {
			select {
			case <-opened:
				time.Sleep(200 * time.Millisecond)
			case <-time.After(20 * time.Second):
			}
			pc.Close()
		}()
	}
}

// c20NATRetest runs the scenario for about d; returns (polls seen by the stub broker, probes, NAT type at the end).
func c20NATRetest(d time.Duration, pollers int) (int64, int64, string) {
	var polls, probes int64
	mux := http.NewServeMux()
	mux.HandleFunc("/proxy", func(w http.ResponseWriter, r *http.Request) {
		body, _ := ioutil.ReadAll(r.Body)
		atomic.AddInt64(&polls, 1)
		if sid, _, _, _, err := messages.DecodeProxyPollRequest(body); err == nil && strings.HasPrefix(sid, "c20-") {
			w.Write([]byte("not a poll response")) // the extra pollers: pollOffer gives up at once
			return
		}
		resp, _ := messages.EncodePollResponse("", false, "")
		w.Write(resp) // no client for this proxy: its loop polls again after pollInterval
	})
	mux.HandleFunc("/probe", c20ProbeHandler(&probes))
	srv := httptest.NewServer(mux)
	defer srv.Close()
	stunURL, stunClose, err := c20STUN()
	if err != nil {
		return 0, 0, "!stun " + err.Error()
	}
	defer stunClose()
	sf := &SnowflakeProxy{
		Capacity: 4, BrokerURL: srv.URL + "/", RelayURL: "ws://127.0.0.1:1/", STUNURL: stunURL,
		NATProbeURL: srv.URL + "/probe", NATTypeMeasurementInterval: 150 * time.Millisecond,
		RelayDomainNamePattern: "127.0.0.1$", AllowNonTLSRelay: true, ProxyType: "standalone",
		EventDispatcher: event.NewSnowflakeEventDispatcher(),
	}
	started := make(chan struct{})
	go func() { close(started); sf.Start() }()
	<-started
	// Start has set the package-level broker once its first poll arrives
	deadline := time.Now().Add(30 * time.Second)
	for atomic.LoadInt64(&polls) == 0 && time.Now().Before(deadline) {
		time.Sleep(2 * time.Millisecond)
	}
	stop := make(chan struct{})
	var wg sync.WaitGroup
	for k := 0; k < pollers; k++ {
		wg.Add(1)
		go func(k int) { // what the proxy's main loop does on every tick: pollOffer reads the NAT type
			defer wg.Done()
			sh := make(chan struct{})
			for j := 0; ; j++ {
				select {
				case <-stop:
					return
				default:
				}
				broker.pollOffer(fmt.Sprintf("c20-%d-%d", k, j), "standalone", "", sh)
				time.Sleep(time.Millisecond)
			}
		}(k)
	}
	time.Sleep(d)
	close(stop)
	wg.Wait()
	sf.Stop()
	return atomic.LoadInt64(&polls), atomic.LoadInt64(&probes), getCurrentNATType()
}

func TestVerifC20NATRetest(t *testing.T) {
	log.SetOutput(io.Discard)
	ms := c20EnvInt("VERIF_C20_MS", 1500)
	polls, probes, nat := c20NATRetest(time.Duration(ms)*time.Millisecond, c20EnvInt("VERIF_C20_N", 4))
	fmt.Printf("C20 nat-retest done=%v polls=%d probes=%d nat=%s\n", polls > 0 && probes >= 2, polls, probes, nat)
}
