//go:build verif

// C20 trace recording for proxy/lib.  Run ONLY in the binary built from the instrumented copies of the
// sources (locktable -instr): the package's race workloads run once, small, with the recorder on;
// lib/checks/c20.py turns the dump into a `locktrace check` case for the extracted checker.
package snowflake_proxy

import (
	"fmt"
	"os"
	"testing"
	"time"

	"git.torproject.org/pluggable-transports/snowflake.git/v2/zz_verif/ltrace"
)

func TestVerifC20Trace(t *testing.T) {
	out := os.Getenv("VERIF_LTRACE_OUT")
	if out == "" {
		t.Skip("trace recording only")
	}
	ltrace.Enable()
	os.Setenv("VERIF_C20_N", "3")
	TestVerifC20BytesLogger(t)
	TestVerifC20Tokens(t)
	polls, probes, nat := c20NATRetest(700*time.Millisecond, 2)
	fmt.Printf("C20 trace nat polls=%d probes=%d nat=%s\n", polls, probes, nat)
	n, err := ltrace.Dump(out)
	if err != nil {
		t.Fatal(err)
	}
	fmt.Printf("C20 trace proxy/lib done=true events=%d\n", n)
}
