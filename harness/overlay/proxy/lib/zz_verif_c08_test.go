//go:build verif

// In-package driver for C08 at the proxy's call site: (*SignalingServer).sendAnswer on a
// SignalingServer built by newSignalingServer(url, keepLocalAddresses), against a stub broker that
// captures the answer.  Runs only when the compiled test binary is started with
// `-test.run ^TestVerifC08Driver$ -verif.c08`; line protocol of coq/Run/SdpstripRun.v (`psend`).
//
// sendAnswer reads nothing from the peer connection but pc.LocalDescription().  Two kinds of peer
// connection are handed to it:
//   psend      a zero webrtc.PeerConnection whose currentLocalDescription field is set to the case's
//              text (reflect; pion returns the field as is when there is no ICE gatherer): any text
//   psendreal  a peer connection made by pion the way makePeerConnectionFromOffer does, answering a
//              real offer, its host candidate rewritten to a chosen address (SetNAT1To1IPs)
//   pstart     nothing is handed over: SnowflakeProxy{KeepLocalAddresses: …}.Start() runs against the stub
//              broker (NAT probe fails at once, one real client offer is served); what is observed is the
//              answer of the session it runs - the machine's own candidates
package snowflake_proxy

import (
	"flag"
	"fmt"
	"io"
	"io/ioutil"
	"log"
	"net"
	"net/http"
	"net/http/httptest"
	"os"
	"reflect"
	"strings"
	"sync"
	"testing"
	"time"
	"unsafe"

	"git.torproject.org/pluggable-transports/snowflake.git/v2/common/event"
	"git.torproject.org/pluggable-transports/snowflake.git/v2/common/messages"
	"git.torproject.org/pluggable-transports/snowflake.git/v2/common/util"
	"git.torproject.org/pluggable-transports/snowflake.git/v2/zz_verif/sdpstrip/sdplines"
	"git.torproject.org/pluggable-transports/snowflake.git/v2/zz_verif/wire"
	"github.com/pion/ice/v2"
	"github.com/pion/stun"
	"github.com/pion/webrtc/v3"
)

var verifC08 = flag.Bool("verif.c08", false, "run the C08 call-site line-protocol driver")

type c08Broker struct {
	mu     sync.Mutex
	bodies [][]byte
	offer  string // served once to /proxy (pstart), then "no match"
	srv    *httptest.Server
}

func c08NewBroker() *c08Broker {
	b := &c08Broker{}
	b.srv = httptest.NewServer(http.HandlerFunc(func(w http.ResponseWriter, r *http.Request) {
		body, _ := ioutil.ReadAll(r.Body)
		if strings.HasSuffix(r.URL.Path, "/answer") {
			b.mu.Lock()
			b.bodies = append(b.bodies, body)
			b.mu.Unlock()
			resp, _ := messages.EncodeAnswerResponse(true)
			w.Write(resp)
			return
		}
		if strings.HasSuffix(r.URL.Path, "/proxy") {
			b.mu.Lock()
			offer := b.offer
			b.offer = ""
			b.mu.Unlock()
			resp, _ := messages.EncodePollResponseWithRelayURL(offer, offer != "", "unknown", "", "no match")
			w.Write(resp)
			return
		}
		http.Error(w, "unexpected path", http.StatusNotFound) // also the NAT probe: fails at once
	}))
	return b
}

func (b *c08Broker) take() [][]byte {
	b.mu.Lock()
	defer b.mu.Unlock()
	r := b.bodies
	b.bodies = nil
	return r
}

// c08FakePC: a peer connection whose LocalDescription() is exactly text.
func c08FakePC(text string) *webrtc.PeerConnection {
	pc := &webrtc.PeerConnection{}
	f := reflect.ValueOf(pc).Elem().FieldByName("currentLocalDescription")
	reflect.NewAt(f.Type(), unsafe.Pointer(f.UnsafeAddr())).Elem().Set(
		reflect.ValueOf(&webrtc.SessionDescription{Type: webrtc.SDPTypeAnswer, SDP: text}))
	return pc
}

// c08Send runs sendAnswer and reports the SDP text the broker received relative to `text`.
func c08Send(b *c08Broker, keep bool, pc *webrtc.PeerConnection, text string) string {
	s, err := newSignalingServer(b.srv.URL, keep)
	if err != nil {
		return "nochannel"
	}
	b.take()
	serr := s.sendAnswer("c08sid", pc)
	got := b.take()
	if len(got) != 1 {
		if serr != nil {
			return "!nothing-sent " + strings.ReplaceAll(serr.Error(), "\n", " ")
		}
		return "!answers-sent-" + string(rune('0'+len(got)))
	}
	answer, sid, err := messages.DecodeAnswerRequest(got[0])
	if err != nil || sid != "c08sid" {
		return "!answer-request-undecodable"
	}
	d, err := util.DeserializeSessionDescription(answer)
	if err != nil {
		return "!answer-undeserialisable"
	}
	if d.Type != webrtc.SDPTypeAnswer {
		return "!answer-type-changed"
	}
	return sdplines.Structure([]byte(text)).Sent(text, d.SDP)
}

// c08RealPC answers a real offer like makePeerConnectionFromOffer does; the host candidates announce
// `addr` instead of the machine's own address when addr != "".
// c08Stun answers STUN binding requests, so that candidate gathering with a STUN server configured
// (SnowflakeProxy.Start insists on one) finishes at once instead of after pion's 5 s wait.
func c08Stun() (string, error) {
	conn, err := net.ListenUDP("udp4", &net.UDPAddr{IP: net.IPv4(127, 0, 0, 1)})
	if err != nil {
		return "", err
	}
	go func() {
		buf := make([]byte, 1500)
		for {
			n, addr, err := conn.ReadFromUDP(buf)
			if err != nil {
				return
			}
			m := &stun.Message{Raw: append([]byte{}, buf[:n]...)}
			if m.Decode() != nil || m.Type != stun.BindingRequest {
				continue
			}
			resp, err := stun.Build(stun.NewTransactionIDSetter(m.TransactionID), stun.BindingSuccess,
				&stun.XORMappedAddress{IP: addr.IP, Port: addr.Port}, stun.Fingerprint)
			if err == nil {
				conn.WriteToUDP(resp.Raw, addr)
			}
		}
	}()
	return "stun:" + conn.LocalAddr().String(), nil
}

// c08Offerer: a client-side peer connection with a complete offer.
func c08Offerer() (*webrtc.PeerConnection, error) {
	offerer, err := webrtc.NewPeerConnection(webrtc.Configuration{})
	if err != nil {
		return nil, err
	}
	if _, err = offerer.CreateDataChannel("c08", nil); err != nil {
		return nil, err
	}
	offer, err := offerer.CreateOffer(nil)
	if err != nil {
		return nil, err
	}
	odone := webrtc.GatheringCompletePromise(offerer)
	if err = offerer.SetLocalDescription(offer); err != nil {
		return nil, err
	}
	<-odone
	return offerer, nil
}

func c08RealPC(addr string) (*webrtc.PeerConnection, func(), error) {
	offerer, err := c08Offerer()
	if err != nil {
		return nil, nil, err
	}
	s := webrtc.SettingEngine{}
	s.SetICEMulticastDNSMode(ice.MulticastDNSModeDisabled)
	if addr != "" {
		s.SetNAT1To1IPs([]string{addr}, webrtc.ICECandidateTypeHost)
	}
	pc, err := webrtc.NewAPI(webrtc.WithSettingEngine(s)).NewPeerConnection(webrtc.Configuration{})
	if err != nil {
		return nil, nil, err
	}
	done := webrtc.GatheringCompletePromise(pc)
	if err = pc.SetRemoteDescription(*offerer.LocalDescription()); err != nil {
		return nil, nil, err
	}
	answer, err := pc.CreateAnswer(nil)
	if err != nil {
		return nil, nil, err
	}
	if err = pc.SetLocalDescription(answer); err != nil {
		return nil, nil, err
	}
	<-done
	return pc, func() { pc.Close(); offerer.Close() }, nil
}

func TestVerifC08Driver(t *testing.T) {
	if !*verifC08 {
		t.Skip("driver mode not requested")
	}
	if os.Getenv("VERIF_LOG") == "" {
		log.SetOutput(io.Discard)
	}
	b := c08NewBroker()
	defer b.srv.Close()
	stunURL, err := c08Stun()
	if err != nil {
		stunURL = "stun:127.0.0.1:1" // gathering then takes 5 s
	}
	wire.Loop(func(a []string) string {
		switch a[0] {
		case "psend": // psend <keep> <lstruct> x<text>
			text, err := wire.Payload(a[3])
			if err != nil {
				return "!badcase"
			}
			if v := sdplines.Structure(text); v.Tok != a[2] {
				return "!structure-mismatch " + v.Tok
			}
			return c08Send(b, a[1] == "1", c08FakePC(string(text)), string(text))
		case "pstart": // pstart <keep>: SnowflakeProxy.Start with KeepLocalAddresses; prints the lstruct of the answer the broker got
			offerer, err := c08Offerer()
			if err != nil {
				return "!pc " + strings.ReplaceAll(err.Error(), "\n", " ")
			}
			defer offerer.Close()
			offer, err := util.SerializeSessionDescription(offerer.LocalDescription())
			if err != nil {
				return "!offer"
			}
			b.take()
			b.mu.Lock()
			b.offer = offer
			b.mu.Unlock()
			sf := &SnowflakeProxy{
				BrokerURL: b.srv.URL + "/", STUNURL: stunURL, NATProbeURL: b.srv.URL + "/probe", RelayURL: "ws://127.0.0.1:1/",
				RelayDomainNamePattern: "127.0.0.1$", AllowNonTLSRelay: true,
				KeepLocalAddresses: a[1] == "1", EventDispatcher: event.NewSnowflakeEventDispatcher(),
			}
			crashed := make(chan string, 1)
			returned := make(chan string, 1)
			go func() {
				defer func() {
					if r := recover(); r != nil {
						crashed <- fmt.Sprint(r)
					}
				}()
				if err := sf.Start(); err != nil {
					returned <- err.Error()
				}
			}()
			var got [][]byte
			deadline := time.Now().Add(90 * time.Second)
			for len(got) == 0 && time.Now().Before(deadline) {
				select {
				case c := <-crashed:
					return "!panic " + strings.ReplaceAll(c, "\n", " ")
				case e := <-returned:
					return "!start-returned " + strings.ReplaceAll(e, "\n", " ")
				case <-time.After(5 * time.Millisecond):
				}
				got = b.take()
			}
			if sf.shutdown != nil {
				sf.Stop()
			}
			if len(got) == 0 {
				return "!nothing-sent"
			}
			answer, _, err := messages.DecodeAnswerRequest(got[0])
			if err != nil {
				return "!answer-request-undecodable"
			}
			d, err := util.DeserializeSessionDescription(answer)
			if err != nil {
				return "!answer-undeserialisable"
			}
			return sdplines.Structure([]byte(d.SDP)).Tok
		case "psendreal": // psendreal <keep> <addr|-> : prints <lstruct of pion's description> <what was sent>
			addr := a[2]
			if addr == "-" {
				addr = ""
			}
			pc, closer, err := c08RealPC(addr)
			if err != nil {
				return "!pc " + strings.ReplaceAll(err.Error(), "\n", " ")
			}
			defer closer()
			text := pc.LocalDescription().SDP
			return sdplines.Structure([]byte(text)).Tok + " " + c08Send(b, a[1] == "1", pc, text)
		}
		return "!badcase"
	})
	os.Exit(0)
}
