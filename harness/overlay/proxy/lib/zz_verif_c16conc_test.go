//go:build verif

package snowflake_proxy

// C16, overlapping token operations.  Op S<n>x<rounds> of the seq driver: on the real tokens_t of the case,
// n holders give their slot back at the same moment (released by one barrier) while n others take a slot as
// Start() does for the next client; holders and starters swap roles every round.  Each goroutine also does a
// few get/ret pairs of its own per round so that the operations really overlap on a multi-core host.  After
// every round all goroutines are joined (quiescence) and tokens.count() is compared with the slots held; at
// the end every slot of the stress is given back and one real session polls the scripted broker, so the answer
// of the op is the usual c<count>h<chlen>p<Clients>@<count> of a failing poll, followed by ~r<first bad
// round>d<count minus slots held there> (r0d0: none).
//
// The model (coq/Model/Tokens.v) has get and ret as atomic steps; this op observes that the implementation's
// counter update is one.

import (
	"fmt"
	"strconv"
	"strings"
	"sync"
	"time"
)

const c16StressPairs = 12

func (e *c16Env) stress(o string) string {
	a := strings.Split(o[1:], "x")
	if len(a) != 2 {
		return "!badop"
	}
	n, err1 := strconv.Atoi(a[0])
	rounds, err2 := strconv.Atoi(a[1])
	if err1 != nil || err2 != nil || n < 1 || rounds < 1 {
		return "!badop"
	}
	base := tokens.count()
	if tokens.capacity != 0 && int64(tokens.capacity) < base+int64(n)+1 {
		return "!badop capacity too small for the stress"
	}
	t := tokens
	firstBad, drift := 0, int64(0)
	run := func(fs []func()) bool {
		var wg sync.WaitGroup
		start := make(chan struct{})
		for _, f := range fs {
			wg.Add(1)
			go func(f func()) { defer wg.Done(); <-start; f() }(f)
		}
		time.Sleep(50 * time.Microsecond) // let them park on the barrier
		return c16GuardFor(20*time.Second, func() { close(start); wg.Wait() })
	}
	note := func(round int, held int64) {
		if d := t.count() - held; d != 0 && firstBad == 0 {
			firstBad, drift = round, d
		}
	}
	// n holders take their slots (together)
	fs := make([]func(), n)
	for i := range fs {
		fs[i] = t.get
	}
	if !run(fs) {
		return "!blocked-get " + e.result(true)
	}
	note(1, base+int64(n))
	holder := func() { // a session ends; the goroutine then serves a few short sessions
		t.ret()
		for k := 0; k < c16StressPairs; k++ {
			t.get()
			t.ret()
		}
	}
	starter := func() { // short sessions, then the one that stays for the next round
		for k := 0; k < c16StressPairs; k++ {
			t.get()
			t.ret()
		}
		t.get()
	}
	fs = make([]func(), 0, 2*n)
	for i := 0; i < n; i++ {
		fs = append(fs, holder, starter)
	}
	for r := 1; r <= rounds; r++ {
		if !run(fs) {
			return "!blocked-ret " + e.result(true)
		}
		note(r, base+int64(n))
	}
	// all sessions end together
	fs = fs[:0]
	for i := 0; i < n; i++ {
		fs = append(fs, t.ret)
	}
	if !run(fs) {
		return "!blocked-ret " + e.result(true)
	}
	note(rounds+1, base)
	// the next poll of a real session reports the load
	res := e.op("e")
	if strings.HasPrefix(res, "!") {
		return res
	}
	return fmt.Sprintf("%s~r%dd%d", res, firstBad, drift)
}
