//go:build verif

// In-package driver for the relay step of C01: the REAL copyLoop (proxy/lib/snowflake.go) runs on two
// scripted io.ReadWriteClosers whose every Read / Write / Close call is gated. A call announces itself
// to the driver and blocks until the driver releases it according to the schedule of the case line, so
// the schedule is replayed deterministically and without sleeps (see coq/Model/CopyLoop.v for the model
// and coq/Run/CopyloopRun.v for the case line and the result line). Deadlines are a safety net only and
// yield a "!stuck" result.
//
//	VERIF_DRIVER=copyloop proxylib_copyloop.test -test.run '^TestVerifCopyloopDriver$'   (case lines on stdin)
package snowflake_proxy

import (
	"encoding/hex"
	"errors"
	"fmt"
	"hash/adler32"
	"io"
	"log"
	"os"
	"strconv"
	"strings"
	"sync"
	"testing"
	"time"

	"git.torproject.org/pluggable-transports/snowflake.git/v2/zz_verif/wire"
)

type clRitem struct {
	data []byte
	err  byte // 'd' none, 'e' io.EOF, 'f' an error
}

type clWitem struct {
	limit int // -1: accepts everything
	err   bool
}

type clRes struct {
	n   int
	err error
}

type clOp struct {
	conn int
	kind byte // 'R', 'W', 'C'
	buf  []byte
	done chan clRes
}

type clEvent struct {
	op     *clOp
	failed bool // the call found its conn closed and returned at once
}

type clSide struct {
	reads  []clRitem
	writes []clWitem
	out    int    // bytes handed out by Read
	in     []byte // bytes accepted by Write
	closes int    // Close calls
	ext    bool   // closed by the driver ("somebody else")
	parked []*clOp
}

func (s *clSide) closed() bool { return s.ext || s.closes > 0 }

type clEnv struct {
	mu     sync.Mutex
	sides  [2]*clSide
	events chan clEvent
	dead   bool // the case is over: every call returns at once
}

type clConn struct {
	env *clEnv
	id  int
}

var errCLScripted = errors.New("verif: scripted error")

func (e *clEnv) call(id int, kind byte, p []byte) (int, error) {
	e.mu.Lock()
	s := e.sides[id]
	if e.dead {
		e.mu.Unlock()
		if kind == 'C' {
			return 0, nil
		}
		return 0, io.ErrClosedPipe
	}
	op := &clOp{conn: id, kind: kind, buf: p, done: make(chan clRes, 1)}
	if kind != 'C' && s.closed() {
		e.events <- clEvent{op: op, failed: true}
		e.mu.Unlock()
		return 0, io.ErrClosedPipe
	}
	if kind != 'C' {
		s.parked = append(s.parked, op)
	}
	e.events <- clEvent{op: op}
	e.mu.Unlock()
	r := <-op.done
	return r.n, r.err
}

func (c *clConn) Read(p []byte) (int, error)  { return c.env.call(c.id, 'R', p) }
func (c *clConn) Write(p []byte) (int, error) { return c.env.call(c.id, 'W', p) }
func (c *clConn) Close() error                { _, err := c.env.call(c.id, 'C', nil); return err }

func clParseReads(tok string) ([]clRitem, bool) {
	var out []clRitem
	for _, t := range wire.List(tok) {
		if len(t) < 2 || t[1] != ':' || (t[0] != 'd' && t[0] != 'e' && t[0] != 'f') {
			return nil, false
		}
		b, err := wire.Payload(t[2:])
		if err != nil {
			return nil, false
		}
		out = append(out, clRitem{data: b, err: t[0]})
	}
	return out, true
}

func clParseWrites(tok string) ([]clWitem, bool) {
	var out []clWitem
	for _, t := range wire.List(tok) {
		switch {
		case t == "o":
			out = append(out, clWitem{limit: -1})
		case len(t) > 1 && (t[0] == 's' || t[0] == 't'):
			n, err := strconv.Atoi(t[1:])
			if err != nil || n < 0 {
				return nil, false
			}
			out = append(out, clWitem{limit: n, err: t[0] == 't'})
		default:
			return nil, false
		}
	}
	return out, true
}

func clForm(b []byte) string {
	if len(b) <= 48 {
		return "x" + hex.EncodeToString(b)
	}
	return fmt.Sprintf("n%d.%s.%s.%d", len(b), hex.EncodeToString(b[:8]), hex.EncodeToString(b[len(b)-8:]), adler32.Checksum(b))
}

// the driver's picture of the run
type clDriver struct {
	env      *clEnv
	pend     [2]*clOp // the parked call of each direction (direction d copies side d -> side 1-d)
	exited   [2]bool
	errSeen  [2]bool // the direction has been handed an error by a Read
	closeQ   []*clOp // announced Close calls, oldest first
	mainSeen bool    // copyLoop has left its select (a Close was announced, or it returned)
	returned bool
	atRet    [2]int
	retCh    chan struct{}
	shutdown chan struct{}
	shutDone bool
}

func clDir(op *clOp) int {
	if op.kind == 'R' {
		return op.conn
	}
	return 1 - op.conn
}

func (d *clDriver) absorb(ev clEvent) {
	op := ev.op
	if op.kind == 'C' {
		d.closeQ = append(d.closeQ, op)
		d.mainSeen = true
		return
	}
	k := clDir(op)
	if ev.failed {
		d.pend[k] = nil
		d.exited[k] = true
	} else {
		d.pend[k] = op
	}
}

// safety net only; after a first stuck case the remaining ones are not given as long, and after a few
// the rest of the run is answered "!stuck skipped"
var clDeadline = 10 * time.Second
var clStuck = 0

func (d *clDriver) wait(cond func() bool) bool {
	timer := time.NewTimer(clDeadline)
	defer timer.Stop()
	for !cond() {
		select {
		case ev := <-d.env.events:
			d.absorb(ev)
		case <-d.retCh:
			d.retCh = nil
			d.returned = true
			d.mainSeen = true
			d.env.mu.Lock()
			d.atRet = [2]int{len(d.env.sides[0].in), len(d.env.sides[1].in)}
			d.env.mu.Unlock()
		case <-timer.C:
			clDeadline = 2 * time.Second
			clStuck++
			return false
		}
	}
	return true
}

// the copier of direction k is expected to leave io.Copy now
func (d *clDriver) afterExit(k int) bool {
	d.exited[k] = true
	if d.mainSeen {
		return true
	}
	return d.wait(func() bool { return d.mainSeen || d.pend[k] != nil })
}

func (d *clDriver) afterOp(k int, exit bool) bool {
	if !exit {
		// the copier's next call; (code that leaves the loop here instead shows up as copyLoop moving on)
		was := d.mainSeen
		if !d.wait(func() bool { return d.pend[k] != nil || d.exited[k] || (!was && d.mainSeen) }) {
			return false
		}
		exit = d.exited[k] || d.pend[k] == nil
	}
	if exit {
		return d.afterExit(k)
	}
	return true
}

func (d *clDriver) unpark(op *clOp) {
	s := d.env.sides[op.conn]
	for i, o := range s.parked {
		if o == op {
			s.parked = append(s.parked[:i], s.parked[i+1:]...)
			return
		}
	}
}

func (d *clDriver) release(k int) bool {
	op := d.pend[k]
	if op == nil {
		return true
	}
	e := d.env
	e.mu.Lock()
	s := e.sides[op.conn]
	var res clRes
	exit := false
	if op.kind == 'R' {
		if len(s.reads) == 0 {
			e.mu.Unlock()
			return true // nothing to read: stays parked
		}
		it := s.reads[0]
		n := copy(op.buf, it.data)
		if n < len(it.data) {
			s.reads[0].data = it.data[n:]
		} else {
			s.reads = s.reads[1:]
			switch it.err {
			case 'e':
				res.err = io.EOF
			case 'f':
				res.err = errCLScripted
			}
		}
		s.out += n
		res.n = n
		if res.err != nil {
			d.errSeen[k] = true
		}
		exit = n == 0 && res.err != nil
	} else {
		w := clWitem{limit: -1}
		if len(s.writes) > 0 {
			w = s.writes[0]
			s.writes = s.writes[1:]
		}
		n := len(op.buf)
		if w.limit >= 0 && w.limit < n {
			n = w.limit
		}
		s.in = append(s.in, op.buf[:n]...)
		res.n = n
		if w.err {
			res.err = errCLScripted
		}
		exit = res.err != nil || n < len(op.buf) || d.errSeen[k]
	}
	d.unpark(op)
	d.pend[k] = nil
	e.mu.Unlock()
	op.done <- res
	return d.afterOp(k, exit)
}

// side s has just been closed: the calls parked on it fail
func (d *clDriver) wakeLocked(s int) []int {
	var woken []int
	side := d.env.sides[s]
	for _, op := range side.parked {
		k := clDir(op)
		if d.pend[k] == op {
			d.pend[k] = nil
		}
		woken = append(woken, k)
		op.done <- clRes{0, io.ErrClosedPipe}
	}
	side.parked = nil
	return woken
}

func (d *clDriver) releaseMain() bool {
	if len(d.closeQ) == 0 {
		return true
	}
	op := d.closeQ[0]
	d.closeQ = d.closeQ[1:]
	d.env.mu.Lock()
	d.env.sides[op.conn].closes++
	woken := d.wakeLocked(op.conn)
	d.env.mu.Unlock()
	for _, k := range woken {
		d.exited[k] = true
	}
	op.done <- clRes{}
	return d.wait(func() bool { return len(d.closeQ) > 0 || d.returned })
}

func (d *clDriver) extClose(s int) bool {
	d.env.mu.Lock()
	d.env.sides[s].ext = true
	woken := d.wakeLocked(s)
	d.env.mu.Unlock()
	for _, k := range woken {
		if !d.afterExit(k) {
			return false
		}
	}
	return true
}

func (d *clDriver) doShutdown() bool {
	if d.shutDone {
		return true
	}
	d.shutDone = true
	close(d.shutdown)
	if d.mainSeen {
		return true
	}
	return d.wait(func() bool { return d.mainSeen })
}

func (d *clDriver) line() string {
	e := d.env
	e.mu.Lock()
	defer e.mu.Unlock()
	p := ""
	for k := 0; k < 2; k++ {
		switch {
		case d.pend[k] == nil:
			p += "-"
		case d.pend[k].kind == 'R':
			p += "r"
		default:
			p += "w"
		}
	}
	switch {
	case d.returned:
		p += "r"
	case len(d.closeQ) > 0 && d.closeQ[0].conn == 0:
		p += "1"
	case len(d.closeQ) > 0:
		p += "2"
	default:
		p += "w"
	}
	ret, l0, l1 := 0, 0, 0
	if d.returned {
		ret = 1
		l0, l1 = len(e.sides[0].in)-d.atRet[0], len(e.sides[1].in)-d.atRet[1]
	}
	return fmt.Sprintf("w0=%s w1=%s r0=%d r1=%d c0=%d c1=%d p=%s ret=%d late=%d,%d",
		clForm(e.sides[0].in), clForm(e.sides[1].in), e.sides[0].out, e.sides[1].out,
		e.sides[0].closes, e.sides[1].closes, p, ret, l0, l1)
}

// end of the case: let everything run to its end
func (d *clDriver) cleanup() bool {
	e := d.env
	e.mu.Lock()
	e.dead = true
	for s := 0; s < 2; s++ {
		for _, op := range e.sides[s].parked {
			op.done <- clRes{0, io.ErrClosedPipe}
		}
		e.sides[s].parked = nil
	}
	e.mu.Unlock()
	for _, op := range d.closeQ {
		op.done <- clRes{}
	}
	d.closeQ = nil
	if !d.shutDone {
		d.shutDone = true
		close(d.shutdown)
	}
	return d.wait(func() bool { return d.returned })
}

func verifCopyloopRun(args []string) string {
	if len(args) != 6 || args[0] != "run" {
		return "!badcase"
	}
	r0, ok0 := clParseReads(args[1])
	w0, ok1 := clParseWrites(args[2])
	r1, ok2 := clParseReads(args[3])
	w1, ok3 := clParseWrites(args[4])
	if !(ok0 && ok1 && ok2 && ok3) {
		return "!badcase"
	}
	if clStuck >= 8 {
		return "!stuck skipped: earlier cases of this run got stuck"
	}
	sched := args[5]
	if sched == "-" {
		sched = ""
	}
	if strings.Trim(sched, "01msab") != "" {
		return "!badcase"
	}
	env := &clEnv{events: make(chan clEvent, 4096)}
	env.sides[0] = &clSide{reads: r0, writes: w0}
	env.sides[1] = &clSide{reads: r1, writes: w1}
	d := &clDriver{env: env, retCh: make(chan struct{}), shutdown: make(chan struct{})}
	c1, c2 := &clConn{env, 0}, &clConn{env, 1}
	retCh := d.retCh
	go func() {
		copyLoop(c1, c2, d.shutdown)
		close(retCh)
	}()
	res := ""
	if !d.wait(func() bool { return d.pend[0] != nil && d.pend[1] != nil }) {
		res = "!stuck start: the two copiers did not both reach their first Read"
	}
	for i := 0; res == "" && i < len(sched); i++ {
		ok := true
		switch sched[i] {
		case '0':
			ok = d.release(0)
		case '1':
			ok = d.release(1)
		case 'm':
			ok = d.releaseMain()
		case 's':
			ok = d.doShutdown()
		case 'a':
			ok = d.extClose(0)
		case 'b':
			ok = d.extClose(1)
		}
		if !ok {
			res = fmt.Sprintf("!stuck step %d (%c) after %s", i, sched[i], d.line())
		}
	}
	if res == "" {
		res = d.line()
	}
	if !d.cleanup() && !strings.HasPrefix(res, "!") {
		res = "!stuck cleanup: copyLoop did not return after shutdown; before: " + res
	}
	return res
}

func TestVerifCopyloopDriver(t *testing.T) {
	if os.Getenv("VERIF_DRIVER") != "copyloop" {
		t.Skip("driver mode only")
	}
	log.SetOutput(io.Discard)
	wire.Loop(verifCopyloopRun)
	os.Exit(0)
}
