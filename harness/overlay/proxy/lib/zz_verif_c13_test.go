//go:build verif

// In-package driver for C13 in proxy/lib.  Runs only when the compiled test binary is started with
// `-test.run ^TestVerifC13Driver$ -verif.c13`.
//
//   - remoteIPFromSDP with what the libraries really return at each partial operation (`peergparse`
//     phase 1, `peerg`; line protocol of coq/Run/SdpstripRun.v): the nil-ness of every media pointer,
//     the (c, err) pair of ice.UnmarshalCandidate, the length of every submatch slice;
//   - the callers that deserialise what a remote party sent, against a scripted broker / probe server
//     (`cparse` phase 1, `natprobe`, `polloffer`, `runsession`; line protocol of
//     coq/Run/SessdescRun.v).  The code under test runs on the driver goroutine of wire.Loop, which
//     turns a panic into the observable "!panic …"; a panic on another goroutine kills the binary and
//     is reported by the check as a driver crash at that case.
package snowflake_proxy

import (
	"encoding/hex"
	"flag"
	"io"
	"io/ioutil"
	"log"
	"net"
	"net/http"
	"net/http/httptest"
	"os"
	"reflect"
	"strconv"
	"strings"
	"sync"
	"testing"

	"git.torproject.org/pluggable-transports/snowflake.git/v2/common/event"
	"git.torproject.org/pluggable-transports/snowflake.git/v2/common/messages"
	"git.torproject.org/pluggable-transports/snowflake.git/v2/zz_verif/sessdesc/jvalue"
	"git.torproject.org/pluggable-transports/snowflake.git/v2/zz_verif/wire"
	"github.com/pion/ice/v2"
	"github.com/pion/sdp/v3"
	"github.com/pion/webrtc/v3"
)

var verifC13 = flag.Bool("verif.c13", false, "run the C13 line-protocol driver")

// ---------------------------------------------------------------- remoteIPFromSDP, fine grain

func c13Addr(s string) string {
	if ip := net.ParseIP(s); ip != nil {
		return hex.EncodeToString(ip)
	}
	return "n"
}

// c13PStruct: pstruct token = what pion/sdp and pion/ice hand to the function, pointer by pointer.
func c13PStruct(text []byte) string {
	var desc sdp.SessionDescription
	if err := desc.Unmarshal(text); err != nil {
		return "U"
	}
	if len(desc.MediaDescriptions) == 0 {
		return "none"
	}
	var ms []string
	for _, m := range desc.MediaDescriptions {
		if m == nil {
			ms = append(ms, "N")
			continue
		}
		var toks []string
		for _, a := range m.Attributes {
			if !a.IsICECandidate() {
				toks = append(toks, "o")
				continue
			}
			c, err := ice.UnmarshalCandidate(a.Value)
			e := "0"
			if err != nil {
				e = "1"
			}
			// nil interface, or (as pion/ice does on some error paths) a nil pointer inside the interface:
			// a method call panics on either
			if c == nil || (reflect.ValueOf(c).Kind() == reflect.Ptr && reflect.ValueOf(c).IsNil()) {
				toks = append(toks, "k"+e+".nil")
				continue
			}
			t := "?"
			switch c.Type() {
			case ice.CandidateTypeHost:
				t = "h"
			case ice.CandidateTypeServerReflexive:
				t = "s"
			case ice.CandidateTypePeerReflexive:
				t = "p"
			case ice.CandidateTypeRelay:
				t = "r"
			}
			toks = append(toks, "k"+e+"."+t+"."+c13Addr(c.Address()))
		}
		ms = append(ms, wire.PrintList(toks))
	}
	return strings.Join(ms, ";")
}

// c13PCaps: per pattern of the code, the submatch slice: n = nil, else m<len>.<ParseIP(m[1])>.
func c13PCaps(text string) string {
	var caps []string
	for _, p := range remoteIPPatterns {
		m := p.FindStringSubmatch(text)
		if m == nil {
			caps = append(caps, "n")
			continue
		}
		g1 := "n"
		if len(m) > 1 {
			g1 = c13Addr(m[1])
		}
		caps = append(caps, "m"+strconv.Itoa(len(m))+"."+g1)
	}
	return wire.PrintList(caps)
}

// ---------------------------------------------------------------- callers

// c13Server plays the broker (/proxy, /answer) and the NAT probe server (/probe).
type c13Server struct {
	mu     sync.Mutex
	polls  [][]byte // bodies still to be served to /proxy, in order
	probe  []byte
	fail   bool // answer /probe with status 500
	served int
	srv    *httptest.Server
}

func c13NewServer() *c13Server {
	s := &c13Server{}
	s.srv = httptest.NewServer(http.HandlerFunc(func(w http.ResponseWriter, r *http.Request) {
		ioutil.ReadAll(r.Body)
		s.mu.Lock()
		defer s.mu.Unlock()
		switch {
		case strings.HasSuffix(r.URL.Path, "/proxy"):
			if len(s.polls) == 0 {
				http.Error(w, "script exhausted", http.StatusServiceUnavailable)
				return
			}
			w.Write(s.polls[0])
			s.polls = s.polls[1:]
			s.served++
		case strings.HasSuffix(r.URL.Path, "/answer"):
			resp, _ := messages.EncodeAnswerResponse(false) // "client gone": runSession gives up at once
			w.Write(resp)
		case strings.HasSuffix(r.URL.Path, "/probe"):
			if s.fail {
				http.Error(w, "scripted failure", http.StatusInternalServerError)
				return
			}
			w.Write(s.probe)
		default:
			http.Error(w, "unexpected path", http.StatusNotFound)
		}
	}))
	return s
}

// c13PollTok: the presp token of one /proxy response body.
func c13PollTok(body []byte) string {
	offer, _, _, err := messages.DecodePollResponseWithRelayURL(body)
	if err != nil {
		return "b"
	}
	if offer == "" {
		return "n"
	}
	return "o" + jvalue.Value([]byte(offer))
}

// c13ProbeTok: the outer token of a /probe response body.
func c13ProbeTok(body []byte) string {
	answer, _, err := messages.DecodeAnswerRequest(body)
	if err != nil {
		return "e"
	}
	return "o" + jvalue.Value([]byte(answer))
}

func c13Bodies(tok string) ([][]byte, error) {
	if tok == "-" {
		return nil, nil
	}
	var out [][]byte
	for _, t := range strings.Split(tok, ";") {
		b, err := wire.Payload(t)
		if err != nil {
			return nil, err
		}
		out = append(out, b)
	}
	return out, nil
}

func c13Script(bodies [][]byte) string {
	if len(bodies) == 0 {
		return "-"
	}
	var toks []string
	for _, b := range bodies {
		toks = append(toks, c13PollTok(b))
	}
	return strings.Join(toks, ";")
}

func TestVerifC13Driver(t *testing.T) {
	if !*verifC13 {
		t.Skip("driver mode not requested")
	}
	log.SetOutput(io.Discard)
	srv := c13NewServer()
	defer srv.srv.Close()
	wire.Loop(func(a []string) string {
		switch a[0] {
		case "peerparse": // the coarse view of zz_verif_sessdesc_test.go, served from this driver too
			text, err := wire.Payload(a[1])
			if err != nil {
				return "!badcase"
			}
			return verifStructure(text) + " " + verifCaps(string(text))
		case "peer":
			text, err := wire.Payload(a[3])
			if err != nil {
				return "!badcase"
			}
			if st := verifStructure(text) + " " + verifCaps(string(text)); st != a[1]+" "+a[2] {
				return "!structure-mismatch " + st
			}
			ip := remoteIPFromSDP(string(text))
			if ip == nil {
				return "nil"
			}
			return "x" + hex.EncodeToString(ip)
		case "peergparse":
			text, err := wire.Payload(a[1])
			if err != nil {
				return "!badcase"
			}
			return c13PStruct(text) + " " + c13PCaps(string(text))
		case "peerg": // peerg <pstruct> <pcaps> x<text>
			text, err := wire.Payload(a[3])
			if err != nil {
				return "!badcase"
			}
			if st := c13PStruct(text) + " " + c13PCaps(string(text)); st != a[1]+" "+a[2] {
				return "!structure-mismatch " + st
			}
			ip := remoteIPFromSDP(string(text))
			if ip == nil {
				return "nil"
			}
			return "x" + hex.EncodeToString(ip)
		case "cparse": // cparse <natprobe|polloffer> <bodies>
			bodies, err := c13Bodies(a[2])
			if err != nil {
				return "!badcase"
			}
			switch a[1] {
			case "natprobe":
				if len(bodies) != 1 {
					return "!badcase"
				}
				return c13ProbeTok(bodies[0])
			case "polloffer":
				return c13Script(bodies)
			}
			return "!badcase"
		case "natprobe": // natprobe <p | e | o<v>> x<body>
			body, err := wire.Payload(a[2])
			if err != nil {
				return "!badcase"
			}
			if a[1] != "p" {
				if got := c13ProbeTok(body); got != a[1] {
					return "!outer-mismatch " + got
				}
			}
			srv.mu.Lock()
			srv.probe, srv.fail = body, a[1] == "p"
			srv.mu.Unlock()
			sf := &SnowflakeProxy{EventDispatcher: event.NewSnowflakeEventDispatcher()}
			sf.checkNATType(webrtc.Configuration{}, srv.srv.URL+"/probe")
			return "ret"
		case "polloffer", "runsession": // polloffer <script> <bodies> | runsession <script> <relay_ok> <bodies>
			bi := 2
			if a[0] == "runsession" {
				bi = 3
			}
			bodies, err := c13Bodies(a[bi])
			if err != nil {
				return "!badcase"
			}
			if got := c13Script(bodies); got != a[1] {
				return "!script-mismatch " + got
			}
			srv.mu.Lock()
			srv.polls, srv.served = bodies, 0
			srv.mu.Unlock()
			s, err := newSignalingServer(srv.srv.URL, false)
			if err != nil {
				return "!nochannel"
			}
			tokens = newTokens(0)
			shutdown := make(chan struct{})
			if len(bodies) == 0 {
				close(shutdown)
			}
			if a[0] == "polloffer" {
				offer, _ := s.pollOffer("c13sid", DefaultProxyType, "", shutdown)
				if offer == nil {
					return "nil"
				}
				return jvalue.Desc(offer)
			}
			broker = s
			config = webrtc.Configuration{}
			sf := &SnowflakeProxy{ProxyType: DefaultProxyType, EventDispatcher: event.NewSnowflakeEventDispatcher(), shutdown: shutdown}
			tokens.get()
			sf.runSession("c13sid")
			return "ret"
		}
		return "!badcase"
	})
	os.Exit(0)
}
