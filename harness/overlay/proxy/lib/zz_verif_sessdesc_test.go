//go:build verif

// In-package driver for remoteIPFromSDP (unexported).  Runs only when the compiled test binary is
// started with `-test.run ^TestVerifPeerDriver$ -verif.peer`; speaks the line protocol of
// coq/Run/SdpstripRun.v (`peer` op) on stdin/stdout.
package snowflake_proxy

import (
	"encoding/hex"
	"flag"
	"io"
	"log"
	"net"
	"os"
	"strconv"
	"strings"
	"testing"

	"git.torproject.org/pluggable-transports/snowflake.git/v2/zz_verif/wire"
	"github.com/pion/ice/v2"
	"github.com/pion/sdp/v3"
)

var verifPeer = flag.Bool("verif.peer", false, "run the remoteIPFromSDP line-protocol driver")

type verifKV struct{ k, v string }

// verifStructure: what pion/sdp, pion/ice and net.ParseIP make of the text (same token format as
// harness/overlay/zz_verif/sdpstrip/main.go).
func verifStructure(text []byte) string {
	var desc sdp.SessionDescription
	if err := desc.Unmarshal(text); err != nil {
		return "U"
	}
	if len(desc.MediaDescriptions) == 0 {
		return "none"
	}
	table := map[verifKV]int{}
	var ms []string
	for _, m := range desc.MediaDescriptions {
		var toks []string
		for _, a := range m.Attributes {
			id, ok := table[verifKV{a.Key, a.Value}]
			if !ok {
				id = len(table)
				table[verifKV{a.Key, a.Value}] = id
			}
			ids := strconv.Itoa(id)
			if a.Key != "candidate" {
				toks = append(toks, "o"+ids)
				continue
			}
			c, err := ice.UnmarshalCandidate(a.Value)
			if err != nil {
				toks = append(toks, "b"+ids)
				continue
			}
			t := "?"
			switch c.Type() {
			case ice.CandidateTypeHost:
				t = "h"
			case ice.CandidateTypeServerReflexive:
				t = "s"
			case ice.CandidateTypePeerReflexive:
				t = "p"
			case ice.CandidateTypeRelay:
				t = "r"
			}
			ad := "n"
			if ip := net.ParseIP(c.Address()); ip != nil {
				ad = hex.EncodeToString(ip)
			}
			toks = append(toks, "c"+ids+"."+t+"."+ad)
		}
		ms = append(ms, wire.PrintList(toks))
	}
	return strings.Join(ms, ";")
}

// verifCaps: what each of the code's regular expressions captures from the raw text, through net.ParseIP.
func verifCaps(text string) string {
	var caps []string
	for _, p := range remoteIPPatterns {
		m := p.FindStringSubmatch(text)
		c := "n"
		if m != nil {
			if ip := net.ParseIP(m[1]); ip != nil {
				c = "x" + hex.EncodeToString(ip)
			}
		}
		caps = append(caps, c)
	}
	return wire.PrintList(caps)
}

func TestVerifPeerDriver(t *testing.T) {
	if !*verifPeer {
		t.Skip("driver mode not requested")
	}
	log.SetOutput(io.Discard) // the function under test logs the raw (possibly non-UTF-8) input
	wire.Loop(func(a []string) string {
		switch a[0] {
		case "peerparse":
			text, err := wire.Payload(a[1])
			if err != nil {
				return "!badcase"
			}
			return verifStructure(text) + " " + verifCaps(string(text))
		case "peer":
			text, err := wire.Payload(a[3])
			if err != nil {
				return "!badcase"
			}
			if st := verifStructure(text) + " " + verifCaps(string(text)); st != a[1]+" "+a[2] {
				return "!structure-mismatch " + st
			}
			ip := remoteIPFromSDP(string(text))
			if ip == nil {
				return "nil"
			}
			return "x" + hex.EncodeToString(ip)
		}
		return "!badcase"
	})
	os.Exit(0)
}
