//go:build verif

// In-package driver for the proxy side of property C18: the client_ip a proxy puts on the relay URL
// (proxy/lib/snowflake.go datachannelHandler, proxy/lib/webrtcconn.go RemoteAddr).  Model: coq/Model/ProxyClientIP.v,
// adapter coq/Run/ClientidRun.v op relay.
//
//	clientid relay <mode> <default query> <session,session,...>
//	    mode     s = the clients are served one after the other | c = all at the same moment (the handlers are released
//	             together; repeated 20 times on the same proxy, every round must give the same answer)
//	    query    - | <k>=<v>+<k>=<v>..   the query of the proxy's configured relay URL (SnowflakeProxy.RelayURL)
//	    session  <relay>;<addr>   relay = d (the broker's poll response carried no relay URL) | u<id>[+<k>=<v>..]
//	                              addr  = n (the client's SDP has no remote address) | a<IP text>
//	    -> per session <relay id>|<client_ip values of the URL that was dialled, joined by +, or ->|<number of other
//	       parameters>  (mode c: sorted)
//
// ONE SnowflakeProxy lives through the whole line.  Every client is what OnDataChannel makes of it: a webRTCConn over a
// PeerConnection whose remote description is a real offer (made once by a pion client in this process) with the
// candidate lines replaced by the case's - a host candidate with the given address (after a private one, which
// RemoteAddr must skip), or private / loopback / unspecified / no candidates at all for a client without a remote
// address - and the handler is called as OnDataChannel calls it:
// dataChannelHandlerWithRelayURL{relayURL, sf}.datachannelHandler(conn, conn.RemoteAddr()).
// websocket.DefaultDialer is hooked (its Proxy callback): it records the URL about to be dialled and aborts the dial.
package snowflake_proxy

import (
	"errors"
	"io"
	"log"
	"net/http"
	"net/url"
	"os"
	"sort"
	"strconv"
	"strings"
	"sync"
	"testing"

	"git.torproject.org/pluggable-transports/snowflake.git/v2/common/event"
	"git.torproject.org/pluggable-transports/snowflake.git/v2/zz_verif/wire"
	"github.com/gorilla/websocket"
	"github.com/pion/webrtc/v3"
)

var (
	verifC18Lock  sync.Mutex
	verifC18Dials []string
	verifC18Offer string
)

func verifC18MakeOffer() string {
	pc, err := webrtc.NewPeerConnection(webrtc.Configuration{})
	if err != nil {
		panic(err)
	}
	defer pc.Close()
	if _, err = pc.CreateDataChannel("verif", nil); err != nil {
		panic(err)
	}
	offer, err := pc.CreateOffer(nil)
	if err != nil {
		panic(err)
	}
	return offer.SDP // no SetLocalDescription: no candidates gathered, the case supplies them
}

// the offer with the given candidate addresses (in order) and connection address
func verifC18SDP(cands []string, conn string) string {
	var out []string
	for _, l := range strings.Split(strings.ReplaceAll(verifC18Offer, "\r\n", "\n"), "\n") {
		switch {
		case l == "", strings.HasPrefix(l, "a=candidate:"), l == "a=end-of-candidates":
			continue
		case strings.HasPrefix(l, "c="):
			if strings.Contains(conn, ":") {
				l = "c=IN IP6 " + conn
			} else {
				l = "c=IN IP4 " + conn
			}
		}
		out = append(out, l)
	}
	for i, c := range cands {
		out = append(out, "a=candidate:"+strconv.Itoa(i+1)+" 1 udp "+strconv.Itoa(2130706431-i)+" "+c+" "+strconv.Itoa(5000+i)+" typ host")
	}
	return strings.Join(out, "\r\n") + "\r\n"
}

type verifC18Sess struct {
	relayID  string // "d" or "u<id>"
	relayURL string // what the poll response carried ("" for d)
	addr     string // "" = none
}

func verifC18Query(t string) (string, bool) {
	if t == "-" || t == "" {
		return "", true
	}
	v := []string{}
	for _, p := range strings.Split(t, "+") {
		kv := strings.SplitN(p, "=", 2)
		if len(kv) != 2 {
			return "", false
		}
		v = append(v, url.QueryEscape(kv[0])+"="+url.QueryEscape(kv[1]))
	}
	return "?" + strings.Join(v, "&"), true
}

func verifC18Conn(sf *SnowflakeProxy, k int, s verifC18Sess) (*webRTCConn, string) {
	pc, err := webrtc.NewPeerConnection(webrtc.Configuration{})
	if err != nil {
		return nil, "!pc:" + err.Error()
	}
	var cands []string
	conn := "0.0.0.0"
	if s.addr != "" {
		// a private candidate first (must be skipped), then the client's
		cands = []string{"192.168.7." + strconv.Itoa(1+k%200), s.addr}
		if k%3 == 1 {
			cands = []string{s.addr}
		}
	} else {
		switch k % 4 {
		case 0:
			cands = []string{"10.1.2.3", "192.168.0.9"}
		case 1:
			cands = []string{"127.0.0.1"}
		case 2:
			cands = nil
		case 3:
			cands = []string{"fd00::7", "0.0.0.0"}
			conn = "127.0.0.1"
		}
	}
	if err := pc.SetRemoteDescription(webrtc.SessionDescription{Type: webrtc.SDPTypeOffer, SDP: verifC18SDP(cands, conn)}); err != nil {
		pc.Close()
		return nil, "!sdp:" + err.Error()
	}
	pr, _ := io.Pipe()
	c := &webRTCConn{pc: pc, pr: pr, eventLogger: sf.EventDispatcher}
	c.bytesLogger = bytesNullLogger{}
	return c, ""
}

func verifC18Render(u *url.URL) string {
	q := u.Query()
	ips := q["client_ip"]
	others := 0
	for k, v := range q {
		if k != "client_ip" {
			others += len(v)
		}
	}
	ip := "-"
	if len(ips) > 0 {
		ip = strings.Join(ips, "+")
	}
	return strings.TrimPrefix(u.Path, "/") + "|" + ip + "|" + strconv.Itoa(others)
}

func verifC18Relay(args []string) string {
	mode := args[0]
	dq, ok := verifC18Query(args[1])
	if !ok || (mode != "s" && mode != "c") {
		return "!badcase"
	}
	var sess []verifC18Sess
	for _, t := range wire.List(args[2]) {
		f := strings.Split(t, ";")
		if len(f) != 2 {
			return "!badcase"
		}
		var s verifC18Sess
		rl := strings.SplitN(f[0], "+", 2)
		switch {
		case rl[0] == "d" && len(rl) == 1:
			s.relayID = "d"
		case strings.HasPrefix(rl[0], "u"):
			s.relayID = rl[0]
			q := ""
			if len(rl) == 2 {
				if q, ok = verifC18Query(rl[1]); !ok {
					return "!badcase"
				}
			}
			s.relayURL = "ws://relay-" + rl[0] + ".invalid/" + rl[0] + q
		default:
			return "!badcase"
		}
		switch {
		case f[1] == "n":
		case strings.HasPrefix(f[1], "a"):
			s.addr = f[1][1:]
		default:
			return "!badcase"
		}
		sess = append(sess, s)
	}
	sf := &SnowflakeProxy{
		RelayURL:        "ws://relay-d.invalid/d" + dq,
		EventDispatcher: event.NewSnowflakeEventDispatcher(),
		shutdown:        make(chan struct{}),
	}
	tokens = newTokens(0)
	serve := func(k int, s verifC18Sess, c *webRTCConn) {
		tokens.get()
		// what OnDataChannel does: go handler(conn, conn.RemoteAddr())
		h := dataChannelHandlerWithRelayURL{RelayURL: s.relayURL, sf: sf}
		h.datachannelHandler(c, c.RemoteAddr())
	}
	take := func() []string {
		verifC18Lock.Lock()
		defer verifC18Lock.Unlock()
		d := verifC18Dials
		verifC18Dials = nil
		return d
	}
	take()
	if mode == "s" {
		var out []string
		for k, s := range sess {
			c, e := verifC18Conn(sf, k, s)
			if e != "" {
				return e
			}
			serve(k, s, c)
			d := take()
			switch len(d) {
			case 0:
				out = append(out, "nodial")
			case 1:
				out = append(out, d[0])
			default:
				out = append(out, "!dials:"+strings.Join(d, "&"))
			}
		}
		return wire.PrintList(out)
	}
	first := ""
	for round := 0; round < 20; round++ {
		conns := make([]*webRTCConn, len(sess))
		for k, s := range sess {
			c, e := verifC18Conn(sf, k+round, s)
			if e != "" {
				return e
			}
			conns[k] = c
		}
		start := make(chan struct{})
		var wg sync.WaitGroup
		for k, s := range sess {
			wg.Add(1)
			go func(k int, s verifC18Sess) {
				defer wg.Done()
				<-start
				serve(k, s, conns[k])
			}(k, s)
		}
		close(start)
		wg.Wait()
		d := take()
		for len(d) < len(sess) {
			d = append(d, "nodial")
		}
		sort.Strings(d)
		r := wire.PrintList(d)
		if round == 0 {
			first = r
		} else if r != first {
			return r // a round that differs from the first: reported as the answer
		}
	}
	return first
}

func TestVerifC18RelayDriver(t *testing.T) {
	if os.Getenv("VERIF_DRIVER") != "c18relay" {
		t.Skip("driver mode only")
	}
	log.SetOutput(io.Discard)
	websocket.DefaultDialer.Proxy = func(req *http.Request) (*url.URL, error) {
		verifC18Lock.Lock()
		verifC18Dials = append(verifC18Dials, verifC18Render(req.URL))
		verifC18Lock.Unlock()
		return nil, errors.New("verif: dial suppressed")
	}
	// pion logs to whatever os.Stdout is when an API object is made: wire.Loop binds the real stdout first
	realStdout := os.Stdout
	os.Stdout = os.Stderr
	verifC18Offer = verifC18MakeOffer()
	os.Stdout = realStdout
	wire.Loop(func(args []string) string {
		os.Stdout = os.Stderr
		if len(args) == 4 && args[0] == "relay" {
			return verifC18Relay(args[1:])
		}
		return "!badcase"
	})
	os.Exit(0)
}
