//go:build verif

// In-package driver for property C06 (proxy side): the relay URL decision of
// SnowflakeProxy.runSession, and (op urlfull) the relay dial of datachannelHandler.
// A scripted broker is plugged in as the RoundTripper of the package's SignalingServer:
// it answers the poll with a real pion offer and the relay URL under test.
//
//   namematcher url     <pattern> <allow01> <raw> (E | P <scheme> <host>)
//       -> refuse | proceed          proceed = the session went on to POST /answer
//   namematcher urlfull <pattern> <allow01> <raw> (E | P <scheme> <host>)
//       -> refuse|proceed dial=<none | <http|https>,x<hostname hex>> parse=<E | P x<scheme> x<host>>
//       the offer comes from a live pion client in this process; the answer is applied, the
//       data channel opens and the proxy's datachannelHandler runs; websocket.DefaultDialer is
//       hooked (its Proxy callback) to record the URL about to be dialled and abort the dial.
//   namematcher urlseq     <pattern> <allow01> <offer,offer,...>   offer = <raw>;E | <raw>;P;<scheme>;<host>
//   namematcher urlseqfull <pattern> <allow01> <offer,offer,...>
//       a history: ONE SnowflakeProxy (and one SignalingServer, one token pool) lives through the whole
//       line and runs one session per offer, in order; each session is observed exactly as for url /
//       urlfull.  Result: the per-session results joined by "," (urlseq) or " | " (urlseqfull).
//   namematcher startcfg <stopper> <relay> <broker> <probe> <stun>
//       -> x<RelayURL> x<BrokerURL> x<NATProbeURL> x<STUNURL> x<ProxyType> as SnowflakeProxy.Start() leaves them
//   namematcher sess <stopper> <relay> <broker> <probe> <stun> <pattern> <allow01>
//                    <effective relay offer> <effective broker> <effective probe> <effective stun> <offer,offer,...>
//       ONE SnowflakeProxy configured by the operator strings (empty = not given) and put through the real
//       Start(): its defaulting and the construction of the package's SignalingServer run as in production; Start
//       is made to return right after that by an unparsable STUN URL (stopper s: the STUN string is "%zz") or by an
//       invalid pattern that is replaced afterwards (stopper p); "<stopper>-<type>" also sets ProxyType.  Then one session per offer, the data channel
//       opened and the dial observed as for urlfull.  offer = <raw>;E | <raw>;P;<scheme>;<host>;E |
//       <raw>;P;<scheme>;<host>;P;<scheme2>;<host2> (second parse: of the string printed from the first with
//       client_ip set; re-checked here).  Result per offer: refuse | dial:none | dial:<tls01>:x<host>.
// The parse components in the case line are produced by the same Go url.Parse (driver
// zz_verif/namematcher, op urlparse); this driver re-checks them ("parse=" / panic on mismatch).
package snowflake_proxy

import (
	"bytes"
	"errors"
	"io"
	"log"
	"net/http"
	"net/url"
	"os"
	"strings"
	"sync"
	"testing"
	"time"

	"git.torproject.org/pluggable-transports/snowflake.git/v2/common/event"
	"git.torproject.org/pluggable-transports/snowflake.git/v2/common/messages"
	"git.torproject.org/pluggable-transports/snowflake.git/v2/common/util"
	"git.torproject.org/pluggable-transports/snowflake.git/v2/zz_verif/wire"
	"github.com/gorilla/websocket"
	"github.com/pion/webrtc/v3"
)

const verifC06ConfiguredRelay = "wss://configured.relay.invalid/"

type verifC06Broker struct {
	lock     sync.Mutex
	pollResp []byte
	answered bool
	success  bool
	onAnswer func(answer string)
}

func verifC06Resp(body []byte) *http.Response {
	return &http.Response{StatusCode: http.StatusOK, Body: io.NopCloser(bytes.NewReader(body)), Header: make(http.Header)}
}

func (b *verifC06Broker) RoundTrip(req *http.Request) (*http.Response, error) {
	body, _ := io.ReadAll(req.Body)
	switch {
	case strings.HasSuffix(req.URL.Path, "/proxy"):
		return verifC06Resp(b.pollResp), nil
	case strings.HasSuffix(req.URL.Path, "/answer"):
		b.lock.Lock()
		b.answered = true
		b.lock.Unlock()
		answer, _, err := messages.DecodeAnswerRequest(body)
		if err == nil && b.onAnswer != nil {
			b.onAnswer(answer)
		}
		r, _ := messages.EncodeAnswerResponse(b.success)
		return verifC06Resp(r), nil
	}
	return nil, errors.New("verif: unexpected path " + req.URL.Path)
}

func verifC06Str(t string) string {
	b, err := wire.Payload(t)
	if err != nil {
		panic("bad payload " + t)
	}
	return string(b)
}

// a client-side peer connection with one data channel; returns the serialised offer
func verifC06ClientOffer() (*webrtc.PeerConnection, string) {
	pc, err := webrtc.NewPeerConnection(webrtc.Configuration{})
	if err != nil {
		panic(err)
	}
	if _, err = pc.CreateDataChannel("verif", nil); err != nil {
		panic(err)
	}
	offer, err := pc.CreateOffer(nil)
	if err != nil {
		panic(err)
	}
	done := webrtc.GatheringCompletePromise(pc)
	if err = pc.SetLocalDescription(offer); err != nil {
		panic(err)
	}
	<-done
	s, err := util.SerializeSessionDescription(pc.LocalDescription())
	if err != nil {
		panic(err)
	}
	return pc, s
}

var (
	verifC06SharedPC    *webrtc.PeerConnection
	verifC06SharedOffer string
	verifC06DialLock    sync.Mutex
	verifC06Dials       []string
)

func verifC06CheckParse(raw string, rest []string) string {
	u, err := url.Parse(raw)
	var got string
	if err != nil {
		got = "E"
	} else {
		got = "P x" + wire.Hex([]byte(u.Scheme)) + " x" + wire.Hex([]byte(u.Hostname()))
	}
	if got != strings.Join(rest, " ") {
		panic("url.Parse components in the case line are stale: " + got)
	}
	return got
}

// one proxy with its scripted broker: what a line (single-shot or history) works on
type verifC06Proxy struct {
	sf *SnowflakeProxy
	sb *verifC06Broker
}

func verifC06NewProxy(pattern string, allow bool) *verifC06Proxy {
	sf := &SnowflakeProxy{
		RelayURL:               verifC06ConfiguredRelay,
		RelayDomainNamePattern: pattern,
		AllowNonTLSRelay:       allow,
		ProxyType:              "standalone",
		EventDispatcher:        event.NewSnowflakeEventDispatcher(),
		shutdown:               make(chan struct{}),
	}
	tokens = newTokens(0)
	config = webrtc.Configuration{}
	bu, _ := url.Parse("http://broker.invalid/")
	sb := &verifC06Broker{}
	broker = &SignalingServer{url: bu, transport: sb, keepLocalAddresses: true}
	return &verifC06Proxy{sf: sf, sb: sb}
}

func verifC06URL(args []string, full bool) string {
	pattern, allow, raw := verifC06Str(args[1]), args[2] == "1", verifC06Str(args[3])
	p := verifC06NewProxy(pattern, allow)
	defer close(p.sf.shutdown)
	return p.session(raw, args[4:], full)
}

// a history of broker-supplied relay URLs on one long-lived proxy
func verifC06URLSeq(args []string, full bool) string {
	pattern, allow := verifC06Str(args[1]), args[2] == "1"
	p := verifC06NewProxy(pattern, allow)
	defer close(p.sf.shutdown)
	var out []string
	for _, offer := range wire.List(args[3]) {
		parts := strings.Split(offer, ";")
		if len(parts) != 2 && len(parts) != 4 {
			return "!badcase"
		}
		out = append(out, p.session(verifC06Str(parts[0]), parts[1:], full))
	}
	if full {
		return strings.Join(out, " | ")
	}
	return wire.PrintList(out)
}

// one session of the proxy: the broker answers the poll with the relay URL raw
func (p *verifC06Proxy) session(raw string, parseArgs []string, full bool) string {
	parse := verifC06CheckParse(raw, parseArgs)
	dec, dials, problem := p.observe(raw, full)
	if problem != "" {
		return problem
	}
	if !full {
		return dec
	}
	d := "none"
	if len(dials) > 0 {
		d = strings.Join(dials, ";")
	}
	return dec + " dial=" + d + " parse=" + strings.ReplaceAll(parse, " ", ",")
}

// -> refuse|proceed, the dials recorded at the websocket dialer (full only), or a problem
func (p *verifC06Proxy) observe(raw string, full bool) (string, []string, string) {
	sf, sb := p.sf, p.sb
	offer := verifC06SharedOffer
	var clientPC *webrtc.PeerConnection
	sb.lock.Lock()
	sb.answered = false
	sb.lock.Unlock()
	sb.success = false
	sb.onAnswer = nil
	if full {
		clientPC, offer = verifC06ClientOffer()
		defer clientPC.Close()
		sb.success = true
		sb.onAnswer = func(answer string) {
			sd, err := util.DeserializeSessionDescription(answer)
			if err != nil {
				panic(err)
			}
			if err := clientPC.SetRemoteDescription(*sd); err != nil {
				panic(err)
			}
		}
	}
	var err error
	sb.pollResp, err = messages.EncodePollResponseWithRelayURL(offer, true, "unknown", raw, "")
	if err != nil {
		panic(err)
	}
	verifC06DialLock.Lock()
	verifC06Dials = nil
	verifC06DialLock.Unlock()

	tokens.get() // as the main loop does before starting a session
	finished := make(chan struct{})
	go func() {
		sf.runSession("verif-sid")
		close(finished)
	}()
	select {
	case <-finished:
	case <-time.After(60 * time.Second):
		return "", nil, "runSession-stuck"
	}
	sb.lock.Lock()
	answered := sb.answered
	sb.lock.Unlock()
	dec := "refuse"
	if answered {
		dec = "proceed"
	}
	if !full {
		return dec, nil, ""
	}
	// wait until the session has given its token back (datachannelHandler returned, or the
	// session was refused / timed out)
	deadline := time.Now().Add(40 * time.Second)
	for tokens.count() != 0 && time.Now().Before(deadline) {
		time.Sleep(2 * time.Millisecond)
	}
	if tokens.count() != 0 {
		return "", nil, dec + " token-never-returned"
	}
	verifC06DialLock.Lock()
	dials := append([]string(nil), verifC06Dials...)
	verifC06DialLock.Unlock()
	return dec, dials, ""
}

// ---- a proxy configured through the real Start()

// what url.Parse makes of raw, and of the string printed from that parse with the client_ip query set
// (datachannelHandler: q.Set("client_ip", ...); u.RawQuery = q.Encode(); Dial(u.String()))
func verifC06Parse2(raw string) string {
	u, err := url.Parse(raw)
	if err != nil {
		return "E"
	}
	first := "P;x" + wire.Hex([]byte(u.Scheme)) + ";x" + wire.Hex([]byte(u.Hostname()))
	q := u.Query()
	q.Set("client_ip", "192.0.2.9")
	u.RawQuery = q.Encode()
	u2, err := url.Parse(u.String())
	if err != nil {
		return first + ";E"
	}
	return first + ";P;x" + wire.Hex([]byte(u2.Scheme)) + ";x" + wire.Hex([]byte(u2.Hostname()))
}

const verifC06BadURL = "%zz"

// Start() with the operator's strings; returns the proxy as Start() left it, or a problem
func verifC06Started(stopper, relay, brokerURL, probe, stun, pattern string, allow bool) (*verifC06Proxy, string) {
	sf := &SnowflakeProxy{
		RelayURL:               relay,
		BrokerURL:              brokerURL,
		NATProbeURL:            probe,
		STUNURL:                stun,
		RelayDomainNamePattern: pattern,
		AllowNonTLSRelay:       allow,
		KeepLocalAddresses:     true,
	}
	if i := strings.Index(stopper, "-"); i >= 0 {
		sf.ProxyType = stopper[i+1:]
		stopper = stopper[:i]
	}
	switch stopper {
	case "s":
		sf.STUNURL = verifC06BadURL
	case "p":
		sf.RelayDomainNamePattern = "" // not a valid rule: Start() stops at its IsValidRule test
	default:
		return nil, "!badcase"
	}
	broker = nil
	res := make(chan error, 1)
	go func() { res <- sf.Start() }()
	select {
	case err := <-res:
		if err == nil {
			return nil, "start-returned-no-error"
		}
	case <-time.After(30 * time.Second):
		sf.Stop()
		return nil, "start-did-not-return"
	}
	if broker == nil {
		return nil, "start-made-no-signaling-server"
	}
	sf.RelayDomainNamePattern = pattern
	tokens = newTokens(0)
	config = webrtc.Configuration{}
	sb := &verifC06Broker{}
	broker.transport = sb
	return &verifC06Proxy{sf: sf, sb: sb}, ""
}

func verifC06StartCfg(args []string) string {
	p, problem := verifC06Started(args[1], verifC06Str(args[2]), verifC06Str(args[3]), verifC06Str(args[4]), verifC06Str(args[5]), "$", false)
	if problem != "" {
		return problem
	}
	defer close(p.sf.shutdown)
	x := func(s string) string { return "x" + wire.Hex([]byte(s)) }
	return x(p.sf.RelayURL) + " " + x(p.sf.BrokerURL) + " " + x(p.sf.NATProbeURL) + " " + x(p.sf.STUNURL) + " " + x(p.sf.ProxyType)
}

func verifC06Sess(args []string) string {
	p, problem := verifC06Started(args[1], verifC06Str(args[2]), verifC06Str(args[3]), verifC06Str(args[4]), verifC06Str(args[5]),
		verifC06Str(args[6]), args[7] == "1")
	if problem != "" {
		return problem
	}
	defer close(p.sf.shutdown)
	// the configuration the model was given must be the one Start() produced
	eff := strings.SplitN(args[8], ";", 2)
	if len(eff) != 2 || p.sf.RelayURL != verifC06Str(eff[0]) || verifC06Parse2(p.sf.RelayURL) != eff[1] ||
		p.sf.BrokerURL != verifC06Str(args[9]) || p.sf.NATProbeURL != verifC06Str(args[10]) || p.sf.STUNURL != verifC06Str(args[11]) {
		return "!stale-config"
	}
	var out []string
	for _, offer := range wire.List(args[12]) {
		parts := strings.SplitN(offer, ";", 2)
		if len(parts) != 2 {
			return "!badcase"
		}
		raw := verifC06Str(parts[0])
		if got := verifC06Parse2(raw); got != parts[1] {
			panic("url.Parse components in the case line are stale: " + got)
		}
		dec, dials, problem := p.observe(raw, true)
		switch {
		case problem != "":
			out = append(out, strings.ReplaceAll(problem, " ", "_"))
		case len(dials) > 1:
			out = append(out, dec+"+several-dials")
		case len(dials) == 1:
			d := strings.SplitN(dials[0], ",", 2)
			tls := map[string]string{"https": "1", "http": "0"}[d[0]]
			if tls == "" || dec != "proceed" {
				out = append(out, dec+"+dial:"+d[0]+":"+d[1])
			} else {
				out = append(out, "dial:"+tls+":"+d[1])
			}
		case dec == "proceed":
			out = append(out, "dial:none")
		default:
			out = append(out, "refuse")
		}
	}
	return wire.PrintList(out)
}

func TestVerifDriverC06(t *testing.T) {
	if os.Getenv("VERIF_DRIVER") != "1" {
		t.Skip("driver mode only")
	}
	log.SetOutput(io.Discard)
	// record what the websocket dialer is about to connect to, and stop it there
	websocket.DefaultDialer.Proxy = func(req *http.Request) (*url.URL, error) {
		verifC06DialLock.Lock()
		verifC06Dials = append(verifC06Dials, req.URL.Scheme+",x"+wire.Hex([]byte(req.URL.Hostname())))
		verifC06DialLock.Unlock()
		return nil, errors.New("verif: dial suppressed")
	}
	// pion's default logger writes to whatever os.Stdout is when a PeerConnection API is created;
	// keep the result stream clean: wire.Loop binds the real stdout first, then the variable is
	// pointed at stderr for everybody else.
	realStdout := os.Stdout
	os.Stdout = os.Stderr
	verifC06SharedPC, verifC06SharedOffer = verifC06ClientOffer()
	os.Stdout = realStdout
	wire.Loop(func(args []string) string {
		os.Stdout = os.Stderr
		if len(args) >= 5 && (args[0] == "url" || args[0] == "urlfull") {
			return verifC06URL(args, args[0] == "urlfull")
		}
		if len(args) == 6 && args[0] == "startcfg" {
			return verifC06StartCfg(args)
		}
		if len(args) == 13 && args[0] == "sess" {
			return verifC06Sess(args)
		}
		if len(args) == 4 && (args[0] == "urlseq" || args[0] == "urlseqfull") {
			return verifC06URLSeq(args, args[0] == "urlseqfull")
		}
		return "!badcase"
	})
	os.Exit(0)
}
