//go:build verif

// In-package driver for property C06 (proxy side): the relay URL decision of
// SnowflakeProxy.runSession, and (op urlfull) the relay dial of datachannelHandler.
// A scripted broker is plugged in as the RoundTripper of the package's SignalingServer:
// it answers the poll with a real pion offer and the relay URL under test.
//
//   namematcher url     <pattern> <allow01> <raw> (E | P <scheme> <host>)
//       -> refuse | proceed          proceed = the session went on to POST /answer
//   namematcher urlfull <pattern> <allow01> <raw> (E | P <scheme> <host>)
//       -> refuse|proceed dial=<none | <http|https>,x<hostname hex>> parse=<E | P x<scheme> x<host>>
//       the offer comes from a live pion client in this process; the answer is applied, the
//       data channel opens and the proxy's datachannelHandler runs; websocket.DefaultDialer is
//       hooked (its Proxy callback) to record the URL about to be dialled and abort the dial.
//   namematcher urlseq     <pattern> <allow01> <offer,offer,...>   offer = <raw>;E | <raw>;P;<scheme>;<host>
//   namematcher urlseqfull <pattern> <allow01> <offer,offer,...>
//       a history: ONE SnowflakeProxy (and one SignalingServer, one token pool) lives through the whole
//       line and runs one session per offer, in order; each session is observed exactly as for url /
//       urlfull.  Result: the per-session results joined by "," (urlseq) or " | " (urlseqfull).
// The parse components in the case line are produced by the same Go url.Parse (driver
// zz_verif/namematcher, op urlparse); this driver re-checks them ("parse=" / panic on mismatch).
package snowflake_proxy

import (
	"bytes"
	"errors"
	"io"
	"log"
	"net/http"
	"net/url"
	"os"
	"strings"
	"sync"
	"testing"
	"time"

	"git.torproject.org/pluggable-transports/snowflake.git/v2/common/event"
	"git.torproject.org/pluggable-transports/snowflake.git/v2/common/messages"
	"git.torproject.org/pluggable-transports/snowflake.git/v2/common/util"
	"git.torproject.org/pluggable-transports/snowflake.git/v2/zz_verif/wire"
	"github.com/gorilla/websocket"
	"github.com/pion/webrtc/v3"
)

const verifC06ConfiguredRelay = "wss://configured.relay.invalid/"

type verifC06Broker struct {
	lock     sync.Mutex
	pollResp []byte
	answered bool
	success  bool
	onAnswer func(answer string)
}

func verifC06Resp(body []byte) *http.Response {
	return &http.Response{StatusCode: http.StatusOK, Body: io.NopCloser(bytes.NewReader(body)), Header: make(http.Header)}
}

func (b *verifC06Broker) RoundTrip(req *http.Request) (*http.Response, error) {
	body, _ := io.ReadAll(req.Body)
	switch {
	case strings.HasSuffix(req.URL.Path, "/proxy"):
		return verifC06Resp(b.pollResp), nil
	case strings.HasSuffix(req.URL.Path, "/answer"):
		b.lock.Lock()
		b.answered = true
		b.lock.Unlock()
		answer, _, err := messages.DecodeAnswerRequest(body)
		if err == nil && b.onAnswer != nil {
			b.onAnswer(answer)
		}
		r, _ := messages.EncodeAnswerResponse(b.success)
		return verifC06Resp(r), nil
	}
	return nil, errors.New("verif: unexpected path " + req.URL.Path)
}

func verifC06Str(t string) string {
	b, err := wire.Payload(t)
	if err != nil {
		panic("bad payload " + t)
	}
	return string(b)
}

// a client-side peer connection with one data channel; returns the serialised offer
func verifC06ClientOffer() (*webrtc.PeerConnection, string) {
	pc, err := webrtc.NewPeerConnection(webrtc.Configuration{})
	if err != nil {
		panic(err)
	}
	if _, err = pc.CreateDataChannel("verif", nil); err != nil {
		panic(err)
	}
	offer, err := pc.CreateOffer(nil)
	if err != nil {
		panic(err)
	}
	done := webrtc.GatheringCompletePromise(pc)
	if err = pc.SetLocalDescription(offer); err != nil {
		panic(err)
	}
	<-done
	s, err := util.SerializeSessionDescription(pc.LocalDescription())
	if err != nil {
		panic(err)
	}
	return pc, s
}

var (
	verifC06SharedPC    *webrtc.PeerConnection
	verifC06SharedOffer string
	verifC06DialLock    sync.Mutex
	verifC06Dials       []string
)

func verifC06CheckParse(raw string, rest []string) string {
	u, err := url.Parse(raw)
	var got string
	if err != nil {
		got = "E"
	} else {
		got = "P x" + wire.Hex([]byte(u.Scheme)) + " x" + wire.Hex([]byte(u.Hostname()))
	}
	if got != strings.Join(rest, " ") {
		panic("url.Parse components in the case line are stale: " + got)
	}
	return got
}

// one proxy with its scripted broker: what a line (single-shot or history) works on
type verifC06Proxy struct {
	sf *SnowflakeProxy
	sb *verifC06Broker
}

func verifC06NewProxy(pattern string, allow bool) *verifC06Proxy {
	sf := &SnowflakeProxy{
		RelayURL:               verifC06ConfiguredRelay,
		RelayDomainNamePattern: pattern,
		AllowNonTLSRelay:       allow,
		ProxyType:              "standalone",
		EventDispatcher:        event.NewSnowflakeEventDispatcher(),
		shutdown:               make(chan struct{}),
	}
	tokens = newTokens(0)
	config = webrtc.Configuration{}
	bu, _ := url.Parse("http://broker.invalid/")
	sb := &verifC06Broker{}
	broker = &SignalingServer{url: bu, transport: sb, keepLocalAddresses: true}
	return &verifC06Proxy{sf: sf, sb: sb}
}

func verifC06URL(args []string, full bool) string {
	pattern, allow, raw := verifC06Str(args[1]), args[2] == "1", verifC06Str(args[3])
	p := verifC06NewProxy(pattern, allow)
	defer close(p.sf.shutdown)
	return p.session(raw, args[4:], full)
}

// a history of broker-supplied relay URLs on one long-lived proxy
func verifC06URLSeq(args []string, full bool) string {
	pattern, allow := verifC06Str(args[1]), args[2] == "1"
	p := verifC06NewProxy(pattern, allow)
	defer close(p.sf.shutdown)
	var out []string
	for _, offer := range wire.List(args[3]) {
		parts := strings.Split(offer, ";")
		if len(parts) != 2 && len(parts) != 4 {
			return "!badcase"
		}
		out = append(out, p.session(verifC06Str(parts[0]), parts[1:], full))
	}
	if full {
		return strings.Join(out, " | ")
	}
	return wire.PrintList(out)
}

// one session of the proxy: the broker answers the poll with the relay URL raw
func (p *verifC06Proxy) session(raw string, parseArgs []string, full bool) string {
	sf, sb := p.sf, p.sb
	parse := verifC06CheckParse(raw, parseArgs)
	offer := verifC06SharedOffer
	var clientPC *webrtc.PeerConnection
	sb.lock.Lock()
	sb.answered = false
	sb.lock.Unlock()
	sb.success = false
	sb.onAnswer = nil
	if full {
		clientPC, offer = verifC06ClientOffer()
		defer clientPC.Close()
		sb.success = true
		sb.onAnswer = func(answer string) {
			sd, err := util.DeserializeSessionDescription(answer)
			if err != nil {
				panic(err)
			}
			if err := clientPC.SetRemoteDescription(*sd); err != nil {
				panic(err)
			}
		}
	}
	var err error
	sb.pollResp, err = messages.EncodePollResponseWithRelayURL(offer, true, "unknown", raw, "")
	if err != nil {
		panic(err)
	}
	verifC06DialLock.Lock()
	verifC06Dials = nil
	verifC06DialLock.Unlock()

	tokens.get() // as the main loop does before starting a session
	finished := make(chan struct{})
	go func() {
		sf.runSession("verif-sid")
		close(finished)
	}()
	select {
	case <-finished:
	case <-time.After(60 * time.Second):
		return "runSession-stuck"
	}
	sb.lock.Lock()
	answered := sb.answered
	sb.lock.Unlock()
	dec := "refuse"
	if answered {
		dec = "proceed"
	}
	if !full {
		return dec
	}
	// wait until the session has given its token back (datachannelHandler returned, or the
	// session was refused / timed out)
	deadline := time.Now().Add(40 * time.Second)
	for tokens.count() != 0 && time.Now().Before(deadline) {
		time.Sleep(2 * time.Millisecond)
	}
	if tokens.count() != 0 {
		return dec + " token-never-returned"
	}
	verifC06DialLock.Lock()
	dials := append([]string(nil), verifC06Dials...)
	verifC06DialLock.Unlock()
	d := "none"
	if len(dials) > 0 {
		d = strings.Join(dials, ";")
	}
	return dec + " dial=" + d + " parse=" + strings.ReplaceAll(parse, " ", ",")
}

func TestVerifDriverC06(t *testing.T) {
	if os.Getenv("VERIF_DRIVER") != "1" {
		t.Skip("driver mode only")
	}
	log.SetOutput(io.Discard)
	// record what the websocket dialer is about to connect to, and stop it there
	websocket.DefaultDialer.Proxy = func(req *http.Request) (*url.URL, error) {
		verifC06DialLock.Lock()
		verifC06Dials = append(verifC06Dials, req.URL.Scheme+",x"+wire.Hex([]byte(req.URL.Hostname())))
		verifC06DialLock.Unlock()
		return nil, errors.New("verif: dial suppressed")
	}
	// pion's default logger writes to whatever os.Stdout is when a PeerConnection API is created;
	// keep the result stream clean: wire.Loop binds the real stdout first, then the variable is
	// pointed at stderr for everybody else.
	realStdout := os.Stdout
	os.Stdout = os.Stderr
	verifC06SharedPC, verifC06SharedOffer = verifC06ClientOffer()
	os.Stdout = realStdout
	wire.Loop(func(args []string) string {
		os.Stdout = os.Stderr
		if len(args) >= 5 && (args[0] == "url" || args[0] == "urlfull") {
			return verifC06URL(args, args[0] == "urlfull")
		}
		if len(args) == 4 && (args[0] == "urlseq" || args[0] == "urlseqfull") {
			return verifC06URLSeq(args, args[0] == "urlseqfull")
		}
		return "!badcase"
	})
	os.Exit(0)
}
