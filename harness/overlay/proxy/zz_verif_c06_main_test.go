//go:build verif

package main

// C06: the flag -> configuration wiring of the proxy binary, on the real main().
//
// One process per command line (main() registers its flags on flag.CommandLine, and proxy/lib keeps the broker, the
// token pool and the WebRTC configuration in package variables).  The test starts an HTTP stub broker on the loopback
// interface, runs main() in-process with the command line of the case plus "-broker <stub>", and answers the k-th
// poll with a client match whose relay URL is the k-th offer of the case.  Every answer the proxy sends is refused
// ("client gone"), so that an accepted session ends at once.  A session counts as accepted ("proceed") when the proxy
// POSTs an answer before its next poll, as refused when the next poll comes first.  The pattern the proxy announces is
// read from the body of its first poll.
//
// Environment: VERIF_C06_MAIN = JSON {"args": [...], "broker_path": "/x/", "offers": ["wss://..", ...], "deadline_s": n}
// Output on stdout:  @@c06main pattern=x<hex> path=x<hex> res=<proceed|refuse>,...      (anything else is the binary's own)
//                    @@c06main !<what went wrong in the harness>
// A configuration error makes main() end the process in log.Fatal (exit status 1, no @@c06main line).

import (
	"encoding/hex"
	"encoding/json"
	"fmt"
	"io"
	"net"
	"net/http"
	"os"
	"strings"
	"sync"
	"testing"
	"time"
)

const verifC06MainSDP = "v=0\r\no=- 4358805017720277108 2 IN IP4 8.8.8.8\r\ns=-\r\nt=0 0\r\na=group:BUNDLE data\r\na=msid-semantic: WMS\r\nm=application 56688 DTLS/SCTP 5000\r\nc=IN IP4 8.8.8.8\r\na=candidate:3769337065 1 udp 2122260223 8.8.8.8 56688 typ host generation 0 network-id 1 network-cost 50\r\na=ice-ufrag:aMAZ\r\na=ice-pwd:jcHb08Jjgrazp2dzjdrvPPvV\r\na=ice-options:trickle\r\na=fingerprint:sha-256 C8:88:EE:B9:E7:02:2E:21:37:ED:7A:D1:EB:2B:A3:15:A2:3B:5B:1C:3D:D4:D5:1F:06:CF:52:40:03:F8:DD:66\r\na=setup:actpass\r\na=mid:data\r\na=sctpmap:5000 webrtc-datachannel 1024\r\n"

type verifC06MainCase struct {
	Args       []string `json:"args"`
	BrokerPath string   `json:"broker_path"`
	Offers     []string `json:"offers"`
	DeadlineS  int      `json:"deadline_s"`
}

type verifC06MainStub struct {
	sync.Mutex
	c       verifC06MainCase
	events  []string // "poll" / "answer", in arrival order
	sids    []string             // session id of the k-th poll
	offered []time.Time          // when the k-th poll was handed its offer
	answers map[string]time.Time // session ids for which an answer was POSTed
	polls   int
	pattern string
	hasPat  bool
	path    string
	changed chan struct{}
}

func (s *verifC06MainStub) ServeHTTP(w http.ResponseWriter, r *http.Request) {
	body, _ := io.ReadAll(r.Body)
	s.Lock()
	defer s.Unlock()
	defer func() {
		select {
		case s.changed <- struct{}{}:
		default:
		}
	}()
	switch {
	case strings.HasSuffix(r.URL.Path, "proxy"):
		k := s.polls
		s.polls++
		s.events = append(s.events, "poll")
		{
			var m map[string]interface{}
			sid := ""
			if json.Unmarshal(body, &m) == nil {
				sid, _ = m["Sid"].(string)
			}
			s.sids = append(s.sids, sid)
			s.offered = append(s.offered, time.Now())
		}
		if k == 0 {
			var m map[string]interface{}
			if json.Unmarshal(body, &m) == nil {
				if p, ok := m["AcceptedRelayPattern"].(string); ok {
					s.pattern, s.hasPat = p, true
				}
			}
			s.path = r.URL.Path
		}
		if k < len(s.c.Offers) {
			offer, _ := json.Marshal(map[string]string{"type": "offer", "sdp": verifC06MainSDP})
			resp, _ := json.Marshal(map[string]string{"Status": "client match", "Offer": string(offer), "NAT": "unknown", "RelayURL": s.c.Offers[k]})
			w.Write(resp)
			return
		}
		w.Write([]byte(`{"Status":"no match"}`))
	case strings.HasSuffix(r.URL.Path, "answer"):
		s.events = append(s.events, "answer")
		{
			var m map[string]interface{}
			if json.Unmarshal(body, &m) == nil {
				if sid, ok := m["Sid"].(string); ok {
					if s.answers == nil {
						s.answers = map[string]time.Time{}
					}
					s.answers[sid] = time.Now()
				}
			}
		}
		w.Write([]byte(`{"Status":"client gone"}`))
	default:
		s.events = append(s.events, "other:"+r.URL.Path)
		w.WriteHeader(http.StatusNotFound)
	}
}

// verifC06MainGrace is how long a session may take to POST its answer before it counts as refused. A session is
// identified by the session id the proxy put into its poll and repeats in its answer, so an answer that arrives after
// the proxy's next poll (a busy machine) still counts for the right session.
const verifC06MainGrace = 25 * time.Second

// results of the sessions decided so far, and whether all of them are
func (s *verifC06MainStub) results() ([]string, bool) {
	s.Lock()
	defer s.Unlock()
	var res []string
	for k := 0; k < len(s.c.Offers) && k < len(s.sids); k++ {
		if _, ok := s.answers[s.sids[k]]; ok && s.sids[k] != "" {
			res = append(res, "proceed")
			continue
		}
		if time.Since(s.offered[k]) < verifC06MainGrace {
			return res, false // the session of this poll is still undecided
		}
		res = append(res, "refuse")
	}
	return res, len(res) == len(s.c.Offers) && s.polls > 0 // (no offers: the first poll shows that main() got as far as polling)
}

func TestVerifC06Main(t *testing.T) {
	spec := os.Getenv("VERIF_C06_MAIN")
	if spec == "" {
		t.Skip("driven by lib/checks/c06.py")
	}
	out := os.Stdout
	fail := func(msg string) {
		fmt.Fprintf(out, "\n@@c06main !%s\n", strings.ReplaceAll(msg, "\n", " "))
		os.Exit(0)
	}
	stub := &verifC06MainStub{changed: make(chan struct{}, 1)}
	if err := json.Unmarshal([]byte(spec), &stub.c); err != nil {
		fail("bad VERIF_C06_MAIN: " + err.Error())
	}
	ln, err := net.Listen("tcp", "127.0.0.1:0")
	if err != nil {
		fail(err.Error())
	}
	go http.Serve(ln, stub)
	os.Args = append([]string{"proxy"}, stub.c.Args...)
	os.Args = append(os.Args, "-broker", "http://"+ln.Addr().String()+stub.c.BrokerPath)
	go main() // returns only through log.Fatal
	deadline := time.After(time.Duration(stub.c.DeadlineS) * time.Second)
	for {
		res, done := stub.results()
		if done {
			stub.Lock()
			pat := "n"
			if stub.hasPat {
				pat = "x" + hex.EncodeToString([]byte(stub.pattern))
			}
			path := "x" + hex.EncodeToString([]byte(stub.path))
			stub.Unlock()
			fmt.Fprintf(out, "\n@@c06main pattern=%s path=%s res=%s\n", pat, path, strings.Join(res, ","))
			os.Exit(0)
		}
		select {
		case <-stub.changed:
		case <-time.After(200 * time.Millisecond):
		case <-deadline:
			stub.Lock()
			ev := strings.Join(stub.events, ",")
			stub.Unlock()
			fail(fmt.Sprintf("timeout after %d s: %d of %d sessions decided, events %s", stub.c.DeadlineS, len(res), len(stub.c.Offers), ev))
		}
	}
}
