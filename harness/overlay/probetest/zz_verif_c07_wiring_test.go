//go:build verif

package main

import (
	"os"
	"testing"

	"git.torproject.org/pluggable-transports/snowflake.git/v2/zz_verif/wiring"
)

// C07: the real main() up to its log wiring (see zz_verif/wiring).
func TestVerifC07Wiring(t *testing.T) {
	if os.Getenv("VERIF_WIRING_ARGS") == "" {
		t.Skip("driven by lib/checks/c07.py")
	}
	wiring.Run(main)
}
