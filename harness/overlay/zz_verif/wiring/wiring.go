//go:build verif

// Package wiring runs the real main() of one of the snowflake binaries inside a test binary up to the point
// where it has configured the standard logger, then writes probe lines containing addresses through the
// standard logger and reports what every sink (the process's stderr, the -log file) received.  Used by C07
// (lib/checks/c07.py: every log sink sits behind the LogScrubber unless -unsafe-logging).
//
// Environment:  VERIF_WIRING_ARGS  JSON array: the command line of the binary
//
//	VERIF_WIRING_LOG   path of the file given to -log ("" = none); read back after the probes
//	VERIF_WIRING_PROBES JSON array of the probe lines
//
// Output on the real stdout:  @@wiring stderr=<hex> logfile=<hex|->  (anything else on stdout is the binary's own)
package wiring

import (
	"encoding/hex"
	"encoding/json"
	"fmt"
	"log"
	"os"
	"path/filepath"
	"time"
)

func hexOrDash(b []byte) string {
	if len(b) == 0 {
		return "-"
	}
	return hex.EncodeToString(b)
}

// Run never returns: it exits the process once the sinks have been read.
func Run(mainFn func()) {
	out := os.Stdout
	fail := func(msg string) {
		fmt.Fprintf(out, "@@wiring error=%s\n", hex.EncodeToString([]byte(msg)))
		os.Exit(0)
	}
	var args, probes []string
	if err := json.Unmarshal([]byte(os.Getenv("VERIF_WIRING_ARGS")), &args); err != nil {
		fail("bad VERIF_WIRING_ARGS")
	}
	if err := json.Unmarshal([]byte(os.Getenv("VERIF_WIRING_PROBES")), &probes); err != nil {
		fail("bad VERIF_WIRING_PROBES")
	}
	dir, err := os.MkdirTemp("", "verif-wiring")
	if err != nil {
		fail(err.Error())
	}
	errPath := filepath.Join(dir, "stderr")
	errFile, err := os.Create(errPath)
	if err != nil {
		fail(err.Error())
	}
	os.Stderr = errFile // main() reads os.Stderr when it builds its log output
	os.Args = append([]string{"verif-wiring"}, args...)
	before := log.Writer()
	go mainFn()
	deadline := time.Now().Add(60 * time.Second)
	for log.Writer() == before {
		if time.Now().After(deadline) {
			fail("main() did not configure the standard logger within 60 s")
		}
		time.Sleep(time.Millisecond)
	}
	for _, p := range probes {
		log.Print(p)
	}
	errFile.Sync()
	se, _ := os.ReadFile(errPath)
	var lf []byte
	if p := os.Getenv("VERIF_WIRING_LOG"); p != "" {
		lf, _ = os.ReadFile(p)
	}
	fmt.Fprintf(out, "\n@@wiring stderr=%s logfile=%s\n", hexOrDash(se), hexOrDash(lf))
	os.RemoveAll(dir)
	os.Exit(0)
}
