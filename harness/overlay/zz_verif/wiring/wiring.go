//go:build verif

// Package wiring runs the real main() of one of the snowflake binaries inside a test binary up to the point
// where it has configured the standard logger, then writes probe lines containing addresses through the
// standard logger and reports what every sink (the process's stderr and stdout, the -log file) received.  Used by C07
// (lib/checks/c07.py: every log sink sits behind the LogScrubber unless -unsafe-logging).
//
// Log sinks other than the standard logger: a main that serves HTTP with an http.Server of its own on
// http.DefaultServeMux (broker, probetest) is run until it listens; the helper has registered a handler on the
// default mux that (a) looks at the *http.Server the request arrived on (http.ServerContextKey) and, when it has an
// ErrorLog of its own, prints the probe lines through it, and (b) panics with an address-bearing value, so that
// net/http itself writes "http: panic serving <peer>: <value>" to the server's error log.  With a certificate
// (VERIF_WIRING_HTTP=tls) plain HTTP is also spoken to the TLS port three times: net/http writes
// "http: TLS handshake error from <peer>: ...".  The peers' addresses are reported so that the check can look for them.
//
// Environment:  VERIF_WIRING_ARGS  JSON array: the command line of the binary
//
//	VERIF_WIRING_LOG   path of the file given to -log ("" = none); read back after the probes
//	VERIF_WIRING_PROBES JSON array of the probe lines
//	VERIF_WIRING_HTTP  "" | "plain" | "tls": the argument "127.0.0.1:0" is replaced by a free port; for "tls" the
//	                   argument "-disable-tls" is replaced by "-cert <file> -key <file>" (self-signed, made here)
//	VERIF_WIRING_PANIC the value the handler panics with
//
// Output on the real stdout:
//
//	@@wiring stderr=<hex> stdout=<hex> logfile=<hex|-> peers=<addr,addr,..|-> errorlog=<nil|set|unknown>
//
// (anything else on stdout is the binary's own)
package wiring

import (
	"bytes"
	"crypto/ecdsa"
	"crypto/elliptic"
	"crypto/rand"
	"crypto/tls"
	"crypto/x509"
	"crypto/x509/pkix"
	"encoding/hex"
	"encoding/json"
	"encoding/pem"
	"fmt"
	"io"
	"log"
	"math/big"
	"net"
	"net/http"
	"os"
	"path/filepath"
	"strings"
	"sync"
	"time"
)

func hexOrDash(b []byte) string {
	if len(b) == 0 {
		return "-"
	}
	return hex.EncodeToString(b)
}

func selfSigned(dir string) (string, string, error) {
	key, err := ecdsa.GenerateKey(elliptic.P256(), rand.Reader)
	if err != nil {
		return "", "", err
	}
	tmpl := &x509.Certificate{
		SerialNumber: big.NewInt(1),
		Subject:      pkix.Name{CommonName: "wiring.test"},
		NotBefore:    time.Now().Add(-time.Hour),
		NotAfter:     time.Now().Add(24 * time.Hour),
		DNSNames:     []string{"wiring.test"},
	}
	der, err := x509.CreateCertificate(rand.Reader, tmpl, tmpl, &key.PublicKey, key)
	if err != nil {
		return "", "", err
	}
	keyDER, err := x509.MarshalECPrivateKey(key)
	if err != nil {
		return "", "", err
	}
	cf, kf := filepath.Join(dir, "cert.pem"), filepath.Join(dir, "key.pem")
	if err := os.WriteFile(cf, pem.EncodeToMemory(&pem.Block{Type: "CERTIFICATE", Bytes: der}), 0600); err != nil {
		return "", "", err
	}
	if err := os.WriteFile(kf, pem.EncodeToMemory(&pem.Block{Type: "EC PRIVATE KEY", Bytes: keyDER}), 0600); err != nil {
		return "", "", err
	}
	return cf, kf, nil
}

// Run never returns: it exits the process once the sinks have been read.
func Run(mainFn func()) {
	out := os.Stdout
	fail := func(msg string) {
		fmt.Fprintf(out, "@@wiring error=%s\n", hex.EncodeToString([]byte(msg)))
		os.Exit(0)
	}
	var args, probes []string
	if err := json.Unmarshal([]byte(os.Getenv("VERIF_WIRING_ARGS")), &args); err != nil {
		fail("bad VERIF_WIRING_ARGS")
	}
	if err := json.Unmarshal([]byte(os.Getenv("VERIF_WIRING_PROBES")), &probes); err != nil {
		fail("bad VERIF_WIRING_PROBES")
	}
	mode := os.Getenv("VERIF_WIRING_HTTP")
	panicValue := os.Getenv("VERIF_WIRING_PANIC")
	dir, err := os.MkdirTemp("", "verif-wiring")
	if err != nil {
		fail(err.Error())
	}
	paths := map[string]string{"stderr": filepath.Join(dir, "stderr"), "stdout": filepath.Join(dir, "stdout")}
	errFile, err := os.Create(paths["stderr"])
	if err != nil {
		fail(err.Error())
	}
	outFile, err := os.Create(paths["stdout"])
	if err != nil {
		fail(err.Error())
	}
	if p := os.Getenv("VERIF_WIRING_LOG"); p != "" {
		paths["logfile"] = p
	}

	listenAddr := ""
	var mu sync.Mutex
	errorLog := "unknown"
	if mode != "" {
		l, err := net.Listen("tcp", "127.0.0.1:0")
		if err != nil {
			fail(err.Error())
		}
		listenAddr = l.Addr().String()
		l.Close()
		var nargs []string
		for _, a := range args {
			switch {
			case a == "127.0.0.1:0":
				nargs = append(nargs, listenAddr)
			case a == "-disable-tls" && mode == "tls":
				cf, kf, err := selfSigned(dir)
				if err != nil {
					fail(err.Error())
				}
				nargs = append(nargs, "-cert", cf, "-key", kf)
			default:
				nargs = append(nargs, a)
			}
		}
		args = nargs
		http.HandleFunc("/zz-verif-c07/panic", func(w http.ResponseWriter, r *http.Request) {
			srv, _ := r.Context().Value(http.ServerContextKey).(*http.Server)
			mu.Lock()
			if srv == nil {
				errorLog = "unknown"
			} else if srv.ErrorLog == nil {
				errorLog = "nil"
			} else {
				errorLog = "set"
			}
			mu.Unlock()
			if srv != nil && srv.ErrorLog != nil {
				for _, p := range probes {
					srv.ErrorLog.Print(strings.Replace(p, "probe-c07 ", "probe-c07-errorlog ", 1))
				}
			}
			panic(panicValue)
		})
	}

	os.Stderr = errFile // main() reads os.Stderr / os.Stdout when it builds its log outputs
	os.Stdout = outFile
	os.Args = append([]string{"verif-wiring"}, args...)
	before := log.Writer()
	go mainFn()
	deadline := time.Now().Add(60 * time.Second)
	for log.Writer() == before {
		if time.Now().After(deadline) {
			fail("main() did not configure the standard logger within 60 s")
		}
		time.Sleep(time.Millisecond)
	}
	for _, p := range probes {
		log.Print(p)
	}

	readAll := func() map[string][]byte {
		res := map[string][]byte{}
		for k, p := range paths {
			res[k], _ = os.ReadFile(p)
		}
		return res
	}
	var peers []string
	if mode != "" {
		// wait for the listener
		var conn net.Conn
		deadline = time.Now().Add(60 * time.Second)
		for {
			conn, err = net.Dial("tcp", listenAddr)
			if err == nil {
				break
			}
			if time.Now().After(deadline) {
				fail("main() did not listen on " + listenAddr + " within 60 s: " + err.Error())
			}
			time.Sleep(5 * time.Millisecond)
		}
		conn.Close()
		want := map[string]int{"panic serving": 1}
		// (b) the handler panic, over the protocol the server speaks
		request := func(c net.Conn) {
			peers = append(peers, c.LocalAddr().String())
			c.SetDeadline(time.Now().Add(20 * time.Second))
			fmt.Fprintf(c, "GET /zz-verif-c07/panic HTTP/1.0\r\nHost: wiring.test\r\n\r\n")
			io.Copy(io.Discard, c)
			c.Close()
		}
		if mode == "tls" {
			c, err := tls.Dial("tcp", listenAddr, &tls.Config{InsecureSkipVerify: true, ServerName: "wiring.test"})
			if err != nil {
				fail("TLS dial: " + err.Error())
			}
			request(c)
			// plain HTTP to the TLS port: the handshake fails on the server's side
			for i := 0; i < 3; i++ {
				c, err := net.Dial("tcp", listenAddr)
				if err != nil {
					fail("dial: " + err.Error())
				}
				request(c)
			}
			want["TLS handshake error"] = 3
		} else {
			c, err := net.Dial("tcp", listenAddr)
			if err != nil {
				fail("dial: " + err.Error())
			}
			request(c)
		}
		// until the server's error log has arrived in some observed sink (generous deadline, no fixed sleep)
		deadline = time.Now().Add(20 * time.Second)
		for {
			got := readAll()
			ok := true
			for marker, n := range want {
				c := 0
				for _, b := range got {
					c += bytes.Count(b, []byte(marker))
				}
				if c < n {
					ok = false
				}
			}
			if ok || time.Now().After(deadline) {
				break
			}
			time.Sleep(5 * time.Millisecond)
		}
	}
	errFile.Sync()
	outFile.Sync()
	got := readAll()
	mu.Lock()
	el := errorLog
	mu.Unlock()
	ps := "-"
	if len(peers) > 0 {
		ps = strings.Join(peers, ",")
	}
	fmt.Fprintf(out, "\n@@wiring stderr=%s stdout=%s logfile=%s peers=%s errorlog=%s\n",
		hexOrDash(got["stderr"]), hexOrDash(got["stdout"]), hexOrDash(got["logfile"]), ps, el)
	os.RemoveAll(dir)
	os.Exit(0)
}
