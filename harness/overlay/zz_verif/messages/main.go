//go:build verif

// Driver for common/messages (black-box, exported Encode*/Decode* only).
// See coq/Run/MessagesRun.v for the case-line and result formats.
package main

import (
	"bytes"
	"encoding/hex"
	"encoding/json"
	"sort"
	"strconv"
	"strings"

	"git.torproject.org/pluggable-transports/snowflake.git/v2/common/messages"
	"git.torproject.org/pluggable-transports/snowflake.git/v2/zz_verif/wire"
)

// generic returns the canonical serialisation of the JSON value Go's own parser sees in
// data (keys in source order, duplicates kept, numbers as literal text, strings unquoted),
// or "!" when data is not exactly one valid JSON text.
func generic(data []byte) string {
	if !json.Valid(data) {
		return "!"
	}
	dec := json.NewDecoder(bytes.NewReader(data))
	dec.UseNumber()
	var sb strings.Builder
	if !emit(dec, &sb) {
		return "!"
	}
	return sb.String()
}

// genericSorted is generic with the top-level object's entries sorted by key: encoder
// output is compared as a set of fields, not by the order json.Marshal happens to use.
func genericSorted(data []byte) string {
	if !json.Valid(data) {
		return "!"
	}
	dec := json.NewDecoder(bytes.NewReader(data))
	dec.UseNumber()
	tok, err := dec.Token()
	if d, ok := tok.(json.Delim); err != nil || !ok || d != '{' {
		return generic(data)
	}
	type ent struct{ k, v string }
	var ents []ent
	for dec.More() {
		kt, err := dec.Token()
		k, ok := kt.(string)
		if err != nil || !ok {
			return "!"
		}
		var sb strings.Builder
		if !emit(dec, &sb) {
			return "!"
		}
		ents = append(ents, ent{k, sb.String()})
	}
	sort.SliceStable(ents, func(i, j int) bool { return ents[i].k < ents[j].k })
	var sb strings.Builder
	sb.WriteByte('{')
	for _, e := range ents {
		hx('k', e.k, &sb)
		sb.WriteString(e.v)
	}
	sb.WriteByte('}')
	return sb.String()
}

func hx(tag byte, s string, sb *strings.Builder) {
	sb.WriteByte(tag)
	sb.WriteString(hex.EncodeToString([]byte(s)))
	sb.WriteByte(';')
}

func emit(dec *json.Decoder, sb *strings.Builder) bool {
	tok, err := dec.Token()
	if err != nil {
		return false
	}
	switch t := tok.(type) {
	case json.Delim:
		switch t {
		case '[':
			sb.WriteByte('[')
			for dec.More() {
				if !emit(dec, sb) {
					return false
				}
			}
			if _, err := dec.Token(); err != nil {
				return false
			}
			sb.WriteByte(']')
		case '{':
			sb.WriteByte('{')
			for dec.More() {
				kt, err := dec.Token()
				if err != nil {
					return false
				}
				k, ok := kt.(string)
				if !ok {
					return false
				}
				hx('k', k, sb)
				if !emit(dec, sb) {
					return false
				}
			}
			if _, err := dec.Token(); err != nil {
				return false
			}
			sb.WriteByte('}')
		default:
			return false
		}
	case nil:
		sb.WriteByte('n')
	case bool:
		if t {
			sb.WriteByte('t')
		} else {
			sb.WriteByte('f')
		}
	case json.Number:
		hx('d', string(t), sb)
	case string:
		hx('s', t, sb)
	default:
		return false
	}
	return true
}

func x(s string) string { return "x" + hex.EncodeToString([]byte(s)) }

func b01(b bool) string {
	if b {
		return "1"
	}
	return "0"
}

func pay(t string) []byte {
	b, err := wire.Payload(t)
	if err != nil {
		panic("badcase: " + err.Error())
	}
	return b
}

func str(t string) string { return string(pay(t)) }

func atoi(t string) int {
	n, err := strconv.ParseInt(t, 10, 64)
	if err != nil {
		panic("badcase: " + err.Error())
	}
	return int(n)
}

// ---- decoders: "ok <fields>" or "err" (error class only)

func dppr(data []byte) string {
	sid, ty, nat, n, pat, aware, err := messages.DecodeProxyPollRequestWithRelayPrefix(data)
	if err != nil {
		return "err"
	}
	return "ok " + x(sid) + " " + x(ty) + " " + x(nat) + " " + strconv.Itoa(n) + " " + x(pat) + " " + b01(aware)
}

func dppr0(data []byte) string {
	sid, ty, nat, n, err := messages.DecodeProxyPollRequest(data)
	if err != nil {
		return "err"
	}
	return "ok " + x(sid) + " " + x(ty) + " " + x(nat) + " " + strconv.Itoa(n)
}

func dpr(data []byte) string {
	offer, nat, relay, err := messages.DecodePollResponseWithRelayURL(data)
	if err != nil {
		return "err"
	}
	return "ok " + x(offer) + " " + x(nat) + " " + x(relay)
}

// the poll response with the failure reason visible: for a failure status the decoder returns errors.New(status)
// together with a non-empty NAT type; every other error comes with empty strings
func dprr(data []byte) string {
	offer, nat, relay, err := messages.DecodePollResponseWithRelayURL(data)
	if err != nil {
		if nat != "" {
			return "reason " + x(err.Error()) + " " + x(nat) + " " + x(relay)
		}
		return "err"
	}
	return "ok " + x(offer) + " " + x(nat) + " " + x(relay)
}

func dpr0(data []byte) string {
	offer, nat, err := messages.DecodePollResponse(data)
	if err != nil {
		return "err"
	}
	return "ok " + x(offer) + " " + x(nat)
}

func dar(data []byte) string {
	answer, sid, err := messages.DecodeAnswerRequest(data)
	if err != nil {
		return "err"
	}
	return "ok " + x(answer) + " " + x(sid)
}

func dars(data []byte) string {
	ok, err := messages.DecodeAnswerResponse(data)
	if err != nil {
		return "err"
	}
	return "ok " + b01(ok)
}

func dcpr(data []byte) string {
	m, err := messages.DecodeClientPollRequest(data)
	if err != nil {
		return "err"
	}
	return "ok " + x(m.Offer) + " " + x(m.NAT) + " " + x(m.Fingerprint)
}

func dcps(data []byte) string {
	m, err := messages.DecodeClientPollResponse(data)
	if err != nil {
		return "err"
	}
	return "ok " + x(m.Answer) + " " + x(m.Error)
}

func must(b []byte, err error) []byte {
	if err != nil {
		panic("encoder returned an error: " + err.Error())
	}
	return b
}

func encode(op string, a []string) []byte {
	switch op {
	case "ppr":
		return must(messages.EncodeProxyPollRequestWithRelayPrefix(str(a[0]), str(a[1]), str(a[2]), atoi(a[3]), str(a[4])))
	case "ppr0":
		return must(messages.EncodeProxyPollRequest(str(a[0]), str(a[1]), str(a[2]), atoi(a[3])))
	case "pr", "prr":
		return must(messages.EncodePollResponseWithRelayURL(str(a[0]), a[1] == "1", str(a[2]), str(a[3]), str(a[4])))
	case "pr0":
		return must(messages.EncodePollResponse(str(a[0]), a[1] == "1", str(a[2])))
	case "ar":
		return must(messages.EncodeAnswerRequest(str(a[0]), str(a[1])))
	case "ars":
		return must(messages.EncodeAnswerResponse(a[0] == "1"))
	case "cpr":
		r := &messages.ClientPollRequest{Offer: str(a[0]), NAT: str(a[1]), Fingerprint: str(a[2])}
		return must(r.EncodeClientPollRequest())
	case "cps":
		r := &messages.ClientPollResponse{Answer: str(a[0]), Error: str(a[1])}
		return must(r.EncodePollResponse())
	}
	panic("badcase: op " + op)
}

// Every encoder result is the caller's: a later call of any encoder must not change it.  The driver keeps the last
// few results with a private copy and compares them after every further encode.
type heldEnc struct{ b, copy []byte }

var held []heldEnc

func encodeHeld(op string, a []string) ([]byte, string) {
	b := encode(op, a)
	for _, h := range held {
		if !bytes.Equal(h.b, h.copy) {
			held = nil
			return b, "!encoder-result-changed-by-a-later-encode: " + x(string(h.copy)) + " became " + x(string(h.b))
		}
	}
	held = append(held, heldEnc{b, append([]byte(nil), b...)})
	if len(held) > 8 {
		held = held[1:]
	}
	return b, ""
}

var decoders = map[string]func([]byte) string{
	"ppr": dppr, "ppr0": dppr0, "pr": dpr, "prr": dprr, "pr0": dpr0, "ar": dar, "ars": dars, "cpr": dcpr, "cps": dcps,
}

func main() {
	wire.Loop(func(a []string) string {
		op := a[0]
		if op == "gen" {
			return generic(pay(a[1]))
		}
		// the two library calls whose result the decoders index (coq/Model/MessagesPanic.v: split_dot, splitn_nl)
		if op == "vsplit" {
			var out []string
			for _, p := range strings.Split(str(a[1]), ".") {
				out = append(out, x(p))
			}
			return wire.PrintList(out)
		}
		if op == "nsplit" {
			var out []string
			for _, p := range bytes.SplitN(pay(a[1]), []byte("\n"), 2) {
				out = append(out, x(string(p)))
			}
			return wire.PrintList(out)
		}
		kind, msg := op[0], op[1:]
		dec, ok := decoders[msg]
		if !ok {
			return "!badcase"
		}
		switch kind {
		case 'd':
			return dec(pay(a[1]))
		case 'e':
			b, bad := encodeHeld(msg, a[1:])
			if bad != "" {
				return bad
			}
			if msg == "cpr" {
				i := bytes.IndexByte(b, '\n')
				if i < 0 {
					return "!no-version-line"
				}
				return "x" + hex.EncodeToString(b[:i]) + " " + genericSorted(b[i+1:])
			}
			return genericSorted(b)
		case 'r':
			b, bad := encodeHeld(msg, a[1:])
			if bad != "" {
				return bad
			}
			return dec(b)
		}
		return "!badcase"
	})
}
