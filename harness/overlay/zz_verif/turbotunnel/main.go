//go:build verif

// Driver for common/turbotunnel (black-box, exported API only) and for Go's container/heap
// (the library coq/Model/GoHeap.v models).  Line protocol: see coq/Run/TurbotunnelRun.v.
package main

import (
	"container/heap"
	"fmt"
	"net"
	"runtime"
	"strconv"
	"strings"
	"time"

	"git.torproject.org/pluggable-transports/snowflake.git/v2/common/turbotunnel"
	"git.torproject.org/pluggable-transports/snowflake.git/v2/zz_verif/wire"
)

// vaddr is a comparable net.Addr (stands for a ClientID).
type vaddr int

func (a vaddr) Network() string { return "verif" }
func (a vaddr) String() string  { return strconv.Itoa(int(a)) }

// ---------------------------------------------------------------- container/heap

type intHeap []int64

func (h intHeap) Len() int            { return len(h) }
func (h intHeap) Less(i, j int) bool  { return h[i] < h[j] }
func (h intHeap) Swap(i, j int)       { h[i], h[j] = h[j], h[i] }
func (h *intHeap) Push(x interface{}) { *h = append(*h, x.(int64)) }
func (h *intHeap) Pop() interface{} {
	old := *h
	n := len(old)
	x := old[n-1]
	*h = old[:n-1]
	return x
}

func printInts(h intHeap) string {
	if len(h) == 0 {
		return "e"
	}
	s := make([]string, len(h))
	for i, v := range h {
		s[i] = strconv.FormatInt(v, 10)
	}
	return strings.Join(s, ";")
}

func runHeap(ops []string) string {
	h := &intHeap{}
	var out []string
	for _, t := range ops {
		switch t[0] {
		case 'p':
			v, _ := strconv.ParseInt(t[1:], 10, 64)
			heap.Push(h, v)
			out = append(out, printInts(*h))
		case 'o':
			v := heap.Pop(h).(int64)
			out = append(out, strconv.FormatInt(v, 10)+">"+printInts(*h))
		case 'r':
			i, _ := strconv.Atoi(t[1:])
			v := heap.Remove(h, i).(int64)
			out = append(out, strconv.FormatInt(v, 10)+">"+printInts(*h))
		case 'f':
			parts := strings.Split(t[1:], ":")
			i, _ := strconv.Atoi(parts[0])
			v, _ := strconv.ParseInt(parts[1], 10, 64)
			(*h)[i] = v
			heap.Fix(h, i)
			out = append(out, printInts(*h))
		case 'a':
			v, _ := strconv.ParseInt(t[1:], 10, 64)
			*h = append(*h, v)
			out = append(out, printInts(*h))
		case 'n':
			heap.Init(h)
			out = append(out, printInts(*h))
		default:
			return "!badop"
		}
	}
	return wire.PrintList(out)
}

// ---------------------------------------------------------------- goroutine states

// goroutineStates returns the scheduler state ("select", "chan send", "running", ...) of
// every goroutine whose stack mentions marker.
func goroutineStates(markers ...string) []string {
	buf := make([]byte, 1<<20)
	for {
		n := runtime.Stack(buf, true)
		if n < len(buf) {
			buf = buf[:n]
			break
		}
		buf = make([]byte, 2*len(buf))
	}
	var res []string
	for _, blk := range strings.Split(string(buf), "\n\n") {
		hit := false
		for _, m := range markers {
			if strings.Contains(blk, m) {
				hit = true
			}
		}
		if !hit {
			continue
		}
		l := blk
		if i := strings.IndexByte(l, '\n'); i >= 0 {
			l = l[:i]
		}
		a, b := strings.IndexByte(l, '['), strings.LastIndexByte(l, ']')
		if a < 0 || b < a {
			continue
		}
		st := l[a+1 : b]
		if i := strings.IndexByte(st, ','); i >= 0 {
			st = st[:i]
		}
		res = append(res, st)
	}
	return res
}

// ---------------------------------------------------------------- QueuePacketConn

type readResult struct {
	n    int
	addr net.Addr
	err  error
	buf  []byte
}

//go:noinline
func verifReadWorker(conn *turbotunnel.QueuePacketConn, size int, done chan readResult) {
	buf := make([]byte, size)
	for i := range buf {
		buf[i] = 0xee
	}
	n, a, err := conn.ReadFrom(buf)
	done <- readResult{n, a, err, buf}
}

const sentinelAddr = vaddr(-77)

// nonBlockingRead is ReadFrom's non-blocking view: the call is started in a goroutine; if that
// goroutine parks in ReadFrom's select (nothing queued, not closed) it is released with a
// sentinel packet, which it must hand back, and the answer is "B".
func nonBlockingRead(conn *turbotunnel.QueuePacketConn, size int) string {
	done := make(chan readResult, 1)
	go verifReadWorker(conn, size, done)
	deadline := time.Now().Add(20 * time.Second)
	for spins := 0; ; spins++ {
		select {
		case r := <-done:
			res := printRead(r)
			scribble(r.buf) // the reader owns its buffer again; nothing queued may depend on it
			return res
		default:
		}
		if spins < 50 {
			runtime.Gosched()
			continue
		}
		sts := goroutineStates("main.verifReadWorker")
		if len(sts) == 1 && sts[0] == "select" {
			break
		}
		if time.Now().After(deadline) {
			return "!stuck:" + strings.Join(sts, "+")
		}
		time.Sleep(50 * time.Microsecond)
	}
	// parked inside ReadFrom: release it
	conn.QueueIncoming([]byte{0x5e}, sentinelAddr)
	select {
	case r := <-done:
		if r.err == nil && r.addr == sentinelAddr {
			return "B"
		}
		return "!blocked-then:" + printRead(r)
	case <-time.After(20 * time.Second):
		return "!hang"
	}
}

func printRead(r readResult) string {
	if r.err != nil {
		return "E"
	}
	a, ok := r.addr.(vaddr)
	if !ok {
		return "!addr"
	}
	return "x" + wire.Hex(r.buf[:r.n]) + "@" + strconv.Itoa(int(a))
}

func scribble(b []byte) {
	for i := range b {
		b[i] ^= 0xa5
	}
}

func addrPayload(t string) (vaddr, []byte, error) {
	parts := strings.SplitN(t, ":", 2)
	if len(parts) != 2 {
		return 0, nil, fmt.Errorf("bad token")
	}
	a, err := strconv.Atoi(parts[0])
	if err != nil {
		return 0, nil, err
	}
	p, err := wire.Payload(parts[1])
	return vaddr(a), p, err
}

func runQC(ops []string) string {
	conn := turbotunnel.NewQueuePacketConn(vaddr(0), time.Hour)
	var out []string
	var held [][]byte // buffers the driver passed in earlier: scribbled again later
	for _, t := range ops {
		switch t[0] {
		case 'i':
			a, p, err := addrPayload(t[1:])
			if err != nil {
				return "!badop"
			}
			conn.QueueIncoming(p, a)
			scribble(p)
			held = append(held, p)
			out = append(out, "-")
		case 'r':
			n, _ := strconv.Atoi(t[1:])
			out = append(out, nonBlockingRead(conn, n))
		case 'w':
			a, p, err := addrPayload(t[1:])
			if err != nil {
				return "!badop"
			}
			n, werr := conn.WriteTo(p, a)
			scribble(p)
			held = append(held, p)
			if werr != nil {
				out = append(out, "E")
			} else {
				out = append(out, "n"+strconv.Itoa(n))
			}
		case 'o':
			a, _ := strconv.Atoi(t[1:])
			ch := conn.OutgoingQueue(vaddr(a))
			select {
			case p, ok := <-ch:
				if ok {
					out = append(out, "x"+wire.Hex(p))
					scribble(p) // the receiver owns p; must not reach other queued packets
				} else {
					out = append(out, "C")
				}
			default:
				out = append(out, "B")
			}
		case 'c':
			if err := conn.Close(); err != nil {
				out = append(out, "E")
			} else {
				out = append(out, "ok")
			}
		default:
			return "!badop"
		}
	}
	for _, p := range held {
		scribble(p)
	}
	return wire.PrintList(out)
}

func main() {
	wire.Loop(func(args []string) string {
		if len(args) == 0 {
			return "!badcase"
		}
		switch args[0] {
		case "heap":
			return runHeap(wire.List(args[1]))
		case "qc":
			var ops []string
			for _, f := range args[2:] {
				ops = append(ops, wire.List(f)...)
			}
			return runQC(ops)
		case "cap":
			conn := turbotunnel.NewQueuePacketConn(vaddr(0), time.Hour)
			return strconv.Itoa(cap(conn.OutgoingQueue(vaddr(1))))
		case "redial":
			return runRedial(args[1:], false)
		case "redials":
			return runRedial(args[1:], true)
		case "redialq":
			return runRedialCap(args[1:])
		case "overlap":
			return runOverlap(args[1:])
		case "leak":
			return runLeak(args[1:])
		case "sweep":
			return runSweep(args[1:])
		}
		return "!badcase"
	})
}
