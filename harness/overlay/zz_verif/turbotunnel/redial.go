//go:build verif

package main

// Scripted carriers for RedialPacketConn (see coq/Model/Redial.v, coq/Run/TurbotunnelRun.v).
//
//   turbotunnel redial <cap> <tokens>
//     D1 / D0      the pending dialContext call returns a new carrier / an error
//     r<k>:1|0     carrier k's pending ReadFrom returns a packet / an error
//     w<k>:1|0     carrier k's pending WriteTo returns success / an error
//     W            user WriteTo        -> ok | E
//     R            user ReadFrom (non-blocking view) -> p | B | E
//     C            user Close          -> ok | E
//     K<k>         (redials only) carrier k's pending Close() returns
//   turbotunnel redials <cap> <tokens>
//     the same with carriers whose Close() takes time: it blocks until the script lets it return
//     (K<k>); the carrier counts as closed -- pending calls on it fail, open/max/closes/oad change --
//     only when Close has RETURNED.
//   turbotunnel redialq <cap> <qcap> <tokens>
//     the same as redial for scripts that fill the adapter's queues: <tok>*<n> repeats a token; qcap is
//     the capacity of the adapter's queues (the driver must know when a user ReadFrom would block: the
//     adapter keeps at most qcap delivered packets).  The user's n-th WriteTo writes packet n-1, the
//     carriers' n-th successful ReadFrom delivers packet n.  Two more observables:
//       off=<packets handed to a carrier's WriteTo, in order, as ranges>  got=<packets the user's ReadFrom returned>
//   After every token the driver waits until every goroutine of the adapter is parked.
//   A token whose precondition does not hold (no such pending call) answers "n".
//   Result: <answers> ; dials=<n> oad=<per carrier handed out by dialContext: the number of earlier
//           carriers whose Close() had not returned at that moment> open=<open carriers>
//           max=<max simultaneously open> closes=<completed Close() calls per carrier> dialing=<a dialContext call is pending> left=<adapter goroutines still alive>
//           pend=<open carriers on which the adapter has called Close() and the call is waiting for the script (redials)>
//   "closes every carrier it obtained": when the adapter has ended (Close, or a failed dial) and no dial is pending,
//   every carrier it was handed is closed or has its Close() call pending -- in particular a carrier handed over by a
//   dial that was in progress when Close() was called (lib/checks/c17.py, key redial-carrier-left-open).

import (
	"context"
	"errors"
	"net"
	"runtime"
	"strconv"
	"strings"
	"sync"
	"time"

	"git.torproject.org/pluggable-transports/snowflake.git/v2/common/turbotunnel"
)

const redialMarker = "turbotunnel.(*RedialPacketConn)"
const redialMarker2 = "turbotunnel.NewRedialPacketConn"

var errFake = errors.New("scripted carrier failure")
var errFakeClosed = errors.New("carrier closed")

type scenario struct {
	mu          sync.Mutex
	carriers    []*fakeConn
	dialPending bool
	dialCue     chan bool
	dials       int
	open        int
	maxOpen     int
	delivered   int // packets handed to the adapter by successful carrier reads
	written     [][]byte
	slow        bool  // Close() of a carrier blocks until released by the script
	oad         []int // per carrier handed out: earlier carriers whose Close had not returned then
	qcap        int   // capacity of the adapter's queues (0: the script never fills them)
	queued      int   // delivered packets the adapter must be holding for the user
	offered     []int // packets handed to a carrier's WriteTo, in order
}

type fakeConn struct {
	sc           *scenario
	id           int
	readCue      chan bool
	writeCue     chan bool
	closedCh     chan struct{}
	releaseCh    chan bool // slow mode: a pending Close() waits here
	nclose       int       // Close() calls that have returned
	closePending int       // Close() calls that are waiting for the script
	readPending  bool
	writePending bool
}

func (f *fakeConn) isClosed() bool {
	select {
	case <-f.closedCh:
		return true
	default:
		return false
	}
}

func (f *fakeConn) ReadFrom(p []byte) (int, net.Addr, error) {
	f.sc.mu.Lock()
	f.readPending = true
	f.sc.mu.Unlock()
	defer func() {
		f.sc.mu.Lock()
		f.readPending = false
		f.sc.mu.Unlock()
	}()
	select {
	case <-f.closedCh:
		return 0, nil, errFakeClosed
	default:
	}
	select {
	case ok := <-f.readCue:
		if ok {
			f.sc.mu.Lock()
			f.sc.delivered++
			seq := f.sc.delivered
			if f.sc.qcap == 0 || f.sc.queued < f.sc.qcap {
				f.sc.queued++ // (a full receive queue drops the packet)
			}
			f.sc.mu.Unlock()
			// every packet is different (its sequence number), so a receive queue that aliases the
			// adapter's read buffer shows up as a wrong packet at the user's ReadFrom
			p[0] = byte(seq)
			p[1] = byte(seq >> 8)
			return 2, vaddr(1000 + f.id), nil
		}
		return 0, nil, errFake
	case <-f.closedCh:
		return 0, nil, errFakeClosed
	}
}

func (f *fakeConn) WriteTo(p []byte, addr net.Addr) (int, error) {
	f.sc.mu.Lock()
	f.writePending = true
	if len(p) == 3 {
		f.sc.offered = append(f.sc.offered, int(p[0])|int(p[1])<<8)
	} else {
		f.sc.offered = append(f.sc.offered, -1)
	}
	f.sc.mu.Unlock()
	defer func() {
		f.sc.mu.Lock()
		f.writePending = false
		f.sc.mu.Unlock()
	}()
	select {
	case <-f.closedCh:
		return 0, errFakeClosed
	default:
	}
	select {
	case ok := <-f.writeCue:
		if ok {
			f.sc.mu.Lock()
			f.sc.written = append(f.sc.written, append([]byte(nil), p...))
			f.sc.mu.Unlock()
			return len(p), nil
		}
		return 0, errFake
	case <-f.closedCh:
		return 0, errFakeClosed
	}
}

func (f *fakeConn) Close() error {
	f.sc.mu.Lock()
	slow := f.sc.slow
	if slow {
		f.closePending++
	}
	f.sc.mu.Unlock()
	if slow {
		<-f.releaseCh // parked ("chan receive") until the script lets Close return
	}
	f.sc.mu.Lock()
	if slow {
		f.closePending--
	}
	f.nclose++
	first := f.nclose == 1
	if first {
		f.sc.open--
	}
	f.sc.mu.Unlock()
	if first {
		close(f.closedCh)
	}
	return nil
}

func (f *fakeConn) LocalAddr() net.Addr                { return vaddr(2000 + f.id) }
func (f *fakeConn) SetDeadline(t time.Time) error      { return nil }
func (f *fakeConn) SetReadDeadline(t time.Time) error  { return nil }
func (f *fakeConn) SetWriteDeadline(t time.Time) error { return nil }

func (sc *scenario) dial(ctx context.Context) (net.PacketConn, error) {
	sc.mu.Lock()
	sc.dialPending = true
	sc.dials++
	sc.mu.Unlock()
	ok := <-sc.dialCue
	sc.mu.Lock()
	defer sc.mu.Unlock()
	sc.dialPending = false
	if !ok {
		return nil, errFake
	}
	// the moment a new carrier is handed out: every earlier carrier's Close must have returned
	notClosed := 0
	for _, g := range sc.carriers {
		if g.nclose == 0 {
			notClosed++
		}
	}
	sc.oad = append(sc.oad, notClosed)
	f := &fakeConn{sc: sc, id: len(sc.carriers), readCue: make(chan bool), writeCue: make(chan bool), closedCh: make(chan struct{}), releaseCh: make(chan bool)}
	sc.carriers = append(sc.carriers, f)
	sc.open++
	if sc.open > sc.maxOpen {
		sc.maxOpen = sc.open
	}
	return f, nil
}

func parked(st string) bool {
	return st == "select" || st == "chan send" || st == "chan receive" || st == "select (no cases)" ||
		strings.HasPrefix(st, "chan send (nil") || strings.HasPrefix(st, "chan receive (nil")
}

// stackBuf is reused by settle (the scripts that fill the queues take thousands of steps; a fresh
// megabyte per goroutine dump dominated their cost).  The driver settles from one goroutine only.
var stackBuf = make([]byte, 256<<10)

// redialStates: the scheduler states of the goroutines running adapter code.
func redialStates() []string {
	for {
		n := runtime.Stack(stackBuf, true)
		if n < len(stackBuf) {
			return statesIn(string(stackBuf[:n]), redialMarker, redialMarker2)
		}
		stackBuf = make([]byte, 2*len(stackBuf))
	}
}

func statesIn(dump string, markers ...string) []string {
	var res []string
	for _, blk := range strings.Split(dump, "\n\n") {
		hit := false
		for _, m := range markers {
			if strings.Contains(blk, m) {
				hit = true
			}
		}
		if !hit {
			continue
		}
		l := blk
		if i := strings.IndexByte(l, '\n'); i >= 0 {
			l = l[:i]
		}
		a, b := strings.IndexByte(l, '['), strings.LastIndexByte(l, ']')
		if a < 0 || b < a {
			continue
		}
		st := l[a+1 : b]
		if i := strings.IndexByte(st, ','); i >= 0 {
			st = st[:i]
		}
		res = append(res, st)
	}
	return res
}

// settle waits until every goroutine running adapter code is parked; returns their number.
func settle() (int, bool) {
	deadline := time.Now().Add(20 * time.Second)
	for i := 0; ; i++ {
		sts := redialStates()
		all := true
		for _, s := range sts {
			if !parked(s) {
				all = false
				break
			}
		}
		if all {
			return len(sts), true
		}
		if time.Now().After(deadline) {
			return len(sts), false
		}
		if i > 20 {
			time.Sleep(20 * time.Microsecond)
		}
	}
}

func cue(ch chan bool, v bool) bool {
	select {
	case ch <- v:
		return true
	case <-time.After(10 * time.Second):
		return false
	}
}

func runRedial(args []string, slow bool) string {
	if len(args) < 2 {
		return "!badcase"
	}
	return runRedialQ(strings.Split(args[1], ","), slow, 0)
}

// runRedialCap: turbotunnel redialq <cap> <qcap> <tokens with repetitions>
func runRedialCap(args []string) string {
	if len(args) < 3 {
		return "!badcase"
	}
	qcap, err := strconv.Atoi(args[1])
	if err != nil || qcap <= 0 {
		return "!badcase"
	}
	var toks []string
	for _, t := range strings.Split(args[2], ",") {
		f := strings.Split(t, "*")
		n := 1
		if len(f) == 2 {
			if n, err = strconv.Atoi(f[1]); err != nil {
				return "!badcase"
			}
		} else if len(f) != 1 {
			return "!badcase"
		}
		for i := 0; i < n; i++ {
			toks = append(toks, f[0])
		}
	}
	return runRedialQ(toks, false, qcap)
}

// ranges prints an integer sequence with its ascending runs folded: 0-2047.2049.2051-2060 ("e" if empty)
func ranges(l []int) string {
	var out []string
	for i := 0; i < len(l); {
		j := i
		for j+1 < len(l) && l[j+1] == l[j]+1 {
			j++
		}
		if j == i {
			out = append(out, strconv.Itoa(l[i]))
		} else {
			out = append(out, strconv.Itoa(l[i])+"-"+strconv.Itoa(l[j]))
		}
		i = j + 1
	}
	return wirePrintSemi(out)
}

func runRedialQ(tokens []string, slow bool, qcap int) string {
	base, _ := settle()
	sc := &scenario{dialCue: make(chan bool), slow: slow, qcap: qcap}
	var got []int
	conn := turbotunnel.NewRedialPacketConn(vaddr(1), vaddr(2), sc.dial)
	if _, ok := settle(); !ok {
		return "!unsettled"
	}
	closedKnown := false
	consumed := 0
	nwrites := 0
	var out []string
	for _, t := range tokens {
		if t == "-" {
			continue
		}
		ans := "-"
		switch {
		case t == "D1" || t == "D0":
			sc.mu.Lock()
			p := sc.dialPending
			sc.mu.Unlock()
			if !p {
				ans = "n"
			} else {
				if !cue(sc.dialCue, t == "D1") {
					return "!cue"
				}
				if t == "D0" {
					closedKnown = true
				}
			}
		case t[0] == 'K':
			k, _ := strconv.Atoi(t[1:])
			sc.mu.Lock()
			var f *fakeConn
			if k < len(sc.carriers) {
				f = sc.carriers[k]
			}
			ok := f != nil && f.closePending > 0
			sc.mu.Unlock()
			if !ok {
				ans = "n"
			} else if !cue(f.releaseCh, true) {
				return "!cue"
			}
		case t[0] == 'r' || t[0] == 'w':
			parts := strings.Split(t[1:], ":")
			k, _ := strconv.Atoi(parts[0])
			sc.mu.Lock()
			var f *fakeConn
			if k < len(sc.carriers) {
				f = sc.carriers[k]
			}
			ok := f != nil && !f.isClosed() && ((t[0] == 'r' && f.readPending) || (t[0] == 'w' && f.writePending))
			sc.mu.Unlock()
			if !ok {
				ans = "n"
			} else {
				ch := f.readCue
				if t[0] == 'w' {
					ch = f.writeCue
				}
				if !cue(ch, parts[1] == "1") {
					return "!cue"
				}
			}
		case t == "W":
			p := []byte{byte(nwrites), byte(nwrites >> 8), 0x17}
			nwrites++
			type wr struct {
				n   int
				err error
			}
			wdone := make(chan wr, 1)
			go func() {
				n, err := conn.WriteTo(p, vaddr(5))
				wdone <- wr{n, err}
			}()
			select {
			case r := <-wdone:
				scribble(p)
				if r.err != nil {
					ans = "E"
				} else if r.n != 3 {
					ans = "!n"
				} else {
					ans = "ok"
				}
			case <-time.After(10 * time.Second):
				return "!hang-write" // WriteTo must never block
			}
		case t == "R":
			sc.mu.Lock()
			avail := sc.queued
			sc.mu.Unlock()
			if avail <= 0 && !closedKnown {
				ans = "B"
			} else {
				type rr struct {
					n   int
					err error
					buf []byte
				}
				done := make(chan rr, 1)
				go func() {
					buf := make([]byte, 64)
					for i := range buf {
						buf[i] = 0xee
					}
					n, _, err := conn.ReadFrom(buf)
					done <- rr{n, err, buf}
				}()
				select {
				case r := <-done:
					if r.err != nil {
						ans = "E"
					} else {
						consumed++
						sc.mu.Lock()
						sc.queued--
						sc.mu.Unlock()
						if r.n != 2 {
							return "!aliased-read"
						}
						id := int(r.buf[0]) | int(r.buf[1])<<8
						got = append(got, id)
						// packets come out in the order the carriers delivered them, each with its own content
						// (scripts that overflow the receive queue: judged from got= by the check)
						if qcap == 0 && id != consumed {
							return "!aliased-read"
						}
						scribble(r.buf)
						ans = "p"
					}
				case <-time.After(10 * time.Second):
					return "!hang"
				}
			}
		case t == "C":
			if err := conn.Close(); err != nil {
				ans = "E"
			} else {
				ans = "ok"
			}
			closedKnown = true
		default:
			return "!badop"
		}
		if _, ok := settle(); !ok {
			return "!unsettled"
		}
		out = append(out, ans)
	}
	n, ok := settle()
	if !ok {
		return "!unsettled"
	}
	sc.mu.Lock()
	var open, closes, oad, pend []string
	for _, n := range sc.oad {
		oad = append(oad, strconv.Itoa(n))
	}
	for _, f := range sc.carriers {
		if f.nclose == 0 {
			open = append(open, strconv.Itoa(f.id))
		}
		closes = append(closes, strconv.Itoa(f.nclose))
		if f.nclose == 0 && f.closePending > 0 {
			pend = append(pend, strconv.Itoa(f.id)) // Close() was called on it and is waiting for the script
		}
	}
	// payloads that reached a carrier must be what the user passed, not the scribbled buffer
	for _, w := range sc.written {
		if len(w) != 3 || w[2] != 0x17 {
			sc.mu.Unlock()
			return "!aliased-write"
		}
	}
	res := wirePrint(out) + ";dials=" + strconv.Itoa(sc.dials) + " oad=" + wirePrintSemi(oad) + " open=" + wirePrintSemi(open) + " max=" + strconv.Itoa(sc.maxOpen) +
		" closes=" + wirePrintSemi(closes) + " dialing=" + b01(sc.dialPending) + " left=" + strconv.Itoa(n-base) + " pend=" + wirePrintSemi(pend)
	if qcap > 0 {
		res += " off=" + ranges(sc.offered) + " got=" + ranges(got)
	}
	sc.mu.Unlock()

	// clean up so that goroutines of this case do not pile up (whatever cannot terminate stays)
	sc.mu.Lock()
	sc.slow = false
	sc.mu.Unlock()
	releaseCloses(sc)
	conn.Close()
	settle()
	sc.mu.Lock()
	dp := sc.dialPending
	fs := append([]*fakeConn(nil), sc.carriers...)
	sc.mu.Unlock()
	if dp {
		cue(sc.dialCue, false)
	}
	for _, f := range fs {
		f.Close()
	}
	settle()
	return res
}

// releaseCloses lets every Close() that is waiting for the script return.
func releaseCloses(sc *scenario) {
	for i := 0; i < 1000; i++ {
		settle()
		sc.mu.Lock()
		var f *fakeConn
		for _, g := range sc.carriers {
			if g.closePending > 0 {
				f = g
				break
			}
		}
		sc.mu.Unlock()
		if f == nil {
			return
		}
		cue(f.releaseCh, true)
	}
}

func b01(b bool) string {
	if b {
		return "1"
	}
	return "0"
}

func wirePrint(l []string) string {
	if len(l) == 0 {
		return "-"
	}
	return strings.Join(l, ",")
}

func wirePrintSemi(l []string) string {
	if len(l) == 0 {
		return "e"
	}
	return strings.Join(l, ".")
}

// turbotunnel leak <n> <side>: n redials in which the <side> (w|r|b) of the carrier fails while
// the other direction is parked in the carrier; then Close.  Reports the adapter goroutines
// left after the redials and after Close.
func runLeak(args []string) string {
	n, _ := strconv.Atoi(args[0])
	base, _ := settle()
	sc := &scenario{dialCue: make(chan bool)}
	conn := turbotunnel.NewRedialPacketConn(vaddr(1), vaddr(2), sc.dial)
	settle()
	for i := 0; i < n; i++ {
		if !cue(sc.dialCue, true) {
			return "!cue"
		}
		settle()
		sc.mu.Lock()
		f := sc.carriers[i]
		sc.mu.Unlock()
		conn.WriteTo([]byte{1}, vaddr(5))
		settle()
		switch args[1] {
		case "w":
			if !cue(f.writeCue, false) {
				return "!cue"
			}
		case "r":
			if !cue(f.readCue, false) {
				return "!cue"
			}
		}
		settle()
	}
	during, _ := settle()
	conn.Close()
	settle()
	sc.mu.Lock()
	dp := sc.dialPending
	sc.mu.Unlock()
	if dp {
		cue(sc.dialCue, false)
	}
	after, _ := settle()
	return "during=" + strconv.Itoa(during-base) + " after=" + strconv.Itoa(after-base)
}

// turbotunnel overlap <n> <side> <closems>: real time, no script.  dialContext hands out carriers
// at once; each carrier's <side> (r: ReadFrom, w: WriteTo, b: both) fails after 3 ms, and its Close()
// takes <closems> ms (like the teardown of a WebRTC peer connection).  dialContext records, at the
// moment it hands out a carrier, how many earlier carriers' Close() has not RETURNED yet.  The
// n+1st dial fails, which ends the dial loop.
// Result: oad=<those numbers> unclosed=<carriers whose Close never returned within 2 s> left=<adapter goroutines>
type timedConn struct {
	m       *overlapMon
	side    string
	gone    chan struct{}
	closems int
}

type overlapMon struct {
	mu       sync.Mutex
	carriers []*timedConn
	done     []bool
	oad      []int
}

func (t *timedConn) fail(failing bool) error {
	if failing {
		select {
		case <-time.After(3 * time.Millisecond):
			return errFake
		case <-t.gone:
			return errFakeClosed
		}
	}
	<-t.gone
	return errFakeClosed
}

func (t *timedConn) ReadFrom(p []byte) (int, net.Addr, error) {
	return 0, nil, t.fail(t.side == "r" || t.side == "b")
}

func (t *timedConn) WriteTo(p []byte, addr net.Addr) (int, error) {
	return 0, t.fail(t.side == "w" || t.side == "b")
}

func (t *timedConn) Close() error {
	time.Sleep(time.Duration(t.closems) * time.Millisecond)
	t.m.mu.Lock()
	first := true
	for i, c := range t.m.carriers {
		if c == t {
			first = !t.m.done[i]
			t.m.done[i] = true
		}
	}
	t.m.mu.Unlock()
	if first {
		close(t.gone)
	}
	return nil
}

func (t *timedConn) LocalAddr() net.Addr              { return vaddr(3000) }
func (t *timedConn) SetDeadline(time.Time) error      { return nil }
func (t *timedConn) SetReadDeadline(time.Time) error  { return nil }
func (t *timedConn) SetWriteDeadline(time.Time) error { return nil }

func runOverlap(args []string) string {
	if len(args) < 3 {
		return "!badcase"
	}
	n, _ := strconv.Atoi(args[0])
	closems, _ := strconv.Atoi(args[2])
	base, _ := settle()
	m := &overlapMon{}
	finished := make(chan struct{})
	dial := func(ctx context.Context) (net.PacketConn, error) {
		m.mu.Lock()
		defer m.mu.Unlock()
		if len(m.carriers) >= n {
			select {
			case <-finished:
			default:
				close(finished)
			}
			return nil, errFake
		}
		open := 0
		for _, d := range m.done {
			if !d {
				open++
			}
		}
		m.oad = append(m.oad, open)
		t := &timedConn{m: m, side: args[1], gone: make(chan struct{}), closems: closems}
		m.carriers = append(m.carriers, t)
		m.done = append(m.done, false)
		return t, nil
	}
	conn := turbotunnel.NewRedialPacketConn(vaddr(1), vaddr(2), dial)
	stop := make(chan struct{})
	go func() { // keep the writers supplied
		for {
			select {
			case <-stop:
				return
			case <-time.After(time.Millisecond):
				conn.WriteTo([]byte{1}, vaddr(5))
			}
		}
	}()
	select {
	case <-finished:
	case <-time.After(time.Duration(n*(closems+200)+5000) * time.Millisecond):
		close(stop)
		conn.Close()
		return "!overlap-timeout"
	}
	close(stop)
	// every Close that was started gets 2 s to return
	deadline := time.Now().Add(2 * time.Second)
	unclosed := 0
	for {
		m.mu.Lock()
		unclosed = 0
		for _, d := range m.done {
			if !d {
				unclosed++
			}
		}
		m.mu.Unlock()
		if unclosed == 0 || time.Now().After(deadline) {
			break
		}
		time.Sleep(time.Millisecond)
	}
	conn.Close()
	left := 0
	for i := 0; i < 200; i++ {
		sts := goroutineStates(redialMarker, redialMarker2)
		left = len(sts) - base
		if left <= 0 {
			break
		}
		time.Sleep(time.Millisecond)
	}
	m.mu.Lock()
	var oad []string
	for _, v := range m.oad {
		oad = append(oad, strconv.Itoa(v))
	}
	m.mu.Unlock()
	return "oad=" + wirePrintSemi(oad) + " unclosed=" + strconv.Itoa(unclosed) + " left=" + strconv.Itoa(left)
}
