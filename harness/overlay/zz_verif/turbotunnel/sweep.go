//go:build verif

package main

// Real-clock observation of the sweeper of NewClientMap through the exported API.
//
//   turbotunnel sweep <T ms> expire <n>   n connections (staggered starts); a client is seen once;
//        its outgoing queue must be closed no earlier than T after it was last seen and
//        (nominally) by 1.5 T.  Answers per connection: <lower>:<upper> in microseconds, where
//        lower = (time closedness was observed) - (time just before last seen)  [>= T must hold]
//        upper = (last time the queue was observed open) - (time just after last seen) [< 1.5T + slack]
//   turbotunnel sweep <T ms> expireb <n>  as expire, while six goroutines write to other clients of the same connection and
//        fetch their queues without pause (the lock of the map is contended whenever the sweeper comes)
//   turbotunnel sweep <T ms> mass <n>     one connection, n clients seen at once and never again (see runSweepMass)
//   turbotunnel sweep <T ms> keep <n>     a client is seen every T/4 for 3T with one packet queued;
//        answers ok | replaced | lost | closed
//   turbotunnel sweep <T ms> keepw <n>    the queue is fetched ONCE (OutgoingQueue at t0); from then on the client is seen
//        only by being written to (WriteTo every T/8 for 2T, nobody fetches the queue: the client is between two carriers).
//        The queue handed out at t0 must still be the client's, open, and hold the accepted packets in order.
//        answers <verdict>:<largest time between two consecutive touches, us>:<packets found in order>/<written>
//        verdict = ok | closed | replaced | lost   (judged only when the largest gap stayed below the timeout)

import (
	"strconv"
	"strings"
	"sync"
	"time"

	"git.torproject.org/pluggable-transports/snowflake.git/v2/common/turbotunnel"
)

// runSweepMass: ONE connection, n clients seen at (nearly) the same moment and never again: all n records are
// expired at the same sweep.  Answer <lower>:<upper>:<n still open at upper> as for expire, over all clients
// (lower = the earliest observation of a closed queue - the instant before the first was seen; upper = the last
// time any queue was observed open - the instant after the last was seen), or never:<us>:<open>.
func runSweepMass(T time.Duration, n int) string {
	conn := turbotunnel.NewQueuePacketConn(vaddr(0), T)
	defer conn.Close()
	chs := make([]<-chan []byte, n)
	for i := range chs {
		conn.WriteTo([]byte{byte(i)}, vaddr(100+i)) // a tiny packet waits in every queue
	}
	// making n queues (48 KB each) takes a while; "seen at the same moment" = one more touch of all of them that
	// completes within T/10 (repeated until it does; a queue that expired meanwhile is simply made anew)
	var before, after time.Time
	for try := 0; try < 50; try++ {
		before = time.Now()
		for i := range chs {
			chs[i] = conn.OutgoingQueue(vaddr(100 + i))
		}
		after = time.Now()
		if after.Sub(before) < T/10 {
			break
		}
	}
	if after.Sub(before) >= T/10 {
		return "!slow-setup"
	}
	open := n
	done := make([]bool, n)
	lower := time.Duration(-1)
	lastOpen := after
	for {
		now := time.Now()
		for i, ch := range chs {
			if done[i] {
				continue
			}
			select {
			case _, ok := <-ch:
				if !ok {
					done[i] = true
					open--
					if lower < 0 {
						lower = now.Sub(before)
					}
				}
			default:
			}
		}
		if open == 0 {
			return strconv.FormatInt(lower.Microseconds(), 10) + ":" + strconv.FormatInt(lastOpen.Sub(after).Microseconds(), 10) + ":0"
		}
		lastOpen = now
		if now.Sub(after) > 4*T {
			return "never:" + strconv.FormatInt(now.Sub(after).Microseconds(), 10) + ":" + strconv.Itoa(open)
		}
		time.Sleep(T / 100)
	}
}

func runSweep(args []string) string {
	if len(args) < 3 {
		return "!badcase"
	}
	tms, _ := strconv.Atoi(args[0])
	n, _ := strconv.Atoi(args[2])
	T := time.Duration(tms) * time.Millisecond
	if args[1] == "mass" {
		return runSweepMass(T, n)
	}
	res := make([]string, n)
	var wg sync.WaitGroup
	for i := 0; i < n; i++ {
		wg.Add(1)
		go func(i int) {
			defer wg.Done()
			time.Sleep(time.Duration(i) * T / time.Duration(2*n+1))
			conn := turbotunnel.NewQueuePacketConn(vaddr(0), T)
			defer conn.Close()
			// start at different phases of the sweeper's period
			time.Sleep(time.Duration(i) * T / time.Duration(n+1))
			a := vaddr(7)
			switch args[1] {
			case "expire", "expireb":
				before := time.Now()
				ch := conn.OutgoingQueue(a)
				after := time.Now()
				if args[1] == "expireb" {
					// the map is busy: other clients are written to and their queues fetched without pause by several
					// goroutines, so that the sweeper finds the lock taken whenever it comes; it must wait for it, not
					// give the round up
					stop := make(chan struct{})
					defer close(stop)
					for w := 0; w < 6; w++ {
						go func(w int) {
							b := vaddr(200 + w)
							p := []byte{0x62, byte(w)}
							for {
								select {
								case <-stop:
									return
								default:
								}
								conn.WriteTo(p, b)
								conn.OutgoingQueue(b)
							}
						}(w)
					}
				}
				lastOpen := after
				for {
					now := time.Now()
					closed := false
					select {
					case _, ok := <-ch:
						closed = !ok
					default:
					}
					if closed {
						res[i] = strconv.FormatInt(now.Sub(before).Microseconds(), 10) + ":" + strconv.FormatInt(lastOpen.Sub(after).Microseconds(), 10)
						return
					}
					lastOpen = now
					if now.Sub(after) > 4*T {
						res[i] = "never:" + strconv.FormatInt(now.Sub(after).Microseconds(), 10)
						return
					}
					time.Sleep(T / 100)
				}
			case "keep":
				p := []byte{0x42, byte(i)}
				conn.WriteTo(p, a)
				scribble(p)
				ch := conn.OutgoingQueue(a)
				start := time.Now()
				for time.Since(start) < 3*T {
					time.Sleep(T / 4)
					if conn.OutgoingQueue(a) != ch {
						res[i] = "replaced"
						return
					}
				}
				select {
				case q, ok := <-ch:
					if !ok {
						res[i] = "closed"
					} else if len(q) == 2 && q[0] == 0x42 && q[1] == byte(i) {
						res[i] = "ok"
					} else {
						res[i] = "lost"
					}
				default:
					res[i] = "lost"
				}
			case "keepw":
				before := time.Now()
				ch := conn.OutgoingQueue(a)
				last := before // just before the latest touch began
				var maxgap time.Duration
				written := 0
				for time.Since(before) < 2*T && written < 1000 {
					time.Sleep(T / 8)
					p := []byte{0x57, byte(i), byte(written), byte(written >> 8)}
					t := time.Now()
					n, err := conn.WriteTo(p, a)
					done := time.Now()
					scribble(p)
					if err != nil || n != 4 {
						res[i] = "!writeto"
						return
					}
					if g := done.Sub(last); g > maxgap { // from before the previous touch to after this one
						maxgap = g
					}
					last = t
					written++
				}
				verdict, inorder := "ok", 0
			drain:
				for inorder < written {
					select {
					case q, ok := <-ch:
						if !ok {
							verdict = "closed"
							break drain
						}
						if len(q) != 4 || q[0] != 0x57 || q[1] != byte(i) || q[2] != byte(inorder) || q[3] != byte(inorder>>8) {
							verdict = "lost"
							break drain
						}
						inorder++
					default:
						verdict = "lost"
						break drain
					}
				}
				if verdict == "ok" {
					// the client's queue is still the one handed out at t0
					p := []byte{0x58}
					conn.WriteTo(p, a)
					select {
					case q, ok := <-ch:
						if !ok {
							verdict = "closed"
						} else if len(q) != 1 || q[0] != 0x58 {
							verdict = "lost"
						}
					default:
						verdict = "replaced"
					}
				}
				res[i] = verdict + ":" + strconv.FormatInt(maxgap.Microseconds(), 10) + ":" + strconv.Itoa(inorder) + "/" + strconv.Itoa(written)
			default:
				res[i] = "!badop"
			}
		}(i)
	}
	wg.Wait()
	return strings.Join(res, ",")
}
