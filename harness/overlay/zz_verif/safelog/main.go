//go:build verif

// Driver for common/safelog (black-box: exported Scrub and LogScrubber only).
//
//	scrub x<hex>                  -> hex(Scrub(b))
//	write <x..,x..,...>           -> o=<hex of everything that reached the sink> nl=<1 iff every sink Write ended with '\n'>
//	lwrite <pieces> <cuts>        -> long lines in a compact (replayable) encoding, implementation only: pieces is a comma
//	                                 list of x<hex> (literal bytes) and w<n>.<k> (n bytes of filler words, phase k:
//	                                 byte j is ' ' when (j+k)%7 == 6, otherwise 'g'+(j+k)%13); the concatenation is the
//	                                 stream; cuts is the ascending list of offsets where one Write ends and the next
//	                                 begins ("-" = a single Write). Result as for write.
//	conc <x..,x..;x..,x..;...>    -> concurrent writers (';' separates writers); every write is whole lines;
//	                                 result = the sink's lines, sorted, as hex (multiset of lines) + nl flag
package main

import (
	"net"
	"sort"
	"strconv"
	"strings"
	"sync"

	"git.torproject.org/pluggable-transports/snowflake.git/v2/common/safelog"
	"git.torproject.org/pluggable-transports/snowflake.git/v2/zz_verif/wire"
)

type sink struct {
	mu     sync.Mutex
	all    []byte
	nlOK   bool
	blocks int
}

func (s *sink) Write(p []byte) (int, error) {
	s.mu.Lock()
	defer s.mu.Unlock()
	s.blocks++
	if len(p) == 0 || p[len(p)-1] != '\n' {
		s.nlOK = false
	}
	s.all = append(s.all, p...)
	return len(p), nil
}

func flag(b bool) string {
	if b {
		return "1"
	}
	return "0"
}

func hexOrDash(b []byte) string {
	if len(b) == 0 {
		return "-"
	}
	return wire.Hex(b)
}

func payloads(t string) [][]byte {
	var out [][]byte
	for _, p := range wire.List(t) {
		b, err := wire.Payload(p)
		if err != nil {
			panic("badcase")
		}
		out = append(out, b)
	}
	return out
}

// filler: n bytes of lower-case words (letters g..s, never a hex digit, '.' or ':') separated by single spaces
func filler(n, k int) []byte {
	b := make([]byte, n)
	for j := range b {
		i := j + k
		if i%7 == 6 {
			b[j] = ' '
		} else {
			b[j] = byte('g' + i%13)
		}
	}
	return b
}

// stream of an lwrite case
func pieces(t string) ([]byte, bool) {
	var out []byte
	for _, p := range wire.List(t) {
		if strings.HasPrefix(p, "w") {
			nk := strings.Split(p[1:], ".")
			if len(nk) != 2 {
				return nil, false
			}
			n, err := strconv.Atoi(nk[0])
			k, err2 := strconv.Atoi(nk[1])
			if err != nil || err2 != nil || n < 0 || n > 1<<20 || k < 0 {
				return nil, false
			}
			out = append(out, filler(n, k)...)
			continue
		}
		b, err := wire.Payload(p)
		if err != nil {
			return nil, false
		}
		out = append(out, b...)
	}
	return out, true
}

// accepts: does Go's net package accept s as an IP address, optionally bracketed / with a port?
func accepts(s string) bool {
	if net.ParseIP(s) != nil {
		return true
	}
	if strings.HasPrefix(s, "[") && strings.HasSuffix(s, "]") {
		return strings.Contains(s, ":") && net.ParseIP(s[1:len(s)-1]) != nil
	}
	host, port, err := net.SplitHostPort(s)
	if err != nil || net.ParseIP(host) == nil {
		return false
	}
	if strings.Contains(host, ":") != strings.HasPrefix(s, "[") {
		return false
	}
	n, err := strconv.Atoi(port)
	return err == nil && n >= 0 && n <= 65535 && len(port) <= 5
}

func handle(args []string) string {
	if len(args) == 3 && args[0] == "prints" {
		// prints x<4 or 16 bytes> <port>: what net.IP.String and net.TCPAddr.String print
		b, err := wire.Payload(args[1])
		port, err2 := strconv.Atoi(args[2])
		if err != nil || err2 != nil || (len(b) != 4 && len(b) != 16) {
			return "!badcase"
		}
		ip := net.IP(b)
		return wire.Hex([]byte(ip.String())) + " " + wire.Hex([]byte((&net.TCPAddr{IP: ip, Port: port}).String()))
	}
	if len(args) == 3 && args[0] == "lwrite" {
		st, ok := pieces(args[1])
		if !ok {
			return "!badcase"
		}
		s := &sink{nlOK: true}
		ls := &safelog.LogScrubber{Output: s}
		prev := 0
		write := func(w []byte) bool {
			w = append([]byte(nil), w...) // the caller may reuse its slice after Write returns
			n, err := ls.Write(w)
			return err == nil && n == len(w)
		}
		for _, c := range wire.List(args[2]) {
			cut, err := strconv.Atoi(c)
			if err != nil || cut < prev || cut > len(st) {
				return "!badcase"
			}
			if !write(st[prev:cut]) {
				return "!writeerr"
			}
			prev = cut
		}
		if !write(st[prev:]) {
			return "!writeerr"
		}
		return "o=" + hexOrDash(s.all) + " nl=" + flag(s.nlOK)
	}
	if len(args) != 2 {
		return "!badcase"
	}
	switch args[0] {
	case "accepts":
		b, err := wire.Payload(args[1])
		if err != nil {
			return "!badcase"
		}
		return flag(accepts(string(b)))
	case "scrub":
		b, err := wire.Payload(args[1])
		if err != nil {
			return "!badcase"
		}
		in := append([]byte(nil), b...)
		return hexOrDash(safelog.Scrub(in))
	case "write":
		s := &sink{nlOK: true}
		ls := &safelog.LogScrubber{Output: s}
		for _, w := range payloads(args[1]) {
			n, err := ls.Write(w)
			if err != nil || n != len(w) {
				return "!writeerr"
			}
		}
		return "o=" + hexOrDash(s.all) + " nl=" + flag(s.nlOK)
	case "conc":
		s := &sink{nlOK: true}
		ls := &safelog.LogScrubber{Output: s}
		var wg sync.WaitGroup
		start := make(chan struct{})
		for _, wr := range strings.Split(args[1], ";") {
			ws := payloads(wr)
			wg.Add(1)
			go func() {
				defer wg.Done()
				<-start
				for _, w := range ws {
					ls.Write(w)
				}
			}()
		}
		close(start)
		wg.Wait()
		lines := strings.SplitAfter(string(s.all), "\n")
		sort.Strings(lines)
		return "o=" + hexOrDash([]byte(strings.Join(lines, ""))) + " nl=" + flag(s.nlOK)
	}
	return "!badcase"
}

func main() { wire.Loop(handle) }
