//go:build verif

// Driver for common/safelog (black-box: exported Scrub and LogScrubber only).
//
//	scrub x<hex>                  -> hex(Scrub(b))
//	write <x..,x..,...>           -> o=<hex of everything that reached the sink> nl=<1 iff every sink Write ended with '\n'>
//	                                 Every chunk is handed to Write in ONE scratch array that is overwritten after the call
//	                                 returns (io.Writer: "Write must not modify the slice data, even temporarily.
//	                                 Implementations must not retain p." - io.Copy, bufio.Writer and os/exec's copier refill
//	                                 one buffer for every chunk). The same chunks are also delivered to a second scrubber as
//	                                 fresh slices that are never touched again; only when that sink's content differs,
//	                                 " fresh=<hex> fnl=<b>" is appended, and " mod=1" when a Write changed the caller's array.
//	lwrite <pieces> <cuts>        -> long lines in a compact (replayable) encoding, implementation only: pieces is a comma
//	                                 list of x<hex> (literal bytes) and w<n>.<k> (n bytes of filler words, phase k:
//	                                 byte j is ' ' when (j+k)%7 == 6, otherwise 'g'+(j+k)%13); the concatenation is the
//	                                 stream; cuts is the ascending list of offsets where one Write ends and the next
//	                                 begins ("-" = a single Write). Result as for write.
//	conc <x..,x..;x..,x..;...>    -> concurrent writers (';' separates writers); every write is whole lines;
//	                                 result = the sink's lines, sorted, as hex (multiset of lines) + nl flag
//	event <shape> <x<ip text>,...(4)> <port,...(4)> <zone|->
//	                              -> e=<hex of err.Error()> o=<hex> b=<hex> f=<hex>: an error chain of the kinds Go's
//	                                 net, net/url and net/http produce (see mkErr), built from the four addresses, and the
//	                                 String() of the three events of common/event that carry an error
//	                                 (EventOnOfferCreated, EventOnBrokerRendezvous, EventOnSnowflakeConnectionFailed)
//	evstr <offer|broker|failed> x<hex text> -> hex of the event's String() for errors.New(text) (model op of the same name)
package main

import (
	"bytes"
	"errors"
	"fmt"
	"io"
	"net"
	"net/url"
	"os"
	"sort"
	"strconv"
	"strings"
	"sync"
	"syscall"

	"git.torproject.org/pluggable-transports/snowflake.git/v2/common/event"
	"git.torproject.org/pluggable-transports/snowflake.git/v2/common/safelog"
	"git.torproject.org/pluggable-transports/snowflake.git/v2/zz_verif/wire"
)

// NSHAPES error chains; ip[k], port[k] are the four addresses of the case, zone a zone identifier or ""
const NSHAPES = 16

func mkErr(shape int, ip []net.IP, port []int, zone string) error {
	tcp := func(k int) *net.TCPAddr { return &net.TCPAddr{IP: ip[k], Port: port[k]} }
	udp := func(k int) *net.UDPAddr { return &net.UDPAddr{IP: ip[k], Port: port[k]} }
	refused := os.NewSyscallError("connect", syscall.ECONNREFUSED)
	switch shape {
	case 0: // dial tcp A: connect: connection refused
		return &net.OpError{Op: "dial", Net: "tcp", Addr: tcp(0), Err: refused}
	case 1: // read udp A->B: i/o timeout
		return &net.OpError{Op: "read", Net: "udp", Source: udp(0), Addr: udp(1), Err: os.ErrDeadlineExceeded}
	case 2: // dial tcp: lookup name on A: no such host
		return &net.OpError{Op: "dial", Net: "tcp", Err: &net.DNSError{Err: "no such host", Name: "snowflake-broker.example", Server: udp(0).String(), IsNotFound: true}}
	case 3: // address A: missing port in address
		return &net.AddrError{Err: "missing port in address", Addr: ip[0].String()}
	case 4:
		return &net.OpError{Op: "dial", Net: "udp", Source: udp(1), Addr: udp(2), Err: &net.AddrError{Err: "mismatched local address type", Addr: ip[0].String()}}
	case 5: // Get "https://A/proxy?x=1": dial tcp B: connect: connection refused
		return &url.Error{Op: "Get", URL: "https://" + tcp(0).String() + "/proxy?x=1", Err: &net.OpError{Op: "dial", Net: "tcp", Addr: tcp(1), Err: refused}}
	case 6:
		return fmt.Errorf("broker rendezvous: %w (last tried %v)", &net.OpError{Op: "read", Net: "udp", Source: udp(0), Addr: udp(1), Err: os.ErrDeadlineExceeded}, tcp(2))
	case 7: // write udp A->B: read udp C->D: connection reset by peer
		return &net.OpError{Op: "write", Net: "udp", Source: udp(0), Addr: udp(1), Err: &net.OpError{Op: "read", Net: "udp", Source: udp(2), Addr: udp(3), Err: syscall.ECONNRESET}}
	case 8: // lookup A on B: i/o timeout
		return &net.DNSError{Err: "i/o timeout", Name: ip[0].String(), Server: tcp(1).String(), IsTimeout: true}
	case 9:
		return &net.ParseError{Type: "IP address", Text: tcp(0).String()}
	case 10: // Post "http://A/": read tcp B->A: unexpected EOF
		return &url.Error{Op: "Post", URL: "http://" + tcp(0).String() + "/", Err: &net.OpError{Op: "read", Net: "tcp", Source: tcp(1), Addr: tcp(0), Err: io.ErrUnexpectedEOF}}
	case 11: // two errors, one per line
		return errors.Join(&net.OpError{Op: "dial", Net: "tcp", Addr: tcp(0), Err: refused}, &net.AddrError{Err: "missing port in address", Addr: ip[1].String()})
	case 12: // accept ip A%zone: ...
		return &net.OpError{Op: "accept", Net: "ip", Addr: &net.IPAddr{IP: ip[0], Zone: zone}, Err: errors.New("too many open files")}
	case 13:
		return errors.New("timeout waiting for " + ip[0].String() + ", " + ip[1].String() + " and " + tcp(2).String())
	case 14: // dial tcp [A%zone]:port: ...
		return &net.OpError{Op: "dial", Net: "tcp", Source: tcp(1), Addr: &net.TCPAddr{IP: ip[0], Port: port[0], Zone: zone}, Err: &net.DNSError{Err: "server misbehaving", Name: "relay.example", Server: udp(2).String(), IsTemporary: true}}
	case 15: // the wrapped error after text that ends with a dotted number
		return fmt.Errorf("pion v3.1.%w", &net.OpError{Op: "write", Net: "udp", Source: udp(0), Addr: udp(1), Err: &url.Error{Op: "Get", URL: "http://" + tcp(2).String(), Err: &net.DNSError{Err: "no such host", Name: ip[3].String(), Server: udp(3).String()}}})
	}
	return nil
}

func eventStrings(err error) (string, string, string) {
	return event.EventOnOfferCreated{Error: err}.String(),
		event.EventOnBrokerRendezvous{Error: err}.String(),
		event.EventOnSnowflakeConnectionFailed{Error: err}.String()
}

type sink struct {
	mu     sync.Mutex
	all    []byte
	nlOK   bool
	blocks int
}

func (s *sink) Write(p []byte) (int, error) {
	s.mu.Lock()
	defer s.mu.Unlock()
	s.blocks++
	if len(p) == 0 || p[len(p)-1] != '\n' {
		s.nlOK = false
	}
	s.all = append(s.all, p...)
	return len(p), nil
}

// failOnceSink: the first Write takes k bytes (at most) and fails; later Writes succeed and are recorded in after
type failOnceSink struct {
	k      int
	failed bool
	after  []byte
}

func (s *failOnceSink) Write(p []byte) (int, error) {
	if !s.failed {
		s.failed = true
		n := s.k
		if n > len(p) {
			n = len(p)
		}
		return n, errors.New("no space left on device")
	}
	s.after = append(s.after, p...)
	return len(p), nil
}

// POISON is what the caller's array holds outside the chunk and, after Write has returned, everywhere ('7': a word
// character, a decimal and a hex digit - bytes read back from a retained slice glue to an address that follows)
const POISON = '7'

func fill(b []byte) {
	for i := range b {
		b[i] = POISON
	}
}

// caller owns one scratch array for all its Writes
type caller struct {
	scratch  []byte
	modified bool
}

func newCaller(maxChunk int) *caller {
	c := &caller{scratch: make([]byte, maxChunk+16)}
	fill(c.scratch)
	return c
}

// write hands w to ls.Write in the scratch array, checks that the array is as it was, then overwrites it
func (c *caller) write(ls *safelog.LogScrubber, w []byte) bool {
	if len(w) > len(c.scratch)-16 {
		c.scratch = make([]byte, len(w)+16)
		fill(c.scratch)
	}
	n := copy(c.scratch, w)
	m, err := ls.Write(c.scratch[:n])
	if !bytes.Equal(c.scratch[:n], w) {
		c.modified = true
	}
	for _, x := range c.scratch[n:] {
		if x != POISON {
			c.modified = true
		}
	}
	fill(c.scratch)
	return err == nil && m == n
}

// deliver: chunks through one scratch array (judged) and as fresh, untouched slices (reference)
func deliver(chunks [][]byte) string {
	max := 0
	for _, w := range chunks {
		if len(w) > max {
			max = len(w)
		}
	}
	s := &sink{nlOK: true}
	ls := &safelog.LogScrubber{Output: s}
	c := newCaller(max)
	for _, w := range chunks {
		if !c.write(ls, w) {
			return "!writeerr"
		}
	}
	f := &sink{nlOK: true}
	lf := &safelog.LogScrubber{Output: f}
	for _, w := range chunks {
		w = append([]byte(nil), w...)
		if n, err := lf.Write(w); err != nil || n != len(w) {
			return "!writeerr"
		}
	}
	res := "o=" + hexOrDash(s.all) + " nl=" + flag(s.nlOK)
	if !bytes.Equal(s.all, f.all) || s.nlOK != f.nlOK {
		res += " fresh=" + hexOrDash(f.all) + " fnl=" + flag(f.nlOK)
	}
	if c.modified {
		res += " mod=1"
	}
	return res
}

func flag(b bool) string {
	if b {
		return "1"
	}
	return "0"
}

func hexOrDash(b []byte) string {
	if len(b) == 0 {
		return "-"
	}
	return wire.Hex(b)
}

func payloads(t string) [][]byte {
	var out [][]byte
	for _, p := range wire.List(t) {
		b, err := wire.Payload(p)
		if err != nil {
			panic("badcase")
		}
		out = append(out, b)
	}
	return out
}

// filler: n bytes of lower-case words (letters g..s, never a hex digit, '.' or ':') separated by single spaces
func filler(n, k int) []byte {
	b := make([]byte, n)
	for j := range b {
		i := j + k
		if i%7 == 6 {
			b[j] = ' '
		} else {
			b[j] = byte('g' + i%13)
		}
	}
	return b
}

// stream of an lwrite case
func pieces(t string) ([]byte, bool) {
	var out []byte
	for _, p := range wire.List(t) {
		if strings.HasPrefix(p, "w") {
			nk := strings.Split(p[1:], ".")
			if len(nk) != 2 {
				return nil, false
			}
			n, err := strconv.Atoi(nk[0])
			k, err2 := strconv.Atoi(nk[1])
			if err != nil || err2 != nil || n < 0 || n > 1<<20 || k < 0 {
				return nil, false
			}
			out = append(out, filler(n, k)...)
			continue
		}
		b, err := wire.Payload(p)
		if err != nil {
			return nil, false
		}
		out = append(out, b...)
	}
	return out, true
}

// accepts: does Go's net package accept s as an IP address, optionally bracketed / with a port?
func accepts(s string) bool {
	if net.ParseIP(s) != nil {
		return true
	}
	if strings.HasPrefix(s, "[") && strings.HasSuffix(s, "]") {
		return strings.Contains(s, ":") && net.ParseIP(s[1:len(s)-1]) != nil
	}
	host, port, err := net.SplitHostPort(s)
	if err != nil || net.ParseIP(host) == nil {
		return false
	}
	if strings.Contains(host, ":") != strings.HasPrefix(s, "[") {
		return false
	}
	n, err := strconv.Atoi(port)
	return err == nil && n >= 0 && n <= 65535 && len(port) <= 5
}

func handleEvent(args []string) string {
	shape, err := strconv.Atoi(args[1])
	if err != nil || shape < 0 || shape >= NSHAPES {
		return "!badcase"
	}
	var ips []net.IP
	for _, b := range payloads(args[2]) {
		ip := net.ParseIP(string(b))
		if ip == nil {
			return "!badcase"
		}
		if v4 := ip.To4(); v4 != nil && !strings.Contains(string(b), ":") {
			ip = v4
		}
		ips = append(ips, ip)
	}
	var ports []int
	for _, p := range wire.List(args[3]) {
		n, err := strconv.Atoi(p)
		if err != nil {
			return "!badcase"
		}
		ports = append(ports, n)
	}
	if len(ips) != 4 || len(ports) != 4 {
		return "!badcase"
	}
	zone := args[4]
	if zone == "-" {
		zone = ""
	}
	e := mkErr(shape, ips, ports, zone)
	o, b, f := eventStrings(e)
	return "e=" + hexOrDash([]byte(e.Error())) + " o=" + hexOrDash([]byte(o)) + " b=" + hexOrDash([]byte(b)) + " f=" + hexOrDash([]byte(f))
}

func handle(args []string) string {
	if len(args) == 5 && args[0] == "event" {
		return handleEvent(args)
	}
	if len(args) == 3 && args[0] == "evstr" {
		b, err := wire.Payload(args[2])
		if err != nil {
			return "!badcase"
		}
		o, br, f := eventStrings(errors.New(string(b)))
		switch args[1] {
		case "offer":
			return hexOrDash([]byte(o))
		case "broker":
			return hexOrDash([]byte(br))
		case "failed":
			return hexOrDash([]byte(f))
		}
		return "!badcase"
	}
	if len(args) == 3 && args[0] == "prints" {
		// prints x<4 or 16 bytes> <port>: what net.IP.String and net.TCPAddr.String print
		b, err := wire.Payload(args[1])
		port, err2 := strconv.Atoi(args[2])
		if err != nil || err2 != nil || (len(b) != 4 && len(b) != 16) {
			return "!badcase"
		}
		ip := net.IP(b)
		return wire.Hex([]byte(ip.String())) + " " + wire.Hex([]byte((&net.TCPAddr{IP: ip, Port: port}).String()))
	}
	if len(args) == 3 && args[0] == "lwrite" {
		st, ok := pieces(args[1])
		if !ok {
			return "!badcase"
		}
		var chunks [][]byte
		prev := 0
		for _, c := range wire.List(args[2]) {
			cut, err := strconv.Atoi(c)
			if err != nil || cut < prev || cut > len(st) {
				return "!badcase"
			}
			chunks = append(chunks, st[prev:cut])
			prev = cut
		}
		chunks = append(chunks, st[prev:])
		return deliver(chunks)
	}
	if len(args) == 3 && args[0] == "writef" {
		return handleWriteF(args)
	}
	if len(args) != 2 {
		return "!badcase"
	}
	switch args[0] {
	case "accepts":
		b, err := wire.Payload(args[1])
		if err != nil {
			return "!badcase"
		}
		return flag(accepts(string(b)))
	case "scrub":
		b, err := wire.Payload(args[1])
		if err != nil {
			return "!badcase"
		}
		in := append([]byte(nil), b...)
		return hexOrDash(safelog.Scrub(in))
	case "write":
		return deliver(payloads(args[1]))

	case "conc":
		s := &sink{nlOK: true}
		ls := &safelog.LogScrubber{Output: s}
		var wg sync.WaitGroup
		var callers []*caller
		mod := ""
		start := make(chan struct{})
		for _, wr := range strings.Split(args[1], ";") {
			ws := payloads(wr)
			c := newCaller(0)
			callers = append(callers, c)
			wg.Add(1)
			go func() {
				defer wg.Done()
				<-start
				for _, w := range ws {
					c.write(ls, w)
				}
			}()
		}
		close(start)
		wg.Wait()
		for _, c := range callers {
			if c.modified {
				mod = " mod=1"
			}
		}
		lines := strings.SplitAfter(string(s.all), "\n")
		sort.Strings(lines)
		return "o=" + hexOrDash([]byte(strings.Join(lines, ""))) + " nl=" + flag(s.nlOK) + mod
	}
	return "!badcase"
}

// handleWriteF: writef <k> <chunks>
func handleWriteF(args []string) string {
	// writef <k> <chunks>: a sink whose FIRST call takes k bytes and then fails (disk full, closed pipe), and which works
	// again afterwards.  Whatever the scrubber hands to the sink after the failure must still be whole scrubbed lines:
	// every line that reaches the sink then is the scrubbed form of a complete line of the input (repeats allowed).
	k, err := strconv.Atoi(args[1])
	if err != nil {
		return "!badcase"
	}
	chunks := payloads(args[2])
	var all []byte
	for _, w := range chunks {
		all = append(all, w...)
	}
	ref := map[string]bool{}
	for _, l := range strings.SplitAfter(string(safelog.Scrub(append([]byte(nil), all...))), "\n") {
		ref[l] = true
	}
	fs := &failOnceSink{k: k}
	ls := &safelog.LogScrubber{Output: fs}
	for _, w := range chunks {
		ls.Write(append([]byte(nil), w...))
	}
	if !fs.failed {
		return "nofail"
	}
	for _, l := range strings.SplitAfter(string(fs.after), "\n") {
		if l == "" {
			continue
		}
		if !strings.HasSuffix(l, "\n") {
			return "partial-unterminated x" + wire.Hex([]byte(l))
		}
		if !ref[l] {
			return "partial x" + wire.Hex([]byte(l))
		}
	}
	return "ok"
}

func main() { wire.Loop(handle) }
