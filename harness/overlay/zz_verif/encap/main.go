//go:build verif

// Driver for common/encapsulation (black-box, exported API only).
package main

import (
	"bytes"
	"io"
	"strconv"
	"strings"

	"git.torproject.org/pluggable-transports/snowflake.git/v2/common/encapsulation"
	"git.torproject.org/pluggable-transports/snowflake.git/v2/zz_verif/wire"
)

type entry struct {
	m   int
	eof bool
}

// scriptReader is an io.Reader whose fragmentation follows a script (see coq/Model/Encap.v).
type scriptReader struct {
	rem    []byte
	script []entry
	maxReq int
}

func (r *scriptReader) Read(p []byte) (int, error) {
	if len(p) > r.maxReq {
		r.maxReq = len(p)
	}
	if len(p) == 0 {
		return 0, nil
	}
	if len(r.rem) == 0 {
		if len(r.script) > 0 {
			r.script = r.script[1:]
		}
		return 0, io.EOF
	}
	if len(r.script) == 0 {
		n := copy(p, r.rem)
		r.rem = r.rem[n:]
		return n, nil
	}
	e := r.script[0]
	r.script = r.script[1:]
	k := e.m
	if k > len(p) {
		k = len(p)
	}
	n := copy(p[:k], r.rem)
	r.rem = r.rem[n:]
	if len(r.rem) == 0 && e.eof && n > 0 {
		return n, io.EOF
	}
	return n, nil
}

func parseScript(t string) []entry {
	var s []entry
	for _, x := range wire.List(t) {
		e := entry{}
		if strings.HasSuffix(x, "E") {
			e.eof = true
			x = x[:len(x)-1]
		}
		m, err := strconv.Atoi(x)
		if err != nil {
			panic(err)
		}
		e.m = m
		s = append(s, e)
	}
	return s
}

func encodeItems(t string) ([]byte, bool) {
	var buf bytes.Buffer
	for _, it := range wire.List(t) {
		switch it[0] {
		case 'd':
			d, err := wire.Payload(it[1:])
			if err != nil {
				panic(err)
			}
			n, err := encapsulation.WriteData(&buf, d)
			if err == encapsulation.ErrTooLong {
				return nil, false
			}
			if err != nil {
				panic(err)
			}
			_ = n
		case 'p':
			n, err := strconv.Atoi(it[1:])
			if err != nil {
				panic(err)
			}
			k, err := encapsulation.WritePadding(&buf, n)
			if err != nil {
				panic(err)
			}
			if k != n {
				return []byte("padding count mismatch"), true
			}
		}
	}
	return buf.Bytes(), true
}

func errClass(err error) string {
	switch err {
	case io.EOF:
		return "eof"
	case io.ErrUnexpectedEOF:
		return "ueof"
	case encapsulation.ErrTooLong:
		return "toolong"
	}
	return "other:" + err.Error()
}

func readAll(s []byte, script []entry) string {
	r := &scriptReader{rem: s, script: script}
	var chunks []string
	var err error
	for {
		var p []byte
		p, err = encapsulation.ReadData(r)
		if err != nil {
			break
		}
		chunks = append(chunks, "x"+wire.Hex(p))
	}
	return "chunks=" + wire.PrintList(chunks) + " err=" + errClass(err)
}

func main() {
	wire.Loop(func(a []string) string {
		switch a[0] {
		case "enc":
			b, ok := encodeItems(a[1])
			if !ok {
				return "E:toolong"
			}
			return wire.Hex(b)
		case "pad":
			n, _ := strconv.Atoi(a[1])
			var buf bytes.Buffer
			encapsulation.WritePadding(&buf, n)
			return wire.Hex(buf.Bytes())
		case "max":
			n, _ := strconv.Atoi(a[1])
			return strconv.Itoa(encapsulation.MaxDataForSize(n))
		case "prefix":
			n, _ := strconv.Atoi(a[1])
			var buf bytes.Buffer
			t, err := encapsulation.WriteData(&buf, make([]byte, n))
			if err == encapsulation.ErrTooLong {
				return "E:toolong"
			}
			return wire.Hex(buf.Bytes()[:t-n])
		case "budget":
			n, _ := strconv.Atoi(a[1])
			m := encapsulation.MaxDataForSize(n)
			var buf bytes.Buffer
			t, err := encapsulation.WriteData(&buf, make([]byte, m))
			if err == encapsulation.ErrTooLong {
				return "E:toolong"
			}
			if t != buf.Len() {
				return "!count-mismatch"
			}
			return strconv.Itoa(m) + " " + strconv.Itoa(t)
		case "dec":
			s, err := wire.Payload(a[1])
			if err != nil {
				panic(err)
			}
			return readAll(s, parseScript(a[2]))
		case "rt":
			b, ok := encodeItems(a[1])
			if !ok {
				return "E:toolong"
			}
			return readAll(b, parseScript(a[2]))
		}
		return "!badcase"
	})
}
