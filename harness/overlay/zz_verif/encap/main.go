//go:build verif

// Driver for common/encapsulation (black-box, exported API only).
package main

import (
	"errors"
	"runtime"
	"bytes"
	"io"
	"strconv"
	"strings"

	"git.torproject.org/pluggable-transports/snowflake.git/v2/common/encapsulation"
	"git.torproject.org/pluggable-transports/snowflake.git/v2/zz_verif/wire"
)

type entry struct {
	m   int
	eof bool
}

// scriptReader is an io.Reader whose fragmentation follows a script (see coq/Model/Encap.v).
type scriptReader struct {
	rem    []byte
	script []entry
	maxReq int
	fail   error // when set, returned in place of io.EOF
}

var errBoom = errors.New("boom")

func (r *scriptReader) end() error {
	if r.fail != nil {
		return r.fail
	}
	return io.EOF
}

func (r *scriptReader) Read(p []byte) (int, error) {
	if len(p) > r.maxReq {
		r.maxReq = len(p)
	}
	if len(p) == 0 {
		return 0, nil
	}
	if len(r.rem) == 0 {
		if len(r.script) > 0 {
			r.script = r.script[1:]
		}
		return 0, r.end()
	}
	if len(r.script) == 0 {
		n := copy(p, r.rem)
		r.rem = r.rem[n:]
		return n, nil
	}
	e := r.script[0]
	r.script = r.script[1:]
	k := e.m
	if k > len(p) {
		k = len(p)
	}
	n := copy(p[:k], r.rem)
	r.rem = r.rem[n:]
	if len(r.rem) == 0 && e.eof && n > 0 {
		return n, r.end()
	}
	return n, nil
}

func parseScript(t string) []entry {
	var s []entry
	for _, x := range wire.List(t) {
		e := entry{}
		if strings.HasSuffix(x, "E") {
			e.eof = true
			x = x[:len(x)-1]
		}
		m, err := strconv.Atoi(x)
		if err != nil {
			panic(err)
		}
		e.m = m
		s = append(s, e)
	}
	return s
}

func encodeItems(t string) ([]byte, bool) {
	var buf bytes.Buffer
	for _, it := range wire.List(t) {
		switch it[0] {
		case 'd':
			d, err := wire.Payload(it[1:])
			if err != nil {
				panic(err)
			}
			n, err := encapsulation.WriteData(&buf, d)
			if err == encapsulation.ErrTooLong {
				return nil, false
			}
			if err != nil {
				panic(err)
			}
			_ = n
		case 'p':
			n, err := strconv.Atoi(it[1:])
			if err != nil {
				panic(err)
			}
			k, err := encapsulation.WritePadding(&buf, n)
			if err != nil {
				panic(err)
			}
			if k != n {
				return []byte("padding count mismatch"), true
			}
		}
	}
	return buf.Bytes(), true
}

func errClass(err error) string {
	switch err {
	case errBoom:
		return "io"
	case io.EOF:
		return "eof"
	case io.ErrUnexpectedEOF:
		return "ueof"
	case encapsulation.ErrTooLong:
		return "toolong"
	}
	return "other:" + err.Error()
}

func readAll(s []byte, script []entry) string { return readAllFrom(&scriptReader{rem: s, script: script}) }

func readAllFrom(r *scriptReader) string {
	var chunks []string
	var err error
	for {
		var p []byte
		p, err = encapsulation.ReadData(r)
		if err != nil {
			break
		}
		chunks = append(chunks, "x"+wire.Hex(p))
	}
	return "chunks=" + wire.PrintList(chunks) + " err=" + errClass(err)
}

// readAllAlloc is readAll with the bytes allocated by each ReadData call measured (TotalAlloc is monotone and
// not affected by collections; this process runs one goroutine). A call may allocate the chunk it announces
// plus a small constant; "over" counts the calls that allocated more than that.
func readAllAlloc(s []byte, script []entry) string {
	r := &scriptReader{rem: s, script: script}
	var chunks [][]byte
	var err error
	over, worst := 0, int64(0)
	var m0, m1 runtime.MemStats
	const slack = 64 << 10
	for {
		var p []byte
		runtime.ReadMemStats(&m0)
		p, err = encapsulation.ReadData(r)
		runtime.ReadMemStats(&m1)
		d := int64(m1.TotalAlloc - m0.TotalAlloc)
		bound := int64(len(p)) + slack
		if err != nil && err != io.EOF {
			bound = 1<<20 + slack // the largest announcement a three-byte prefix can make
		}
		if d > bound {
			over++
			if d-bound > worst {
				worst = d - bound
			}
		}
		if err != nil {
			break
		}
		chunks = append(chunks, p)
	}
	cs := make([]string, len(chunks))
	for i, c := range chunks {
		cs[i] = "x" + wire.Hex(c)
	}
	res := "chunks=" + wire.PrintList(cs) + " err=" + errClass(err) + " over=" + strconv.Itoa(over)
	if over > 0 {
		res += " worst=" + strconv.FormatInt(worst, 10)
	}
	return res
}

func main() {
	wire.Loop(func(a []string) string {
		switch a[0] {
		case "alloc":
			b, ok := encodeItems(a[1])
			if !ok {
				return "E:toolong"
			}
			return readAllAlloc(b, parseScript(a[2]))
		case "allocd":
			s, err := wire.Payload(a[1])
			if err != nil {
				panic(err)
			}
			return readAllAlloc(s, parseScript(a[2]))
		case "enc":
			b, ok := encodeItems(a[1])
			if !ok {
				return "E:toolong"
			}
			return wire.Hex(b)
		case "pad":
			// projected observables of WritePadding(n): the bytes it puts on the stream (count only: the property
			// leaves chunking and fill bytes free), the count it returns, and what ReadData makes of them
			// (padding must be invisible: no chunk, clean EOF)
			n, _ := strconv.Atoi(a[1])
			var buf bytes.Buffer
			k, err := encapsulation.WritePadding(&buf, n)
			if err != nil {
				return "!padding-error " + err.Error()
			}
			script := []entry(nil)
			if len(a) > 2 {
				script = parseScript(a[2])
			}
			return "len=" + strconv.Itoa(buf.Len()) + " ret=" + strconv.Itoa(k) + " " + readAll(buf.Bytes(), script)
		case "max":
			n, _ := strconv.Atoi(a[1])
			return strconv.Itoa(encapsulation.MaxDataForSize(n))
		case "prefix":
			n, _ := strconv.Atoi(a[1])
			var buf bytes.Buffer
			t, err := encapsulation.WriteData(&buf, make([]byte, n))
			if err == encapsulation.ErrTooLong {
				return "E:toolong"
			}
			return wire.Hex(buf.Bytes()[:t-n])
		case "budget":
			n, _ := strconv.Atoi(a[1])
			m := encapsulation.MaxDataForSize(n)
			var buf bytes.Buffer
			t, err := encapsulation.WriteData(&buf, make([]byte, m))
			if err == encapsulation.ErrTooLong {
				return "E:toolong"
			}
			if t != buf.Len() {
				return "!count-mismatch"
			}
			return strconv.Itoa(m) + " " + strconv.Itoa(t)
		case "dec":
			s, err := wire.Payload(a[1])
			if err != nil {
				panic(err)
			}
			return readAll(s, parseScript(a[2]))
		case "decx":
			s, err := wire.Payload(a[1])
			if err != nil {
				panic(err)
			}
			return readAllFrom(&scriptReader{rem: s, script: parseScript(a[2]), fail: errBoom})
		case "rt":
			b, ok := encodeItems(a[1])
			if !ok {
				return "E:toolong"
			}
			return readAll(b, parseScript(a[2]))
		}
		return "!badcase"
	})
}
