//go:build verif

// C19 black-box driver for the distinct-IP journal (exported API of common/ipsetsink and
// common/ipsetsink/sinkcluster).
//
//	metrics jwin <from> <to> <start:end:ip.ip...;...>   hand-built journal (real sketches, chosen timestamps)
//	metrics jwrite <k> <a<tick>.<ip>,f<tick>,...>        real ClusterWriter driven in real time on a tick grid
//	metrics jkey <k1>.<k2> <ip.ip...>                    what a chunk stores: the sketch of HMAC-SHA3-256(key, address), nothing else
//	metrics jbig <n>                                     three chunks of 5, n, 7 addresses read back over the whole span
//	metrics jwf <k> <plan> <a<tick>.<ip>,f<tick>,...>    jwrite against a sink whose i-th Write call behaves as plan[i]:
//	                                                     o ok, s ok but Sync fails, n error with nothing written, t error after half
//	                                                     the line, l error after all but the newline, w whole line written and error
package main

import (
	"bytes"
	"crypto/hmac"
	"encoding/binary"
	"encoding/json"
	"errors"
	"fmt"
	"hash"
	"strconv"
	"strings"
	"time"

	"git.torproject.org/pluggable-transports/snowflake.git/v2/common/ipsetsink"
	"git.torproject.org/pluggable-transports/snowflake.git/v2/common/ipsetsink/sinkcluster"
	"git.torproject.org/pluggable-transports/snowflake.git/v2/zz_verif/wire"
	"github.com/clarkduvall/hyperloglog"
	"golang.org/x/crypto/sha3"
)

var epoch = time.Date(2022, 5, 30, 14, 0, 0, 0, time.UTC)

func ipString(n string) string {
	v, _ := strconv.Atoi(n)
	return fmt.Sprintf("10.%d.%d.%d", (v>>16)&255, (v>>8)&255, v&255)
}

type syncBuf struct{ bytes.Buffer }

func (s *syncBuf) Sync() error { return nil }

func jwin(args []string) string {
	from, e1 := strconv.ParseInt(args[0], 10, 64)
	to, e2 := strconv.ParseInt(args[1], 10, 64)
	if e1 != nil || e2 != nil {
		return "!badcase"
	}
	var journal bytes.Buffer
	if args[2] != "-" {
		for _, c := range strings.Split(args[2], ";") {
			f := strings.Split(c, ":")
			if len(f) != 3 {
				return "!badcase"
			}
			s, e1 := strconv.ParseInt(f[0], 10, 64)
			e, e2 := strconv.ParseInt(f[1], 10, 64)
			if e1 != nil || e2 != nil {
				return "!badcase"
			}
			sink := ipsetsink.NewIPSetSink("verif-key")
			if f[2] != "-" {
				for _, ip := range strings.Split(f[2], ".") {
					sink.AddIPToSet(ipString(ip))
				}
			}
			data, err := sink.Dump()
			if err != nil {
				return "!dump " + err.Error()
			}
			// one time unit of the case = 1 ns, so that adjacent instants are really adjacent
			line, err := json.Marshal(sinkcluster.SinkEntry{RecordingStart: epoch.Add(time.Duration(s)), RecordingEnd: epoch.Add(time.Duration(e)), Recorded: data})
			if err != nil {
				return "!marshal " + err.Error()
			}
			journal.Write(line)
			journal.WriteByte('\n')
		}
	}
	res, err := sinkcluster.NewClusterCounter(epoch.Add(time.Duration(from)), epoch.Add(time.Duration(to))).Count(&journal)
	if err != nil {
		return "!count " + err.Error()
	}
	return fmt.Sprintf("sum=%d chunks=%d", res.Sum, res.ChunkIncluded)
}

// failSink is a WriteSyncer over a buffer whose successive Write calls behave as the plan says.
type failSink struct {
	buf      bytes.Buffer
	plan     string
	n        int
	syncFail bool
}

var errSink = errors.New("verif: sink failure")

func (s *failSink) Write(p []byte) (int, error) {
	mode := byte('o')
	if s.n < len(s.plan) {
		mode = s.plan[s.n]
	}
	s.n++
	switch mode {
	case 'n':
		return 0, errSink
	case 't':
		k := len(p) / 2
		s.buf.Write(p[:k])
		return k, errSink
	case 'l':
		s.buf.Write(p[:len(p)-1])
		return len(p) - 1, errSink
	case 'w':
		s.buf.Write(p)
		return len(p), errSink
	}
	s.syncFail = mode == 's'
	return s.buf.Write(p)
}

func (s *failSink) Sync() error {
	if s.syncFail {
		s.syncFail = false
		return errSink
	}
	return nil
}

// fileLines: the journal as the reader's line scanner sees it (an unterminated rest is a last line)
func fileLines(text string) []string {
	parts := strings.Split(text, "\n")
	if len(parts) > 0 && parts[len(parts)-1] == "" {
		parts = parts[:len(parts)-1]
	}
	return parts
}

// one attempt of jwf on a grid of the given tick; ok=false when an operation left its time slot
func jwfOnce(k int64, plan string, ops []wop, tick time.Duration) (string, bool) {
	out := &failSink{plan: plan}
	sink := ipsetsink.NewIPSetSink("verif-key")
	t0 := time.Now()
	w := sinkcluster.NewClusterWriter(out, time.Duration(k)*tick+tick/2, sink)
	if time.Since(t0) >= tick/4 {
		return "", false
	}
	var last int64
	for _, o := range ops {
		at := t0.Add(time.Duration(o.tick) * tick)
		if !time.Now().Before(at) {
			return "", false
		}
		spinUntil(at)
		if o.ip == "" {
			w.WriteIPSetToDisk()
		} else {
			w.AddIPToSet(o.ip)
		}
		if time.Now().Sub(at) >= tick/4 {
			return "", false
		}
		last = o.tick
	}
	text := out.buf.String()
	var lines []string
	for _, line := range fileLines(text) {
		var e sinkcluster.SinkEntry
		if err := json.Unmarshal([]byte(line), &e); err != nil {
			lines = append(lines, "x")
			continue
		}
		r, err := sinkcluster.NewClusterCounter(e.RecordingStart, e.RecordingEnd).Count(bytes.NewBufferString(line + "\n"))
		if err != nil {
			lines = append(lines, "x")
			continue
		}
		lines = append(lines, fmt.Sprintf("%d:%d:%d", int64(e.RecordingStart.Sub(t0)/tick), int64(e.RecordingEnd.Sub(t0)/tick), r.Sum))
	}
	ls := "-"
	if len(lines) > 0 {
		ls = strings.Join(lines, ";")
	}
	all, err := sinkcluster.NewClusterCounter(t0.Add(-tick), t0.Add(time.Duration(last+1)*tick)).Count(strings.NewReader(text))
	if err != nil {
		return fmt.Sprintf("lines=%s all=err", ls), true
	}
	return fmt.Sprintf("lines=%s all=%d", ls, all.Sum), true
}

func parseWops(list string) ([]wop, bool) {
	var ops []wop
	for _, t := range wire.List(list) {
		if len(t) < 2 {
			return nil, false
		}
		if t[0] == 'f' {
			n, err := strconv.ParseInt(t[1:], 10, 64)
			if err != nil {
				return nil, false
			}
			ops = append(ops, wop{tick: n})
		} else if t[0] == 'a' {
			p := strings.Split(t[1:], ".")
			if len(p) != 2 {
				return nil, false
			}
			n, err := strconv.ParseInt(p[0], 10, 64)
			if err != nil {
				return nil, false
			}
			ops = append(ops, wop{tick: n, ip: ipString(p[1])})
		} else {
			return nil, false
		}
	}
	return ops, true
}

func jwf(args []string) string {
	k, err := strconv.ParseInt(args[0], 10, 64)
	if err != nil {
		return "!badcase"
	}
	plan := args[1]
	if plan == "-" {
		plan = ""
	}
	if strings.Trim(plan, "osntlw") != "" {
		return "!badcase"
	}
	ops, ok := parseWops(args[2])
	if !ok {
		return "!badcase"
	}
	tick := 400 * time.Microsecond
	for try := 0; try < 12; try++ {
		if r, ok := jwfOnce(k, plan, ops, tick); ok {
			return r
		}
		tick *= 2
	}
	return "!timing"
}

type wop struct {
	tick int64
	ip   string // "" = explicit flush
}

func spinUntil(t time.Time) {
	for time.Now().Before(t) {
	}
}

// one attempt on a grid of the given tick; ok=false when an operation left its time slot
func jwriteOnce(k int64, ops []wop, tick time.Duration) (string, bool) {
	out := &syncBuf{}
	sink := ipsetsink.NewIPSetSink("verif-key")
	t0 := time.Now()
	w := sinkcluster.NewClusterWriter(out, time.Duration(k)*tick+tick/2, sink)
	if time.Since(t0) >= tick/4 {
		return "", false
	}
	var last int64
	for _, o := range ops {
		at := t0.Add(time.Duration(o.tick) * tick)
		spinUntil(at)
		if o.ip == "" {
			w.WriteIPSetToDisk()
		} else {
			w.AddIPToSet(o.ip)
		}
		if time.Now().Sub(at) >= tick/4 {
			return "", false
		}
		last = o.tick
	}
	var chunks []string
	for _, line := range strings.Split(strings.TrimSpace(out.String()), "\n") {
		if line == "" {
			continue
		}
		var e sinkcluster.SinkEntry
		if err := json.Unmarshal([]byte(line), &e); err != nil {
			return "!journal " + err.Error(), true
		}
		// the sketch of this chunk alone
		one := bytes.NewBufferString(line + "\n")
		r, err := sinkcluster.NewClusterCounter(e.RecordingStart, e.RecordingEnd).Count(one)
		if err != nil {
			return "!count " + err.Error(), true
		}
		chunks = append(chunks, fmt.Sprintf("%d:%d:%d", int64(e.RecordingStart.Sub(t0)/tick), int64(e.RecordingEnd.Sub(t0)/tick), r.Sum))
	}
	all, err := sinkcluster.NewClusterCounter(t0.Add(-tick), t0.Add(time.Duration(last+1)*tick)).Count(bytes.NewBufferString(out.String()))
	if err != nil {
		return "!count " + err.Error(), true
	}
	cs := "-"
	if len(chunks) > 0 {
		cs = strings.Join(chunks, ";")
	}
	return fmt.Sprintf("chunks=%s all=%d", cs, all.Sum), true
}

func jwrite(args []string) string {
	k, err := strconv.ParseInt(args[0], 10, 64)
	if err != nil {
		return "!badcase"
	}
	var ops []wop
	for _, t := range wire.List(args[1]) {
		if len(t) < 2 {
			return "!badcase"
		}
		if t[0] == 'f' {
			n, err := strconv.ParseInt(t[1:], 10, 64)
			if err != nil {
				return "!badcase"
			}
			ops = append(ops, wop{tick: n})
		} else if t[0] == 'a' {
			p := strings.Split(t[1:], ".")
			if len(p) != 2 {
				return "!badcase"
			}
			n, err := strconv.ParseInt(p[0], 10, 64)
			if err != nil {
				return "!badcase"
			}
			ops = append(ops, wop{tick: n, ip: ipString(p[1])})
		} else {
			return "!badcase"
		}
	}
	tick := 400 * time.Microsecond
	for try := 0; try < 12; try++ {
		if r, ok := jwriteOnce(k, ops, tick); ok {
			return r
		}
		tick *= 2
	}
	return "!timing"
}

type h64 uint64

func (h h64) Sum64() uint64 { return uint64(h) }

// refSketch is the reference: a HyperLogLog++ (p=18) over the first 8 bytes of HMAC-SHA3-256(key, address),
// computed here independently of common/ipsetsink.
func refSketch(key string, ips []string) *hyperloglog.HyperLogLogPlus {
	r, _ := hyperloglog.NewPlus(18)
	for _, ip := range ips {
		m := hmac.New(func() hash.Hash { return sha3.New256() }, []byte(key))
		m.Write([]byte(ip))
		r.Add(h64(binary.BigEndian.Uint64(m.Sum(nil)[:8])))
	}
	return r
}

// unionCount merges a recorded sketch with a reference sketch and returns the merged distinct count
// (exact for the small sets used here: the sparse representation keeps 25-bit-plus hash prefixes).
func unionCount(recorded []byte, ref *hyperloglog.HyperLogLogPlus) (uint64, error) {
	a, _ := hyperloglog.NewPlus(18)
	if err := a.GobDecode(recorded); err != nil {
		return 0, err
	}
	u, _ := hyperloglog.NewPlus(18)
	if err := u.Merge(a); err != nil {
		return 0, err
	}
	if err := u.Merge(ref); err != nil {
		return 0, err
	}
	return u.Count(), nil
}

func jkey(args []string) string {
	ks := strings.Split(args[0], ".")
	if len(ks) != 2 {
		return "!badcase"
	}
	k1, k2 := "verif-key-"+ks[0], "verif-key-"+ks[1]
	var ips []string
	seen := map[string]bool{}
	if args[1] != "-" {
		for _, t := range strings.Split(args[1], ".") {
			ip := ipString(t)
			ips = append(ips, ip)
			seen[ip] = true
		}
	}
	n := uint64(len(seen))
	// through the real writer: what lands in the journal
	out := &syncBuf{}
	w := sinkcluster.NewClusterWriter(out, time.Hour, ipsetsink.NewIPSetSink(k1))
	for _, ip := range ips {
		w.AddIPToSet(ip)
	}
	w.WriteIPSetToDisk()
	line := strings.TrimSpace(out.String())
	var generic map[string]json.RawMessage
	if err := json.Unmarshal([]byte(line), &generic); err != nil {
		return "!journal " + err.Error()
	}
	shape := "sketch-only"
	for k := range generic {
		if k != "recordingStart" && k != "recordingEnd" && k != "recorded" {
			shape = "extra-field"
		}
	}
	for ip := range seen {
		if strings.Contains(line, ip) {
			shape = "raw-address"
		}
	}
	var e sinkcluster.SinkEntry
	if err := json.Unmarshal([]byte(line), &e); err != nil {
		return "!journal " + err.Error()
	}
	own, err := unionCount(e.Recorded, refSketch(k1, ips))
	if err != nil {
		return "!sketch " + err.Error()
	}
	other, err := unionCount(e.Recorded, refSketch(k2, ips))
	if err != nil {
		return "!sketch " + err.Error()
	}
	raw, err := unionCount(e.Recorded, refSketch("", ips))
	if err != nil {
		return "!sketch " + err.Error()
	}
	// merged with the reference under the same key nothing new appears; under another key everything is new
	return fmt.Sprintf("journal=%s n=%d own=%d other=%d nokey=%d", shape, n, own, other, raw)
}

// jbig: a journal of three chunks [0,1] [1,2] [2,3] holding 5, n and 7 addresses (all different), read over [0,3].
// The middle line grows with n; what is reported is the number of chunks the reader included and whether its
// estimate is within 1 % of n + 12.
func jbig(args []string) string {
	n, err := strconv.Atoi(args[0])
	if err != nil || n < 0 || n > 2000000 {
		return "!badcase"
	}
	var journal bytes.Buffer
	next := 1 << 20
	for i, cnt := range []int{5, n, 7} {
		sink := ipsetsink.NewIPSetSink("verif-key")
		for k := 0; k < cnt; k++ {
			sink.AddIPToSet(ipString(strconv.Itoa(next)))
			next++
		}
		data, err := sink.Dump()
		if err != nil {
			return "!dump " + err.Error()
		}
		line, err := json.Marshal(sinkcluster.SinkEntry{RecordingStart: epoch.Add(time.Duration(i)), RecordingEnd: epoch.Add(time.Duration(i + 1)), Recorded: data})
		if err != nil {
			return "!marshal " + err.Error()
		}
		journal.Write(line)
		journal.WriteByte('\n')
	}
	r, err := sinkcluster.NewClusterCounter(epoch, epoch.Add(3)).Count(&journal)
	if err != nil {
		return "!count " + err.Error() // a reader that refuses is not a reader that miscounts
	}
	want := float64(n + 12)
	tol := want / 100
	if tol < 1 {
		tol = 0.5
	}
	verdict := "ok"
	if float64(r.Sum) < want-tol {
		verdict = "low:" + strconv.FormatUint(r.Sum, 10)
	} else if float64(r.Sum) > want+tol {
		verdict = "high:" + strconv.FormatUint(r.Sum, 10)
	}
	return fmt.Sprintf("chunks=%d sum=%s", r.ChunkIncluded, verdict)
}

func main() {
	wire.Loop(func(a []string) string {
		if len(a) == 2 && a[0] == "jbig" {
			return jbig(a[1:])
		}
		if len(a) == 3 && a[0] == "jkey" {
			return jkey(a[1:])
		}
		if len(a) == 4 && a[0] == "jwin" {
			return jwin(a[1:])
		}
		if len(a) == 3 && a[0] == "jwrite" {
			return jwrite(a[1:])
		}
		if len(a) == 4 && a[0] == "jwf" {
			return jwf(a[1:])
		}
		return "!badcase"
	})
}
