//go:build verif

// Black-box driver for C05: the server through its EXPORTED surface only — snowflake_server.NewSnowflakeServer(nil).Listen
// (the real http.Server, WebSocket upgrade, turbotunnel handler, QueuePacketConn with the server's own retention,
// kcp.ServeConn, smux) and Accept — fed by real WebSocket carriers (gorilla client, as the proxy dials them) that carry
// hand-made KCP segments with smux frames inside (made by lib/checks/c05.py, so a schedule is deterministic). Nothing
// unexported is touched: an internal refactor of server/lib cannot stop this driver from compiling.
//
// One server for the whole run; the scenarios (case lines) run concurrently against it, as many clients would.
//
//	carrierlayer move <ops>
//	  ops   n | n:x<hex raw query>   dial a new carrier (index = order within the scenario)
//	        r<i>:x<hex>              send these bytes as ONE binary WebSocket message on carrier i (any size)
//	        c<i>                     the client closes carrier i
//	        g<ms>                    pause
//	        w<j>:x<hex>              the application behind Accept writes these bytes on the connection of session j
//	        z                        nothing (carries expectations)
//	  expectations appended to an op, each waited for (bounded):
//	        @a<n>   n connections of this scenario accepted     @t<n>  n stream bytes read on them in total
//	        @k<i>   carrier i closed by the server              @e<i>+<j>..=<n>  n bytes of downstream application
//	                                                                   data decodable from what carriers i, j.. received
//	  -> accepted=<n> st=<j>:x<stream>,.. stray=<n> k<i>=<open|closed>:x<downstream bytes> ...
//
//	carrierlayer bulk i<8 hex scenario id>,<total bytes>,<cut after bytes>,<gap ms>,<seed>
//	  a REAL client as client/lib builds it (kcp-go + smux v2 with client/lib's settings over a packet conn that can be
//	  re-bound to a new carrier: no carrier = reads block, writes are dropped), one WebSocket carrier, one stream. The
//	  application behind Accept writes <total> pattern bytes; once the client has <cut after> of them it closes its
//	  carrier, stays without any carrier for <gap ms> (really waited: the gap is the scenario), dials a new carrier
//	  with the same ClientID and reads on.
//	  -> accepted=<n> got=<bytes the client received> intact=<0|1: they are the first got bytes written> werr=<0|1: the
//	     application's Write failed> stray=<n>
//
// The application bytes of session j of a scenario begin with the 4-byte scenario id and the byte j: that is how an
// accepted connection is attributed to its scenario (stray = connections whose label belongs to no running scenario).
package main

import (
	"bufio"
	"bytes"
	"encoding/binary"
	"encoding/hex"
	"fmt"
	"io"
	"log"
	"math/rand"
	"net"
	"os"
	"strconv"
	"strings"
	"sync"
	"sync/atomic"
	"time"

	"git.torproject.org/pluggable-transports/snowflake.git/v2/common/encapsulation"
	"git.torproject.org/pluggable-transports/snowflake.git/v2/common/turbotunnel"
	"git.torproject.org/pluggable-transports/snowflake.git/v2/common/websocketconn"
	sf "git.torproject.org/pluggable-transports/snowflake.git/v2/server/lib"
	"github.com/gorilla/websocket"
	"github.com/xtaci/kcp-go/v5"
	"github.com/xtaci/smux"
)

type bbConn struct {
	j    byte
	c    net.Conn
	mu   sync.Mutex
	data []byte
}

type bbScen struct {
	mu    sync.Mutex
	conns []*bbConn
}

type bbCarrier struct {
	ws     *websocket.Conn
	mu     sync.Mutex
	down   []byte
	closed bool
}

var (
	regMu sync.Mutex
	reg   = map[[4]byte]*bbScen{}
	stray int64
	base  string
)

func unhex(s string) []byte {
	b, err := hex.DecodeString(strings.TrimPrefix(s, "x"))
	if err != nil {
		panic(err)
	}
	return b
}

// ownsPort: this process holds a listening TCP socket on 127.0.0.1:port (Listen does not report a failed bind)
func ownsPort(port int) bool {
	data, err := os.ReadFile("/proc/self/net/tcp")
	if err != nil {
		return true // cannot tell: assume
	}
	want := fmt.Sprintf("0100007F:%04X", port)
	inode := ""
	for _, line := range strings.Split(string(data), "\n") {
		f := strings.Fields(line)
		if len(f) > 9 && f[1] == want && f[3] == "0A" {
			inode = f[9]
		}
	}
	if inode == "" {
		return false
	}
	fds, err := os.ReadDir("/proc/self/fd")
	if err != nil {
		return true
	}
	for _, fd := range fds {
		if l, err := os.Readlink("/proc/self/fd/" + fd.Name()); err == nil && l == "socket:["+inode+"]" {
			return true
		}
	}
	return false
}

func startServer() (*sf.SnowflakeListener, error) {
	for try := 0; try < 30; try++ {
		l, err := net.Listen("tcp", "127.0.0.1:0")
		if err != nil {
			return nil, err
		}
		port := l.Addr().(*net.TCPAddr).Port
		l.Close()
		ln, err := sf.NewSnowflakeServer(nil).Listen(&net.TCPAddr{IP: net.IPv4(127, 0, 0, 1), Port: port})
		if err != nil {
			return nil, err
		}
		up := false
		for i := 0; i < 500; i++ {
			if ownsPort(port) {
				up = true
				break
			}
			time.Sleep(10 * time.Millisecond)
		}
		if up {
			base = fmt.Sprintf("ws://127.0.0.1:%d/", port)
			return ln, nil
		}
		ln.Close() // somebody else got the port in between: once more
	}
	return nil, fmt.Errorf("could not get a port")
}

func acceptLoop(ln *sf.SnowflakeListener) {
	for {
		c, err := ln.Accept()
		if err != nil {
			return
		}
		go func() {
			var label [5]byte
			if _, err := io.ReadFull(c, label[:]); err != nil {
				atomic.AddInt64(&stray, 1)
				return
			}
			var id [4]byte
			copy(id[:], label[:4])
			regMu.Lock()
			sc := reg[id]
			regMu.Unlock()
			if sc == nil {
				atomic.AddInt64(&stray, 1)
				return
			}
			bc := &bbConn{j: label[4], c: c}
			sc.mu.Lock()
			sc.conns = append(sc.conns, bc)
			sc.mu.Unlock()
			buf := make([]byte, 1<<15)
			for {
				n, err := c.Read(buf)
				bc.mu.Lock()
				bc.data = append(bc.data, buf[:n]...)
				bc.mu.Unlock()
				if err != nil {
					return
				}
			}
		}()
	}
}

// ---- decoding what a carrier received: encapsulation chunks -> KCP segments -> smux frames -> application bytes

func chunks(b []byte) [][]byte {
	var out [][]byte
	for len(b) > 0 {
		isData := b[0]&0x80 != 0
		n := int(b[0] & 0x3f)
		i := 1
		more := b[0]&0x40 != 0
		for more {
			if i >= len(b) || i > 2 {
				return out
			}
			n = n<<7 | int(b[i]&0x7f)
			more = b[i]&0x80 != 0
			i++
		}
		if len(b) < i+n {
			return out
		}
		if isData {
			out = append(out, b[i:i+n])
		}
		b = b[i+n:]
	}
	return out
}

func echoBytes(cs []*bbCarrier) int {
	segs := map[uint32][]byte{}
	for _, c := range cs {
		c.mu.Lock()
		d := append([]byte{}, c.down...)
		c.mu.Unlock()
		for _, p := range chunks(d) {
			for len(p) >= 24 {
				cmd := p[4]
				sn := binary.LittleEndian.Uint32(p[12:])
				ln := int(binary.LittleEndian.Uint32(p[20:]))
				if len(p) < 24+ln {
					break
				}
				if cmd == 81 {
					segs[sn] = p[24 : 24+ln]
				}
				p = p[24+ln:]
			}
		}
	}
	var stream []byte
	for sn := uint32(0); ; sn++ {
		d, ok := segs[sn]
		if !ok {
			break
		}
		stream = append(stream, d...)
	}
	n := 0
	for len(stream) >= 8 {
		l := int(binary.LittleEndian.Uint16(stream[2:]))
		if len(stream) < 8+l {
			break
		}
		if stream[1] == 2 {
			n += l
		}
		stream = stream[8+l:]
	}
	return n
}

// waitLimit bounds the wait for an expected effect (bytes delivered, connection accepted, carrier closed). It is
// only reached when the effect never comes; on a heavily loaded machine KCP needs well over 10 s for 20 KB.
const waitLimit = 60 * time.Second

func runScenario(ops string) string {
	var carriers []*bbCarrier
	var sc *bbScen
	var id [4]byte
	defer func() {
		for _, c := range carriers {
			c.ws.Close()
		}
		if sc != nil {
			regMu.Lock()
			delete(reg, id)
			regMu.Unlock()
			sc.mu.Lock()
			for _, bc := range sc.conns {
				bc.c.Close()
			}
			sc.mu.Unlock()
		}
	}()
	// the scenario id is the first token: i<8 hex digits>
	list := strings.Split(ops, ",")
	if len(list) == 0 || !strings.HasPrefix(list[0], "i") {
		return "!badcase"
	}
	copy(id[:], unhex(list[0][1:]))
	sc = &bbScen{}
	regMu.Lock()
	reg[id] = sc
	regMu.Unlock()
	counts := func() (int, int) {
		sc.mu.Lock()
		defer sc.mu.Unlock()
		tot := 0
		for _, bc := range sc.conns {
			bc.mu.Lock()
			tot += len(bc.data)
			bc.mu.Unlock()
		}
		return len(sc.conns), tot
	}
	snapshot := func() string {
		a, t := counts()
		s := fmt.Sprintf("%d/%d", a, t)
		for _, c := range carriers {
			c.mu.Lock()
			s += fmt.Sprintf("/%d:%v", len(c.down), c.closed)
			c.mu.Unlock()
		}
		return s
	}
	settleFor := func(rounds int, max time.Duration) {
		deadline := time.Now().Add(max)
		last, same := snapshot(), 0
		for same < rounds && time.Now().Before(deadline) {
			time.Sleep(3 * time.Millisecond)
			cur := snapshot()
			if cur == last {
				same++
			} else {
				last, same = cur, 0
			}
		}
	}
	waitFor := func(exps []string) {
		deadline := time.Now().Add(waitLimit)
		for time.Now().Before(deadline) {
			ok := true
			for _, e := range exps {
				switch e[0] {
				case 'a':
					n, _ := strconv.Atoi(e[1:])
					if a, _ := counts(); a < n {
						ok = false
					}
				case 't':
					n, _ := strconv.Atoi(e[1:])
					if _, t := counts(); t < n {
						ok = false
					}
				case 'k':
					i, _ := strconv.Atoi(e[1:])
					if i < len(carriers) {
						carriers[i].mu.Lock()
						if !carriers[i].closed {
							ok = false
						}
						carriers[i].mu.Unlock()
					}
				case 'e':
					f := strings.SplitN(e[1:], "=", 2)
					n, _ := strconv.Atoi(f[1])
					var cs []*bbCarrier
					for _, is := range strings.Split(f[0], "+") {
						if i, err := strconv.Atoi(is); err == nil && i < len(carriers) {
							cs = append(cs, carriers[i])
						}
					}
					if echoBytes(cs) < n {
						ok = false
					}
				}
			}
			if ok {
				return
			}
			time.Sleep(3 * time.Millisecond)
		}
	}
	for _, opx := range list[1:] {
		parts := strings.Split(opx, "@")
		op := parts[0]
		switch {
		case op == "n" || strings.HasPrefix(op, "n:"):
			url := base + "?client_ip=192.0.2.9"
			if strings.HasPrefix(op, "n:") {
				url = base + "?" + string(unhex(op[2:]))
			}
			ws, _, err := websocket.DefaultDialer.Dial(url, nil)
			if err != nil {
				return "!dial:" + err.Error()
			}
			c := &bbCarrier{ws: ws}
			carriers = append(carriers, c)
			go func() {
				for {
					_, msg, err := ws.ReadMessage()
					c.mu.Lock()
					if err != nil {
						c.closed = true
						c.mu.Unlock()
						return
					}
					c.down = append(c.down, msg...)
					c.mu.Unlock()
				}
			}()
		case op[0] == 'r':
			f := strings.Split(op[1:], ":")
			i, _ := strconv.Atoi(f[0])
			carriers[i].ws.WriteMessage(websocket.BinaryMessage, unhex(f[1]))
		case op[0] == 'c':
			i, _ := strconv.Atoi(op[1:])
			carriers[i].ws.Close()
		case op[0] == 'g':
			ms, _ := strconv.Atoi(op[1:])
			time.Sleep(time.Duration(ms) * time.Millisecond)
		case op[0] == 'w':
			f := strings.Split(op[1:], ":")
			j, _ := strconv.Atoi(f[0])
			deadline := time.Now().Add(waitLimit)
			var bc *bbConn
			for bc == nil && time.Now().Before(deadline) {
				sc.mu.Lock()
				for _, x := range sc.conns {
					if int(x.j) == j {
						bc = x
					}
				}
				sc.mu.Unlock()
				if bc == nil {
					time.Sleep(3 * time.Millisecond)
				}
			}
			if bc != nil {
				if _, err := bc.c.Write(unhex(f[1])); err != nil {
					fmt.Fprintln(os.Stderr, "app write:", err)
				}
			} else {
				fmt.Fprintln(os.Stderr, "app write: no connection for session", j)
			}
		case op == "z":
		default:
			continue
		}
		if len(parts) > 1 {
			waitFor(parts[1:])
		}
		settleFor(2, 300*time.Millisecond)
	}
	settleFor(40, 3*time.Second)
	sc.mu.Lock()
	out := fmt.Sprintf("accepted=%d st=", len(sc.conns))
	if len(sc.conns) == 0 {
		out += "-"
	}
	for k, bc := range sc.conns {
		if k > 0 {
			out += ","
		}
		bc.mu.Lock()
		out += fmt.Sprintf("%d:x%s", bc.j, hex.EncodeToString(bc.data))
		bc.mu.Unlock()
	}
	sc.mu.Unlock()
	out += fmt.Sprintf(" stray=%d", atomic.LoadInt64(&stray))
	for i, c := range carriers {
		c.mu.Lock()
		st := "open"
		if c.closed {
			st = "closed"
		}
		out += fmt.Sprintf(" k%d=%s:x%s", i, st, hex.EncodeToString(c.down))
		c.mu.Unlock()
	}
	return out
}

// ---- bulk downstream transfer across a carrier gap: a real client (kcp-go + smux, as client/lib sets them up)

type bulkAddr struct{}

func (bulkAddr) Network() string { return "bulk" }
func (bulkAddr) String() string  { return "bulk" }

// bulkPconn: packets over the current carrier stream (encapsulation framing, what client/lib does over WebRTC); it can
// be re-bound to a new carrier. Without a carrier ReadFrom blocks and WriteTo drops (client/lib's RedialPacketConn).
type bulkPconn struct {
	mu     sync.Mutex
	cond   *sync.Cond
	conn   net.Conn // nil: no carrier
	gen    int
	closed bool
	wmu    sync.Mutex
}

func newBulkPconn() *bulkPconn {
	c := &bulkPconn{}
	c.cond = sync.NewCond(&c.mu)
	return c
}

func (c *bulkPconn) bind(conn net.Conn) {
	c.mu.Lock()
	c.conn = conn
	c.gen++
	c.mu.Unlock()
	c.cond.Broadcast()
}

func (c *bulkPconn) ReadFrom(p []byte) (int, net.Addr, error) {
	for {
		c.mu.Lock()
		for c.conn == nil && !c.closed {
			c.cond.Wait()
		}
		if c.closed {
			c.mu.Unlock()
			return 0, bulkAddr{}, io.ErrClosedPipe
		}
		conn, gen := c.conn, c.gen
		c.mu.Unlock()
		data, err := encapsulation.ReadData(conn)
		if err != nil {
			c.mu.Lock()
			if c.gen == gen {
				c.conn = nil // this carrier is over: wait for the next one
			}
			c.mu.Unlock()
			continue
		}
		return copy(p, data), bulkAddr{}, nil
	}
}

func (c *bulkPconn) WriteTo(p []byte, addr net.Addr) (int, error) {
	c.mu.Lock()
	conn := c.conn
	c.mu.Unlock()
	if conn == nil {
		return len(p), nil
	}
	var b bytes.Buffer
	encapsulation.WriteData(&b, p)
	c.wmu.Lock()
	conn.Write(b.Bytes()) // a failed write is a lost packet
	c.wmu.Unlock()
	return len(p), nil
}

func (c *bulkPconn) Close() error {
	c.mu.Lock()
	c.closed = true
	conn := c.conn
	c.conn = nil
	c.mu.Unlock()
	c.cond.Broadcast()
	if conn != nil {
		conn.Close()
	}
	return nil
}
func (c *bulkPconn) LocalAddr() net.Addr                { return bulkAddr{} }
func (c *bulkPconn) SetDeadline(t time.Time) error      { return nil }
func (c *bulkPconn) SetReadDeadline(t time.Time) error  { return nil }
func (c *bulkPconn) SetWriteDeadline(t time.Time) error { return nil }

func bulkPattern(k int, seed int) byte { return byte(k*31 + k>>8 + seed) }

func runBulk(arg string) string {
	f := strings.Split(arg, ",")
	if len(f) != 5 || !strings.HasPrefix(f[0], "i") || len(f[0]) != 9 {
		return "!badcase"
	}
	var id [4]byte
	copy(id[:], unhex(f[0][1:]))
	var nums [4]int
	for i := range nums {
		n, err := strconv.Atoi(f[i+1])
		if err != nil || n < 0 {
			return "!badcase"
		}
		nums[i] = n
	}
	total, cut, gap, seed := nums[0], nums[1], nums[2], nums[3]
	sc := &bbScen{}
	regMu.Lock()
	reg[id] = sc
	regMu.Unlock()
	var closers []io.Closer
	defer func() {
		for i := len(closers) - 1; i >= 0; i-- {
			closers[i].Close()
		}
		regMu.Lock()
		delete(reg, id)
		regMu.Unlock()
		sc.mu.Lock()
		for _, bc := range sc.conns {
			bc.c.Close()
		}
		sc.mu.Unlock()
	}()
	// the ClientID: 8 bytes, from the seed and the scenario id (distinct per scenario)
	var cid turbotunnel.ClientID
	rnd := rand.New(rand.NewSource(int64(seed)<<32 | int64(binary.BigEndian.Uint32(id[:]))))
	rnd.Read(cid[:])
	dial := func() (net.Conn, string) {
		ws, _, err := websocket.DefaultDialer.Dial(base+"?client_ip=192.0.2.9", nil)
		if err != nil {
			return nil, "!dial:" + err.Error()
		}
		conn := websocketconn.New(ws)
		closers = append(closers, conn)
		if _, err := conn.Write(append(append([]byte{}, turbotunnel.Token[:]...), cid[:]...)); err != nil {
			return nil, "!hello:" + err.Error()
		}
		return conn, ""
	}
	pconn := newBulkPconn()
	closers = append(closers, pconn)
	car0, e := dial()
	if e != "" {
		return e
	}
	pconn.bind(car0)
	kc, err := kcp.NewConn2(bulkAddr{}, nil, 0, 0, pconn)
	if err != nil {
		return "!kcp:" + err.Error()
	}
	closers = append(closers, kc)
	kc.SetStreamMode(true)
	kc.SetWindowSize(sf.WindowSize, sf.WindowSize)
	kc.SetNoDelay(0, 0, 0, 1)
	cfg := smux.DefaultConfig()
	cfg.Version = 2
	cfg.KeepAliveTimeout = 10 * time.Minute
	cfg.MaxStreamBuffer = sf.StreamSize
	sess, err := smux.Client(kc, cfg)
	if err != nil {
		return "!smux:" + err.Error()
	}
	closers = append(closers, sess)
	stream, err := sess.OpenStream()
	if err != nil {
		return "!stream:" + err.Error()
	}
	closers = append(closers, stream)
	if _, err := stream.Write(append(append([]byte{}, id[:]...), 0)); err != nil {
		return "!label:" + err.Error()
	}
	// the application behind Accept: writes the pattern on the accepted connection
	var werr int32
	go func() {
		deadline := time.Now().Add(waitLimit)
		var bc *bbConn
		for bc == nil && time.Now().Before(deadline) {
			sc.mu.Lock()
			if len(sc.conns) > 0 {
				bc = sc.conns[0]
			}
			sc.mu.Unlock()
			if bc == nil {
				time.Sleep(3 * time.Millisecond)
			}
		}
		if bc == nil {
			return // accepted=0 says it
		}
		buf := make([]byte, 1<<15)
		for k := 0; k < total; {
			n := len(buf)
			if total-k < n {
				n = total - k
			}
			for i := 0; i < n; i++ {
				buf[i] = bulkPattern(k+i, seed)
			}
			if _, err := bc.c.Write(buf[:n]); err != nil {
				atomic.StoreInt32(&werr, 1)
				fmt.Fprintln(os.Stderr, "bulk: app write after", k, "bytes:", err)
				return
			}
			k += n
		}
	}()
	// the client: reads; cut + gap + new carrier once <cut> bytes are there
	var got int64
	intact := int32(1)
	done := make(chan struct{})
	go func() {
		defer close(done)
		buf := make([]byte, 1<<15)
		k := 0
		for k < total {
			n, err := stream.Read(buf)
			for i := 0; i < n; i++ {
				if buf[i] != bulkPattern(k+i, seed) {
					atomic.StoreInt32(&intact, 0)
				}
			}
			k += n
			atomic.StoreInt64(&got, int64(k))
			if err != nil {
				return
			}
		}
	}()
	limit := time.After(waitLimit)
	finished := false
	for !finished && int(atomic.LoadInt64(&got)) < cut {
		select {
		case <-done:
			finished = true
		case <-limit:
			finished = true
		case <-time.After(time.Millisecond):
		}
	}
	if !finished {
		pconn.bind(nil)
		car0.Close()
		time.Sleep(time.Duration(gap) * time.Millisecond) // the gap IS the scenario
		car1, e := dial()
		if e != "" {
			return e
		}
		pconn.bind(car1)
		select {
		case <-done:
		case <-time.After(waitLimit):
		}
	}
	sc.mu.Lock()
	acc := len(sc.conns)
	sc.mu.Unlock()
	return fmt.Sprintf("accepted=%d got=%d intact=%d werr=%d stray=%d", acc, atomic.LoadInt64(&got), atomic.LoadInt32(&intact),
		atomic.LoadInt32(&werr), atomic.LoadInt64(&stray))
}

func main() {
	log.SetOutput(io.Discard)
	ln, err := startServer()
	if err != nil {
		fmt.Fprintln(os.Stderr, "server:", err)
		os.Exit(3)
	}
	go acceptLoop(ln)
	sc := bufio.NewScanner(os.Stdin)
	sc.Buffer(make([]byte, 1<<20), 1<<28)
	var lines []string
	for sc.Scan() {
		lines = append(lines, sc.Text())
	}
	res := make([]string, len(lines))
	sem := make(chan struct{}, 48)
	var wg sync.WaitGroup
	for idx, line := range lines {
		idx, line := idx, line
		wg.Add(1)
		sem <- struct{}{}
		go func() {
			defer wg.Done()
			defer func() { <-sem }()
			defer func() {
				if r := recover(); r != nil {
					res[idx] = "!panic " + strings.ReplaceAll(fmt.Sprint(r), "\n", " ")
				}
			}()
			a := strings.Split(line, " ")
			switch {
			case len(a) == 3 && a[1] == "move":
				res[idx] = runScenario(a[2])
			case len(a) == 3 && a[1] == "bulk":
				res[idx] = runBulk(a[2])
			default:
				res[idx] = "!badcase"
			}
		}()
	}
	wg.Wait()
	w := bufio.NewWriter(os.Stdout)
	for _, r := range res {
		w.WriteString(r + "\n")
	}
	w.Flush()
	os.Exit(0)
}
