//go:build verif

// Driver for util.IsLocal / util.StripLocalAddresses (black-box, exported API only).
// Line protocol: see coq/Run/SdpstripRun.v.  pion/sdp, pion/ice and net.ParseIP are the
// library boundary: this driver parses the input and the output text with them and reports
// the parsed structure.
package main

import (
	"bytes"
	"encoding/hex"
	"net"
	"strconv"
	"strings"

	"git.torproject.org/pluggable-transports/snowflake.git/v2/common/util"
	"git.torproject.org/pluggable-transports/snowflake.git/v2/zz_verif/sdpstrip/sdplines"
	"git.torproject.org/pluggable-transports/snowflake.git/v2/zz_verif/wire"
	"github.com/pion/ice/v2"
	"github.com/pion/sdp/v3"
)

type kv struct{ k, v string }

// structure parses text and returns the structure token, the identity table of the media-level
// attributes and the parsed description ("U" when desc.Unmarshal fails).
func structure(text []byte) (string, map[kv]int, *sdp.SessionDescription) {
	var desc sdp.SessionDescription
	if err := desc.Unmarshal(text); err != nil {
		return "U", nil, nil
	}
	table := map[kv]int{}
	if len(desc.MediaDescriptions) == 0 {
		return "none", table, &desc
	}
	var ms []string
	for _, m := range desc.MediaDescriptions {
		var toks []string
		for _, a := range m.Attributes {
			id, ok := table[kv{a.Key, a.Value}]
			if !ok {
				id = len(table)
				table[kv{a.Key, a.Value}] = id
			}
			ids := strconv.Itoa(id)
			if a.Key != "candidate" {
				toks = append(toks, "o"+ids)
				continue
			}
			c, err := ice.UnmarshalCandidate(a.Value)
			if err != nil {
				toks = append(toks, "b"+ids)
				continue
			}
			t := "?"
			switch c.Type() {
			case ice.CandidateTypeHost:
				t = "h"
			case ice.CandidateTypeServerReflexive:
				t = "s"
			case ice.CandidateTypePeerReflexive:
				t = "p"
			case ice.CandidateTypeRelay:
				t = "r"
			}
			ad := "n"
			if ip := net.ParseIP(c.Address()); ip != nil {
				ad = hex.EncodeToString(ip)
			}
			toks = append(toks, "c"+ids+"."+t+"."+ad)
		}
		ms = append(ms, wire.PrintList(toks))
	}
	return strings.Join(ms, ";"), table, &desc
}

// rest marshals the description without any media-level attribute: everything the stripping
// step must leave alone.
func rest(d *sdp.SessionDescription) []byte {
	for _, m := range d.MediaDescriptions {
		m.Attributes = nil
	}
	b, err := d.Marshal()
	if err != nil {
		return []byte("!marshal " + err.Error())
	}
	return b
}

func strip(text []byte) string {
	st, table, din := structure(text)
	out := util.StripLocalAddresses(string(text))
	if st == "U" {
		if out == string(text) {
			return "unchanged"
		}
		return "changed-unparsable-input"
	}
	if sdplines.MarshalErrs(text)&sdplines.MarshalStrippedFailed != 0 && out == string(text) {
		return "unchanged" // desc.Marshal() failed: the fall-back branch (op stripmf)
	}
	var dout sdp.SessionDescription
	if err := dout.Unmarshal([]byte(out)); err != nil {
		return "!output-unparsable"
	}
	keep := "none"
	if len(dout.MediaDescriptions) > 0 {
		var ms []string
		for _, m := range dout.MediaDescriptions {
			var ids []string
			for _, a := range m.Attributes {
				if id, ok := table[kv{a.Key, a.Value}]; ok {
					ids = append(ids, strconv.Itoa(id))
				} else {
					ids = append(ids, "?")
				}
			}
			ms = append(ms, wire.PrintList(ids))
		}
		keep = strings.Join(ms, ";")
	}
	r := "0"
	if bytes.Equal(rest(din), rest(&dout)) {
		r = "1"
	}
	return "keep=" + keep + " rest=" + r
}

// parsePhase: structure of the input, raw output of the function under test, pion's own
// re-marshalling of the (unstripped) input, and whether pion is stable on this input
// (Unmarshal(Marshal(Unmarshal(x))) gives the same structure, attribute texts and remaining
// fields); where it is not, a parsed-level comparison of input and output is meaningless.
func parsePhase(text []byte) string {
	st, table, d := structure(text)
	out := util.StripLocalAddresses(string(text))
	rem := ""
	stable := false
	if d != nil {
		if b, err := d.Marshal(); err == nil {
			rem = hex.EncodeToString(b)
			st2, table2, d2 := structure(b)
			if st2 == st && len(table) == len(table2) {
				stable = true
				for k, v := range table {
					if v2, ok := table2[k]; !ok || v2 != v {
						stable = false
					}
				}
				if stable && !bytes.Equal(rest(d), rest(d2)) {
					stable = false
				}
			}
		}
	}
	return st + " x" + hex.EncodeToString([]byte(out)) + " x" + rem + " " + b01(stable) + " " + strconv.Itoa(sdplines.MarshalErrs(text))
}

func b01(b bool) string {
	if b {
		return "1"
	}
	return "0"
}

func main() {
	wire.Loop(func(a []string) string {
		switch a[0] {
		case "ipclass":
			raw, err := wire.Payload(a[1])
			if err != nil {
				return "!badcase"
			}
			ip := net.IP(raw)
			t := "n"
			if q := ip.To4(); q != nil {
				t = hex.EncodeToString(q)
			}
			return "l=" + b01(util.IsLocal(ip)) + " u=" + b01(ip.IsUnspecified()) + " b=" + b01(ip.IsLoopback()) + " t=" + t
		case "parse": // phase 1: structure of the input, and the raw output for the text-level oracle
			text, err := wire.Payload(a[1])
			if err != nil {
				return "!badcase"
			}
			return parsePhase(text)
		case "lparse": // phase 1 of the line-level ops: pion's view of the text, line by line
			text, err := wire.Payload(a[1])
			if err != nil {
				return "!badcase"
			}
			v := sdplines.Structure(text)
			return v.Tok + " " + b01(v.Stable) + " " + strconv.Itoa(v.MErrs)
		case "lines": // the whole output of the function under test, line by line
			text, err := wire.Payload(a[2])
			if err != nil {
				return "!badcase"
			}
			v := sdplines.Structure(text)
			if v.Tok != a[1] {
				return "!structure-mismatch " + v.Tok
			}
			out := util.StripLocalAddresses(string(text))
			if v.Tok == "U" {
				if out == string(text) {
					return "unchanged"
				}
				return "changed-unparsable-input"
			}
			if v.FellBack(string(text), out) {
				return "unchanged" // desc.Marshal() failed: the fall-back branch (marshal_ok = false)
			}
			return v.LineIDs(out)
		case "strip", "stripmf":
			text, err := wire.Payload(a[2])
			if err != nil {
				return "!badcase"
			}
			if st, _, _ := structure(text); st != a[1] {
				return "!structure-mismatch " + st
			}
			return strip(text)
		}
		return "!badcase"
	})
}
