//go:build verif

// Package sdplines gives pion's view of an SDP text at line level (the `lstruct` token of
// coq/Run/SdpstripRun.v): the lines of Marshal(Unmarshal(text)), each with an identity standing
// for its exact text and with its place in the structure.  Shared by the black-box driver
// (zz_verif/sdpstrip) and the in-package call-site drivers of client/lib and proxy/lib.
package sdplines

import (
	"bytes"
	"encoding/hex"
	"net"
	"strconv"
	"strings"

	"git.torproject.org/pluggable-transports/snowflake.git/v2/common/util"
	"github.com/pion/ice/v2"
	"github.com/pion/sdp/v3"
)

// View of one input text.
type View struct {
	Tok    string         // lstruct token: "U" when pion/sdp rejects the text
	Table  map[string]int // line text -> id
	Stable bool           // pion re-parses its own output to the same lines and the lines match the structure
	Remar  []byte         // Marshal(Unmarshal(text))
	MErrs  int            // MarshalErrs(text)
}

// Bits of MarshalErrs.
const (
	MarshalFullFailed     = 1 // desc.Marshal() failed on Unmarshal(text) as it is
	MarshalStrippedFailed = 2 // ... on the description util.StripLocalAddresses marshals (marshal_ok = false in the model)
	MarshalNoCandFailed   = 4 // ... on the description without any media-level candidate attribute
)

// MarshalErrs observes the library contract the first sentence of C08 rests on: util.StripLocalAddresses
// returns the ORIGINAL text when desc.Marshal() fails, and from outside that cannot be told from a
// description in which nothing had to be stripped.  So the same pion calls are made here: Unmarshal, then
// Marshal on (1) the description as parsed, (2) the description the function under test marshals - its loop
// is repeated below with the same library calls and the exported util.IsLocal - and (4) the description
// with every media-level candidate attribute removed (the other extreme).  0 = no Marshal call failed, which
// is what pion/sdp v3.0.5 (go.mod) guarantees: its Marshal ends with `return m.bytes(), nil`.
func MarshalErrs(text []byte) int {
	res := 0
	var d1 sdp.SessionDescription
	if err := d1.Unmarshal(text); err != nil {
		return 0
	}
	if _, err := d1.Marshal(); err != nil {
		res |= MarshalFullFailed
	}
	var d2 sdp.SessionDescription
	if err := d2.Unmarshal(text); err == nil {
		for _, m := range d2.MediaDescriptions {
			attrs := make([]sdp.Attribute, 0)
			for _, a := range m.Attributes {
				if a.IsICECandidate() {
					c, err := ice.UnmarshalCandidate(a.Value)
					if err == nil && c.Type() == ice.CandidateTypeHost {
						ip := net.ParseIP(c.Address())
						if ip != nil && (util.IsLocal(ip) || ip.IsUnspecified() || ip.IsLoopback()) {
							continue
						}
					}
				}
				attrs = append(attrs, a)
			}
			m.Attributes = attrs
		}
		if _, err := d2.Marshal(); err != nil {
			res |= MarshalStrippedFailed
		}
	}
	var d3 sdp.SessionDescription
	if err := d3.Unmarshal(text); err == nil {
		for _, m := range d3.MediaDescriptions {
			attrs := make([]sdp.Attribute, 0)
			for _, a := range m.Attributes {
				if !a.IsICECandidate() {
					attrs = append(attrs, a)
				}
			}
			m.Attributes = attrs
		}
		if _, err := d3.Marshal(); err != nil {
			res |= MarshalNoCandFailed
		}
	}
	return res
}

// Split cuts marshalled SDP into its lines (every line ends CR LF).
func Split(b string) []string {
	if b == "" {
		return nil
	}
	return strings.Split(strings.TrimSuffix(b, "\r\n"), "\r\n")
}

func attrToken(ids string, a sdp.Attribute) string {
	if a.Key != "candidate" {
		return "o" + ids
	}
	c, err := ice.UnmarshalCandidate(a.Value)
	if err != nil {
		return "b" + ids
	}
	t := "?"
	switch c.Type() {
	case ice.CandidateTypeHost:
		t = "h"
	case ice.CandidateTypeServerReflexive:
		t = "s"
	case ice.CandidateTypePeerReflexive:
		t = "p"
	case ice.CandidateTypeRelay:
		t = "r"
	}
	ad := "n"
	if ip := net.ParseIP(c.Address()); ip != nil {
		ad = hex.EncodeToString(ip)
	}
	return "c" + ids + "." + t + "." + ad
}

// Structure parses text with pion/sdp and describes the lines pion writes for it.
func Structure(text []byte) View {
	var desc sdp.SessionDescription
	if err := desc.Unmarshal(text); err != nil {
		return View{Tok: "U"}
	}
	merrs := MarshalErrs(text)
	b1, err := desc.Marshal()
	if err != nil {
		return View{Tok: "U", MErrs: merrs | MarshalFullFailed}
	}
	v := View{Table: map[string]int{}, Remar: b1, Stable: true, MErrs: merrs}
	lines := Split(string(b1))
	id := func(l string) string {
		n, ok := v.Table[l]
		if !ok {
			n = len(v.Table)
			v.Table[l] = n
		}
		return strconv.Itoa(n)
	}
	// where the media sections start
	var starts []int
	for i, l := range lines {
		if strings.HasPrefix(l, "m=") {
			starts = append(starts, i)
		}
	}
	if len(starts) != len(desc.MediaDescriptions) {
		v.Stable = false
	}
	end := len(lines)
	if len(starts) > 0 {
		end = starts[0]
	}
	var sess []string
	for _, l := range lines[:end] {
		sess = append(sess, id(l))
	}
	exact := "0"
	if bytes.Equal(b1, text) {
		exact = "1"
	}
	if merrs&MarshalStrippedFailed != 0 {
		exact += "F"
	}
	parts := []string{exact, "-"}
	if len(sess) > 0 {
		parts[1] = strings.Join(sess, ",")
	}
	for mi, st := range starts {
		stop := len(lines)
		if mi+1 < len(starts) {
			stop = starts[mi+1]
		}
		sec := lines[st:stop]
		var attrs []sdp.Attribute
		if mi < len(desc.MediaDescriptions) {
			attrs = desc.MediaDescriptions[mi].Attributes
		}
		nh := len(sec) - len(attrs)
		if nh < 1 {
			v.Stable = false
			nh = len(sec)
			attrs = nil
		}
		var toks []string
		for _, l := range sec[:nh] {
			if strings.HasPrefix(l, "a=") {
				v.Stable = false // an attribute line among the head lines: the lines do not match the structure
			}
			toks = append(toks, "h"+id(l))
		}
		for i, a := range attrs {
			l := sec[nh+i]
			if l != "a="+a.String() {
				v.Stable = false
			}
			toks = append(toks, attrToken(id(l), a))
		}
		parts = append(parts, strings.Join(toks, ","))
	}
	// pion must read its own output back to the same text
	var d2 sdp.SessionDescription
	if err := d2.Unmarshal(b1); err != nil {
		v.Stable = false
	} else if b2, err := d2.Marshal(); err != nil || !bytes.Equal(b1, b2) {
		v.Stable = false
	}
	v.Tok = strings.Join(parts, ";")
	return v
}

// LineIDs names the lines of out by the ids of the input's lines ("?" = a line the input does not have).
func (v View) LineIDs(out string) string {
	var ids []string
	for _, l := range Split(out) {
		if n, ok := v.Table[l]; ok {
			ids = append(ids, strconv.Itoa(n))
		} else {
			ids = append(ids, "?")
		}
	}
	if len(ids) == 0 {
		return "lines=-"
	}
	return "lines=" + strings.Join(ids, ",")
}

// FellBack reports that the function under test took its `desc.Marshal() failed -> return str` branch on
// text: the library call failed here too and the text came back as it was.
func (v View) FellBack(text, out string) bool {
	return v.MErrs&MarshalStrippedFailed != 0 && out == text
}

// Sent describes the SDP text a call site handed to the broker relative to the text it started from.
func (v View) Sent(text, captured string) string {
	if captured == text {
		return "same"
	}
	if v.Tok == "U" {
		return "changed-unparsable-input"
	}
	return v.LineIDs(captured)
}
