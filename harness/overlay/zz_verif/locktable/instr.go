//go:build verif

// Instrumenter: with -instr <dir> the extractor also writes COPIES of the scanned source files
// with calls to zz_verif/ltrace inserted (same line numbers: every insertion stays on its line)
// and an overlay map for `go build -overlay`.  Inserted are
//
//	after  X.Lock() / X.RLock()       ; zzlt.L('a'|'A', &X, "Type.field")
//	before X.Unlock() / X.RUnlock()   zzlt.L('r'|'R', &X, "Type.field");
//	defer X.Unlock()                  defer func() { zzlt.L('r', &X, ..); X.Unlock() }()
//	before a go statement             zzlt.F();
//	before the statement that contains an access site of a tracked field (a row of the table)
//	                                  zzlt.A('d'|'w'|'o', func() interface{} { return &x.f }, "Type.field");
//
// An access is instrumented only when its address expression is a pure selector chain over
// variables declared before the statement; the others are counted as not instrumented.
package main

import (
	"encoding/json"
	"fmt"
	"go/ast"
	"go/token"
	"go/types"
	"os"
	"path/filepath"
	"sort"
	"strings"
)

const ltraceImport = `zzlt "git.torproject.org/pluggable-transports/snowflake.git/v2/zz_verif/ltrace"`

type edit struct {
	off, end int
	text     string
	seq      int
}

var (
	instrDir     string
	edits        = map[string][]edit{}
	editSeen     = map[string]bool{}
	editSeq      int
	srcCache     = map[string][]byte{}
	instrSites   int
	instrSkipped int
)

func (w *walker) src(from, to token.Pos) string {
	fs := w.fc.pkg.fset
	a, b := fs.Position(from), fs.Position(to)
	data, ok := srcCache[a.Filename]
	if !ok {
		data, _ = os.ReadFile(a.Filename)
		srcCache[a.Filename] = data
	}
	if a.Offset < 0 || b.Offset > len(data) || a.Offset > b.Offset {
		return ""
	}
	return string(data[a.Offset:b.Offset])
}

func (w *walker) addEdit(from, to token.Pos, text string) {
	if instrDir == "" || w.silent {
		return
	}
	fs := w.fc.pkg.fset
	a, b := fs.Position(from), fs.Position(to)
	key := fmt.Sprintf("%s|%d|%d|%s", a.Filename, a.Offset, b.Offset, text)
	if editSeen[key] {
		return
	}
	editSeen[key] = true
	editSeq++
	edits[a.Filename] = append(edits[a.Filename], edit{a.Offset, b.Offset, text, editSeq})
}

// pure selector chain over identifiers that are visible before `anchor`
func (w *walker) pureAddr(e ast.Expr, anchor token.Pos) bool {
	info := w.fc.pkg.info
	switch x := e.(type) {
	case *ast.Ident:
		o := info.Uses[x]
		if o == nil {
			return false
		}
		if v, ok := o.(*types.Var); ok {
			if v.Pkg() != nil && v.Parent() == v.Pkg().Scope() {
				return true
			}
			return v.Pos() < anchor
		}
		return false
	case *ast.SelectorExpr:
		if sel := info.Selections[x]; sel != nil && sel.Kind() == types.FieldVal {
			return w.pureAddr(x.X, anchor)
		}
		if _, ok := info.Uses[x.Sel].(*types.Var); ok { // pkg.Var
			return true
		}
		return false
	case *ast.ParenExpr:
		return w.pureAddr(x.X, anchor)
	case *ast.StarExpr:
		return w.pureAddr(x.X, anchor)
	}
	return false
}

func (w *walker) instrAccess(name, mode string, e ast.Expr) {
	if instrDir == "" || w.silent {
		return
	}
	if e == nil || w.anchor == token.NoPos || !w.pureAddr(e, w.anchor) {
		instrSkipped++
		return
	}
	if tv, ok := w.fc.pkg.info.Types[e]; !ok || !tv.Addressable() {
		instrSkipped++
		return
	}
	k := "d"
	switch mode {
	case "write":
		k = "w"
	case "atomic":
		k = "o"
	}
	instrSites++
	w.addEdit(w.anchor, w.anchor, fmt.Sprintf("zzlt.A('%s', func() interface{} { return &(%s) }, %q); ", k, w.src(e.Pos(), e.End()), name))
}

func (w *walker) lockPtr(x ast.Expr) string {
	t := w.src(x.Pos(), x.End())
	if tv, ok := w.fc.pkg.info.Types[x]; ok {
		if _, isPtr := tv.Type.Underlying().(*types.Pointer); isPtr {
			return "(" + t + ")"
		}
	}
	return "&(" + t + ")"
}

func (w *walker) instrLock(st *ast.ExprStmt, call *ast.CallExpr, name, op string) {
	if instrDir == "" || w.silent {
		return
	}
	sel := call.Fun.(*ast.SelectorExpr)
	p := w.lockPtr(sel.X)
	switch op {
	case "Lock":
		w.addEdit(st.End(), st.End(), fmt.Sprintf("; zzlt.L('a', %s, %q)", p, name))
	case "RLock":
		w.addEdit(st.End(), st.End(), fmt.Sprintf("; zzlt.L('A', %s, %q)", p, name))
	case "Unlock":
		w.addEdit(st.Pos(), st.Pos(), fmt.Sprintf("zzlt.L('r', %s, %q); ", p, name))
	case "RUnlock":
		w.addEdit(st.Pos(), st.Pos(), fmt.Sprintf("zzlt.L('R', %s, %q); ", p, name))
	}
}

func (w *walker) instrDeferUnlock(st *ast.DeferStmt, name, op string) {
	if instrDir == "" || w.silent {
		return
	}
	sel := st.Call.Fun.(*ast.SelectorExpr)
	k := "r"
	if op == "RUnlock" {
		k = "R"
	}
	w.addEdit(st.Pos(), st.End(), fmt.Sprintf("defer func() { zzlt.L('%s', %s, %q); %s }()", k, w.lockPtr(sel.X), name, w.src(st.Call.Pos(), st.Call.End())))
}

func (w *walker) instrFork(st *ast.GoStmt) {
	if instrDir == "" || w.silent {
		return
	}
	w.addEdit(st.Pos(), st.Pos(), "zzlt.F(); ")
}

func writeInstrumented(infos []*pkgInfo) {
	if instrDir == "" {
		return
	}
	overlay := map[string]string{}
	var files []string
	for f := range edits {
		files = append(files, f)
	}
	sort.Strings(files)
	for _, f := range files {
		es := edits[f]
		// the import goes right after the package clause, on the same line
		var pkgEnd int
		for _, pi := range infos {
			for _, af := range pi.files {
				if pi.fset.Position(af.Pos()).Filename == f {
					pkgEnd = pi.fset.Position(af.Name.End()).Offset
				}
			}
		}
		if pkgEnd == 0 {
			continue
		}
		es = append(es, edit{pkgEnd, pkgEnd, "; import " + ltraceImport, 0})
		sort.SliceStable(es, func(i, j int) bool {
			if es[i].off != es[j].off {
				return es[i].off < es[j].off
			}
			return es[i].seq < es[j].seq
		})
		data := srcCache[f]
		if data == nil {
			data, _ = os.ReadFile(f)
		}
		var b strings.Builder
		at := 0
		for _, e := range es {
			if e.off < at { // overlapping with a replaced range: drop
				continue
			}
			b.Write(data[at:e.off])
			b.WriteString(e.text)
			at = e.end
		}
		b.Write(data[at:])
		rel, err := filepath.Rel(root, f)
		if err != nil {
			continue
		}
		out := filepath.Join(instrDir, rel)
		os.MkdirAll(filepath.Dir(out), 0755)
		if old, err := os.ReadFile(out); err != nil || string(old) != b.String() {
			if err := os.WriteFile(out, []byte(b.String()), 0644); err != nil {
				die(err)
			}
		}
		overlay[f] = out
	}
	js, _ := json.MarshalIndent(map[string]interface{}{"Replace": overlay, "sites": instrSites, "skipped": instrSkipped}, "", " ")
	if err := os.WriteFile(filepath.Join(instrDir, "overlay.json"), js, 0644); err != nil {
		die(err)
	}
}
