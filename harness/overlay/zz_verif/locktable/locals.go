//go:build verif

// Captured locals: function-local variables (and parameters) of the scanned packages that are
// accessed from more than one goroutine — written inside a `go func` closure and touched by
// another such closure, by the same closure launched several times, or by the launching
// function after the go statement.  A struct-field table cannot see them.
//
// Verdicts per variable
//
//	violation      a conflicting pair (at least one write, no common write-mode mutex, not both
//	               atomic) with NO synchronisation operation that could order it: no channel
//	               operation / WaitGroup.Wait / select between the go statement and the
//	               launcher's access, none inside either closure
//	needs-dynamic  a conflicting pair exists but some channel operation, Wait, select or Once
//	               stands where it could order the accesses, or one side is a callback run by
//	               foreign code: the race workloads have to decide
//
// Trust direction: a "violation" must be a real unordered pair (modulo the syntactic reading
// of "no synchronisation in between"); "needs-dynamic" is the honest rest.
package main

import (
	"go/ast"
	"go/token"
	"go/types"
	"sort"
	"strings"
)

type litInfo struct {
	role    string
	multi   bool
	goPos   token.Pos
	loopPos token.Pos
}

type lacc struct {
	pos  token.Pos
	kind string // read write atomic
	ctx  *funcCtx
	held lockset
	site string
}

var (
	litInfos  = map[*ast.FuncLit]*litInfo{}
	localAccs = map[*types.Var][]lacc{}
	localTop  = map[*types.Var]*funcCtx{}
	syncOps   = map[*funcCtx][]token.Pos{} // per declared function: positions of operations that can order goroutines
)

// callees that run the function they are given before they return, on the caller's goroutine
var synchronousCallees = map[string]bool{"sync.Do": true, "sort.Slice": true, "sort.SliceStable": true, "sort.Search": true,
	"strings.Map": true, "strings.FieldsFunc": true, "strings.IndexFunc": true, "strings.TrimFunc": true, "bytes.Map": true,
	"bytes.IndexFunc": true, "slices.SortFunc": true, "slices.IndexFunc": true}

// scanLits classifies every function literal of one declaration before the walker runs.
func scanLits(fd *ast.FuncDecl, pi *pkgInfo) {
	info := pi.info
	litOfVar := map[types.Object]*ast.FuncLit{}
	type launch struct{ pos, loop token.Pos }
	goVars := map[types.Object][]launch{}
	objOf := func(id *ast.Ident) types.Object {
		if o := info.Defs[id]; o != nil {
			return o
		}
		return info.Uses[id]
	}
	var visit func(n ast.Node, loop token.Pos)
	visitList := func(l []ast.Stmt, loop token.Pos) {
		for _, s := range l {
			visit(s, loop)
		}
	}
	markCallback := func(e ast.Expr) {
		if lit, ok := e.(*ast.FuncLit); ok {
			if litInfos[lit] == nil {
				litInfos[lit] = &litInfo{role: "callback"}
			}
		}
	}
	visit = func(n ast.Node, loop token.Pos) {
		switch x := n.(type) {
		case nil:
			return
		case *ast.GoStmt:
			switch f := x.Call.Fun.(type) {
			case *ast.FuncLit:
				litInfos[f] = &litInfo{role: "go", multi: loop != 0, goPos: x.Pos(), loopPos: loop}
			case *ast.Ident:
				if o := objOf(f); o != nil {
					goVars[o] = append(goVars[o], launch{x.Pos(), loop})
				}
			}
			visit(x.Call, loop)
			return
		case *ast.DeferStmt:
			if lit, ok := x.Call.Fun.(*ast.FuncLit); ok {
				litInfos[lit] = &litInfo{role: ""} // runs on this goroutine at return
			}
			visit(x.Call, loop)
			return
		case *ast.FuncLit:
			visitList(x.Body.List, 0) // a new body: loops of the enclosing function do not repeat its statements
			return
		case *ast.ForStmt:
			visit(x.Init, loop)
			if x.Cond != nil {
				visit(x.Cond, x.Pos())
			}
			visit(x.Post, x.Pos())
			visitList(x.Body.List, x.Pos())
			return
		case *ast.RangeStmt:
			visit(x.X, loop)
			visitList(x.Body.List, x.Pos())
			return
		case *ast.AssignStmt:
			for i, r := range x.Rhs {
				if lit, ok := r.(*ast.FuncLit); ok && len(x.Lhs) == len(x.Rhs) {
					if id, ok := x.Lhs[i].(*ast.Ident); ok {
						if o := objOf(id); o != nil {
							if v, isVar := o.(*types.Var); isVar && v.Pkg() != nil && v.Parent() != v.Pkg().Scope() {
								litOfVar[o] = lit
								if litInfos[lit] == nil {
									litInfos[lit] = &litInfo{role: ""}
								}
								continue
							}
						}
					}
					markCallback(lit) // stored in a field / package variable: anybody may call it
				}
			}
		case *ast.ValueSpec:
			for i, r := range x.Values {
				if lit, ok := r.(*ast.FuncLit); ok && i < len(x.Names) {
					if o := objOf(x.Names[i]); o != nil {
						litOfVar[o] = lit
						if litInfos[lit] == nil {
							litInfos[lit] = &litInfo{role: ""}
						}
					}
				}
			}
		case *ast.CallExpr:
			if lit, ok := x.Fun.(*ast.FuncLit); ok && litInfos[lit] == nil {
				litInfos[lit] = &litInfo{role: ""} // invoked on the spot
			}
			callee := ""
			if sel, ok := x.Fun.(*ast.SelectorExpr); ok {
				if fn, ok := info.Uses[sel.Sel].(*types.Func); ok && fn.Pkg() != nil {
					callee = fn.Pkg().Name() + "." + fn.Name()
				} else if s := info.Selections[sel]; s != nil {
					if fn, ok := s.Obj().(*types.Func); ok && fn.Pkg() != nil {
						callee = fn.Pkg().Name() + "." + fn.Name()
					}
				}
			}
			for _, a := range x.Args {
				if lit, ok := a.(*ast.FuncLit); ok {
					if synchronousCallees[callee] {
						litInfos[lit] = &litInfo{role: ""}
					} else {
						markCallback(lit)
					}
				}
			}
		case *ast.ReturnStmt:
			for _, r := range x.Results {
				markCallback(r)
			}
		case *ast.KeyValueExpr:
			markCallback(x.Value)
		case *ast.CompositeLit:
			for _, el := range x.Elts {
				markCallback(el)
			}
		}
		// generic descent, keeping the loop position
		ast.Inspect(n, func(c ast.Node) bool {
			if c == n || c == nil {
				return true
			}
			visit(c, loop)
			return false
		})
	}
	visitList(fd.Body.List, 0)
	for o, ls := range goVars {
		lit := litOfVar[o]
		if lit == nil {
			continue
		}
		li := &litInfo{role: "go", multi: len(ls) > 1, goPos: ls[0].pos, loopPos: ls[0].loop}
		for _, l := range ls {
			if l.pos < li.goPos {
				li.goPos, li.loopPos = l.pos, l.loop
			}
			if l.loop != 0 {
				li.multi = true
			}
		}
		litInfos[lit] = li
	}
}

func isSyncType(t types.Type) bool {
	if p, ok := t.(*types.Pointer); ok {
		t = p.Elem()
	}
	switch u := t.Underlying().(type) {
	case *types.Chan:
		return true
	case *types.Signature:
		_ = u
		return false
	}
	if n, ok := t.(*types.Named); ok && n.Obj().Pkg() != nil {
		switch n.Obj().Pkg().Path() {
		case "sync", "sync/atomic", "context":
			return true
		}
	}
	return false
}

func (w *walker) localAccess(id *ast.Ident, v *types.Var, mode string, held lockset, deep bool) {
	if w.silent || v.IsField() || v.Pkg() == nil || v.Parent() == v.Pkg().Scope() {
		return
	}
	top := w.fc.top
	if top == nil || v.Pos() < top.declPos || v.Pos() > top.declEnd || isSyncType(v.Type()) {
		return
	}
	kind := "read"
	switch {
	case mode == "atomic":
		kind = "atomic"
	case mode == "write" && !deep:
		kind = "write"
	case mode == "write" && deep:
		if _, isMap := v.Type().Underlying().(*types.Map); isMap {
			kind = "write" // concurrent map writes
		}
	}
	localTop[v] = top
	localAccs[v] = append(localAccs[v], lacc{pos: id.Pos(), kind: kind, ctx: w.fc, held: w.eff(held).copy(), site: w.pos(id.Pos())})
}

// the goroutine a body runs on: the nearest enclosing literal launched by `go` or handed out as a
// callback; nil = the goroutine that called the declared function
func gctx(fc *funcCtx) *funcCtx {
	for c := fc; c != nil; c = c.parent {
		if c.role != "" {
			return c
		}
	}
	return nil
}

func within(p token.Pos, fc *funcCtx) bool {
	if fc == nil || fc.body == nil {
		return false
	}
	lo := fc.body.Pos()
	if fc.extPos != 0 {
		lo = fc.extPos
	}
	return p >= lo && p <= fc.body.End()
}

// collectSyncOps: positions of channel receives / sends / close, select, range over a channel,
// Wait, Once.Do inside one declaration
func collectSyncOps(top *funcCtx) []token.Pos {
	if ps, ok := syncOps[top]; ok {
		return ps
	}
	var ps []token.Pos
	info := top.pkg.info
	ast.Inspect(top.body, func(n ast.Node) bool {
		switch x := n.(type) {
		case *ast.UnaryExpr:
			if x.Op == token.ARROW {
				ps = append(ps, x.Pos())
			}
		case *ast.SendStmt:
			ps = append(ps, x.Pos())
		case *ast.SelectStmt:
			ps = append(ps, x.Pos())
		case *ast.RangeStmt:
			if tv, ok := info.Types[x.X]; ok {
				if _, isChan := tv.Type.Underlying().(*types.Chan); isChan {
					ps = append(ps, x.Pos())
				}
			}
		case *ast.CallExpr:
			if id, ok := x.Fun.(*ast.Ident); ok && id.Name == "close" {
				ps = append(ps, x.Pos())
			}
			if sel, ok := x.Fun.(*ast.SelectorExpr); ok && (sel.Sel.Name == "Wait" || sel.Sel.Name == "Do") {
				if tv, ok := info.Types[sel.X]; ok {
					if n := namedOf(tv.Type); n != nil && n.Obj().Pkg() != nil && n.Obj().Pkg().Path() == "sync" {
						ps = append(ps, x.Pos())
					}
				}
			}
		}
		return true
	})
	sort.Slice(ps, func(i, j int) bool { return ps[i] < ps[j] })
	syncOps[top] = ps
	return ps
}

func anyBetween(ps []token.Pos, lo, hi token.Pos) bool {
	for _, p := range ps {
		if p > lo && p < hi {
			return true
		}
	}
	return false
}

func commonWriteLock(a, b lockset) bool {
	for k := range a {
		if !strings.HasSuffix(k, "#R") && b[k] {
			return true
		}
	}
	return false
}

type localPair struct {
	A, B string // "site kind context"
}

type localVerdict struct {
	Fn      string      `json:"fn"`
	Var     string      `json:"var"`
	Decl    string      `json:"decl"`
	Verdict string      `json:"verdict"` // violation | needs-dynamic
	Pairs   []localPair `json:"pairs"`
}

func ctxName(g *funcCtx) string {
	if g == nil {
		return "launcher"
	}
	n := g.role + " " + g.name[strings.LastIndex(g.name, "$lit@")+1:]
	if g.multi {
		n += " (several instances)"
	}
	return n
}

func capturedLocals() []localVerdict {
	res := []localVerdict{}
	var vars []*types.Var
	for v := range localAccs {
		vars = append(vars, v)
	}
	sort.Slice(vars, func(i, j int) bool { return vars[i].Pos() < vars[j].Pos() })
	for _, v := range vars {
		accs := localAccs[v]
		top := localTop[v]
		ops := collectSyncOps(top)
		// the goroutine that owns the variable's declaration
		var home *funcCtx
	findHome:
		for _, a := range accs {
			for c := a.ctx; c != nil; c = c.parent {
				if c.isLit && within(v.Pos(), c) {
					home = gctx(c) // innermost literal that declares v: v lives on that literal's goroutine
					break findHome
				}
			}
		}
		verdict := ""
		var pairs []localPair
		add := func(a, b lacc, vd string) {
			if vd == "violation" || verdict == "" {
				if vd == "violation" && verdict != "violation" {
					pairs = nil
				}
				if verdict != "violation" || vd == "violation" {
					verdict = vd
				}
			}
			if vd == verdict && len(pairs) < 4 {
				pairs = append(pairs, localPair{a.site + " " + a.kind + " in " + ctxName(gctx(a.ctx)), b.site + " " + b.kind + " in " + ctxName(gctx(b.ctx))})
			}
		}
		for i := 0; i < len(accs); i++ {
			for j := i; j < len(accs); j++ {
				a, b := accs[i], accs[j]
				if a.kind != "write" && b.kind != "write" {
					if !(a.kind == "atomic" && b.kind == "read") && !(a.kind == "read" && b.kind == "atomic") {
						continue
					}
				}
				if a.kind == "atomic" && b.kind == "atomic" {
					continue
				}
				ga, gb := gctx(a.ctx), gctx(b.ctx)
				if ga == gb {
					// the same closure running several times at once, on a variable declared outside it
					if ga == nil || ga == home || !ga.multi || within(v.Pos(), ga) || (ga.loopPos != 0 && v.Pos() > ga.loopPos) {
						continue
					}
					if i == j && a.kind != "write" {
						continue
					}
				}
				if commonWriteLock(a.held, b.held) {
					continue
				}
				// launcher (or owning goroutine) against a closure it starts: before the go statement is ordered by the fork
				ordered, maybe := false, false
				check := func(p lacc, gp *funcCtx, g *funcCtx) {
					// p runs on gp (the owner side), g is a closure
					if g == nil || g.role != "go" || gp != home {
						return
					}
					if p.pos < g.goPos && !(g.loopPos != 0 && p.pos > g.loopPos) {
						ordered = true
						return
					}
					if anyBetween(ops, g.goPos, p.pos) {
						maybe = true
					}
				}
				if ga != gb {
					check(a, ga, gb)
					check(b, gb, ga)
				}
				if ordered {
					continue
				}
				for _, g := range []*funcCtx{ga, gb} {
					if g == nil {
						continue
					}
					if g.role == "callback" {
						maybe = true
					}
					if g != home && anyBetween(ops, g.body.Pos(), g.body.End()) {
						maybe = true
					}
				}
				if maybe {
					add(a, b, "needs-dynamic")
				} else {
					add(a, b, "violation")
				}
			}
		}
		if verdict != "" {
			res = append(res, localVerdict{Fn: top.name, Var: v.Name(), Decl: posString(top, v.Pos()), Verdict: verdict, Pairs: pairs})
		}
	}
	return res
}

func posString(fc *funcCtx, p token.Pos) string {
	return (&walker{fc: fc}).pos(p)
}
