//go:build verif

// A witness trace over the REAL field and lock names of the generated table: for several
// tracked fields guarded by different mutexes, one thread performs the field's write row and
// other threads its read row, each holding exactly the locks the row records (read-mode names
// as RWMutex read sections, overlapping when the row holds nothing stronger).  The text is
// emitted next to the table and Coq checks it on every run (check_trace ... = true by
// vm_compute, then check_sound): the hypothesis `respects ... access_table tr` of
// C20_tracked_fields_race_free is satisfiable for the generated table itself.
package main

import (
	"fmt"
	"sort"
	"strings"
)

var exampleStats = map[string]interface{}{}

const maxExampleLocks = 8

func exampleCoq(out []*row) string {
	byField := map[string][]*row{}
	var fields []string
	for _, r := range out {
		if _, ok := byField[r.Field]; !ok {
			fields = append(fields, r.Field)
		}
		byField[r.Field] = append(byField[r.Field], r)
	}
	sort.Strings(fields)
	has := func(r *row, g string) bool {
		for _, h := range r.Held {
			if h == g {
				return true
			}
		}
		return false
	}
	writeBases := func(r *row) []string {
		var b []string
		for _, h := range r.Held {
			if !strings.HasSuffix(h, "#R") {
				b = append(b, h)
			}
		}
		return b
	}
	type pick struct {
		field string
		w, r  *row
	}
	var picks []pick
	usedLock := map[string]bool{}
	// fields with a real read-section site (RLock) first, so that overlapping readers are exercised
	var rwFirst, rest []string
	for _, f := range fields {
		rw := false
		for _, r := range byField[f] {
			for _, h := range r.Held {
				if strings.HasSuffix(h, "#R") && r.Kind == "read" && !has(r, strings.TrimSuffix(h, "#R")) {
					rw = true
				}
			}
		}
		if rw {
			rwFirst = append(rwFirst, f)
		} else {
			rest = append(rest, f)
		}
	}
	for _, f := range append(rwFirst, rest...) {
		if len(usedLock) >= maxExampleLocks {
			break
		}
		var wr, rd *row
		for _, r := range byField[f] {
			if r.Kind == "write" && wr == nil && len(writeBases(r)) > 0 {
				wr = r
			}
		}
		if wr == nil {
			continue
		}
		base := writeBases(wr)[0]
		if usedLock[base] {
			continue
		}
		// prefer a read row that holds the lock in read mode only (a real RLock site)
		for _, r := range byField[f] {
			if r.Kind == "read" && has(r, base+"#R") && !has(r, base) {
				rd = r
				break
			}
		}
		if rd == nil {
			for _, r := range byField[f] {
				if r.Kind == "read" && has(r, base) {
					rd = r
					break
				}
			}
		}
		if rd == nil {
			continue
		}
		usedLock[base] = true
		picks = append(picks, pick{f, wr, rd})
	}
	// lock numbering: every base name that occurs in a picked row
	lockID := map[string]int{}
	var lockNames []string
	note := func(r *row) {
		for _, h := range r.Held {
			b := strings.TrimSuffix(h, "#R")
			if _, ok := lockID[b]; !ok {
				lockID[b] = 0
				lockNames = append(lockNames, b)
			}
		}
	}
	for _, p := range picks {
		note(p.w)
		note(p.r)
	}
	sort.Strings(lockNames)
	for i, n := range lockNames {
		lockID[n] = i + 1
	}
	// acquisition plan of one row: write mode for names without #R, read mode for bare "b#R"
	type acq struct {
		id   int
		read bool
	}
	plan := func(r *row) []acq {
		var a []acq
		seen := map[string]bool{}
		hs := append([]string{}, r.Held...)
		sort.Strings(hs)
		for _, h := range hs {
			if !strings.HasSuffix(h, "#R") && !seen[h] {
				seen[h] = true
				a = append(a, acq{lockID[h], false})
			}
		}
		for _, h := range hs {
			if b := strings.TrimSuffix(h, "#R"); strings.HasSuffix(h, "#R") && !seen[b] {
				seen[b] = true
				a = append(a, acq{lockID[b], true})
			}
		}
		return a
	}
	var ev []string
	enter := func(t int, a []acq) {
		for _, x := range a {
			if x.read {
				ev = append(ev, fmt.Sprintf("RAcq %d %d", t, x.id))
			} else {
				ev = append(ev, fmt.Sprintf("Acq %d %d", t, x.id))
			}
		}
	}
	leave := func(t int, a []acq) {
		for i := len(a) - 1; i >= 0; i-- {
			if a[i].read {
				ev = append(ev, fmt.Sprintf("RRel %d %d", t, a[i].id))
			} else {
				ev = append(ev, fmt.Sprintf("Rel %d %d", t, a[i].id))
			}
		}
	}
	ev = append(ev, "Fork 0 1", "Fork 0 2", "Fork 0 3")
	overlapping := 0
	for i, p := range picks {
		x := i + 1
		wp, rp := plan(p.w), plan(p.r)
		enter(1, wp)
		ev = append(ev, fmt.Sprintf("Wr 1 %d", x))
		leave(1, wp)
		onlyRead := true
		for _, a := range rp {
			if !a.read {
				onlyRead = false
			}
		}
		if onlyRead && len(rp) > 0 {
			overlapping++
			enter(2, rp)
			enter(3, rp) // a second reader inside the same read section
			ev = append(ev, fmt.Sprintf("Rd 2 %d", x), fmt.Sprintf("Rd 3 %d", x))
			leave(2, rp)
			leave(3, rp)
		} else {
			enter(2, rp)
			ev = append(ev, fmt.Sprintf("Rd 2 %d", x))
			leave(2, rp)
		}
	}
	var b strings.Builder
	b.WriteString("\n(* a witness trace over the table's own field and lock names (see locktable/example.go) *)\n")
	b.WriteString("Definition gen_ex_field_of (x : loc) : string :=\n  match x with\n")
	for i, p := range picks {
		fmt.Fprintf(&b, "  | %d => %s\n", i+1, coqStr(p.field))
	}
	b.WriteString("  | _ => \"\"\n  end.\n")
	b.WriteString("Definition gen_ex_lock_of (g : string) : lock :=\n")
	for _, n := range lockNames {
		fmt.Fprintf(&b, "  if String.eqb g %s then %d else\n", coqStr(n), lockID[n])
	}
	b.WriteString("  0.\n")
	b.WriteString("Definition gen_ex_inst (x : loc) (g : string) : lock := gen_ex_lock_of g.\n")
	b.WriteString("Definition gen_ex_tr : trace := [\n  " + strings.Join(ev, ";\n  ") + "\n].\n")
	var fs []string
	for _, p := range picks {
		fs = append(fs, p.field)
	}
	exampleStats["fields"] = fs
	exampleStats["locks"] = lockNames
	exampleStats["events"] = len(ev)
	exampleStats["overlapping_read_sections"] = overlapping
	return b.String()
}
