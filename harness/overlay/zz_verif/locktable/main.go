//go:build verif

// locktable: the C20 access-table extractor (DESIGN.md Appendix B).
//
// For a fixed list of tracked shared fields / package variables it emits every syntactic
// access site in the repo's CURRENT source with
//   - the kind of access (read / write / atomic / init),
//   - the set of mutexes CERTAINLY held there (intra-procedural Lock/Unlock/defer Unlock
//     tracking; helpers inherit the intersection over their static call sites; goroutine
//     bodies and function literals start with the empty set).
//
// Output: a Coq list (Gen/AccessTable.v) checked by `discipline_ok`, and the same as JSON.
//
// Trust direction: the extractor may DROP a lock that is held (-> an alarm), it must never
// ADD one that is not. Whenever control flow is not understood (goto, labels) all locks
// are dropped.
//
// usage: locktable -list <go list -export -deps -json output> -root <repo root>
//
//	-coq <out.v> -json <out.json> [-name access_table] pkgpath...
package main

import (
	"encoding/json"
	"flag"
	"fmt"
	"go/ast"
	"go/importer"
	"go/parser"
	"go/token"
	"go/types"
	"io"
	"os"
	"path/filepath"
	"sort"
	"strings"
)

// ---------------------------------------------------------------- configuration

// tracked fields: package path suffix, struct type ("" = package variable), field / variable
var trackedList = []struct{ pkg, typ, name string }{
	{"/broker", "BrokerContext", "snowflakes"},
	{"/broker", "BrokerContext", "restrictedSnowflakes"},
	{"/broker", "BrokerContext", "idToSnowflake"},
	{"/broker", "Snowflake", "index"},
	{"/broker", "Metrics", "countryStats"},
	{"/broker", "Metrics", "clientRoundtripEstimate"},
	{"/broker", "Metrics", "proxyIdleCount"},
	{"/broker", "Metrics", "clientDeniedCount"},
	{"/broker", "Metrics", "clientRestrictedDeniedCount"},
	{"/broker", "Metrics", "clientUnrestrictedDeniedCount"},
	{"/broker", "Metrics", "clientProxyMatchCount"},
	{"/broker", "Metrics", "proxyPollWithRelayURLExtension"},
	{"/broker", "Metrics", "proxyPollWithoutRelayURLExtension"},
	{"/broker", "Metrics", "proxyPollRejectedWithRelayURLExtension"},
	{"/broker", "CountryStats", "proxies"},
	{"/broker", "CountryStats", "unknown"},
	{"/broker", "CountryStats", "natRestricted"},
	{"/broker", "CountryStats", "natUnrestricted"},
	{"/broker", "CountryStats", "natUnknown"},
	{"/broker", "CountryStats", "counts"},
	{"/broker", "roundedCounter", "total"},
	{"/broker", "roundedCounter", "value"},
	{"/common/turbotunnel", "clientMapInner", "byAge"},
	{"/common/turbotunnel", "clientMapInner", "byAddr"},
	{"/common/turbotunnel", "clientRecord", "LastSeen"},
	{"/server/lib", "clientIDMap", "entries"},
	{"/server/lib", "clientIDMap", "oldest"},
	{"/server/lib", "clientIDMap", "current"},
	{"/client/lib", "Peers", "activePeers"},
	{"/client/lib", "WebRTCPeer", "lastReceive"},
	{"/proxy/lib", "tokens_t", "clients"},
	{"/proxy/lib", "bytesSyncLogger", "outbound"},
	{"/proxy/lib", "bytesSyncLogger", "inbound"},
	{"/proxy/lib", "bytesSyncLogger", "outEvents"},
	{"/proxy/lib", "bytesSyncLogger", "inEvents"},
	{"/proxy/lib", "webRTCConn", "dc"},
	{"/proxy/lib", "", "currentNATType"},
}

// methods of a tracked field's value that do not modify what it refers to
var readerMethods = map[string]bool{"Len": true, "Front": true, "Back": true, "Load": true, "Before": true, "After": true,
	"Sub": true, "Equal": true, "IsZero": true, "String": true}

// ---------------------------------------------------------------- data

type listPkg struct {
	ImportPath string
	Dir        string
	Export     string
	GoFiles    []string
	CgoFiles   []string
}

type lockset map[string]bool

func (s lockset) copy() lockset {
	r := lockset{}
	for k := range s {
		r[k] = true
	}
	return r
}
func inter(a, b lockset) lockset {
	r := lockset{}
	for k := range a {
		if b[k] {
			r[k] = true
		}
	}
	return r
}
func (s lockset) equal(o lockset) bool {
	if len(s) != len(o) {
		return false
	}
	for k := range s {
		if !o[k] {
			return false
		}
	}
	return true
}
func (s lockset) sorted() []string {
	r := []string{}
	for k := range s {
		r = append(r, k)
	}
	sort.Strings(r)
	return r
}

type row struct {
	Site  string   `json:"site"`
	Fn    string   `json:"fn"`
	Field string   `json:"field"`
	Kind  string   `json:"kind"` // read write atomic init
	Held  []string `json:"held"`
	local lockset
	ctx   *funcCtx
}

// one analysed body: a declared function / method, or a function literal
type funcCtx struct {
	name   string      // "Type.method", "func", "func$lit@line"
	obj    *types.Func // nil for literals
	isLit  bool
	isCtor bool
	body   *ast.BlockStmt
	pkg    *pkgInfo
	seenGo bool // a go statement was already passed (constructor phase over)

	// captured-locals analysis (function-local variables shared between goroutines)
	parent  *funcCtx  // enclosing body of a literal
	top     *funcCtx  // the declared function the body lives in (itself for a declaration)
	declPos token.Pos // extent of the declaration (top only)
	declEnd token.Pos
	role    string    // literals: "" runs on the enclosing goroutine, "go" launched by a go statement, "callback" handed to other code
	multi   bool      // "go": launched by several go statements or by one inside a loop
	goPos   token.Pos // "go": the earliest go statement that launches it
	loopPos token.Pos // "go": innermost loop around that go statement (0 = none)
	extPos  token.Pos // literals: start of the literal (parameters included)
}

type callSite struct {
	caller *funcCtx
	held   lockset // local to the caller body
	isGo   bool
}

type pkgInfo struct {
	path  string
	name  string
	rel   string // dir relative to root
	fset  *token.FileSet
	files []*ast.File
	info  *types.Info
	tpkg  *types.Package
}

var (
	root        string
	trackedObj  = map[types.Object]string{} // field / var object -> printed name
	structOf    = map[types.Object]string{} // any field object -> "Type.field" (for lock names)
	trackedByTy = map[*types.Named][]types.Object{}
	rows        []*row
	sites       = map[*types.Func][]callSite{}
	valueUsed   = map[*types.Func]bool{} // function used as a value: entry set forced empty
	allFuncs    = map[*types.Func]*funcCtx{}
	analysed    = map[*types.Package]*pkgInfo{}
	lost        []string
)

// ---------------------------------------------------------------- main

func main() {
	listFile := flag.String("list", "", "go list -export -deps -json output")
	flag.StringVar(&root, "root", "", "repo root")
	coqOut := flag.String("coq", "", "Coq output")
	jsonOut := flag.String("json", "", "JSON output")
	name := flag.String("name", "access_table", "name of the Coq definition")
	flag.StringVar(&instrDir, "instr", "", "also write instrumented copies of the scanned sources (and overlay.json) here")
	flag.Parse()
	targets := flag.Args()

	pkgs := map[string]*listPkg{}
	f, err := os.Open(*listFile)
	if err != nil {
		die(err)
	}
	dec := json.NewDecoder(f)
	for {
		var p listPkg
		if err := dec.Decode(&p); err == io.EOF {
			break
		} else if err != nil {
			die(err)
		}
		pp := p
		pkgs[p.ImportPath] = &pp
	}
	fset := token.NewFileSet()
	imp := importer.ForCompiler(fset, "gc", func(path string) (io.ReadCloser, error) {
		p := pkgs[path]
		if p == nil || p.Export == "" {
			return nil, fmt.Errorf("no export data for %q", path)
		}
		return os.Open(p.Export)
	})

	var infos []*pkgInfo
	for _, t := range targets {
		var lp *listPkg
		for ip, p := range pkgs {
			if strings.HasSuffix(ip, t) && strings.HasPrefix(p.Dir, root) {
				lp = p
			}
		}
		if lp == nil {
			die(fmt.Errorf("package %s not in go list output", t))
		}
		pi := &pkgInfo{path: lp.ImportPath, fset: fset}
		pi.rel, _ = filepath.Rel(root, lp.Dir)
		for _, gf := range append(append([]string{}, lp.GoFiles...), lp.CgoFiles...) {
			af, err := parser.ParseFile(fset, filepath.Join(lp.Dir, gf), nil, parser.ParseComments)
			if err != nil {
				die(err)
			}
			pi.files = append(pi.files, af)
		}
		pi.info = &types.Info{Types: map[ast.Expr]types.TypeAndValue{}, Defs: map[*ast.Ident]types.Object{},
			Uses: map[*ast.Ident]types.Object{}, Selections: map[*ast.SelectorExpr]*types.Selection{}}
		conf := types.Config{Importer: imp, FakeImportC: true, Error: func(err error) {}}
		tp, err := conf.Check(lp.ImportPath, fset, pi.files, pi.info)
		if tp == nil {
			die(fmt.Errorf("type-check %s: %v", lp.ImportPath, err))
		}
		pi.tpkg = tp
		pi.name = tp.Name()
		analysed[tp] = pi
		infos = append(infos, pi)
	}

	for _, pi := range infos {
		indexTypes(pi)
	}
	// Metrics.geoipdb (written by LoadGeoipDatabases on SIGHUP, read by UpdateCountryStats): tracked since /repo 8c17ea8
	// takes the lock in LoadGeoipDatabases; lib/checks/c20.py passes VERIF_C20_GEOIP_RELOAD (default 1), 0 leaves it out
	if os.Getenv("VERIF_C20_GEOIP_RELOAD") != "0" {
		trackedList = append(trackedList, struct{ pkg, typ, name string }{"/broker", "Metrics", "geoipdb"})
	}
	for _, tr := range trackedList {
		found := false
		for _, pi := range infos {
			if !strings.HasSuffix(pi.path, tr.pkg) {
				continue
			}
			if tr.typ == "" {
				if o := pi.tpkg.Scope().Lookup(tr.name); o != nil {
					if _, ok := o.(*types.Var); ok {
						trackedObj[o] = pi.name + "." + tr.name
						found = true
					}
				}
				continue
			}
			o := pi.tpkg.Scope().Lookup(tr.typ)
			if o == nil {
				continue
			}
			named, ok := o.Type().(*types.Named)
			if !ok {
				continue
			}
			st, ok := named.Underlying().(*types.Struct)
			if !ok {
				continue
			}
			for i := 0; i < st.NumFields(); i++ {
				if st.Field(i).Name() == tr.name {
					trackedObj[st.Field(i)] = tr.typ + "." + tr.name
					trackedByTy[named] = append(trackedByTy[named], st.Field(i))
					found = true
				}
			}
		}
		if !found {
			lost = append(lost, strings.TrimPrefix(tr.pkg, "/")+":"+tr.typ+"."+tr.name)
		}
	}

	// pass 1: every body, local lock sets, call sites
	for _, pi := range infos {
		for _, af := range pi.files {
			for _, d := range af.Decls {
				fd, ok := d.(*ast.FuncDecl)
				if !ok || fd.Body == nil {
					continue
				}
				obj, _ := pi.info.Defs[fd.Name].(*types.Func)
				fc := &funcCtx{name: funcName(fd), obj: obj, body: fd.Body, pkg: pi, declPos: fd.Pos(), declEnd: fd.End()}
				fc.top = fc
				scanLits(fd, pi)
				ln := strings.ToLower(fd.Name.Name)
				fc.isCtor = fd.Recv == nil && (strings.HasPrefix(ln, "new") || strings.HasPrefix(ln, "init"))
				if obj != nil {
					allFuncs[obj] = fc
				}
				w := &walker{fc: fc}
				w.block(fd.Body.List, lockset{})
			}
		}
	}

	// pass 2: entry lock sets = intersection over static call sites (greatest fixpoint)
	all := lockset{}
	for _, r := range rows {
		for k := range r.local {
			all[k] = true
		}
	}
	for _, ss := range sites {
		for _, s := range ss {
			for k := range s.held {
				all[k] = true
			}
		}
	}
	entry := map[*types.Func]lockset{}
	for fobj, fc := range allFuncs {
		_ = fc
		if len(sites[fobj]) == 0 || valueUsed[fobj] {
			entry[fobj] = lockset{}
		} else {
			entry[fobj] = all.copy()
		}
	}
	for changed := true; changed; {
		changed = false
		for fobj := range allFuncs {
			if len(entry[fobj]) == 0 {
				continue
			}
			cur := entry[fobj]
			for _, s := range sites[fobj] {
				at := s.held.copy()
				if !s.isGo {
					if s.caller.obj != nil {
						for k := range entry[s.caller.obj] {
							at[k] = true
						}
					}
				} else {
					at = lockset{}
				}
				cur = inter(cur, at)
			}
			if !cur.equal(entry[fobj]) {
				entry[fobj] = cur
				changed = true
			}
		}
	}

	// pass 3: rows
	seen := map[string]bool{}
	var out []*row
	for _, r := range rows {
		h := r.local.copy()
		if r.ctx.obj != nil {
			for k := range entry[r.ctx.obj] {
				h[k] = true
			}
		}
		// "name#R" = held at least in read mode.  The rows say what is held, in which mode; that a
		// shared (read) hold protects plain reads only is decided by the Coq discipline (guards).
		r.Held = h.sorted()
		key := r.Site + "|" + r.Field + "|" + r.Kind + "|" + strings.Join(r.Held, ",")
		if seen[key] {
			continue
		}
		seen[key] = true
		out = append(out, r)
	}
	sort.SliceStable(out, func(i, j int) bool {
		if out[i].Field != out[j].Field {
			return out[i].Field < out[j].Field
		}
		return out[i].Site < out[j].Site
	})
	writeCoq(*coqOut, *name, out)
	writeInstrumented(infos)
	sort.Strings(lost)
	js, _ := json.MarshalIndent(map[string]interface{}{"rows": out, "coverage_lost": lost, "captured_locals": capturedLocals(),
		"example": exampleStats}, "", " ")
	if err := os.WriteFile(*jsonOut, js, 0644); err != nil {
		die(err)
	}
}

func die(err error) {
	fmt.Fprintln(os.Stderr, "locktable:", err)
	os.Exit(2)
}

func funcName(fd *ast.FuncDecl) string {
	if fd.Recv != nil && len(fd.Recv.List) == 1 {
		t := fd.Recv.List[0].Type
		if s, ok := t.(*ast.StarExpr); ok {
			t = s.X
		}
		if id, ok := t.(*ast.Ident); ok {
			return id.Name + "." + fd.Name.Name
		}
	}
	return fd.Name.Name
}

func namedOf(t types.Type) *types.Named {
	if p, ok := t.(*types.Pointer); ok {
		t = p.Elem()
	}
	n, _ := t.(*types.Named)
	return n
}

func indexTypes(pi *pkgInfo) {
	sc := pi.tpkg.Scope()
	for _, n := range sc.Names() {
		tn, ok := sc.Lookup(n).(*types.TypeName)
		if !ok {
			continue
		}
		st, ok := tn.Type().Underlying().(*types.Struct)
		if !ok {
			continue
		}
		for i := 0; i < st.NumFields(); i++ {
			structOf[st.Field(i)] = tn.Name() + "." + st.Field(i).Name()
		}
	}
}

// ---------------------------------------------------------------- the walker

type walker struct {
	fc      *funcCtx
	silent  bool      // fixpoint pre-passes over loop bodies record nothing
	dropAll bool      // control flow not understood: no lock is certainly held any more
	anchor  token.Pos // start of the innermost statement that sits in a statement list (instrumenter)
}

func (w *walker) pos(p token.Pos) string {
	ps := w.fc.pkg.fset.Position(p)
	rel, err := filepath.Rel(root, ps.Filename)
	if err != nil {
		rel = ps.Filename
	}
	return fmt.Sprintf("%s:%d", rel, ps.Line)
}

func (w *walker) eff(held lockset) lockset {
	if w.dropAll {
		return lockset{}
	}
	return held
}

// block walks statements in order and returns the lock set after the last one
func (w *walker) block(list []ast.Stmt, held lockset) lockset {
	saved := w.anchor
	for _, s := range list {
		w.anchor = s.Pos()
		held = w.stmt(s, held)
	}
	w.anchor = saved
	return held
}

func (w *walker) lockCall(call *ast.CallExpr) (name string, op string) {
	sel, ok := call.Fun.(*ast.SelectorExpr)
	if !ok {
		return "", ""
	}
	switch sel.Sel.Name {
	case "Lock", "Unlock", "RLock", "RUnlock":
	default:
		return "", ""
	}
	tv, ok := w.fc.pkg.info.Types[sel.X]
	if !ok {
		return "", ""
	}
	n := namedOf(tv.Type)
	if n == nil || n.Obj().Pkg() == nil || n.Obj().Pkg().Path() != "sync" || (n.Obj().Name() != "Mutex" && n.Obj().Name() != "RWMutex") {
		return "", ""
	}
	return w.staticName(sel.X), sel.Sel.Name
}

// staticName: "Type.field" for a struct member, "pkg.var" for a package variable, "" otherwise
func (w *walker) staticName(x ast.Expr) string {
	info := w.fc.pkg.info
	switch e := x.(type) {
	case *ast.ParenExpr:
		return w.staticName(e.X)
	case *ast.SelectorExpr:
		if sel := info.Selections[e]; sel != nil && sel.Kind() == types.FieldVal {
			return structOf[sel.Obj()]
		}
		if o, ok := info.Uses[e.Sel].(*types.Var); ok && o.Parent() == o.Pkg().Scope() {
			return o.Pkg().Name() + "." + o.Name()
		}
	case *ast.Ident:
		if o, ok := info.Uses[e].(*types.Var); ok && o.Pkg() != nil && o.Parent() == o.Pkg().Scope() {
			return o.Pkg().Name() + "." + o.Name()
		}
	}
	return ""
}

func (w *walker) stmt(s ast.Stmt, held lockset) lockset {
	switch st := s.(type) {
	case nil:
		return held
	case *ast.ExprStmt:
		if call, ok := st.X.(*ast.CallExpr); ok {
			if name, op := w.lockCall(call); op != "" {
				w.instrLock(st, call, name, op)
				held = held.copy()
				switch op {
				case "Lock":
					if name != "" {
						held[name] = true
						held[name+"#R"] = true
					}
				case "RLock":
					if name != "" {
						held[name+"#R"] = true
					}
				case "Unlock":
					if name == "" { // unlock of something we cannot name: be safe
						return lockset{}
					}
					delete(held, name)
					delete(held, name+"#R")
				case "RUnlock":
					if name == "" {
						return lockset{}
					}
					delete(held, name+"#R")
				}
				return held
			}
		}
		w.expr(st.X, held, "read")
		return held
	case *ast.AssignStmt:
		for _, r := range st.Rhs {
			w.expr(r, held, "read")
		}
		for _, l := range st.Lhs {
			if st.Tok == token.DEFINE {
				if _, ok := l.(*ast.Ident); ok {
					continue
				}
			}
			w.expr(l, held, "write")
		}
		return held
	case *ast.IncDecStmt:
		w.expr(st.X, held, "write")
		return held
	case *ast.DeclStmt:
		if gd, ok := st.Decl.(*ast.GenDecl); ok {
			for _, sp := range gd.Specs {
				if vs, ok := sp.(*ast.ValueSpec); ok {
					for _, v := range vs.Values {
						w.expr(v, held, "read")
					}
				}
			}
		}
		return held
	case *ast.ReturnStmt:
		for _, r := range st.Results {
			w.expr(r, held, "read")
		}
		return held
	case *ast.SendStmt:
		w.expr(st.Chan, held, "read")
		w.expr(st.Value, held, "read")
		return held
	case *ast.GoStmt:
		w.instrFork(st)
		w.call(st.Call, held, true)
		w.fc.seenGo = true
		return held
	case *ast.DeferStmt:
		if name, op := w.lockCall(st.Call); op == "Unlock" || op == "RUnlock" {
			w.instrDeferUnlock(st, name, op)
			return held // stays held to the end of the function
		}
		if _, op := w.lockCall(st.Call); op != "" {
			return lockset{} // deferred Lock: not understood
		}
		// the deferred call runs at return, when locks may have been released
		w.call(st.Call, lockset{}, false)
		return held
	case *ast.BlockStmt:
		return w.block(st.List, held)
	case *ast.IfStmt:
		held = w.stmt(st.Init, held)
		w.expr(st.Cond, held, "read")
		a := w.block(st.Body.List, held.copy())
		b := held
		if st.Else != nil {
			b = w.stmt(st.Else, held.copy())
		}
		return inter(a, b)
	case *ast.ForStmt:
		held = w.stmt(st.Init, held)
		return w.loop(held, func(h lockset) lockset {
			if st.Cond != nil {
				w.expr(st.Cond, h, "read")
			}
			h = w.block(st.Body.List, h)
			return w.stmt(st.Post, h)
		})
	case *ast.RangeStmt:
		w.exprDeep(st.X, held, "read")
		return w.loop(held, func(h lockset) lockset {
			if st.Tok != token.DEFINE {
				if st.Key != nil {
					w.expr(st.Key, h, "write")
				}
				if st.Value != nil {
					w.expr(st.Value, h, "write")
				}
			}
			return w.block(st.Body.List, h)
		})
	case *ast.SwitchStmt:
		held = w.stmt(st.Init, held)
		if st.Tag != nil {
			w.expr(st.Tag, held, "read")
		}
		return w.clauses(st.Body.List, held)
	case *ast.TypeSwitchStmt:
		held = w.stmt(st.Init, held)
		held = w.stmt(st.Assign, held)
		return w.clauses(st.Body.List, held)
	case *ast.SelectStmt:
		return w.clauses(st.Body.List, held)
	case *ast.LabeledStmt:
		w.dropAll = true
		return w.stmt(st.Stmt, lockset{})
	case *ast.BranchStmt:
		if st.Tok == token.GOTO || st.Label != nil {
			w.dropAll = true
			return lockset{}
		}
		return held
	case *ast.EmptyStmt:
		return held
	default:
		w.dropAll = true
		return lockset{}
	}
}

func (w *walker) clauses(list []ast.Stmt, held lockset) lockset {
	res := held
	for _, c := range list {
		h := held.copy()
		switch cc := c.(type) {
		case *ast.CaseClause:
			for _, e := range cc.List {
				w.expr(e, h, "read")
			}
			h = w.block(cc.Body, h)
		case *ast.CommClause:
			h = w.stmt(cc.Comm, h)
			h = w.block(cc.Body, h)
		}
		res = inter(res, h)
	}
	return res
}

// loop: the body may run again with whatever it left held, so iterate to a fixpoint
// (silently) and record only the final pass
func (w *walker) loop(held lockset, body func(lockset) lockset) lockset {
	wasSilent := w.silent
	w.silent = true
	start := held
	for {
		end := body(start.copy())
		next := inter(start, end)
		if next.equal(start) {
			break
		}
		start = next
	}
	w.silent = wasSilent
	end := body(start.copy())
	return inter(start, end)
}

// expr records the tracked accesses inside e. mode is the access kind that applies to the
// OUTERMOST tracked selector of e ("write" for assignment targets); everything deeper is read.
func (w *walker) expr(e ast.Expr, held lockset, mode string) { w.exprx(e, held, mode, false) }

// exprDeep: the access goes to what e REFERS to (map / slice contents, pointee)
func (w *walker) exprDeep(e ast.Expr, held lockset, mode string) { w.exprx(e, held, mode, true) }

func (w *walker) exprx(e ast.Expr, held lockset, mode string, deep bool) {
	info := w.fc.pkg.info
	switch x := e.(type) {
	case nil:
	case *ast.Ident:
		if o, ok := info.Uses[x]; ok {
			if name, ok := trackedObj[o]; ok {
				w.recordAt(x.Pos(), name, mode, held, x, deep)
			}
			if v, ok := o.(*types.Var); ok {
				w.localAccess(x, v, mode, held, deep)
			}
			if fn, ok := o.(*types.Func); ok {
				valueUsed[fn] = true // a function used as a value can be called from anywhere
			}
		}
	case *ast.SelectorExpr:
		if sel := info.Selections[x]; sel != nil {
			if fn, ok := sel.Obj().(*types.Func); ok {
				valueUsed[fn] = true // method value
			}
			if name, ok := trackedObj[sel.Obj()]; ok && sel.Kind() == types.FieldVal {
				w.recordAt(x.Sel.Pos(), name, mode, held, x, deep)
			}
			// a store into a.b.c also writes into the struct values a.b that contain it
			inner := "read"
			if mode != "read" {
				if tv, ok := info.Types[x.X]; ok {
					if _, isPtr := tv.Type.Underlying().(*types.Pointer); !isPtr {
						inner = mode
					}
				}
			}
			w.expr(x.X, held, inner)
			return
		}
		// qualified identifier pkg.Var / pkg.Func
		if o, ok := info.Uses[x.Sel]; ok {
			if name, ok := trackedObj[o]; ok {
				w.recordAt(x.Sel.Pos(), name, mode, held, x, deep)
			}
			if fn, ok := o.(*types.Func); ok {
				valueUsed[fn] = true
			}
		}
	case *ast.IndexExpr:
		// m[k] = v / s[i] = v writes the contents the field refers to
		w.exprDeep(x.X, held, mode)
		w.expr(x.Index, held, "read")
	case *ast.SliceExpr:
		w.expr(x.X, held, "read")
		w.expr(x.Low, held, "read")
		w.expr(x.High, held, "read")
		w.expr(x.Max, held, "read")
	case *ast.StarExpr:
		w.exprDeep(x.X, held, mode)
	case *ast.ParenExpr:
		w.exprx(x.X, held, mode, deep)
	case *ast.UnaryExpr:
		if x.Op == token.AND {
			// address taken: whoever gets the pointer may write through it
			w.expr(x.X, held, "write")
			return
		}
		w.expr(x.X, held, "read")
	case *ast.BinaryExpr:
		w.expr(x.X, held, "read")
		w.expr(x.Y, held, "read")
	case *ast.KeyValueExpr:
		w.expr(x.Value, held, "read")
	case *ast.CompositeLit:
		for _, el := range x.Elts {
			if kv, ok := el.(*ast.KeyValueExpr); ok {
				w.expr(kv.Value, held, "read") // keys of struct literals name fields of a fresh value
				if _, isStruct := info.Types[x].Type.Underlying().(*types.Struct); !isStruct {
					w.expr(kv.Key, held, "read")
				}
			} else {
				w.expr(el, held, "read")
			}
		}
	case *ast.TypeAssertExpr:
		w.expr(x.X, held, "read")
	case *ast.CallExpr:
		w.call(x, held, false)
	case *ast.FuncLit:
		// a function value: runs who knows when, with no lock certainly held
		fc := &funcCtx{name: w.fc.name + "$lit@" + w.pos(x.Pos()), isLit: true, body: x.Body, pkg: w.fc.pkg, parent: w.fc, top: w.fc.top, extPos: x.Pos()}
		if li := litInfos[x]; li != nil {
			fc.role, fc.multi, fc.goPos, fc.loopPos = li.role, li.multi, li.goPos, li.loopPos
		}
		if !w.silent {
			(&walker{fc: fc}).block(x.Body.List, lockset{})
		}
	}
}

func (w *walker) calleeOf(call *ast.CallExpr) *types.Func {
	info := w.fc.pkg.info
	switch f := call.Fun.(type) {
	case *ast.Ident:
		fn, _ := info.Uses[f].(*types.Func)
		return fn
	case *ast.SelectorExpr:
		if sel := info.Selections[f]; sel != nil {
			fn, _ := sel.Obj().(*types.Func)
			return fn
		}
		fn, _ := info.Uses[f.Sel].(*types.Func)
		return fn
	case *ast.ParenExpr:
		return w.calleeOf(&ast.CallExpr{Fun: f.X, Args: call.Args})
	}
	return nil
}

func (w *walker) addSite(fn *types.Func, held lockset, isGo bool) {
	if w.silent || fn == nil {
		return
	}
	sites[fn] = append(sites[fn], callSite{caller: w.fc, held: w.eff(held).copy(), isGo: isGo})
}

// methodsNamed: concrete methods called `name` of analysed types that implement iface
func methodsNamed(name string, iface *types.Interface) []*types.Func {
	var res []*types.Func
	for tp := range analysed {
		sc := tp.Scope()
		for _, n := range sc.Names() {
			tn, ok := sc.Lookup(n).(*types.TypeName)
			if !ok {
				continue
			}
			named, ok := tn.Type().(*types.Named)
			if !ok || types.IsInterface(named) {
				continue
			}
			if iface != nil && !types.Implements(named, iface) && !types.Implements(types.NewPointer(named), iface) {
				continue
			}
			for i := 0; i < named.NumMethods(); i++ {
				if named.Method(i).Name() == name {
					res = append(res, named.Method(i))
				}
			}
		}
	}
	return res
}

func (w *walker) call(call *ast.CallExpr, held lockset, isGo bool) {
	info := w.fc.pkg.info
	// conversions and builtins
	if tv, ok := info.Types[call.Fun]; ok && tv.IsType() {
		for _, a := range call.Args {
			w.expr(a, held, "read")
		}
		return
	}
	if id, ok := call.Fun.(*ast.Ident); ok {
		if _, isB := info.Uses[id].(*types.Builtin); isB {
			switch id.Name {
			case "delete":
				if len(call.Args) == 2 {
					w.exprDeep(call.Args[0], held, "write")
					w.expr(call.Args[1], held, "read")
				}
				return
			case "append", "copy":
				// append(x.f, ...) reads x.f (the store is the enclosing assignment); copy(dst, ..) writes dst
				for i, a := range call.Args {
					if id.Name == "copy" && i == 0 {
						w.exprDeep(a, held, "write")
					} else {
						w.exprDeep(a, held, "read")
					}
				}
				return
			case "close":
				for _, a := range call.Args {
					w.expr(a, held, "read")
				}
				return
			}
			for _, a := range call.Args {
				if id.Name == "len" || id.Name == "cap" {
					w.exprDeep(a, held, "read")
				} else {
					w.expr(a, held, "read")
				}
			}
			return
		}
	}
	fn := w.calleeOf(call)
	pkgPath := ""
	if fn != nil && fn.Pkg() != nil {
		pkgPath = fn.Pkg().Path()
	}
	// sync/atomic: the pointed-to operand is accessed atomically
	if pkgPath == "sync/atomic" {
		for i, a := range call.Args {
			if u, ok := a.(*ast.UnaryExpr); ok && i == 0 && u.Op == token.AND {
				w.expr(u.X, held, "atomic")
			} else {
				w.expr(a, held, "read")
			}
		}
		return
	}
	// container/heap: the heap.Interface methods of the argument run under the caller's locks,
	// and the heap (first argument) is modified
	if pkgPath == "container/heap" && len(call.Args) > 0 {
		w.exprDeep(call.Args[0], held, "write")
		for _, a := range call.Args[1:] {
			w.expr(a, held, "read")
		}
		// heap.Init on a fresh local inside a constructor: initialisation, not a call site
		ctorInit := w.fc.isCtor && !w.fc.isLit && !w.fc.seenGo && w.baseIsFreshLocal(call.Args[0])
		if tv, ok := info.Types[call.Args[0]]; ok && !ctorInit {
			if n := namedOf(tv.Type); n != nil {
				for _, mn := range []string{"Len", "Less", "Swap", "Push", "Pop"} {
					for _, t := range []types.Type{n, types.NewPointer(n)} {
						if o, _, _ := types.LookupFieldOrMethod(t, true, n.Obj().Pkg(), mn); o != nil {
							if m, ok := o.(*types.Func); ok {
								w.addSite(m, held, isGo)
								break
							}
						}
					}
				}
			}
		}
		return
	}
	// the receiver / function expression
	if sel, ok := call.Fun.(*ast.SelectorExpr); ok {
		if s := info.Selections[sel]; s != nil && s.Kind() == types.MethodVal {
			// method call on a value: x.f.M(...) may modify what x.f refers to
			mode := "write"
			if readerMethods[sel.Sel.Name] {
				mode = "read"
			}
			// a method of an analysed type is analysed itself: the receiver expression is only read
			if fn != nil && fn.Pkg() != nil && analysed[fn.Pkg()] != nil {
				w.expr(sel.X, held, "read")
			} else {
				w.exprDeep(sel.X, held, mode)
			}
			// value receiver: the call copies the whole struct (a plain read of every field)
			if fn != nil {
				sig := fn.Type().(*types.Signature)
				if sig.Recv() != nil {
					if n, isNamed := sig.Recv().Type().(*types.Named); isNamed {
						for _, fo := range trackedByTy[n] {
							w.record(sel.Sel.Pos(), trackedObj[fo], "read", held, nil)
						}
					}
				}
			}
		} else if fn == nil {
			w.expr(call.Fun, held, "read") // a func-typed field or variable being called
		}
	} else if _, isLit := call.Fun.(*ast.FuncLit); isLit {
		w.expr(call.Fun, held, "read") // literal invoked (go func(){..}() / defer func(){..}()): starts empty
	} else if fn == nil {
		w.expr(call.Fun, held, "read")
	}
	for _, a := range call.Args {
		// a function or method passed as a value can be called from anywhere
		w.noteValueUse(a)
		w.expr(a, held, "read")
	}
	if fn == nil {
		return
	}
	// static callee inside the analysed packages
	if fn.Pkg() != nil && analysed[fn.Pkg()] != nil {
		sig := fn.Type().(*types.Signature)
		if sig.Recv() != nil {
			if iface, ok := sig.Recv().Type().Underlying().(*types.Interface); ok {
				for _, m := range methodsNamed(fn.Name(), iface) {
					w.addSite(m, held, isGo)
				}
				return
			}
		}
		w.addSite(fn, held, isGo)
	}
}

func (w *walker) noteValueUse(a ast.Expr) {
	info := w.fc.pkg.info
	switch x := a.(type) {
	case *ast.Ident:
		if fn, ok := info.Uses[x].(*types.Func); ok {
			valueUsed[fn] = true
		}
	case *ast.SelectorExpr:
		if s := info.Selections[x]; s != nil {
			if fn, ok := s.Obj().(*types.Func); ok {
				valueUsed[fn] = true
			}
		} else if fn, ok := info.Uses[x.Sel].(*types.Func); ok {
			valueUsed[fn] = true
		}
	}
}

// baseIsFreshLocal: the selector chain starts at a variable declared inside this body
func (w *walker) baseIsFreshLocal(e ast.Expr) bool {
	for {
		switch x := e.(type) {
		case *ast.SelectorExpr:
			e = x.X
		case *ast.IndexExpr:
			e = x.X
		case *ast.ParenExpr:
			e = x.X
		case *ast.StarExpr:
			e = x.X
		case *ast.Ident:
			o, ok := w.fc.pkg.info.Uses[x].(*types.Var)
			if !ok {
				return false
			}
			return o.Pos() > w.fc.body.Pos() && o.Pos() < w.fc.body.End()
		default:
			return false
		}
	}
}

// recordAt: deep accesses to a field of reference type (map, slice, pointer, chan) go to the
// location class "<field>[]" (the contents) and read the field itself
func (w *walker) recordAt(p token.Pos, name, mode string, held lockset, e ast.Expr, deep bool) {
	if deep {
		if tv, ok := w.fc.pkg.info.Types[e]; ok {
			switch tv.Type.Underlying().(type) {
			case *types.Map, *types.Slice, *types.Pointer, *types.Chan:
				w.record(p, name+"[]", mode, held, e)
				w.record(p, name, "read", held, e)
				return
			}
		}
	}
	w.record(p, name, mode, held, e)
}

func (w *walker) record(p token.Pos, name, mode string, held lockset, e ast.Expr) {
	if w.silent {
		return
	}
	kind := mode
	if w.fc.isCtor && !w.fc.isLit && !w.fc.seenGo && e != nil && w.baseIsFreshLocal(e) && mode != "atomic" {
		kind = "init"
	}
	w.instrAccess(name, mode, e)
	rows = append(rows, &row{Site: w.pos(p), Fn: w.fc.name, Field: name, Kind: kind, local: w.eff(held).copy(), ctx: w.fc})
}

// ---------------------------------------------------------------- output

func coqStr(s string) string { return "\"" + strings.ReplaceAll(s, "\"", "\"\"") + "\"" }

func writeCoq(path, name string, out []*row) {
	var b strings.Builder
	b.WriteString("(* GENERATED by harness/overlay/zz_verif/locktable from the repo's current source - do not edit. *)\n")
	b.WriteString("From Coq Require Import String List.\nFrom Snow Require Import Model.LockTrace.\nImport ListNotations.\nOpen Scope string_scope.\n\n")
	fmt.Fprintf(&b, "Definition %s : list access := [\n", name)
	kinds := map[string]string{"read": "KRead", "write": "KWrite", "atomic": "KAtomic", "init": "KInit"}
	for i, r := range out {
		hs := make([]string, len(r.Held))
		for j, h := range r.Held {
			hs[j] = coqStr(h)
		}
		sep := ";"
		if i == len(out)-1 {
			sep = ""
		}
		fmt.Fprintf(&b, "  mkAccess %s %s %s %s [%s]%s\n", coqStr(r.Site), coqStr(r.Fn), coqStr(r.Field), kinds[r.Kind], strings.Join(hs, "; "), sep)
	}
	b.WriteString("].\n")
	if name == "access_table" {
		b.WriteString(exampleCoq(out))
	}
	if err := os.WriteFile(path, []byte(b.String()), 0644); err != nil {
		die(err)
	}
}
