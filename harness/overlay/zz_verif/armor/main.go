//go:build verif

// Driver for common/amp's AMP armor (black-box, exported API only):
// amp.NewArmorEncoder / amp.NewArmorDecoder. Line protocol: see coq/Run/ArmorRun.v.
package main

import (
	"bytes"
	"encoding/base64"
	"encoding/hex"
	"errors"
	"fmt"
	"io"
	"runtime"
	"strconv"
	"strings"
	"sync/atomic"
	"time"

	"git.torproject.org/pluggable-transports/snowflake.git/v2/common/amp"
	"git.torproject.org/pluggable-transports/snowflake.git/v2/zz_verif/wire"
	"golang.org/x/net/html"
)

// chunkReader delivers the document in Reads whose sizes follow pat cyclically (0: as many as fit).
// consumed counts the bytes delivered so far.
type chunkReader struct {
	rem      []byte
	pat      []int
	i        int
	consumed int64
}

func (r *chunkReader) Read(p []byte) (int, error) {
	if len(r.rem) == 0 {
		return 0, io.EOF
	}
	n := len(p)
	if len(r.pat) > 0 {
		k := r.pat[r.i%len(r.pat)]
		r.i++
		if k > 0 && n > k {
			n = k
		}
	}
	n = copy(p[:n], r.rem)
	r.rem = r.rem[n:]
	atomic.AddInt64(&r.consumed, int64(n))
	return n, nil
}

// readSizes gives the caller's buffer sizes, cyclically.
type readSizes struct {
	pat []int
	i   int
}

// buffer returns a buffer as large as the largest size of the pattern (allocated once per decode).
func (s *readSizes) buffer() []byte {
	m := 4096
	for _, k := range s.pat {
		if k > m {
			m = k
		}
	}
	return make([]byte, m)
}

func (s *readSizes) next() int {
	if len(s.pat) == 0 {
		return 4096
	}
	k := s.pat[s.i%len(s.pat)]
	s.i++
	if k < 1 {
		k = 1
	}
	return k
}

// blockedWriters counts the goroutines parked in an io.Pipe Write (state "select", waiting for a
// reader or for the read side to be closed). The driver itself never writes to a pipe: such a
// goroutine belongs to a decoder.
func blockedWriters() int {
	buf := make([]byte, 1<<16)
	for {
		n := runtime.Stack(buf, true)
		if n < len(buf) {
			buf = buf[:n]
			break
		}
		buf = make([]byte, 2*len(buf))
	}
	c := 0
	for _, g := range strings.Split(string(buf), "\n\n") {
		nl := strings.IndexByte(g, '\n')
		if nl < 0 {
			continue
		}
		if strings.Contains(g[:nl], "[select") && strings.Contains(g, "io.(*pipe).write") {
			c++
		}
	}
	return c
}

// settle waits until the goroutines started since the baseline was taken have returned ("done"), or one
// of them is parked in a pipe Write that nobody will ever serve ("stuck"). No fixed sleeps: the state is
// polled; the deadline (for a goroutine that neither returns nor parks) is generous.
func settle(base, bw0 int) string {
	deadline := time.Now().Add(30 * time.Second)
	wait := 20 * time.Microsecond
	seen := 0
	for i := 0; i < 4; i++ {
		if runtime.NumGoroutine() <= base {
			return "done"
		}
		runtime.Gosched()
	}
	for {
		if runtime.NumGoroutine() <= base {
			return "done"
		}
		if blockedWriters() > bw0 {
			seen++
			if seen >= 2 {
				return "stuck"
			}
		} else {
			seen = 0
		}
		if time.Now().After(deadline) {
			return "stuck"
		}
		time.Sleep(wait)
		if wait < 5*time.Millisecond {
			wait *= 2
		}
	}
}

func class(err error) string {
	var uv amp.ErrUnknownVersion
	var ci base64.CorruptInputError
	switch {
	case errors.As(err, &uv):
		return "version"
	case err == html.ErrBufferExceeded:
		return "oversize"
	case errors.As(err, &ci), err == io.ErrUnexpectedEOF:
		return "b64"
	case err == io.EOF:
		return "empty"
	}
	return "err"
}

var errHang = errors.New("hang")

// hung is set once a call did not return: the stuck goroutine keeps spinning, so every later
// case of this process is answered "!hang" at once instead of waiting again.
var hung bool

// encode runs encode1 under a watchdog (an encoder that never returns is an observable).
func encode(p []byte, sizes []int) ([]byte, error) {
	type res struct {
		b   []byte
		err error
	}
	ch := make(chan res, 1)
	go func() {
		b, err := encode1(p, sizes)
		ch <- res{b, err}
	}()
	select {
	case r := <-ch:
		return r.b, r.err
	case <-time.After(20 * time.Second):
		hung = true
		return nil, errHang
	}
}

func encode1(p []byte, sizes []int) ([]byte, error) {
	var out bytes.Buffer
	enc, err := amp.NewArmorEncoder(&out)
	if err != nil {
		return nil, err
	}
	for _, k := range sizes {
		if k > len(p) {
			k = len(p)
		}
		if _, err := enc.Write(p[:k]); err != nil {
			return nil, err
		}
		p = p[k:]
	}
	if len(p) > 0 {
		if _, err := enc.Write(p); err != nil {
			return nil, err
		}
	}
	if err := enc.Close(); err != nil {
		return nil, err
	}
	return out.Bytes(), nil
}

// decode reads everything from the armor decoder with read buffers of the given sizes. Result:
// "ok x<data>" or "E:<class> x<data returned before the error>", then " g=0" when every goroutine the
// decoder started has returned, " g=1" when one is left blocked.
func decode(doc []byte, srcpat, rbufpat []int) string {
	base, bw0 := runtime.NumGoroutine(), 0
	if base > 2 {
		bw0 = blockedWriters()
	}
	type res struct{ s string }
	ch := make(chan res, 1)
	go func() {
		defer func() {
			if r := recover(); r != nil {
				ch <- res{"!panic " + fmt.Sprint(r)}
			}
		}()
		dec, err := amp.NewArmorDecoder(&chunkReader{rem: doc, pat: srcpat})
		if err != nil {
			ch <- res{"E:" + class(err) + " x"}
			return
		}
		var data []byte
		sz := &readSizes{pat: rbufpat}
		all := sz.buffer()
		for {
			buf := all[:sz.next()]
			n, err := dec.Read(buf)
			data = append(data, buf[:n]...)
			if err == io.EOF {
				ch <- res{"ok x" + wire.Hex(data)}
				return
			}
			if err != nil {
				ch <- res{"E:" + class(err) + " x" + wire.Hex(data)}
				return
			}
		}
	}()
	select {
	case r := <-ch:
		if strings.HasPrefix(r.s, "!") {
			return r.s
		}
		if settle(base, bw0) == "done" {
			return r.s + " g=0"
		}
		return r.s + " g=1"
	case <-time.After(20 * time.Second):
		hung = true
		return "!hang"
	}
}

// ahead does at most nreads Reads, lets the decoder's goroutine run until it returns or parks in its
// next Write, and reports how much of the source has been consumed by then.
func ahead(doc []byte, srcpat, rbufpat []int, nreads int, need int64) string {
	base, bw0 := runtime.NumGoroutine(), blockedWriters()
	src := &chunkReader{rem: doc, pat: srcpat}
	type res struct{ s string }
	ch := make(chan res, 1)
	go func() {
		dec, err := amp.NewArmorDecoder(src)
		if err != nil {
			ch <- res{"x E:" + class(err)}
			return
		}
		var data []byte
		sz := &readSizes{pat: rbufpat}
		all := sz.buffer()
		end := "-"
		for i := 0; i < nreads; i++ {
			buf := all[:sz.next()]
			n, err := dec.Read(buf)
			data = append(data, buf[:n]...)
			if err == io.EOF {
				end = "eof"
				break
			}
			if err != nil {
				end = "E:" + class(err)
				break
			}
		}
		ch <- res{"x" + wire.Hex(data) + " " + end}
	}()
	select {
	case r := <-ch:
		settle(base, bw0)
		c := atomic.LoadInt64(&src.consumed)
		if need >= 0 {
			// greedy source: the tokenizer asks for at most 64 KiB at a time
			if c > need+3*65536 {
				return r.s + " c=over:" + strconv.FormatInt(c, 10)
			}
			return r.s + " c=ok"
		}
		return r.s + " c=" + strconv.FormatInt(c, 10)
	case <-time.After(20 * time.Second):
		hung = true
		return "!hang"
	}
}

// tokens prints the token stream of html.Tokenizer with the armor decoder's buffer limit, in the
// projection decodeToWriter sees (type, tag name, Text()).
func tokens(doc []byte) string {
	z := html.NewTokenizer(bytes.NewReader(doc))
	z.SetMaxBuf(32 * 1024)
	var out []string
	for {
		switch z.Next() {
		case html.ErrorToken:
			switch z.Err() {
			case io.EOF:
				out = append(out, "!eof")
			case html.ErrBufferExceeded:
				out = append(out, "!over")
			default:
				out = append(out, "!err")
			}
			return strings.Join(out, ",")
		case html.TextToken:
			out = append(out, "T"+wire.Hex(z.Text()))
		case html.StartTagToken:
			n, _ := z.TagName()
			out = append(out, "S"+wire.Hex(n))
		case html.EndTagToken:
			n, _ := z.TagName()
			out = append(out, "E"+wire.Hex(n))
		default:
			out = append(out, "O")
		}
	}
}

func ints(t string) []int {
	var out []int
	for _, x := range wire.List(t) {
		n, err := strconv.Atoi(x)
		if err != nil {
			panic("bad int list")
		}
		out = append(out, n)
	}
	return out
}

func atoi(t string) int {
	n, err := strconv.Atoi(t)
	if err != nil {
		panic("bad int")
	}
	return n
}

// endlessReader: the given prefix, then a unit of filler repeated for ever. The unit ends with a pre element,
// so a streaming decoder's goroutine parks in its next pipe Write soon after every delivered word: how much of
// the source it has consumed by then is a stable quantity (no race with a producer that keeps running).
type endlessReader struct {
	prefix   []byte
	unit     []byte
	off      int
	consumed int64
	stop     int32
}

func (r *endlessReader) Read(b []byte) (int, error) {
	if atomic.LoadInt32(&r.stop) != 0 {
		return 0, io.EOF
	}
	n := 0
	if len(r.prefix) > 0 {
		n = copy(b, r.prefix)
		r.prefix = r.prefix[n:]
	} else {
		for n < len(b) {
			k := copy(b[n:], r.unit[r.off:])
			n += k
			r.off = (r.off + k) % len(r.unit)
		}
	}
	atomic.AddInt64(&r.consumed, int64(n))
	return n, nil
}

// stallReader: the given prefix, then a Read that does not return until the source is released (a stalled HTTP
// body). consumed counts the bytes delivered.
type stallReader struct {
	prefix   []byte
	release  chan struct{}
	consumed int64
}

func (r *stallReader) Read(b []byte) (int, error) {
	if len(r.prefix) > 0 {
		n := copy(b, r.prefix)
		r.prefix = r.prefix[n:]
		atomic.AddInt64(&r.consumed, int64(n))
		return n, nil
	}
	<-r.release
	return 0, io.EOF
}

// lazyErr: a document whose beginning (prefix) makes the decoder fail, followed by a remainder that never ends
// (fillKind 0, 1: endless well-formed filler with pre elements, as in lazy) or never comes (fillKind 2: the source
// stalls). The caller reads with 16-byte buffers, at most maxReads times. The error must be RETURNED - after a
// bounded part of the remainder has been consumed, without waiting for its end:
//
//	end=error:<class>|eof|data consumed=small|over:<n>      the Reads came back
//	end=none consumed=<n>MiB-and-growing|stalled            a Read did not come back within the deadline
func lazyErr(prefix []byte, fillKind, maxReads int) string {
	line := "<!-- filler --> \n"
	if fillKind == 1 {
		line = "<p>text outside pre</p>\n"
	}
	unit := []byte(strings.Repeat(line, 64) + "<pre>QUJD</pre>\n")
	var src io.Reader
	var endless *endlessReader
	var stall *stallReader
	if fillKind == 2 {
		stall = &stallReader{prefix: prefix, release: make(chan struct{})}
		src = stall
	} else {
		endless = &endlessReader{prefix: prefix, unit: unit}
		src = endless
	}
	consumed := func() int64 {
		if stall != nil {
			return atomic.LoadInt64(&stall.consumed)
		}
		return atomic.LoadInt64(&endless.consumed)
	}
	base, bw0 := runtime.NumGoroutine(), blockedWriters()
	ch := make(chan string, 1)
	go func() {
		dec, err := amp.NewArmorDecoder(src)
		if err != nil {
			ch <- "error:" + class(err)
			return
		}
		buf := make([]byte, 16)
		for i := 0; i < maxReads; i++ {
			_, err := dec.Read(buf)
			if err == io.EOF {
				ch <- "eof"
				return
			}
			if err != nil {
				ch <- "error:" + class(err)
				return
			}
		}
		ch <- "data"
	}()
	var out string
	select {
	case end := <-ch:
		if stall != nil {
			// the producer may be parked in the stalled source: let it go before waiting for it
			close(stall.release)
		}
		settle(base, bw0)
		c := consumed()
		bucket := "small"
		if c > int64(len(prefix)+len(unit))+3*65536 {
			bucket = "over:" + strconv.FormatInt(c, 10)
		}
		out = "end=" + end + " consumed=" + bucket
	case <-time.After(8 * time.Second):
		if stall != nil {
			out = "end=none consumed=stalled"
			close(stall.release)
		} else {
			out = "end=none consumed=" + strconv.FormatInt(consumed()>>20, 10) + "MiB-and-growing"
		}
	}
	if endless != nil {
		atomic.StoreInt32(&endless.stop, 1)
	}
	return out
}

func lazy(prefix []byte, fillKind int) string {
	line := "<!-- filler --> \n"
	if fillKind == 1 {
		line = "<p>text outside pre</p>\n"
	}
	unit := []byte(strings.Repeat(line, 64) + "<pre>QUJD</pre>\n")
	wait := 8 * time.Second
	if fillKind == 3 {
		// the remainder stays INSIDE the pre element the prefix opened: words separated by inner markup, for ever (every
		// text token is short, the element never ends); a decoder that keeps an element until its end tag never answers
		unit = []byte(strings.Repeat("QUJD<br>\n", 64))
		wait = 3 * time.Second
	}
	src := &endlessReader{prefix: prefix, unit: unit}
	base, bw0 := runtime.NumGoroutine(), blockedWriters()
	type res struct {
		n   int
		err error
	}
	ch := make(chan res, 1)
	go func() {
		dec, err := amp.NewArmorDecoder(src)
		if err != nil {
			ch <- res{0, err}
			return
		}
		buf := make([]byte, 16)
		n, err := dec.Read(buf)
		ch <- res{n, err}
	}()
	var out string
	select {
	case r := <-ch:
		settle(base, bw0)
		c := atomic.LoadInt64(&src.consumed)
		bucket := "small"
		// the prefix, the filler up to the next word, and what the tokenizer reads in one go (at most 64 KiB)
		if c > int64(len(prefix)+len(unit))+3*65536 {
			bucket = "over:" + strconv.FormatInt(c, 10)
		}
		if r.err != nil && r.n == 0 {
			out = "first=error consumed=" + bucket
		} else {
			out = "first=data consumed=" + bucket
		}
	case <-time.After(wait):
		c := atomic.LoadInt64(&src.consumed)
		out = "first=none consumed=" + strconv.FormatInt(c>>20, 10) + "MiB-and-growing"
	}
	atomic.StoreInt32(&src.stop, 1)
	return out
}

func main() {
	wire.Loop(func(a []string) string {
		if hung {
			return "!hang"
		}
		if len(a) < 2 {
			return "!badcase"
		}
		pi := 1
		switch a[0] {
		case "dec", "dec0", "mon", "lazy", "lazyerr":
			// dec/mon <srcpat> <rbufpat> <doc> <hex>...
			pi = 3
		case "ahead", "aheadg":
			pi = 4
		case "tok", "strict":
			pi = 1
		}
		if len(a) < pi+1 {
			return "!badcase"
		}
		p, err := wire.Payload(a[pi])
		if err != nil {
			return "!badcase"
		}
		if pi >= 3 || a[0] == "tok" || a[0] == "strict" {
			for _, h := range a[pi+1:] {
				more, err := hex.DecodeString(h)
				if err != nil {
					return "!badcase"
				}
				p = append(p, more...)
			}
		}
		switch a[0] {
		case "enc":
			o, err := encode(p, nil)
			if err == errHang {
				return "!hang"
			}
			if err != nil {
				return "E:write"
			}
			return wire.Hex(o)
		case "stream":
			o, err := encode(p, ints(a[2]))
			if err == errHang {
				return "!hang"
			}
			if err != nil {
				return "E:write"
			}
			return wire.Hex(o)
		case "b64": // validates coq/Model/Base64.v against encoding/base64 itself
			return wire.Hex([]byte(base64.StdEncoding.EncodeToString(p)))
		case "b64d":
			d, err := base64.StdEncoding.DecodeString(string(p))
			if err != nil {
				return "E:b64"
			}
			return "ok x" + wire.Hex(d)
		case "dec", "dec0":
			return decode(p, ints(a[1]), ints(a[2]))
		case "ahead":
			return ahead(p, ints(a[1]), ints(a[2]), atoi(a[3]), -1)
		case "aheadg":
			return ahead(p, nil, ints(a[1]), atoi(a[2]), int64(atoi(a[3])))
		case "tok":
			return tokens(p)
		case "unesc":
			return wire.Hex([]byte(html.UnescapeString(string(p))))
		case "rt":
			o, err := encode(p, ints(a[2]))
			if err == errHang {
				return "!hang"
			}
			if err != nil {
				return "E:write"
			}
			return decode(o, ints(a[3]), ints(a[4]))
		case "lazy":
			// bounded buffering / no hang on an endless document: the source is the given prefix followed by
			// filler that never ends; report how much of the source was consumed when the first decoded byte
			// (or an error) is available. A streaming decoder needs about one tokenizer buffer.
			return lazy(p, atoi(a[1]))
		case "lazyerr":
			return lazyErr(p, atoi(a[1]), atoi(a[2]))
		case "mon":
			var m0, m1 runtime.MemStats
			runtime.GC()
			runtime.ReadMemStats(&m0)
			r := decode(p, ints(a[1]), ints(a[2]))
			runtime.ReadMemStats(&m1)
			if r == "!hang" || (len(r) > 6 && r[:6] == "!panic") {
				return r
			}
			// everything allocated while decoding (decoded data included) stays within a
			// constant factor of the input plus the tokenizer's 32 KiB buffer bound
			if grown := int64(m1.TotalAlloc - m0.TotalAlloc); grown > 64*int64(len(p))+(8<<20) {
				return "!mem " + strconv.FormatInt(grown, 10)
			}
			return "returns"
		}
		return "!badcase"
	})
}
