//go:build verif

// Driver for common/amp's AMP armor (black-box, exported API only):
// amp.NewArmorEncoder / amp.NewArmorDecoder. Line protocol: see coq/Run/ArmorRun.v.
package main

import (
	"bytes"
	"encoding/base64"
	"encoding/hex"
	"errors"
	"fmt"
	"io"
	"runtime"
	"strconv"
	"sync/atomic"
	"time"

	"git.torproject.org/pluggable-transports/snowflake.git/v2/common/amp"
	"git.torproject.org/pluggable-transports/snowflake.git/v2/zz_verif/wire"
	"golang.org/x/net/html"
)

// chunkReader returns at most k bytes per Read (k <= 0: as many as fit).
type chunkReader struct {
	rem []byte
	k   int
}

func (r *chunkReader) Read(p []byte) (int, error) {
	if len(r.rem) == 0 {
		return 0, io.EOF
	}
	n := len(p)
	if r.k > 0 && n > r.k {
		n = r.k
	}
	n = copy(p[:n], r.rem)
	r.rem = r.rem[n:]
	return n, nil
}

func class(err error) string {
	var uv amp.ErrUnknownVersion
	var ci base64.CorruptInputError
	switch {
	case errors.As(err, &uv):
		return "version"
	case err == html.ErrBufferExceeded:
		return "oversize"
	case errors.As(err, &ci), err == io.ErrUnexpectedEOF:
		return "b64"
	case err == io.EOF:
		return "empty"
	}
	return "err"
}

var errHang = errors.New("hang")

// hung is set once a call did not return: the stuck goroutine keeps spinning, so every later
// case of this process is answered "!hang" at once instead of waiting again.
var hung bool

// encode runs encode1 under a watchdog (an encoder that never returns is an observable).
func encode(p []byte, sizes []int) ([]byte, error) {
	type res struct {
		b   []byte
		err error
	}
	ch := make(chan res, 1)
	go func() {
		b, err := encode1(p, sizes)
		ch <- res{b, err}
	}()
	select {
	case r := <-ch:
		return r.b, r.err
	case <-time.After(20 * time.Second):
		hung = true
		return nil, errHang
	}
}

func encode1(p []byte, sizes []int) ([]byte, error) {
	var out bytes.Buffer
	enc, err := amp.NewArmorEncoder(&out)
	if err != nil {
		return nil, err
	}
	for _, k := range sizes {
		if k > len(p) {
			k = len(p)
		}
		if _, err := enc.Write(p[:k]); err != nil {
			return nil, err
		}
		p = p[k:]
	}
	if len(p) > 0 {
		if _, err := enc.Write(p); err != nil {
			return nil, err
		}
	}
	if err := enc.Close(); err != nil {
		return nil, err
	}
	return out.Bytes(), nil
}

// decode reads everything from the armor decoder using read buffers of rbuf bytes.
func decode(doc []byte, srcchunk, rbuf int) string {
	type res struct{ s string }
	ch := make(chan res, 1)
	go func() {
		defer func() {
			if r := recover(); r != nil {
				ch <- res{"!panic " + fmt.Sprint(r)}
			}
		}()
		dec, err := amp.NewArmorDecoder(&chunkReader{rem: doc, k: srcchunk})
		if err != nil {
			ch <- res{"E:" + class(err)}
			return
		}
		var data []byte
		buf := make([]byte, rbuf)
		for {
			n, err := dec.Read(buf)
			data = append(data, buf[:n]...)
			if err == io.EOF {
				ch <- res{"ok x" + wire.Hex(data)}
				return
			}
			if err != nil {
				ch <- res{"E:" + class(err)}
				return
			}
		}
	}()
	select {
	case r := <-ch:
		return r.s
	case <-time.After(20 * time.Second):
		hung = true
		return "!hang"
	}
}

func ints(t string) []int {
	var out []int
	for _, x := range wire.List(t) {
		n, err := strconv.Atoi(x)
		if err != nil {
			panic("bad int list")
		}
		out = append(out, n)
	}
	return out
}

func atoi(t string) int {
	n, err := strconv.Atoi(t)
	if err != nil {
		panic("bad int")
	}
	return n
}

type endlessReader struct {
	prefix   []byte
	filler   []byte
	consumed int64
	stop     int32
}

func (r *endlessReader) Read(b []byte) (int, error) {
	if atomic.LoadInt32(&r.stop) != 0 {
		return 0, io.EOF
	}
	n := 0
	if len(r.prefix) > 0 {
		n = copy(b, r.prefix)
		r.prefix = r.prefix[n:]
	} else {
		for n < len(b) {
			n += copy(b[n:], r.filler)
		}
	}
	atomic.AddInt64(&r.consumed, int64(n))
	return n, nil
}

func lazy(prefix []byte, fillKind int) string {
	fill := []byte("<!-- filler --> \n")
	if fillKind == 1 {
		fill = []byte("<p>text outside pre</p>\n")
	}
	src := &endlessReader{prefix: prefix, filler: fill}
	type res struct {
		n   int
		err error
	}
	ch := make(chan res, 1)
	go func() {
		dec, err := amp.NewArmorDecoder(src)
		if err != nil {
			ch <- res{0, err}
			return
		}
		buf := make([]byte, 16)
		n, err := dec.Read(buf)
		ch <- res{n, err}
	}()
	var out string
	select {
	case r := <-ch:
		c := atomic.LoadInt64(&src.consumed)
		bucket := "small"
		if c > 1<<20 {
			bucket = "over-1MiB"
		}
		if r.err != nil && r.n == 0 {
			out = "first=error consumed=" + bucket
		} else {
			out = "first=data consumed=" + bucket
		}
	case <-time.After(8 * time.Second):
		c := atomic.LoadInt64(&src.consumed)
		out = "first=none consumed=" + strconv.FormatInt(c>>20, 10) + "MiB-and-growing"
	}
	atomic.StoreInt32(&src.stop, 1)
	return out
}

func main() {
	wire.Loop(func(a []string) string {
		if hung {
			return "!hang"
		}
		if len(a) < 2 {
			return "!badcase"
		}
		pi := 1
		if a[0] == "dec" || a[0] == "mon" || a[0] == "lazy" {
			// dec/mon <srcchunk> <rbuf> <doc> <hex>...
			if len(a) < 4 {
				return "!badcase"
			}
			pi = 3
		}
		p, err := wire.Payload(a[pi])
		if err != nil {
			return "!badcase"
		}
		if pi == 3 {
			for _, h := range a[4:] {
				more, err := hex.DecodeString(h)
				if err != nil {
					return "!badcase"
				}
				p = append(p, more...)
			}
		}
		switch a[0] {
		case "enc":
			o, err := encode(p, nil)
			if err == errHang {
				return "!hang"
			}
			if err != nil {
				return "E:write"
			}
			return wire.Hex(o)
		case "stream":
			o, err := encode(p, ints(a[2]))
			if err == errHang {
				return "!hang"
			}
			if err != nil {
				return "E:write"
			}
			return wire.Hex(o)
		case "b64": // validates coq/Model/Base64.v against encoding/base64 itself
			return wire.Hex([]byte(base64.StdEncoding.EncodeToString(p)))
		case "b64d":
			d, err := base64.StdEncoding.DecodeString(string(p))
			if err != nil {
				return "E:b64"
			}
			return "ok x" + wire.Hex(d)
		case "dec":
			return decode(p, atoi(a[1]), atoi(a[2]))
		case "rt":
			o, err := encode(p, ints(a[2]))
			if err == errHang {
				return "!hang"
			}
			if err != nil {
				return "E:write"
			}
			return decode(o, atoi(a[3]), atoi(a[4]))
		case "lazy":
			// bounded buffering / no hang on an endless document: the source is the given prefix followed by
			// filler that never ends; report how much of the source was consumed when the first decoded byte
			// (or an error) is available. A streaming decoder needs about one tokenizer buffer.
			return lazy(p, atoi(a[1]))
		case "mon":
			var m0, m1 runtime.MemStats
			runtime.GC()
			runtime.ReadMemStats(&m0)
			r := decode(p, atoi(a[1]), atoi(a[2]))
			runtime.ReadMemStats(&m1)
			if r == "!hang" || (len(r) > 6 && r[:6] == "!panic") {
				return r
			}
			// everything allocated while decoding (decoded data included) stays within a
			// constant factor of the input plus the tokenizer's 32 KiB buffer bound
			if grown := int64(m1.TotalAlloc - m0.TotalAlloc); grown > 64*int64(len(p))+(8<<20) {
				return "!mem " + strconv.FormatInt(grown, 10)
			}
			return "returns"
		}
		return "!badcase"
	})
}
