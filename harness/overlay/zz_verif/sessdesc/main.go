//go:build verif

// Driver for util.SerializeSessionDescription / util.DeserializeSessionDescription
// (black-box, exported API only).  Line protocol: see coq/Run/SessdescRun.v.
package main

import (
	"bytes"
	"encoding/hex"
	"encoding/json"
	"fmt"
	"strconv"
	"strings"

	"git.torproject.org/pluggable-transports/snowflake.git/v2/common/util"
	"git.torproject.org/pluggable-transports/snowflake.git/v2/zz_verif/wire"
	"github.com/pion/webrtc/v3"
)

// value renders the generic JSON value of text as encoding/json sees it (member order and
// duplicates kept), or "invalid".
func value(text []byte) string {
	if !json.Valid(text) {
		return "invalid"
	}
	dec := json.NewDecoder(bytes.NewReader(text))
	dec.UseNumber()
	var atoms []string
	if err := walk(dec, &atoms); err != nil {
		return "invalid"
	}
	return strings.Join(atoms, ",")
}

func walk(dec *json.Decoder, atoms *[]string) error {
	tok, err := dec.Token()
	if err != nil {
		return err
	}
	switch t := tok.(type) {
	case nil:
		*atoms = append(*atoms, "n")
	case bool:
		if t {
			*atoms = append(*atoms, "t")
		} else {
			*atoms = append(*atoms, "f")
		}
	case json.Number:
		*atoms = append(*atoms, "d"+hex.EncodeToString([]byte(t.String())))
	case string:
		*atoms = append(*atoms, "s"+hex.EncodeToString([]byte(t)))
	case json.Delim:
		switch t {
		case '[':
			at := len(*atoms)
			*atoms = append(*atoms, "")
			n := 0
			for dec.More() {
				if err := walk(dec, atoms); err != nil {
					return err
				}
				n++
			}
			if _, err := dec.Token(); err != nil {
				return err
			}
			(*atoms)[at] = "a" + strconv.Itoa(n)
		case '{':
			at := len(*atoms)
			*atoms = append(*atoms, "")
			n := 0
			for dec.More() {
				k, err := dec.Token()
				if err != nil {
					return err
				}
				ks, ok := k.(string)
				if !ok {
					return fmt.Errorf("non-string key")
				}
				*atoms = append(*atoms, "s"+hex.EncodeToString([]byte(ks)))
				if err := walk(dec, atoms); err != nil {
					return err
				}
				n++
			}
			if _, err := dec.Token(); err != nil {
				return err
			}
			(*atoms)[at] = "o" + strconv.Itoa(n)
		default:
			return fmt.Errorf("unexpected delimiter")
		}
	}
	return nil
}

func typeOf(name string) webrtc.SDPType {
	switch name {
	case "offer":
		return webrtc.SDPTypeOffer
	case "pranswer":
		return webrtc.SDPTypePranswer
	case "answer":
		return webrtc.SDPTypeAnswer
	case "rollback":
		return webrtc.SDPTypeRollback
	}
	return webrtc.SDPType(0)
}

func nameOf(t webrtc.SDPType) string {
	switch t {
	case webrtc.SDPTypeOffer:
		return "offer"
	case webrtc.SDPTypePranswer:
		return "pranswer"
	case webrtc.SDPTypeAnswer:
		return "answer"
	case webrtc.SDPTypeRollback:
		return "rollback"
	}
	return "other"
}

// deser calls the function under test; a panic is the observable "!panic".
func deser(text string) (res string) {
	defer func() {
		if r := recover(); r != nil {
			res = "!panic"
		}
	}()
	d, err := util.DeserializeSessionDescription(text)
	if err != nil {
		return "err"
	}
	if d == nil {
		return "!nil-without-error"
	}
	return "ok " + nameOf(d.Type) + " x" + hex.EncodeToString([]byte(d.SDP))
}

func main() {
	wire.Loop(func(a []string) string {
		switch a[0] {
		case "jparse":
			text, err := wire.Payload(a[1])
			if err != nil {
				return "!badcase"
			}
			return value(text)
		case "deser", "deser0":
			text, err := wire.Payload(a[2])
			if err != nil {
				return "!badcase"
			}
			if v := value(text); v != a[1] {
				return "!value-mismatch " + v
			}
			return deser(string(text))
		case "rt":
			sdp, err := wire.Payload(a[2])
			if err != nil {
				return "!badcase"
			}
			d := &webrtc.SessionDescription{Type: typeOf(a[1]), SDP: string(sdp)}
			s, err := util.SerializeSessionDescription(d)
			if err != nil {
				return "err-serialize"
			}
			return deser(s)
		case "ser":
			sdp, err := wire.Payload(a[2])
			if err != nil {
				return "!badcase"
			}
			d := &webrtc.SessionDescription{Type: typeOf(a[1]), SDP: string(sdp)}
			s, err := util.SerializeSessionDescription(d)
			if err != nil {
				return "err-serialize"
			}
			return value([]byte(s))
		}
		return "!badcase"
	})
}
