//go:build verif

// Driver for util.SerializeSessionDescription / util.DeserializeSessionDescription
// (black-box, exported API only).  Line protocol: see coq/Run/SessdescRun.v.
package main

import (
	"encoding/hex"

	"git.torproject.org/pluggable-transports/snowflake.git/v2/common/util"
	"git.torproject.org/pluggable-transports/snowflake.git/v2/zz_verif/sessdesc/jvalue"
	"git.torproject.org/pluggable-transports/snowflake.git/v2/zz_verif/wire"
	"github.com/pion/webrtc/v3"
)

func value(text []byte) string { return jvalue.Value(text) }

func typeOf(name string) webrtc.SDPType {
	switch name {
	case "offer":
		return webrtc.SDPTypeOffer
	case "pranswer":
		return webrtc.SDPTypePranswer
	case "answer":
		return webrtc.SDPTypeAnswer
	case "rollback":
		return webrtc.SDPTypeRollback
	}
	return webrtc.SDPType(0)
}

func nameOf(t webrtc.SDPType) string {
	switch t {
	case webrtc.SDPTypeOffer:
		return "offer"
	case webrtc.SDPTypePranswer:
		return "pranswer"
	case webrtc.SDPTypeAnswer:
		return "answer"
	case webrtc.SDPTypeRollback:
		return "rollback"
	}
	return "other"
}

// deser calls the function under test; a panic is the observable "!panic".
func deser(text string) (res string) {
	defer func() {
		if r := recover(); r != nil {
			res = "!panic"
		}
	}()
	d, err := util.DeserializeSessionDescription(text)
	if err != nil {
		return "err"
	}
	if d == nil {
		return "!nil-without-error"
	}
	return "ok " + nameOf(d.Type) + " x" + hex.EncodeToString([]byte(d.SDP))
}

func main() {
	wire.Loop(func(a []string) string {
		switch a[0] {
		case "jparse":
			text, err := wire.Payload(a[1])
			if err != nil {
				return "!badcase"
			}
			return value(text)
		case "deser", "deser0":
			text, err := wire.Payload(a[2])
			if err != nil {
				return "!badcase"
			}
			if v := value(text); v != a[1] {
				return "!value-mismatch " + v
			}
			return deser(string(text))
		case "rt":
			sdp, err := wire.Payload(a[2])
			if err != nil {
				return "!badcase"
			}
			d := &webrtc.SessionDescription{Type: typeOf(a[1]), SDP: string(sdp)}
			s, err := util.SerializeSessionDescription(d)
			if err != nil {
				return "err-serialize"
			}
			return deser(s)
		case "ser":
			sdp, err := wire.Payload(a[2])
			if err != nil {
				return "!badcase"
			}
			d := &webrtc.SessionDescription{Type: typeOf(a[1]), SDP: string(sdp)}
			s, err := util.SerializeSessionDescription(d)
			if err != nil {
				return "err-serialize"
			}
			return value([]byte(s))
		}
		return "!badcase"
	})
}
