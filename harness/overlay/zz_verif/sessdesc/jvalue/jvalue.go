//go:build verif

// Package jvalue renders a JSON text as the value token of coq/Run/SessdescRun.v (what
// encoding/json reads: member order and duplicates kept).  Shared by the black-box driver
// (zz_verif/sessdesc) and the in-package caller drivers of client/lib and proxy/lib.
package jvalue

import (
	"bytes"
	"encoding/hex"
	"encoding/json"
	"fmt"
	"strconv"
	"strings"

	"github.com/pion/webrtc/v3"
)

// Value renders the generic JSON value of text as encoding/json sees it (member order and
// duplicates kept), or "invalid".
func Value(text []byte) string {
	if !json.Valid(text) {
		return "invalid"
	}
	dec := json.NewDecoder(bytes.NewReader(text))
	dec.UseNumber()
	var atoms []string
	if err := walk(dec, &atoms); err != nil {
		return "invalid"
	}
	return strings.Join(atoms, ",")
}

func walk(dec *json.Decoder, atoms *[]string) error {
	tok, err := dec.Token()
	if err != nil {
		return err
	}
	switch t := tok.(type) {
	case nil:
		*atoms = append(*atoms, "n")
	case bool:
		if t {
			*atoms = append(*atoms, "t")
		} else {
			*atoms = append(*atoms, "f")
		}
	case json.Number:
		*atoms = append(*atoms, "d"+hex.EncodeToString([]byte(t.String())))
	case string:
		*atoms = append(*atoms, "s"+hex.EncodeToString([]byte(t)))
	case json.Delim:
		switch t {
		case '[':
			at := len(*atoms)
			*atoms = append(*atoms, "")
			n := 0
			for dec.More() {
				if err := walk(dec, atoms); err != nil {
					return err
				}
				n++
			}
			if _, err := dec.Token(); err != nil {
				return err
			}
			(*atoms)[at] = "a" + strconv.Itoa(n)
		case '{':
			at := len(*atoms)
			*atoms = append(*atoms, "")
			n := 0
			for dec.More() {
				k, err := dec.Token()
				if err != nil {
					return err
				}
				ks, ok := k.(string)
				if !ok {
					return fmt.Errorf("non-string key")
				}
				*atoms = append(*atoms, "s"+hex.EncodeToString([]byte(ks)))
				if err := walk(dec, atoms); err != nil {
					return err
				}
				n++
			}
			if _, err := dec.Token(); err != nil {
				return err
			}
			(*atoms)[at] = "o" + strconv.Itoa(n)
		default:
			return fmt.Errorf("unexpected delimiter")
		}
	}
	return nil
}

// NameOf is the type token of a description.
func NameOf(t webrtc.SDPType) string {
	switch t {
	case webrtc.SDPTypeOffer:
		return "offer"
	case webrtc.SDPTypePranswer:
		return "pranswer"
	case webrtc.SDPTypeAnswer:
		return "answer"
	case webrtc.SDPTypeRollback:
		return "rollback"
	}
	return "other"
}

// Desc prints a description as the model does.
func Desc(d *webrtc.SessionDescription) string {
	return "ok " + NameOf(d.Type) + " x" + hex.EncodeToString([]byte(d.SDP))
}
