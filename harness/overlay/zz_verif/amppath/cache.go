//go:build verif

package main

func cacheOps(a []string) (string, bool) { return "", false }
