//go:build verif

package main

import (
	"crypto/sha256"
	"encoding/base32"
	"net"
	"net/url"
	"path"
	"strconv"
	"strings"

	"git.torproject.org/pluggable-transports/snowflake.git/v2/common/amp"
	"git.torproject.org/pluggable-transports/snowflake.git/v2/zz_verif/wire"
	"golang.org/x/net/idna"
)

func opt(s string, err error) string {
	if err != nil {
		return "n"
	}
	return xhex([]byte(s))
}

func userStr(u *url.Userinfo) string {
	if u == nil {
		return "n"
	}
	return xhex([]byte(u.String()))
}

// fields of a publisher URL exactly as CacheURL reads them
func pubFields(u *url.URL) string {
	us := "x"
	if u.User != nil {
		us = "x31"
	}
	return strings.Join([]string{xhex([]byte(u.Scheme)), us, xhex([]byte(u.Hostname())), xhex([]byte(u.Port())),
		xhex([]byte(u.EscapedPath())), xhex([]byte(u.RawQuery)), xhex([]byte(u.Fragment))}, ",")
}

func cacheFields(u *url.URL) string {
	return strings.Join([]string{xhex([]byte(u.Scheme)), userStr(u.User), xhex([]byte(u.Hostname())), xhex([]byte(u.Port())),
		xhex([]byte(u.EscapedPath())), xhex([]byte(u.RawQuery)), xhex([]byte(u.Fragment))}, ",")
}

var b32 = base32.NewEncoding("abcdefghijklmnopqrstuvwxyz234567").WithPadding(base32.NoPadding)

func cacheOps(a []string) (string, bool) {
	switch a[0] {
	case "parse":
		// parse <pub> <cache>: the accessor values, ToUnicode and SHA-256 of the publisher host name
		pu, err := url.Parse(string(payload(a[1])))
		if err != nil {
			return "!parse", true
		}
		cu, err := url.Parse(string(payload(a[2])))
		if err != nil {
			return "!parse", true
		}
		h := sha256.Sum256([]byte(pu.Hostname()))
		return pubFields(pu) + " " + cacheFields(cu) + " " + opt(idna.ToUnicode(pu.Hostname())) + " " + xhex(h[:]), true
	case "toascii":
		if a[1] == "n" {
			return "n", true
		}
		return opt(idna.ToASCII(string(payload(a[1])))), true
	case "clean":
		return xhex([]byte(path.Clean(string(payload(a[1]))))), true
	case "join":
		var el []string
		for _, t := range wire.List(a[1]) {
			el = append(el, string(payload(t)))
		}
		return xhex([]byte(path.Join(el...))), true
	case "pesc":
		return xhex([]byte(url.PathEscape(string(payload(a[1]))))), true
	case "punesc":
		_, err := url.PathUnescape(string(payload(a[1])))
		if err != nil {
			return "0", true
		}
		return "1", true
	case "h34r":
		r := []rune(string(payload(a[1])))
		if len(r) >= 4 && r[2] == '-' && r[3] == '-' {
			return "1", true
		}
		return "0", true
	case "b32":
		return xhex([]byte(b32.EncodeToString(payload(a[1])))), true
	case "utf8":
		var r []rune
		for _, t := range wire.List(a[1]) {
			n, _ := strconv.Atoi(t)
			r = append(r, rune(n))
		}
		return xhex([]byte(string(r))), true
	case "resolve":
		// resolve <base escaped path> <ref>: what the client's rendezvous code does with the broker URL
		bu, err := url.Parse("https://broker.example" + string(payload(a[1])))
		if err != nil || bu.EscapedPath() != string(payload(a[1])) {
			return "!parse", true
		}
		r := bu.ResolveReference(&url.URL{Path: string(payload(a[2]))})
		return xhex([]byte(r.EscapedPath())), true
	case "jhp":
		return xhex([]byte(net.JoinHostPort(string(payload(a[1])), string(payload(a[2]))))), true
	case "cacheurl", "cacheurl0":
		// cacheurl <pub> <cache> <ct> <pubfields> <cachefields> <ToUnicode(host)> <pre> <ToASCII(pre)> <sha256(host)>
		pu, err := url.Parse(string(payload(a[1])))
		if err != nil {
			return "!parse", true
		}
		cu, err := url.Parse(string(payload(a[2])))
		if err != nil {
			return "!parse", true
		}
		// the library values on the case line must be the real library's
		h := sha256.Sum256([]byte(pu.Hostname()))
		if pubFields(pu) != a[4] || cacheFields(cu) != a[5] || opt(idna.ToUnicode(pu.Hostname())) != a[6] || xhex(h[:]) != a[9] {
			return "!oracle-mismatch", true
		}
		if a[7] != "n" && opt(idna.ToASCII(string(payload(a[7])))) != a[8] {
			return "!oracle-mismatch", true
		}
		res, err := amp.CacheURL(pu, cu, string(payload(a[3])))
		if err != nil {
			return "err", true
		}
		ep := "0"
		if res.EscapedPath() == res.RawPath {
			ep = "1"
		}
		return "ok " + xhex([]byte(res.Scheme)) + " " + userStr(res.User) + " " + xhex([]byte(res.Host)) + " " +
			xhex([]byte(res.RawPath)) + " " + xhex([]byte(res.RawQuery)) + " " + xhex([]byte(res.Fragment)) + " ep=" + ep, true
	}
	return "", false
}
