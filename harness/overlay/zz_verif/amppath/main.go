//go:build verif

// Driver for common/amp path and cache-URL functions (black-box, exported API only).
package main

import (
	"bytes"
	"crypto/rand"
	"encoding/base64"
	"errors"
	"strconv"
	"strings"

	"git.torproject.org/pluggable-transports/snowflake.git/v2/common/amp"
	"git.torproject.org/pluggable-transports/snowflake.git/v2/zz_verif/wire"
)

func xhex(b []byte) string { return "x" + wire.Hex(b) }

func decRes(d []byte, err error) string {
	if err == nil {
		return "ok " + xhex(d)
	}
	var ce base64.CorruptInputError
	if errors.As(err, &ce) {
		return "err:b64"
	}
	return "err:path"
}

func isURLChar(c byte) bool {
	return c >= 'A' && c <= 'Z' || c >= 'a' && c <= 'z' || c >= '0' && c <= '9' || c == '-' || c == '_'
}

func shape(p string) string {
	if p == "" {
		return "empty"
	}
	rest := p[1:]
	i := strings.IndexByte(rest, '/')
	pad := rest
	tail := "noslash"
	if i >= 0 {
		pad = rest[:i]
		tail = xhex([]byte(rest[i+1:]))
	}
	ok := "1"
	for j := 0; j < len(pad); j++ {
		if !isURLChar(pad[j]) {
			ok = "0"
		}
	}
	return xhex([]byte(p[:1])) + " " + strconv.Itoa(len(pad)) + " " + ok + " " + tail
}

func payload(t string) []byte {
	b, err := wire.Payload(t)
	if err != nil {
		panic(err)
	}
	return b
}

func main() {
	wire.Loop(func(a []string) string {
		switch a[0] {
		case "dec":
			return decRes(amp.DecodePath(string(payload(a[1]))))
		case "encshape":
			return shape(amp.EncodePath(payload(a[1])))
		case "encraw":
			return xhex([]byte(amp.EncodePath(payload(a[1]))))
		case "rt":
			return decRes(amp.DecodePath(amp.EncodePath(payload(a[1]))))
		case "encwith":
			// EncodePath with crypto/rand handing out exactly these cache-breaker bytes (rand.Reader is the
			// package's documented source; a short supply makes EncodePath panic, which the loop reports)
			old := rand.Reader
			rand.Reader = bytes.NewReader(payload(a[1]))
			p := amp.EncodePath(payload(a[2]))
			rand.Reader = old
			return xhex([]byte(p)) + " " + decRes(amp.DecodePath(p))
		case "b64":
			return xhex([]byte(base64.RawURLEncoding.EncodeToString(payload(a[1]))))
		}
		if r, ok := cacheOps(a); ok {
			return r
		}
		return "!badcase"
	})
}
