//go:build verif

// Command e2e is the whole-system black-box rig of property C01 (end-to-end byte
// stream exact and ordered across proxy churn).
//
// One scenario = the REAL components assembled through their exported APIs:
//
//	application  <->  snowflake_client.Transport.Dial()            (this process)
//	                  pion data channel
//	             <->  snowflake_proxy.SnowflakeProxy.Start()       (sub-processes, `e2e -proxy`)
//	                  gorilla WebSocket
//	             <->  fault-injecting TCP relay                    (this process)
//	             <->  snowflake_server.Transport.Listen()/Accept() (this process, plays the bridge)
//	broker: the repo's ./broker binary as a sub-process, reached by the client through
//	        a small HTTP front that can lose or delay an answer.
//
// The proxy package keeps its broker/tokens/config in package-level variables, so two
// proxies cannot live in one process; each proxy is therefore a child process of its
// scenario (which also makes SIGKILL / SIGSTOP / SIGTERM of "the carrying proxy"
// real), and each scenario is a child process of the dispatcher (a panic in one
// scenario is one result line, not the loss of all of them).
//
// Line protocol: one scenario per stdin line
//
//	e2e run id=<s> seed=<n> up=<bytes> down=<bytes> max=<n> proxies=<n> stall=<ms> hard=<ms> [second=<bytes>] [srvclose=1] faults=<rule;rule;...|->
//
// srvclose=1: the application behind the bridge reads the whole upstream (a request), fires the `a:` rules,
// writes its downstream bytes (an answer) and closes its end at once; the client must read every byte, then EOF.
//
// all scenarios run concurrently; one result line per scenario, in input order.
package main

import (
	"bufio"
	"bytes"
	"crypto/sha256"
	"encoding/hex"
	"fmt"
	"io"
	"io/ioutil"
	"log"
	"math/rand"
	"net"
	"net/http"
	"net/http/httputil"
	"net/url"
	"os"
	"os/exec"
	"os/signal"
	"path/filepath"
	"sort"
	"strconv"
	"strings"
	"sync"
	"sync/atomic"
	"syscall"
	"time"

	sfclient "git.torproject.org/pluggable-transports/snowflake.git/v2/client/lib"
	"git.torproject.org/pluggable-transports/snowflake.git/v2/common/messages"
	"git.torproject.org/pluggable-transports/snowflake.git/v2/common/util"
	sfproxy "git.torproject.org/pluggable-transports/snowflake.git/v2/proxy/lib"
	sfserver "git.torproject.org/pluggable-transports/snowflake.git/v2/server/lib"
	"github.com/gorilla/websocket"
	"github.com/pion/stun"
	"github.com/pion/webrtc/v3"
)

const defaultFingerprint = "2B280B23E1107BB62ABFC40DDCC8824814F80A72"

var realStdout = os.Stdout

func main() {
	// pion's default logger factory writes to os.Stdout; keep the result channel clean.
	os.Stdout = os.Stderr
	if len(os.Args) >= 2 && os.Args[1] == "-proxy" {
		proxyMain()
		return
	}
	if len(os.Args) >= 3 && os.Args[1] == "-scenario" {
		res := runScenarioSafe(os.Args[2])
		fmt.Fprintln(realStdout, res)
		os.Exit(0)
	}
	dispatcher()
}

// ---------------------------------------------------------------- dispatcher

func dispatcher() {
	sc := bufio.NewScanner(os.Stdin)
	sc.Buffer(make([]byte, 1<<20), 1<<26)
	var lines []string
	for sc.Scan() {
		if strings.TrimSpace(sc.Text()) != "" {
			lines = append(lines, sc.Text())
		}
	}
	par := len(lines)
	if v, err := strconv.Atoi(os.Getenv("VERIF_E2E_PAR")); err == nil && v > 0 {
		par = v
	}
	sem := make(chan struct{}, par)
	results := make([]string, len(lines))
	var wg sync.WaitGroup
	for i, l := range lines {
		wg.Add(1)
		go func(i int, l string) {
			defer wg.Done()
			sem <- struct{}{}
			defer func() { <-sem }()
			// stagger the starts a little: every scenario spawns 3-4 processes
			time.Sleep(time.Duration(i%par) * 150 * time.Millisecond)
			results[i] = runChild(l)
		}(i, l)
	}
	wg.Wait()
	w := bufio.NewWriter(realStdout)
	for _, r := range results {
		w.WriteString(r)
		w.WriteByte('\n')
	}
	w.Flush()
}

func runChild(line string) string {
	cmd := exec.Command(os.Args[0], "-scenario", line)
	var out, errb bytes.Buffer
	cmd.Stdout = &out
	cmd.Stderr = &tailWriter{max: 8000, buf: &errb}
	cmd.SysProcAttr = &syscall.SysProcAttr{Pdeathsig: syscall.SIGKILL}
	err := cmd.Run()
	res := strings.TrimSpace(out.String())
	if i := strings.LastIndexByte(res, '\n'); i >= 0 {
		res = res[i+1:]
	}
	if err == nil && strings.HasPrefix(res, "!") {
		return res
	}
	if err != nil || !strings.HasPrefix(res, "id=") {
		tail := strings.ReplaceAll(errb.String(), "\n", " | ")
		if len(tail) > 1500 {
			tail = tail[len(tail)-1500:]
		}
		if len(res) > 300 {
			res = res[:300]
		}
		return "!died " + fmt.Sprint(err) + " stdout=" + strings.ReplaceAll(res, "\n", " | ") + " stderr=" + tail
	}
	return res
}

type tailWriter struct {
	mu  sync.Mutex
	max int
	buf *bytes.Buffer
}

func (t *tailWriter) Write(p []byte) (int, error) {
	t.mu.Lock()
	defer t.mu.Unlock()
	t.buf.Write(p)
	if t.buf.Len() > 2*t.max {
		b := append([]byte(nil), t.buf.Bytes()[t.buf.Len()-t.max:]...)
		t.buf.Reset()
		t.buf.Write(b)
	}
	return len(p), nil
}

// ---------------------------------------------------------------- proxy child

// proxyMain runs one real SnowflakeProxy. Configuration through the environment.
// SIGUSR1 = graceful SnowflakeProxy.Stop(); SIGTERM/SIGKILL are left to their default
// action, as in the repo's proxy/main.go (which installs no handler).
func proxyMain() {
	if f := os.Getenv("E2E_LOG"); f != "" {
		if fh, err := os.OpenFile(f, os.O_CREATE|os.O_WRONLY|os.O_APPEND, 0600); err == nil {
			log.SetOutput(fh)
		}
	} else {
		log.SetOutput(ioutil.Discard)
	}
	log.SetFlags(log.Lmicroseconds)
	// Bind the source address of the relay connection so that the relay can tell which
	// proxy process carries which connection (127.0.1.<n>, all of 127/8 is loopback).
	if ip := net.ParseIP(os.Getenv("E2E_SRCIP")); ip != nil {
		websocket.DefaultDialer.NetDial = func(network, addr string) (net.Conn, error) {
			d := net.Dialer{LocalAddr: &net.TCPAddr{IP: ip}, Timeout: 30 * time.Second}
			return d.Dial(network, addr)
		}
	}
	p := &sfproxy.SnowflakeProxy{
		Capacity:               0,
		STUNURL:                os.Getenv("E2E_STUN"),
		BrokerURL:              os.Getenv("E2E_BROKER"),
		KeepLocalAddresses:     true,
		RelayURL:               os.Getenv("E2E_RELAY"),
		RelayDomainNamePattern: "127.0.0.1$",
		AllowNonTLSRelay:       true,
		NATProbeURL:            os.Getenv("E2E_PROBE"),
	}
	sig := make(chan os.Signal, 1)
	signal.Notify(sig, syscall.SIGUSR1)
	go func() {
		<-sig
		log.Printf("e2e: graceful Stop()")
		p.Stop()
		// Start returns at its next tick (<= 5 s); the copy loops end at once.
		time.Sleep(8 * time.Second)
		os.Exit(0)
	}()
	err := p.Start()
	log.Printf("e2e: proxy.Start returned %v", err)
}

// ---------------------------------------------------------------- scenario

type spec struct {
	id       string
	seed     int64
	up       int
	down     int
	max      int
	proxies  int
	stall    time.Duration // no progress and no disturbance for this long = stalled
	hard     time.Duration // absolute limit
	second   int           // >= 0: a second Dial on the same Transport with streams of this size
	srvclose bool          // answer-then-close: the bridge-side application closes right after writing
	faults   []*rule
}

// rule: <sel>:<kind>=<a>[,<b>]
//
//	sel c<i> = the i-th relay connection that carried client data (carrier index)
//	sel b<j> = the j-th answer the broker gave the client
//	sel t    = at time <a> ms after the client dialled
//	sel a    = when the bridge-side application has read the whole upstream and is about to answer (srvclose=1)
type rule struct {
	text  string
	sel   byte
	idx   int
	kind  string
	a, b  int64
	fired int32
}

func parseSpec(line string) (*spec, error) {
	f := strings.Fields(line)
	if len(f) < 2 || f[0] != "e2e" || f[1] != "run" {
		return nil, fmt.Errorf("bad case line")
	}
	s := &spec{max: 2, proxies: 2, stall: 90 * time.Second, hard: 600 * time.Second, second: -1}
	for _, t := range f[2:] {
		kv := strings.SplitN(t, "=", 2)
		if len(kv) != 2 {
			return nil, fmt.Errorf("bad token %q", t)
		}
		k, v := kv[0], kv[1]
		n, _ := strconv.ParseInt(v, 10, 64)
		switch k {
		case "id":
			s.id = v
		case "seed":
			s.seed = n
		case "up":
			s.up = int(n)
		case "down":
			s.down = int(n)
		case "max":
			s.max = int(n)
		case "proxies":
			s.proxies = int(n)
		case "stall":
			s.stall = time.Duration(n) * time.Millisecond
		case "hard":
			s.hard = time.Duration(n) * time.Millisecond
		case "second":
			s.second = int(n)
		case "srvclose":
			s.srvclose = n != 0
		case "faults":
			if v == "-" {
				break
			}
			for _, rt := range strings.Split(v, ";") {
				r, err := parseRule(rt)
				if err != nil {
					return nil, err
				}
				s.faults = append(s.faults, r)
			}
		default:
			return nil, fmt.Errorf("unknown key %q", k)
		}
	}
	return s, nil
}

func parseRule(t string) (*rule, error) {
	r := &rule{text: t}
	i := strings.IndexByte(t, ':')
	if i < 1 {
		return nil, fmt.Errorf("bad rule %q", t)
	}
	r.sel = t[0]
	if r.sel != 't' && r.sel != 'a' {
		n, err := strconv.Atoi(t[1:i])
		if err != nil {
			return nil, fmt.Errorf("bad rule %q", t)
		}
		r.idx = n
	}
	kv := strings.SplitN(t[i+1:], "=", 2)
	r.kind = kv[0]
	if len(kv) == 2 {
		ab := strings.Split(kv[1], ",")
		r.a, _ = strconv.ParseInt(ab[0], 10, 64)
		if len(ab) > 1 {
			r.b, _ = strconv.ParseInt(ab[1], 10, 64)
		}
	}
	switch r.kind {
	case "cutu", "cutd", "rstu", "rstd", "freeze", "stop", "kill", "term", "pause", "blackout", "refuse", "cutall",
		"lose", "delay", "killall", "extinct", "blackhole", "hang", "none":
	default:
		return nil, fmt.Errorf("bad rule kind %q", t)
	}
	return r, nil
}

type scen struct {
	sp    *spec
	dir   string
	start time.Time
	logf  *os.File

	mu          sync.Mutex
	procs       []*proxyProc
	broker      *exec.Cmd
	brokerURL   string
	stunURL     string
	probeURL    string
	relayURL    string
	fired       []string
	disturbed   time.Time // end of the most recent disturbance
	activeFault int       // disturbances in progress
	proxyStarts int

	relay *relay
	front *front

	progress int64 // unix nano of last reader progress
}

type proxyProc struct {
	idx    int
	cmd    *exec.Cmd
	dead   bool
	paused bool
}

func (s *scen) logp(format string, a ...interface{}) {
	if s.logf != nil {
		fmt.Fprintf(s.logf, "%8.3f "+format+"\n", append([]interface{}{time.Since(s.start).Seconds()}, a...)...)
	}
}

func (s *scen) note(r *rule, extra string) {
	s.mu.Lock()
	s.fired = append(s.fired, fmt.Sprintf("%s@%d%s", r.text, time.Since(s.start).Milliseconds(), extra))
	s.mu.Unlock()
	s.logp("FAULT %s %s", r.text, extra)
}

func (s *scen) beginDisturb() {
	s.mu.Lock()
	s.activeFault++
	s.mu.Unlock()
}

func (s *scen) endDisturb() {
	s.mu.Lock()
	s.activeFault--
	s.disturbed = time.Now()
	s.mu.Unlock()
}

func runScenarioSafe(line string) (res string) {
	defer func() {
		if r := recover(); r != nil {
			res = "!panic " + strings.ReplaceAll(fmt.Sprint(r), "\n", " ")
		}
	}()
	sp, err := parseSpec(line)
	if err != nil {
		return "!badcase " + err.Error()
	}
	return runScenario(sp)
}

func freePort() int {
	l, err := net.Listen("tcp", "127.0.0.1:0")
	if err != nil {
		panic(err)
	}
	defer l.Close()
	return l.Addr().(*net.TCPAddr).Port
}

// listens reports whether process pid holds a listening TCP socket on 127.0.0.1:port
// (Linux /proc; true when /proc cannot be read). It closes the window between picking
// a free port and the component binding it: a connect test alone could reach a
// listener of a concurrently running scenario.
func listens(pid, port int) bool {
	tcp, err := ioutil.ReadFile(fmt.Sprintf("/proc/%d/net/tcp", pid))
	if err != nil {
		return true
	}
	want := fmt.Sprintf("0100007F:%04X", port)
	inodes := map[string]bool{}
	for _, l := range strings.Split(string(tcp), "\n") {
		f := strings.Fields(l)
		if len(f) > 9 && f[1] == want && f[3] == "0A" {
			inodes["socket:["+f[9]+"]"] = true
		}
	}
	if len(inodes) == 0 {
		return false
	}
	fds, err := ioutil.ReadDir(fmt.Sprintf("/proc/%d/fd", pid))
	if err != nil {
		return true
	}
	for _, fd := range fds {
		if t, err := os.Readlink(fmt.Sprintf("/proc/%d/fd/%s", pid, fd.Name())); err == nil && inodes[t] {
			return true
		}
	}
	return false
}

func waitTCP(addr string, d time.Duration) bool {
	end := time.Now().Add(d)
	for time.Now().Before(end) {
		c, err := net.DialTimeout("tcp", addr, time.Second)
		if err == nil {
			c.Close()
			return true
		}
		time.Sleep(50 * time.Millisecond)
	}
	return false
}

func runScenario(sp *spec) string {
	s := &scen{sp: sp, start: time.Now()}
	dir, err := ioutil.TempDir("", "e2e-"+sp.id+"-")
	if err != nil {
		return "!setup " + err.Error()
	}
	s.dir = dir
	keep := os.Getenv("VERIF_E2E_KEEP") != ""
	if keep {
		s.logf, _ = os.Create(filepath.Join(dir, "scenario.log"))
		fh, _ := os.Create(filepath.Join(dir, "libs.log"))
		log.SetOutput(fh)
		log.SetFlags(log.Lmicroseconds)
		fmt.Fprintln(os.Stderr, "e2e: keeping", dir)
	} else {
		log.SetOutput(ioutil.Discard)
	}
	defer func() {
		s.killAll()
		if !keep {
			os.RemoveAll(dir)
		}
	}()
	s.disturbed = time.Now()

	// --- server (plays the bridge)
	var lnr *sfserver.SnowflakeListener
	var srvPort int
	for try := 0; ; try++ {
		srvPort = freePort()
		lnr, err = sfserver.NewSnowflakeServer(nil).Listen(&net.TCPAddr{IP: net.IPv4(127, 0, 0, 1), Port: srvPort})
		if err == nil && waitTCP(fmt.Sprintf("127.0.0.1:%d", srvPort), 5*time.Second) && listens(os.Getpid(), srvPort) {
			break
		}
		if lnr != nil {
			lnr.Close()
		}
		if try > 5 {
			return "!setup server listen failed"
		}
	}
	defer lnr.Close()
	app := newApp(s)
	go app.acceptLoop(lnr)

	// --- relay
	s.relay, err = newRelay(s, fmt.Sprintf("127.0.0.1:%d", srvPort))
	if err != nil {
		return "!setup relay " + err.Error()
	}
	defer s.relay.close()
	s.relayURL = fmt.Sprintf("ws://127.0.0.1:%d/", s.relay.port())

	// --- STUN + NAT probe (so that the proxies learn "unrestricted" the way they do in production)
	stunURL, stunClose, err := startSTUN()
	if err != nil {
		return "!setup stun " + err.Error()
	}
	defer stunClose()
	s.stunURL = stunURL
	probeURL, probeClose, err := startProbe()
	if err != nil {
		return "!setup probe " + err.Error()
	}
	defer probeClose()
	s.probeURL = probeURL

	// --- broker
	if err := s.startBroker(); err != nil {
		return "!setup broker " + err.Error()
	}
	s.front, err = newFront(s, s.brokerURL)
	if err != nil {
		return "!setup front " + err.Error()
	}
	defer s.front.close()

	// --- proxies
	for i := 0; i < sp.proxies; i++ {
		if err := s.startProxy(); err != nil {
			return "!setup proxy " + err.Error()
		}
	}
	if sp.proxies > 0 && !s.waitPolling(1, 60*time.Second) {
		return "!setup no proxy reached the broker within 60 s"
	}
	s.logp("setup done")

	// --- client
	tr, err := sfclient.NewSnowflakeClient(sfclient.ClientConfig{
		BrokerURL:          s.front.url(),
		ICEAddresses:       nil,
		KeepLocalAddresses: true,
		Max:                sp.max,
	})
	if err != nil {
		return "!setup client " + err.Error()
	}
	dialT := time.Now()
	conn, err := tr.Dial()
	if err != nil {
		return fmt.Sprintf("id=%s status=dialerror err=%q", sp.id, err.Error())
	}
	s.disturbed = time.Now()
	atomic.StoreInt64(&s.progress, time.Now().UnixNano())
	go s.timeRules(dialT)

	app.tr = tr
	return app.run(conn)
}

// ---------------------------------------------------------------- broker, proxies

func (s *scen) startBroker() error {
	bin := os.Getenv("VERIF_E2E_BROKER")
	if bin == "" {
		return fmt.Errorf("VERIF_E2E_BROKER not set")
	}
	bl := filepath.Join(s.dir, "bridges.jsonl")
	line := fmt.Sprintf(`{"displayName":"verif","webSocketAddress":%q,"fingerprint":%q}`+"\n", s.relayURL, defaultFingerprint)
	if err := ioutil.WriteFile(bl, []byte(line), 0600); err != nil {
		return err
	}
	for try := 0; try < 6; try++ {
		port := freePort()
		addr := fmt.Sprintf("127.0.0.1:%d", port)
		cmd := exec.Command(bin, "-disable-tls", "-disable-geoip", "-addr", addr, "-bridge-list-path", bl,
			"-allowed-relay-pattern", "127.0.0.1$", "-default-relay-pattern", "127.0.0.1$",
			"-metrics-log", filepath.Join(s.dir, "metrics.log"), "-unsafe-logging")
		lf, _ := os.Create(filepath.Join(s.dir, fmt.Sprintf("broker%d.log", try)))
		cmd.Stdout, cmd.Stderr = lf, lf
		cmd.SysProcAttr = &syscall.SysProcAttr{Pdeathsig: syscall.SIGKILL}
		if err := cmd.Start(); err != nil {
			return err
		}
		lf.Close()
		exited := make(chan struct{})
		go func() { cmd.Wait(); close(exited) }()
		ok := false
		for i := 0; i < 400; i++ {
			select {
			case <-exited:
				i = 1000
				continue
			default:
			}
			if waitTCP(addr, 100*time.Millisecond) && listens(cmd.Process.Pid, port) {
				ok = true
				break
			}
		}
		if ok {
			s.broker = cmd
			s.brokerURL = "http://" + addr + "/"
			return nil
		}
		cmd.Process.Kill()
	}
	return fmt.Errorf("broker did not come up")
}

func (s *scen) startProxy() error {
	s.mu.Lock()
	idx := len(s.procs)
	s.mu.Unlock()
	cmd := exec.Command(os.Args[0], "-proxy")
	cmd.Env = append(os.Environ(),
		"E2E_BROKER="+s.brokerURL, "E2E_STUN="+s.stunURL, "E2E_PROBE="+s.probeURL, "E2E_RELAY="+s.relayURL,
		fmt.Sprintf("E2E_SRCIP=127.0.1.%d", idx+1))
	if s.logf != nil {
		cmd.Env = append(cmd.Env, "E2E_LOG="+filepath.Join(s.dir, fmt.Sprintf("proxy%d.log", idx)))
	}
	cmd.Stdout, cmd.Stderr = nil, nil
	if s.logf != nil {
		ef, _ := os.Create(filepath.Join(s.dir, fmt.Sprintf("proxy%d.err", idx)))
		cmd.Stdout, cmd.Stderr = ef, ef
		defer ef.Close()
	}
	cmd.SysProcAttr = &syscall.SysProcAttr{Pdeathsig: syscall.SIGKILL}
	if err := cmd.Start(); err != nil {
		return err
	}
	p := &proxyProc{idx: idx, cmd: cmd}
	s.mu.Lock()
	s.procs = append(s.procs, p)
	s.proxyStarts++
	s.mu.Unlock()
	go func() {
		cmd.Wait()
		s.mu.Lock()
		p.dead = true
		s.mu.Unlock()
		s.logp("proxy %d exited", idx)
	}()
	s.logp("proxy %d started pid %d", idx, cmd.Process.Pid)
	return nil
}

func (s *scen) proxy(idx int) *proxyProc {
	s.mu.Lock()
	defer s.mu.Unlock()
	if idx >= 0 && idx < len(s.procs) {
		return s.procs[idx]
	}
	return nil
}

func (s *scen) signalProxy(idx int, sig syscall.Signal) {
	if p := s.proxy(idx); p != nil && p.cmd.Process != nil {
		p.cmd.Process.Signal(sig)
	}
}

func (s *scen) liveProxies() []int {
	s.mu.Lock()
	defer s.mu.Unlock()
	var l []int
	for _, p := range s.procs {
		if !p.dead {
			l = append(l, p.idx)
		}
	}
	return l
}

func (s *scen) killAll() {
	s.mu.Lock()
	procs := append([]*proxyProc(nil), s.procs...)
	b := s.broker
	s.mu.Unlock()
	for _, p := range procs {
		if p.cmd.Process != nil {
			p.cmd.Process.Signal(syscall.SIGCONT)
			p.cmd.Process.Kill()
		}
	}
	if b != nil && b.Process != nil {
		b.Process.Kill()
	}
}

// waitPolling waits until the broker's /debug page shows at least n registered snowflakes.
func (s *scen) waitPolling(n int, d time.Duration) bool {
	end := time.Now().Add(d)
	c := &http.Client{Timeout: 3 * time.Second, Transport: &http.Transport{DisableKeepAlives: true}}
	for time.Now().Before(end) {
		if s.polling(c) >= n {
			return true
		}
		time.Sleep(100 * time.Millisecond)
	}
	return false
}

func (s *scen) polling(c *http.Client) int {
	resp, err := c.Get(s.brokerURL + "debug")
	if err != nil {
		return -1
	}
	defer resp.Body.Close()
	b, _ := ioutil.ReadAll(io.LimitReader(resp.Body, 10000))
	const pfx = "current snowflakes available: "
	i := bytes.Index(b, []byte(pfx))
	if i < 0 {
		return -1
	}
	rest := b[i+len(pfx):]
	if j := bytes.IndexByte(rest, '\n'); j >= 0 {
		rest = rest[:j]
	}
	n, _ := strconv.Atoi(strings.TrimSpace(string(rest)))
	return n
}

// ---------------------------------------------------------------- fault actions

// procAction runs a fault that targets the proxy process owning relay connection rc
// (or all of them). Called in its own goroutine.
func (s *scen) procAction(r *rule, rc *rconn) {
	s.beginDisturb()
	defer s.endDisturb()
	idx := -1
	if rc != nil {
		idx = rc.proxyIdx
	}
	switch r.kind {
	case "stop", "kill", "term":
		sig := map[string]syscall.Signal{"stop": syscall.SIGUSR1, "kill": syscall.SIGKILL, "term": syscall.SIGTERM}[r.kind]
		s.note(r, fmt.Sprintf("/proxy%d", idx))
		s.signalProxy(idx, sig)
		s.startProxy()
	case "hang":
		// the proxy process freezes for good (SIGSTOP, never continued): nothing is closed, nothing moves any
		// more; another proxy is on offer
		s.note(r, fmt.Sprintf("/proxy%d", idx))
		s.signalProxy(idx, syscall.SIGSTOP)
		s.startProxy()
	case "pause":
		s.note(r, fmt.Sprintf("/proxy%d", idx))
		s.signalProxy(idx, syscall.SIGSTOP)
		time.Sleep(time.Duration(r.b) * time.Millisecond)
		s.signalProxy(idx, syscall.SIGCONT)
		s.logp("proxy %d continued", idx)
	case "blackout", "killall", "extinct":
		live := s.liveProxies()
		s.note(r, fmt.Sprintf("/%d-proxies", len(live)))
		for _, i := range live {
			s.signalProxy(i, syscall.SIGKILL)
		}
		if r.kind == "extinct" {
			// no proxy ever again: the stream may only stall or end
			return
		}
		if r.kind == "blackout" {
			time.Sleep(time.Duration(r.b) * time.Millisecond)
		}
		n := len(live)
		if n == 0 {
			n = 1
		}
		for i := 0; i < n; i++ {
			s.startProxy()
		}
		s.logp("blackout over, %d proxies started", n)
	}
}

// timeRules fires the `t:` rules.
func (s *scen) timeRules(t0 time.Time) {
	var rs []*rule
	for _, r := range s.sp.faults {
		if r.sel == 't' {
			rs = append(rs, r)
		}
	}
	sort.Slice(rs, func(i, j int) bool { return rs[i].a < rs[j].a })
	for _, r := range rs {
		if d := time.Until(t0.Add(time.Duration(r.a) * time.Millisecond)); d > 0 {
			time.Sleep(d)
		}
		if !atomic.CompareAndSwapInt32(&r.fired, 0, 1) {
			continue
		}
		switch r.kind {
		case "cutall":
			s.beginDisturb()
			n := s.relay.cutAll()
			s.note(r, fmt.Sprintf("/%d-conns", n))
			s.endDisturb()
		case "refuse":
			s.relay.refuse(r, time.Duration(r.b)*time.Millisecond)
		case "blackout", "killall", "extinct":
			go s.procAction(r, nil)
		case "kill", "stop", "term", "pause", "freeze":
			rc := s.relay.currentCarrier()
			if rc == nil {
				s.note(r, "/no-carrier")
				continue
			}
			if r.kind == "freeze" {
				s.relay.freeze(r, rc, time.Duration(r.b)*time.Millisecond)
			} else {
				go s.procAction(r, rc)
			}
		}
	}
}

// ---------------------------------------------------------------- relay

type relay struct {
	s      *scen
	ln     net.Listener
	target string

	mu          sync.Mutex
	conns       []*rconn
	carriers    []*rconn
	refuseUntil time.Time
	refused     int
	closed      bool
}

type rdir struct {
	hdrDone bool
	tail    []byte // last <=3 bytes seen while looking for the end of the HTTP header
	payload int64  // bytes after the HTTP upgrade exchange (WebSocket frames)
}

type rconn struct {
	id       int
	proxyIdx int
	a, b     net.Conn // a: proxy side, b: server side
	mu       sync.Mutex
	up, down rdir
	carrier  int
	frozen   time.Time
	hole     bool // black hole: both directions are read and thrown away, nothing is closed
	closed   bool
	cutBy    string
}

func newRelay(s *scen, target string) (*relay, error) {
	ln, err := net.Listen("tcp", "127.0.0.1:0")
	if err != nil {
		return nil, err
	}
	r := &relay{s: s, ln: ln, target: target}
	go r.acceptLoop()
	return r, nil
}

func (r *relay) port() int { return r.ln.Addr().(*net.TCPAddr).Port }

func (r *relay) close() {
	r.mu.Lock()
	r.closed = true
	conns := append([]*rconn(nil), r.conns...)
	r.mu.Unlock()
	r.ln.Close()
	for _, c := range conns {
		c.shut(false, "end")
	}
}

func (r *relay) acceptLoop() {
	for {
		a, err := r.ln.Accept()
		if err != nil {
			return
		}
		r.mu.Lock()
		refusing := time.Now().Before(r.refuseUntil)
		if refusing {
			r.refused++
		}
		r.mu.Unlock()
		if refusing {
			if t, ok := a.(*net.TCPConn); ok {
				t.SetLinger(0)
			}
			a.Close()
			r.s.logp("relay refused a connection")
			continue
		}
		go r.serve(a)
	}
}

func (r *relay) serve(a net.Conn) {
	b, err := net.DialTimeout("tcp", r.target, 10*time.Second)
	if err != nil {
		a.Close()
		return
	}
	rc := &rconn{a: a, b: b, carrier: -1, proxyIdx: -1}
	if ta, ok := a.RemoteAddr().(*net.TCPAddr); ok {
		if ip4 := ta.IP.To4(); ip4 != nil && ip4[0] == 127 && ip4[1] == 0 && ip4[2] == 1 {
			rc.proxyIdx = int(ip4[3]) - 1
		}
	}
	r.mu.Lock()
	rc.id = len(r.conns)
	r.conns = append(r.conns, rc)
	closed := r.closed
	r.mu.Unlock()
	if closed {
		rc.shut(false, "end")
		return
	}
	r.s.logp("relay conn %d from proxy %d", rc.id, rc.proxyIdx)
	go r.pump(rc, true)
	go r.pump(rc, false)
}

func (rc *rconn) shut(rst bool, by string) {
	rc.mu.Lock()
	if rc.closed {
		rc.mu.Unlock()
		return
	}
	rc.closed = true
	rc.cutBy = by
	rc.mu.Unlock()
	if rst {
		for _, c := range []net.Conn{rc.a, rc.b} {
			if t, ok := c.(*net.TCPConn); ok {
				t.SetLinger(0)
			}
		}
	}
	rc.a.Close()
	rc.b.Close()
}

// rulesFor returns the not yet fired rules of carrier index i.
func (r *relay) rulesFor(i int) []*rule {
	var l []*rule
	for _, ru := range r.s.sp.faults {
		if ru.sel == 'c' && ru.idx == i && atomic.LoadInt32(&ru.fired) == 0 {
			l = append(l, ru)
		}
	}
	return l
}

func (r *relay) pump(rc *rconn, up bool) {
	src, dst := rc.a, rc.b
	if !up {
		src, dst = rc.b, rc.a
	}
	buf := make([]byte, 16384)
	for {
		n, err := src.Read(buf)
		if n > 0 {
			if !r.forward(rc, up, dst, buf[:n]) {
				return
			}
		}
		if err != nil {
			rc.shut(false, "peer")
			return
		}
	}
}

// forward passes p on, applying the rules of this connection. Returns false when the
// connection was cut.
func (r *relay) forward(rc *rconn, up bool, dst net.Conn, p []byte) bool {
	d := &rc.down
	if up {
		d = &rc.up
	}
	for len(p) > 0 {
		// freeze: hold everything
		for {
			rc.mu.Lock()
			fz := rc.frozen
			closed := rc.closed
			hole := rc.hole
			rc.mu.Unlock()
			if closed {
				return false
			}
			if hole {
				return true
			}
			if w := time.Until(fz); w > 0 {
				if w > 100*time.Millisecond {
					w = 100 * time.Millisecond
				}
				time.Sleep(w)
				continue
			}
			break
		}
		// HTTP upgrade exchange: passed through, not counted
		if !d.hdrDone {
			k := headerEnd(d, p)
			if _, err := dst.Write(p[:k]); err != nil {
				rc.shut(false, "peer")
				return false
			}
			p = p[k:]
			continue
		}
		// first payload byte upstream makes this connection the next carrier
		if up && rc.carrier < 0 {
			r.mu.Lock()
			rc.carrier = len(r.carriers)
			r.carriers = append(r.carriers, rc)
			r.mu.Unlock()
			r.s.logp("relay conn %d (proxy %d) is carrier %d", rc.id, rc.proxyIdx, rc.carrier)
		}
		// silent failures, applied BEFORE the bytes that reach the offset are passed on (offset 0: the carrier
		// never moves a byte in either direction): blackhole = this connection swallows everything from now on,
		// hang = the same and the proxy process is frozen for good
		if rc.carrier >= 0 {
			rc.mu.Lock()
			tot := rc.up.payload + rc.down.payload
			rc.mu.Unlock()
			for _, ru := range r.rulesFor(rc.carrier) {
				if (ru.kind == "blackhole" || ru.kind == "hang") && tot >= ru.a && atomic.CompareAndSwapInt32(&ru.fired, 0, 1) {
					r.blackhole(ru, rc)
					if ru.kind == "hang" {
						go r.s.procAction(ru, rc)
					}
				}
			}
			rc.mu.Lock()
			hole := rc.hole
			rc.mu.Unlock()
			if hole {
				return true
			}
		}
		allow := int64(len(p))
		var cut *rule
		if rc.carrier >= 0 {
			for _, ru := range r.rulesFor(rc.carrier) {
				var lim int64 = -1
				switch {
				case up && (ru.kind == "cutu" || ru.kind == "rstu"):
					lim = ru.a - d.payload
				case !up && (ru.kind == "cutd" || ru.kind == "rstd"):
					lim = ru.a - d.payload
				}
				if lim >= 0 && lim <= allow {
					allow = lim
					cut = ru
				}
			}
		}
		if allow > 0 {
			if _, err := dst.Write(p[:allow]); err != nil {
				rc.shut(false, "peer")
				return false
			}
			rc.mu.Lock()
			d.payload += allow
			rc.mu.Unlock()
			p = p[allow:]
		}
		if cut != nil && atomic.CompareAndSwapInt32(&cut.fired, 0, 1) {
			r.s.beginDisturb()
			r.s.note(cut, fmt.Sprintf("/conn%d/proxy%d", rc.id, rc.proxyIdx))
			rc.shut(strings.HasPrefix(cut.kind, "rst"), cut.text)
			r.s.endDisturb()
			return false
		}
		// rules on the total byte count of the carrier
		if rc.carrier >= 0 {
			rc.mu.Lock()
			tot := rc.up.payload + rc.down.payload
			rc.mu.Unlock()
			for _, ru := range r.rulesFor(rc.carrier) {
				switch ru.kind {
				case "freeze", "stop", "kill", "term", "pause", "blackout", "killall", "extinct", "refuse", "cutall":
				default:
					continue
				}
				if tot < ru.a || !atomic.CompareAndSwapInt32(&ru.fired, 0, 1) {
					continue
				}
				switch ru.kind {
				case "freeze":
					r.freeze(ru, rc, time.Duration(ru.b)*time.Millisecond)
				case "refuse":
					r.refuse(ru, time.Duration(ru.b)*time.Millisecond)
				case "cutall":
					go func(ru *rule) {
						r.s.beginDisturb()
						n := r.cutAll()
						r.s.note(ru, fmt.Sprintf("/%d-conns", n))
						r.s.endDisturb()
					}(ru)
				default:
					go r.s.procAction(ru, rc)
				}
			}
		}
	}
	return true
}

// headerEnd returns how many bytes of p belong to the HTTP upgrade exchange.
func headerEnd(d *rdir, p []byte) int {
	j := append(append([]byte(nil), d.tail...), p...)
	if i := bytes.Index(j, []byte("\r\n\r\n")); i >= 0 {
		d.hdrDone = true
		return i + 4 - len(d.tail)
	}
	if len(j) > 3 {
		d.tail = append([]byte(nil), j[len(j)-3:]...)
	} else {
		d.tail = j
	}
	return len(p)
}

func (r *relay) freeze(ru *rule, rc *rconn, d time.Duration) {
	r.s.beginDisturb()
	r.s.note(ru, fmt.Sprintf("/conn%d/proxy%d", rc.id, rc.proxyIdx))
	rc.mu.Lock()
	rc.frozen = time.Now().Add(d)
	rc.mu.Unlock()
	go func() {
		time.Sleep(d)
		r.s.endDisturb()
	}()
}

// blackhole turns rc into a silent carrier: from now on whatever either side sends is read and dropped;
// both TCP connections stay open. An instantaneous disturbance, like a cut.
func (r *relay) blackhole(ru *rule, rc *rconn) {
	r.s.beginDisturb()
	if ru.kind != "hang" {
		r.s.note(ru, fmt.Sprintf("/conn%d/proxy%d", rc.id, rc.proxyIdx))
	}
	rc.mu.Lock()
	rc.hole = true
	rc.mu.Unlock()
	r.s.endDisturb()
}

// answerRules fires the `a:` rules: the bridge-side application has read the request and is about to write its
// answer and close. Synchronous: when it returns the fault is in place.
func (s *scen) answerRules() {
	for _, ru := range s.sp.faults {
		if ru.sel != 'a' || !atomic.CompareAndSwapInt32(&ru.fired, 0, 1) {
			continue
		}
		rc := s.relay.currentCarrier()
		if ru.kind == "none" {
			s.note(ru, "")
			continue
		}
		if rc == nil {
			s.note(ru, "/no-carrier")
			continue
		}
		switch ru.kind {
		case "blackhole":
			s.relay.blackhole(ru, rc)
		case "hang":
			s.relay.blackhole(ru, rc)
			s.procAction(ru, rc)
		case "kill", "term", "stop":
			s.procAction(ru, rc)
			if ru.kind != "stop" {
				// until the process is gone (its sockets closed)
				for i := 0; i < 100; i++ {
					s.mu.Lock()
					dead := rc.proxyIdx >= 0 && rc.proxyIdx < len(s.procs) && s.procs[rc.proxyIdx].dead
					s.mu.Unlock()
					if dead {
						break
					}
					time.Sleep(30 * time.Millisecond)
				}
			}
		case "cutu", "cutd", "rstu", "rstd":
			s.beginDisturb()
			s.note(ru, fmt.Sprintf("/conn%d/proxy%d", rc.id, rc.proxyIdx))
			rc.shut(strings.HasPrefix(ru.kind, "rst"), ru.text)
			s.endDisturb()
		case "freeze":
			s.relay.freeze(ru, rc, time.Duration(ru.b)*time.Millisecond)
		}
	}
}

func (r *relay) refuse(ru *rule, d time.Duration) {
	r.s.beginDisturb()
	r.s.note(ru, "")
	r.mu.Lock()
	r.refuseUntil = time.Now().Add(d)
	r.mu.Unlock()
	go func() {
		time.Sleep(d)
		r.s.endDisturb()
	}()
}

func (r *relay) cutAll() int {
	r.mu.Lock()
	conns := append([]*rconn(nil), r.conns...)
	r.mu.Unlock()
	n := 0
	for _, c := range conns {
		c.mu.Lock()
		open := !c.closed
		c.mu.Unlock()
		if open {
			n++
			c.shut(true, "cutall")
		}
	}
	return n
}

func (r *relay) currentCarrier() *rconn {
	r.mu.Lock()
	defer r.mu.Unlock()
	for i := len(r.carriers) - 1; i >= 0; i-- {
		c := r.carriers[i]
		c.mu.Lock()
		open := !c.closed
		c.mu.Unlock()
		if open {
			return c
		}
	}
	return nil
}

func (r *relay) stats() (conns, carriers, refused int, perCarrier string) {
	r.mu.Lock()
	defer r.mu.Unlock()
	var l []string
	for _, c := range r.carriers {
		c.mu.Lock()
		l = append(l, fmt.Sprintf("p%d.u%d.d%d", c.proxyIdx, c.up.payload, c.down.payload))
		c.mu.Unlock()
	}
	if len(l) == 0 {
		l = []string{"-"}
	}
	return len(r.conns), len(r.carriers), r.refused, strings.Join(l, ",")
}

// ---------------------------------------------------------------- broker front

// front is a pass-through HTTP front of the broker for the client; it can lose or delay
// the j-th answer (b<j>:lose, b<j>:delay=<ms>) or have all proxies killed while the
// answer is in flight (b<j>:killall).
type front struct {
	s       *scen
	ln      net.Listener
	srv     *http.Server
	answers int32
	polls   int32
}

func newFront(s *scen, brokerURL string) (*front, error) {
	u, err := url.Parse(brokerURL)
	if err != nil {
		return nil, err
	}
	ln, err := net.Listen("tcp", "127.0.0.1:0")
	if err != nil {
		return nil, err
	}
	f := &front{s: s, ln: ln}
	rp := httputil.NewSingleHostReverseProxy(u)
	rp.ErrorLog = log.New(ioutil.Discard, "", 0)
	rp.ModifyResponse = func(resp *http.Response) error {
		if resp.Request == nil || !strings.HasSuffix(resp.Request.URL.Path, "/client") {
			return nil
		}
		atomic.AddInt32(&f.polls, 1)
		body, err := ioutil.ReadAll(resp.Body)
		resp.Body.Close()
		if err != nil {
			return err
		}
		resp.Body = ioutil.NopCloser(bytes.NewReader(body))
		pr, err := messages.DecodeClientPollResponse(body)
		if err != nil || pr.Answer == "" {
			return nil
		}
		j := int(atomic.AddInt32(&f.answers, 1)) - 1
		for _, ru := range s.sp.faults {
			if ru.sel != 'b' || ru.idx != j || !atomic.CompareAndSwapInt32(&ru.fired, 0, 1) {
				continue
			}
			switch ru.kind {
			case "lose":
				s.beginDisturb()
				s.note(ru, "")
				s.endDisturb()
				return fmt.Errorf("answer lost")
			case "delay":
				s.beginDisturb()
				s.note(ru, "")
				time.Sleep(time.Duration(ru.a) * time.Millisecond)
				s.endDisturb()
			case "killall":
				s.procAction(ru, nil)
			}
		}
		return nil
	}
	rp.ErrorHandler = func(w http.ResponseWriter, r *http.Request, err error) {
		w.WriteHeader(http.StatusBadGateway)
	}
	f.srv = &http.Server{Handler: rp}
	go f.srv.Serve(ln)
	return f, nil
}

func (f *front) url() string {
	return fmt.Sprintf("http://127.0.0.1:%d/", f.ln.Addr().(*net.TCPAddr).Port)
}
func (f *front) close() { f.srv.Close() }

// ---------------------------------------------------------------- STUN and NAT probe

func outboundIP() net.IP {
	ifs, _ := net.InterfaceAddrs()
	for _, a := range ifs {
		if n, ok := a.(*net.IPNet); ok {
			if ip4 := n.IP.To4(); ip4 != nil && !ip4.IsLoopback() {
				return ip4
			}
		}
	}
	return net.IPv4(127, 0, 0, 1)
}

// startSTUN answers binding requests with the sender's own address.
func startSTUN() (string, func(), error) {
	pc, err := net.ListenUDP("udp4", &net.UDPAddr{IP: net.IPv4zero, Port: 0})
	if err != nil {
		return "", nil, err
	}
	go func() {
		buf := make([]byte, 1500)
		for {
			n, from, err := pc.ReadFromUDP(buf)
			if err != nil {
				return
			}
			m := &stun.Message{Raw: append([]byte(nil), buf[:n]...)}
			if m.Decode() != nil || m.Type != stun.BindingRequest {
				continue
			}
			resp, err := stun.Build(stun.NewTransactionIDSetter(m.TransactionID), stun.BindingSuccess,
				&stun.XORMappedAddress{IP: from.IP, Port: from.Port}, stun.Fingerprint)
			if err == nil {
				pc.WriteToUDP(resp.Raw, from)
			}
		}
	}()
	u := fmt.Sprintf("stun:%s:%d", outboundIP().String(), pc.LocalAddr().(*net.UDPAddr).Port)
	return u, func() { pc.Close() }, nil
}

// startProbe is the repo's probetest handler (probetest/probetest.go) without its
// hard-wired public STUN server: accept the proxy's offer, answer, let the data channel open.
func startProbe() (string, func(), error) {
	ln, err := net.Listen("tcp", "127.0.0.1:0")
	if err != nil {
		return "", nil, err
	}
	mux := http.NewServeMux()
	mux.HandleFunc("/probe", func(w http.ResponseWriter, r *http.Request) {
		body, err := ioutil.ReadAll(io.LimitReader(r.Body, 100000))
		if err != nil {
			w.WriteHeader(400)
			return
		}
		offer, _, err := messages.DecodePollResponse(body)
		if err != nil || offer == "" {
			w.WriteHeader(400)
			return
		}
		sdp, err := util.DeserializeSessionDescription(offer)
		if err != nil {
			w.WriteHeader(400)
			return
		}
		pc, err := webrtc.NewPeerConnection(webrtc.Configuration{})
		if err != nil {
			w.WriteHeader(500)
			return
		}
		opened := make(chan struct{})
		pc.OnDataChannel(func(dc *webrtc.DataChannel) {
			dc.OnOpen(func() { close(opened) })
		})
		done := webrtc.GatheringCompletePromise(pc)
		if err = pc.SetRemoteDescription(*sdp); err != nil {
			pc.Close()
			w.WriteHeader(500)
			return
		}
		ans, err := pc.CreateAnswer(nil)
		if err == nil {
			err = pc.SetLocalDescription(ans)
		}
		if err != nil {
			pc.Close()
			w.WriteHeader(500)
			return
		}
		<-done
		as, _ := util.SerializeSessionDescription(pc.LocalDescription())
		out, err := messages.EncodeAnswerRequest(as, "stub-sid")
		if err != nil {
			pc.Close()
			w.WriteHeader(500)
			return
		}
		w.Write(out)
		go func() {
			select {
			case <-opened:
				time.Sleep(500 * time.Millisecond)
			case <-time.After(20 * time.Second):
			}
			pc.Close()
		}()
	})
	srv := &http.Server{Handler: mux}
	go srv.Serve(ln)
	return fmt.Sprintf("http://127.0.0.1:%d/probe", ln.Addr().(*net.TCPAddr).Port), func() { srv.Close() }, nil
}

// ---------------------------------------------------------------- application ends

// stream generates the byte stream of one direction.
func stream(seed int64, n int) []byte {
	b := make([]byte, n)
	rand.New(rand.NewSource(seed)).Read(b)
	return b
}

type dirResult struct {
	want     []byte
	written  int64
	got      []byte // everything read (capped at len(want)+64 KiB)
	extra    int64  // bytes read beyond the cap
	eof      bool
	werr     string
	rerr     string
	wdone    bool
	mismatch int64
	stopAt   bool // the reader stops once it has read len(want) bytes (it will close its own end next)
	eofOK    bool // the other end closes after writing: EOF is the expected end of this stream
}

// pair is one client connection (Transport.Dial) with its two streams and the server
// connection that belongs to it.
type pair struct {
	tag      string // "" for the first dial, "2" for the second
	up, down *dirResult
	cc, sc   net.Conn
	srvUp    chan struct{}
	upDone   chan struct{}
	downDone chan struct{}
	started  bool
}

type app struct {
	s        *scen
	tr       *sfclient.Transport
	pairs    []*pair
	accepted int32
	dials    int32
	acc      chan net.Conn
	closing  int32
	extraSrv int64 // bytes received on server connections nobody dialled
	mu       sync.Mutex
}

func newPair(tag string, seed int64, up, down int) *pair {
	return &pair{tag: tag, srvUp: make(chan struct{}), upDone: make(chan struct{}), downDone: make(chan struct{}),
		up:   &dirResult{want: stream(seed*2+1, up), mismatch: -1},
		down: &dirResult{want: stream(seed*2+2, down), mismatch: -1}}
}

func newApp(s *scen) *app {
	a := &app{s: s, acc: make(chan net.Conn, 16)}
	a.pairs = append(a.pairs, newPair("", s.sp.seed, s.sp.up, s.sp.down))
	if s.sp.srvclose {
		a.pairs[0].up.stopAt = true
		a.pairs[0].down.eofOK = true
	}
	if s.sp.second >= 0 {
		a.pairs = append(a.pairs, newPair("2", s.sp.seed+1000003, s.sp.second, s.sp.second))
	}
	return a
}

func (a *app) acceptLoop(l *sfserver.SnowflakeListener) {
	for {
		c, err := l.Accept()
		if err != nil {
			return
		}
		n := atomic.AddInt32(&a.accepted, 1)
		a.s.logp("server accepted connection %d", n)
		if int(n) <= len(a.pairs) {
			a.acc <- c
			continue
		}
		// more connections than dials must never appear; drain and count what they carry
		go func(c net.Conn) {
			buf := make([]byte, 4096)
			for {
				k, err := c.Read(buf)
				atomic.AddInt64(&a.extraSrv, int64(k))
				if err != nil {
					return
				}
			}
		}(c)
	}
}

// writer writes d.want in chunks of varying size.
func (a *app) writer(c net.Conn, d *dirResult, rng *rand.Rand) {
	sizes := []int{1, 2, 7, 64, 500, 1024, 1400, 4096, 16384, 65536, 200000}
	off := 0
	for off < len(d.want) {
		n := sizes[rng.Intn(len(sizes))]
		if rng.Intn(4) == 0 {
			n = 1 + rng.Intn(n)
		}
		if off+n > len(d.want) {
			n = len(d.want) - off
		}
		k, err := c.Write(d.want[off : off+n])
		a.mu.Lock()
		d.written += int64(k)
		a.mu.Unlock()
		off += k
		if err != nil {
			if atomic.LoadInt32(&a.closing) == 0 {
				a.mu.Lock()
				d.werr = err.Error()
				a.mu.Unlock()
			}
			return
		}
		if k != n {
			a.mu.Lock()
			d.werr = fmt.Sprintf("short write %d of %d without error", k, n)
			a.mu.Unlock()
			return
		}
		if rng.Intn(16) == 0 {
			time.Sleep(time.Duration(rng.Intn(20)) * time.Millisecond)
		}
	}
	a.mu.Lock()
	d.wdone = true
	a.mu.Unlock()
}

// reader reads until error/EOF; everything read is compared with d.want on the fly.
func (a *app) reader(c net.Conn, d *dirResult, rng *rand.Rand, done chan struct{}) {
	defer close(done)
	capN := len(d.want) + 65536
	buf := make([]byte, 70000)
	if d.stopAt && len(d.want) == 0 {
		return
	}
	for {
		n := 1 + rng.Intn(len(buf))
		k, err := c.Read(buf[:n])
		if k > 0 {
			atomic.StoreInt64(&a.s.progress, time.Now().UnixNano())
			a.mu.Lock()
			room := capN - len(d.got)
			if room > k {
				room = k
			}
			base := len(d.got)
			d.got = append(d.got, buf[:room]...)
			d.extra += int64(k - room)
			if d.mismatch < 0 {
				for i := 0; i < room; i++ {
					if base+i >= len(d.want) || d.want[base+i] != buf[i] {
						d.mismatch = int64(base + i)
						break
					}
				}
			}
			full := d.stopAt && len(d.got) >= len(d.want)
			a.mu.Unlock()
			if full && err == nil {
				return
			}
		}
		if err != nil {
			a.mu.Lock()
			if err == io.EOF {
				d.eof = true
			}
			if atomic.LoadInt32(&a.closing) == 0 && !(err == io.EOF && d.eofOK) {
				d.rerr = err.Error()
			}
			a.mu.Unlock()
			return
		}
	}
}

// startPair runs the four pumps of one dialled connection. The server end is the next
// connection the server accepts (accept order = dial order: the second dial happens
// long after the first connection was accepted).
func (a *app) startPair(p *pair, cc net.Conn, seed int64) {
	a.mu.Lock()
	p.cc = cc
	p.started = true
	a.mu.Unlock()
	atomic.AddInt32(&a.dials, 1)
	go a.writer(cc, p.up, rand.New(rand.NewSource(seed*7+1)))
	go a.reader(cc, p.down, rand.New(rand.NewSource(seed*7+2)), p.downDone)
	go func() {
		sc := <-a.acc
		a.mu.Lock()
		p.sc = sc
		a.mu.Unlock()
		close(p.srvUp)
		if a.s.sp.srvclose {
			// answer-then-close: read the request, (fault), write the answer, close at once
			a.reader(sc, p.up, rand.New(rand.NewSource(seed*7+4)), p.upDone)
			a.s.answerRules()
			a.writer(sc, p.down, rand.New(rand.NewSource(seed*7+3)))
			sc.Close()
			a.s.logp("server wrote its answer (%d bytes) and closed", len(p.down.want))
			return
		}
		go a.writer(sc, p.down, rand.New(rand.NewSource(seed*7+3)))
		a.reader(sc, p.up, rand.New(rand.NewSource(seed*7+4)), p.upDone)
	}()
}

func (p *pair) completeLocked() bool {
	return p.started && p.up.wdone && p.down.wdone && len(p.up.got) >= len(p.up.want) && len(p.down.got) >= len(p.down.want)
}

func (a *app) complete() bool {
	a.mu.Lock()
	defer a.mu.Unlock()
	for _, p := range a.pairs {
		if !p.completeLocked() {
			return false
		}
	}
	return true
}

// truncated: the other end wrote everything and closed, and this end read EOF short of it.
func (a *app) truncated() bool {
	a.mu.Lock()
	defer a.mu.Unlock()
	for _, p := range a.pairs {
		d := p.down
		if d.eofOK && d.eof && d.wdone && int64(len(d.got)) < d.written {
			return true
		}
	}
	return false
}

func (a *app) broken() bool {
	a.mu.Lock()
	defer a.mu.Unlock()
	for _, p := range a.pairs {
		for _, d := range []*dirResult{p.up, p.down} {
			if d.mismatch >= 0 || d.werr != "" || d.rerr != "" {
				return true
			}
		}
	}
	return atomic.LoadInt32(&a.accepted) > atomic.LoadInt32(&a.dials)
}

func (a *app) run(cc net.Conn) string {
	s := a.s
	sp := s.sp
	t0 := time.Now()
	a.startPair(a.pairs[0], cc, sp.seed)

	status := ""
	dialErr := ""
	var quiet, idle time.Duration
	for status == "" {
		time.Sleep(50 * time.Millisecond)
		now := time.Now()
		// the second connection of the same client (same Transport): dialled once the first
		// one has been through a redial, at the latest when the first one is complete
		if len(a.pairs) > 1 && !a.pairs[1].started {
			_, carriers, _, _ := s.relay.stats()
			a.mu.Lock()
			firstDone := a.pairs[0].completeLocked()
			a.mu.Unlock()
			if carriers >= 2 || firstDone {
				c2, err := a.tr.Dial()
				if err != nil {
					dialErr = err.Error()
					status = "dialerror"
					break
				}
				s.logp("second Dial on the same Transport (carriers so far %d)", carriers)
				a.startPair(a.pairs[1], c2, sp.seed+1000003)
			}
		}
		s.mu.Lock()
		active := s.activeFault
		dist := s.disturbed
		s.mu.Unlock()
		idle = now.Sub(time.Unix(0, atomic.LoadInt64(&s.progress)))
		quiet = now.Sub(dist)
		if active > 0 {
			quiet = 0
		}
		switch {
		case a.complete():
			status = "done"
			if sp.srvclose {
				// the bridge side has closed: the client reads EOF next (reported, see down.eof)
				select {
				case <-a.pairs[0].downDone:
				case <-time.After(5 * time.Second):
				}
			}
		case a.truncated():
			status = "truncated"
		case a.broken():
			// give the other direction a moment so that the report is complete
			time.Sleep(300 * time.Millisecond)
			status = "broken"
		case now.Sub(t0) > sp.hard:
			status = "hardlimit"
		case quiet > sp.stall && idle > sp.stall:
			status = "stalled"
		}
	}
	elapsed := time.Since(t0)
	live := len(s.liveProxies())
	polling := -1
	if status == "stalled" || status == "hardlimit" {
		polling = s.polling(&http.Client{Timeout: 3 * time.Second})
	}
	if status == "done" {
		// anything more that arrives now is duplicated or foreign
		time.Sleep(400 * time.Millisecond)
	}
	// close: client ends first
	atomic.StoreInt32(&a.closing, 1)
	// SnowflakeConn.Close blocks inside smux for as long as the session cannot write
	// (a stalled stream); that is outside C01, the rig just must not wait for it.
	srvEOF := "-"
	closed := make(chan struct{})
	go func() {
		for _, p := range a.pairs {
			a.mu.Lock()
			c := p.cc
			a.mu.Unlock()
			if c != nil {
				c.Close()
			}
		}
		close(closed)
	}()
	select {
	case <-closed:
		select {
		case <-a.pairs[0].downDone:
		case <-time.After(3 * time.Second):
		}
		if status == "done" {
			select {
			case <-a.pairs[0].upDone:
				srvEOF = "yes"
			case <-time.After(1 * time.Second):
				// SnowflakeConn.Close tears the carriers down right after queueing the
				// FIN; whether it still reaches the server is not part of C01
				srvEOF = "no"
			}
		}
	case <-time.After(3 * time.Second):
	}
	for _, p := range a.pairs {
		a.mu.Lock()
		c := p.sc
		a.mu.Unlock()
		if c != nil {
			c.Close()
		}
	}
	conns, carriers, refused, per := s.relay.stats()

	a.mu.Lock()
	defer a.mu.Unlock()
	var b strings.Builder
	fmt.Fprintf(&b, "id=%s status=%s", sp.id, status)
	if dialErr != "" {
		fmt.Fprintf(&b, " err=%s", q(dialErr))
	}
	for _, p := range a.pairs {
		for _, x := range []struct {
			n string
			d *dirResult
		}{{"up" + p.tag, p.up}, {"down" + p.tag, p.down}} {
			d := x.d
			hw := sha256.Sum256(d.want[:d.written])
			hr := sha256.Sum256(d.got)
			cls, at := classify(d)
			fmt.Fprintf(&b, " %s.size=%d %s.w=%d %s.r=%d %s.extra=%d %s.wsha=%s %s.rsha=%s %s.mis=%d %s.cls=%s %s.at=%s %s.werr=%s %s.rerr=%s %s.eof=%v",
				x.n, len(d.want), x.n, d.written, x.n, len(d.got), x.n, d.extra, x.n, hex.EncodeToString(hw[:8]), x.n, hex.EncodeToString(hr[:8]),
				x.n, d.mismatch, x.n, cls, x.n, at, x.n, q(d.werr), x.n, q(d.rerr), x.n, d.eof)
		}
	}
	s.mu.Lock()
	fired := strings.Join(s.fired, ",")
	starts := s.proxyStarts
	s.mu.Unlock()
	if fired == "" {
		fired = "-"
	}
	fmt.Fprintf(&b, " dials=%d accepted=%d extrasrv=%d srveof=%s conns=%d carriers=%d per=%s refused=%d proxies=%d live=%d polling=%d polls=%d answers=%d quiet=%d idle=%d ms=%d fired=%s",
		atomic.LoadInt32(&a.dials), atomic.LoadInt32(&a.accepted), atomic.LoadInt64(&a.extraSrv), srvEOF, conns, carriers, per, refused, starts, live, polling,
		atomic.LoadInt32(&s.front.polls), atomic.LoadInt32(&s.front.answers), quiet.Milliseconds(), idle.Milliseconds(), elapsed.Milliseconds(), fired)
	return b.String()
}

func q(s string) string {
	if s == "" {
		return "-"
	}
	s = strings.Map(func(r rune) rune {
		if r == ' ' || r == '\n' || r == '\t' || r == '=' {
			return '_'
		}
		return r
	}, s)
	if len(s) > 120 {
		s = s[:120]
	}
	return s
}

// classify says what kind of damage the first mismatch is: the 24 bytes read at the
// mismatch are looked up in the expected stream. later = bytes were skipped (missing),
// earlier = bytes came again or out of order, nowhere = foreign bytes.
func classify(d *dirResult) (string, string) {
	if d.mismatch < 0 {
		return "-", "-"
	}
	m := int(d.mismatch)
	if m >= len(d.want) {
		// read more than was ever written
		tail := d.got[m:]
		if len(tail) > 24 {
			tail = tail[:24]
		}
		if len(tail) >= 8 && bytes.Contains(d.want, tail) {
			return "dup", strconv.Itoa(bytes.Index(d.want, tail))
		}
		return "foreign", "-"
	}
	end := m + 24
	if end > len(d.got) {
		end = len(d.got)
	}
	pat := d.got[m:end]
	if len(pat) < 8 {
		return "foreign", "-"
	}
	if i := bytes.Index(d.want[m:], pat); i >= 0 {
		return "missing", strconv.Itoa(m + i)
	}
	if i := bytes.Index(d.want[:m], pat); i >= 0 {
		return "dup", strconv.Itoa(i)
	}
	// the damage may start inside the window: try the second half
	pat2 := pat[len(pat)/2:]
	if len(pat2) >= 8 {
		if i := bytes.Index(d.want, pat2); i >= 0 {
			if i > m {
				return "missing", strconv.Itoa(i)
			}
			return "dup", strconv.Itoa(i)
		}
	}
	return "foreign", "-"
}
