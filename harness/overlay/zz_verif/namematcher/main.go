//go:build verif

// Driver for common/namematcher (black-box, exported API only) and for the url.Parse
// library boundary used by the proxy's relay URL decision (see coq/Run/NameMatcherRun.v).
package main

import (
	"encoding/json"
	"net/url"
	"strings"

	"git.torproject.org/pluggable-transports/snowflake.git/v2/common/namematcher"
	"git.torproject.org/pluggable-transports/snowflake.git/v2/zz_verif/wire"
)

var alpha = []byte{'a', '.', '^', '$'}

// words mirrors NameMatcher.words: for each w of length k (in order), for each c of alpha, c::w.
func words(n int) []string {
	if n == 0 {
		return []string{""}
	}
	var out []string
	for _, w := range words(n - 1) {
		for _, c := range alpha {
			out = append(out, string(c)+w)
		}
	}
	return out
}

var smallWords = append(append(append(words(0), words(1)...), words(2)...), words(3)...)

func b01(b bool) string {
	if b {
		return "1"
	}
	return "0"
}

func head(a, b string) string {
	ma := namematcher.NewNameMatcher(a)
	mb := namematcher.NewNameMatcher(b)
	return "v=" + b01(namematcher.IsValidRule(a)) + " sup=" + b01(ma.IsSupersetOf(mb))
}

func str(t string) string {
	b, err := wire.Payload(t)
	if err != nil {
		panic("bad payload " + t)
	}
	return string(b)
}

func handle(args []string) string {
	switch {
	case args[0] == "sup" && len(args) == 3:
		a, b := str(args[1]), str(args[2])
		ma := namematcher.NewNameMatcher(a)
		mb := namematcher.NewNameMatcher(b)
		var sa, sb strings.Builder
		for _, w := range smallWords {
			sa.WriteString(b01(ma.IsMember(w)))
			sb.WriteString(b01(mb.IsMember(w)))
		}
		return head(a, b) + " ma=" + sa.String() + " mb=" + sb.String()
	case args[0] == "nm" && len(args) == 4:
		a, b, h := str(args[1]), str(args[2]), str(args[3])
		ma := namematcher.NewNameMatcher(a)
		mb := namematcher.NewNameMatcher(b)
		return head(a, b) + " ma=" + b01(ma.IsMember(h)) + " mb=" + b01(mb.IsMember(h))
	case args[0] == "urlparse" && len(args) == 2:
		// Library boundary: what a Go JSON string round trip and url.Parse make of a raw URL.
		// Output: x<raw after JSON round trip> E | x<raw'> P x<scheme> x<hostname>
		raw := str(args[1])
		enc, _ := json.Marshal(raw)
		var dec string
		if err := json.Unmarshal(enc, &dec); err != nil {
			panic(err)
		}
		u, err := url.Parse(dec)
		if err != nil {
			return "x" + wire.Hex([]byte(dec)) + " E"
		}
		return "x" + wire.Hex([]byte(dec)) + " P x" + wire.Hex([]byte(u.Scheme)) + " x" + wire.Hex([]byte(u.Hostname()))
	case args[0] == "urlparse2" && len(args) == 2:
		// The same, and what url.Parse makes of the string printed from the first parse once the client_ip
		// query is set (proxy datachannelHandler: q.Set; u.RawQuery = q.Encode(); Dial(u.String())):
		// x<raw'>;E | x<raw'>;P;x<scheme>;x<hostname>;E | x<raw'>;P;x<scheme>;x<hostname>;P;x<scheme2>;x<hostname2>
		raw := str(args[1])
		enc, _ := json.Marshal(raw)
		var dec string
		if err := json.Unmarshal(enc, &dec); err != nil {
			panic(err)
		}
		head := "x" + wire.Hex([]byte(dec))
		u, err := url.Parse(dec)
		if err != nil {
			return head + ";E"
		}
		first := head + ";P;x" + wire.Hex([]byte(u.Scheme)) + ";x" + wire.Hex([]byte(u.Hostname()))
		q := u.Query()
		q.Set("client_ip", "192.0.2.9")
		u.RawQuery = q.Encode()
		u2, err := url.Parse(u.String())
		if err != nil {
			return first + ";E"
		}
		return first + ";P;x" + wire.Hex([]byte(u2.Scheme)) + ";x" + wire.Hex([]byte(u2.Hostname()))
	}
	return "!badcase"
}

func main() { wire.Loop(handle) }
