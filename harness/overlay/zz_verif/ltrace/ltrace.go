//go:build verif

// Package ltrace records lock / access / fork events of one execution for the C20 trace checker
// (coq/Run/LocktraceRun.v runs the extracted, proved-sound check_trace on what is recorded here).
// The calls are inserted into COPIES of the repo's sources by the locktable instrumenter
// (harness/overlay/zz_verif/locktable -instr); /repo itself is not touched.
//
// The global order of the log is the order in which events were appended under one mutex.  A lock
// acquisition is logged after Lock returns and a release before Unlock is called, so the logged
// section lies inside the real one; an access is logged just before the statement that contains
// it, by the accessing goroutine, which has logged its own lock operations in program order.
package ltrace

import (
	"bufio"
	"fmt"
	"os"
	"reflect"
	"runtime"
	"strconv"
	"strings"
	"sync"
)

type event struct {
	k      byte // a r A R : lock ops;  d w o : read / write / atomic access;  F : fork point;  N : first event of a goroutine
	g      uint64
	p      uintptr
	name   string
	parent uint64
}

var (
	mu     sync.Mutex
	on     bool
	events []event
	seen   map[uint64]bool
)

func goid() uint64 {
	var buf [64]byte
	n := runtime.Stack(buf[:], false)
	// "goroutine 123 [running]:"
	s := buf[10:n]
	var id uint64
	for _, c := range s {
		if c < '0' || c > '9' {
			break
		}
		id = id*10 + uint64(c-'0')
	}
	return id
}

func parentOf() uint64 {
	buf := make([]byte, 1<<16)
	n := runtime.Stack(buf, false)
	s := string(buf[:n])
	if i := strings.LastIndex(s, " in goroutine "); i >= 0 {
		rest := s[i+len(" in goroutine "):]
		j := 0
		for j < len(rest) && rest[j] >= '0' && rest[j] <= '9' {
			j++
		}
		id, _ := strconv.ParseUint(rest[:j], 10, 64)
		return id
	}
	return 0
}

// Enable starts a recording; the calling goroutine is the main thread of the trace.
func Enable() {
	mu.Lock()
	defer mu.Unlock()
	events = events[:0]
	seen = map[uint64]bool{goid(): true}
	events = append(events, event{k: 'M', g: goid()})
	on = true
}

func add(k byte, p uintptr, name string) {
	g := goid()
	mu.Lock()
	if on {
		if !seen[g] {
			seen[g] = true
			mu.Unlock()
			par := parentOf()
			mu.Lock()
			events = append(events, event{k: 'N', g: g, parent: par})
		}
		events = append(events, event{k: k, g: g, p: p, name: name})
	}
	mu.Unlock()
}

func ptr(x interface{}) uintptr {
	v := reflect.ValueOf(x)
	if v.Kind() == reflect.Ptr || v.Kind() == reflect.UnsafePointer {
		return v.Pointer()
	}
	return 0
}

// L logs a lock operation on the mutex p points to (k: a r A R).
func L(k byte, p interface{}, name string) { add(k, ptr(p), name) }

// A logs an access (k: d w o) to the object whose address f returns; f is evaluated here, and a
// nil dereference inside it (an access the statement guards against) yields address 0 = not logged.
func A(k byte, f func() interface{}, class string) {
	var p uintptr
	func() {
		defer func() { recover() }()
		p = ptr(f())
	}()
	if p != 0 {
		add(k, p, class)
	}
}

// F logs that the calling goroutine is about to execute a go statement.
func F() { add('F', 0, "") }

// Go starts fn on a new goroutine with a logged fork point (for the harness's own goroutines).
func Go(fn func()) {
	F()
	go func() {
		add('S', 0, "") // makes the child known even if it logs nothing else
		fn()
	}()
}

// Dump stops the recording and writes it to path, one event per line: k goroutine address name parent.
func Dump(path string) (int, error) {
	mu.Lock()
	on = false
	evs := events
	events = nil
	mu.Unlock()
	f, err := os.Create(path)
	if err != nil {
		return 0, err
	}
	w := bufio.NewWriter(f)
	for _, e := range evs {
		n := e.name
		if n == "" {
			n = "-"
		}
		fmt.Fprintf(w, "%c %d %d %s %d\n", e.k, e.g, e.p, n, e.parent)
	}
	if err := w.Flush(); err != nil {
		return 0, err
	}
	return len(evs), f.Close()
}
