//go:build verif

// Package wire implements the line protocol shared with the Coq model runner
// (coq/Lib/Wire.v): payload specs, hex, list tokens.
package wire

import (
	"bufio"
	"encoding/hex"
	"fmt"
	"os"
	"strconv"
	"strings"
	"time"
)

// Payload parses "x<hex>" or "g<len>.<a>".
func Payload(t string) ([]byte, error) {
	if len(t) == 0 {
		return nil, fmt.Errorf("empty payload spec")
	}
	switch t[0] {
	case 'x':
		return hex.DecodeString(t[1:])
	case 'g':
		parts := strings.Split(t[1:], ".")
		if len(parts) != 2 {
			return nil, fmt.Errorf("bad g spec")
		}
		n, err := strconv.Atoi(parts[0])
		if err != nil {
			return nil, err
		}
		a, err := strconv.Atoi(parts[1])
		if err != nil {
			return nil, err
		}
		b := make([]byte, n)
		for i := range b {
			b[i] = byte(a + i)
		}
		return b, nil
	}
	return nil, fmt.Errorf("bad payload spec")
}

// List splits a comma list token; "-" is the empty list.
func List(t string) []string {
	if t == "-" {
		return nil
	}
	return strings.Split(t, ",")
}

// PrintList joins; empty list prints "-".
func PrintList(l []string) string {
	if len(l) == 0 {
		return "-"
	}
	return strings.Join(l, ",")
}

func Hex(b []byte) string { return hex.EncodeToString(b) }

// Loop reads case lines from stdin and prints one result line per case.
// A panic inside f is reported as "!panic <msg>" so that it is a comparable observable.
// A case that does not return within the watchdog limit (VERIF_CASE_TIMEOUT seconds, default 300)
// is reported as "!hang": its goroutine is abandoned and the loop goes on, so a deadlock in the code
// under test is an observable of that case instead of a stuck driver. After a first hang the limit
// drops to 20 s, and after three hangs the remaining cases are answered "!hang-skipped".
func Loop(f func(args []string) string) {
	sc := bufio.NewScanner(os.Stdin)
	sc.Buffer(make([]byte, 1<<20), 1<<28)
	w := bufio.NewWriterSize(os.Stdout, 1<<20)
	defer w.Flush()
	limit := 300 * time.Second
	if v, err := strconv.Atoi(os.Getenv("VERIF_CASE_TIMEOUT")); err == nil && v > 0 {
		limit = time.Duration(v) * time.Second
	}
	hangs := 0
	for sc.Scan() {
		line := sc.Text()
		args := strings.Split(line, " ")
		if hangs >= 3 {
			w.WriteString("!hang-skipped\n")
			continue
		}
		ch := make(chan string, 1)
		go func() {
			defer func() {
				if r := recover(); r != nil {
					ch <- "!panic " + strings.ReplaceAll(fmt.Sprint(r), "\n", " ")
				}
			}()
			ch <- f(args[1:])
		}()
		var res string
		select {
		case res = <-ch:
		case <-time.After(limit):
			res = "!hang"
			hangs++
			limit = 20 * time.Second
		}
		w.WriteString(res)
		w.WriteByte('\n')
	}
}
