"""C18 — the bridge is told the right client address or none; the ClientID->address memory is bounded
(server/lib: clientIDMap ring, clientAddr sanitiser, acceptStreams attribution)."""
import ipaddress
import itertools
import os

import vlib

AREA = "clientid"
PKG = "./server/lib"
IMPL_ARGS = ["-test.run", "TestVerifDriver"]
IDS = ["0000000000000000", "0000000000000001", "0100000000000000", "ffffffffffffffff", "00000000000000ff", "8000000000000000"]
ADDRS = ["x41", "x42", "x", "n"]          # ClientMapAddr("A"), ("B"), (""), nil


def hx(s):
    return "x" + s.encode("utf-8", "surrogateescape").hex()


# ------------------------------------------------------------------ reference (the property, in python)

def ref_ring(cap, ops):
    """window of the last cap Sets; returns (gets, len(entries), upper bound on len(current))"""
    hist, gets = [], []
    for op in ops:
        if op[0] == "s":
            i, a = op[1:].split(":")
            hist.insert(0, (i, a))
        else:
            w = hist[:cap]
            r = "_"
            for i, a in w:
                if i == op[1:]:
                    r = a
                    break
            gets.append(r)
    return gets, cap, len(set(i for i, _ in hist[:cap]))


def unspecified(b):
    return b == bytes(16) or b == bytes(10) + b"\xff\xff" + bytes(4)


def ref_sanitise(parsed):
    """expected clientAddr string from what ParseIP returned, rendered by python's ipaddress"""
    if parsed in ("a", "u"):
        return ""
    b = bytes.fromhex(parsed[1:])
    if unspecified(b):
        return ""
    if b[:12] == bytes(10) + b"\xff\xff":
        return str(ipaddress.IPv4Address(b[12:])) + ":1"
    return "[" + str(ipaddress.IPv6Address(b)) + "]:1"


def ref_bb(cap, evs):
    """per accepted connection: (session index, first connection of the session?, expected RemoteAddr string,
    addresses presented for the session's ClientID before it was established, addresses presented only under
    other ClientIDs before it was established).  Spec: the most recent carrier with the ClientID among the last
    cap carriers WHEN THE SESSION WAS ESTABLISHED decides, else no address; a further stream of a session (t<k>)
    carries the session's address whatever carriers came in between."""
    cs, out, sessions = [], [], []

    def establish(i):
        want = ""
        for j, a in cs[:cap]:
            if j == i:
                want = a
                break
        own = set(a for j, a in cs if j == i)
        foreign = set(a for j, a in cs if j != i) - own - {""}
        sessions.append((want, own, foreign))
        return len(sessions) - 1

    for ev in evs:
        if ev[0] == "c":
            i, _, p = ev[1:].split(":")
            cs.insert(0, (i, ref_sanitise(p)))
        elif ev[0] == "a":
            k = establish(ev[1:])
            out.append((k, True) + sessions[k] + (None,))
        elif ev[0] == "e":
            pass        # a carrier ends: nothing is forgotten, nothing is re-attributed (C18_carrier_end_changes_nothing)
        elif ev[0] == "b":
            # a burst: no carrier starts during it, so every session of it is established against the same map
            # contents; peers = what the OTHER sessions of the burst are entitled to
            items = [it.split(".") for it in ev[3:].split("+")]
            ks = [establish(it[0]) for it in items]
            for k, it in zip(ks, items):
                peers = set(sessions[j][0] for j in ks if j != k) - {sessions[k][0]}
                for s in range(int(it[1])):
                    out.append((k, s == 0) + sessions[k] + (peers,))
        else:
            k = int(ev[1:])
            out.append((k, False) + sessions[k] + (None,))
    return out


# ------------------------------------------------------------------ property on the implementation's answer

def analyse(line, impl):
    a = line.split(" ")
    op = a[1]
    if impl.startswith("!panic") or impl == "!died":
        return ("panic", "implementation panicked/died: " + impl[:300])
    if impl.startswith("!"):
        return ("driver-" + impl.split(" ")[0][1:], "driver could not complete the scenario: " + impl[:300])
    if op == "ring":
        cap = int(a[2])
        ops = a[3].split(",") if a[3] != "-" else []
        gets, ln, curmax = ref_ring(cap, ops)
        try:
            f = dict(kv.split("=") for kv in impl.split(" "))
            got = f["gets"].split(",") if f["gets"] != "-" else []
            iln, icur = int(f["len"]), int(f["cur"])
        except Exception:
            return ("ring-output", "unreadable driver output " + impl[:100])
        if iln != cap:
            return ("ring-unbounded", "entries has %d slots for capacity %d" % (iln, cap))
        if icur > cap:
            return ("ring-unbounded", "current holds %d ids for capacity %d" % (icur, cap))
        if got != gets:
            k = next((i for i, (x, y) in enumerate(zip(got, gets)) if x != y), min(len(got), len(gets)))
            if k < len(got) and k < len(gets):
                if gets[k] == "_":
                    return ("ring-remembers-too-long", "Get #%d returned %s for an id outside the window of the last %d Sets" % (k, got[k], cap))
                if got[k] == "_":
                    return ("ring-forgets-early", "Get #%d found nothing although the id was Set within the last %d Sets" % (k, cap))
                return ("ring-wrong-address", "Get #%d returned %s, most recent Set for that id stored %s" % (k, got[k], gets[k]))
            return ("ring-output", "number of Get results differs")
    elif op == "san":
        want = "x" + ref_sanitise(a[3]).encode().hex()
        if impl == "n":
            return ("sanitise-nil", "clientAddr returned a nil net.Addr")
        if impl != want:
            if want == "x":
                kind = {"a": "absent", "u": "unparsable"}.get(a[3], "unspecified")
                return ("sanitise-accepts-" + kind, "clientAddr gave %r for an %s client_ip" % (bytes.fromhex(impl[1:]), kind))
            return ("sanitise-render", "clientAddr gave %r, expected %r" % (bytes.fromhex(impl[1:]), bytes.fromhex(want[1:])))
    elif op in ("bb", "bb0", "bbe", "burst"):
        cap = int(a[2])
        evs = a[3].split(",")
        exp = ref_bb(cap, evs)
        got = impl.split(",") if impl != "-" else []
        if len(got) != len(exp):
            return ("bb-output", "expected %d accepted connections, got %s" % (len(exp), impl[:100]))
        first = {}
        for k, (g, (sk, is_first, want, own, foreign, peers)) in enumerate(zip(got, exp)):
            if peers is not None and g != "n":
                s = bytes.fromhex(g[1:]).decode("utf-8", "replace")
                if s != want and s in peers:
                    return ("foreign-address-in-burst",
                            "connection #%d, a stream of session %d (one of several sessions established back to back), has "
                            "RemoteAddr() %r, which is the address of ANOTHER session of the burst; this session's ClientID "
                            "maps to %r" % (k, sk, s, want))
            if is_first:
                first[sk] = (k, g)
            elif g != first[sk][1]:
                # judged on the implementation's own answers: two connections of one session disagree
                def show(t):
                    return "nil" if t == "n" else repr(bytes.fromhex(t[1:]).decode("utf-8", "replace"))
                return ("address-changes-within-session",
                        "accepted connection #%d, a further stream of session %d, has RemoteAddr() %s, but the session's "
                        "first connection (#%d) had %s; the address is the one looked up when the session was established "
                        "(expected %r)" % (k, sk, show(g), first[sk][0], show(first[sk][1]), want))
            if g == "n":
                return ("forgotten-clientid-nil-remoteaddr",
                        "accepted connection #%d has RemoteAddr() == nil (ClientID no longer in the map); "
                        "server.go handleConn calls RemoteAddr().String() on it" % k)
            s = bytes.fromhex(g[1:]).decode("utf-8", "replace")
            if s != want:
                if s in foreign:
                    return ("foreign-address", "accepted connection #%d got %r, an address presented only under another ClientID" % (k, s))
                if s in own:
                    return ("stale-address", "accepted connection #%d got %r, not the most recent carrier's %r" % (k, s, want))
                return ("wrong-address", "accepted connection #%d got %r, expected %r" % (k, s, want))
    return None


def prop(line, impl, model):
    r = analyse(line, impl)
    return r[1] if r else None


def key_of(line, impl, model):
    r = analyse(line, impl)
    return r[0] if r else "prop"


# ------------------------------------------------------------------ generators

def ring_line(cap, ops):
    return "%s ring %d %s" % (AREA, cap, ",".join(ops) if ops else "-")


def gen_ring(ctx):
    rng = ctx.rng
    thorough = ctx.tier == "thorough"
    lines, kinds = [], []
    ids3 = IDS[:3]
    sets = ["s%s:%s" % (i, a) for i in ids3 for a in ADDRS[:2]]
    gets = ["g" + i for i in ids3]
    allgets = gets
    # exhaustive: every sequence of <= 5 Sets (3 ids incl. the zero id, 2 addresses), all ids read after every Set
    for cap in (0, 1, 2):
        nsets = 5 if (cap == 2 or thorough) else 4 if cap == 1 else 3
        for n in range(0, nsets + 1):
            for seq in itertools.product(sets, repeat=n):
                ops = list(allgets)
                for s in seq:
                    ops.append(s)
                    ops += allgets
                lines.append(ring_line(cap, ops)); kinds.append("ring-exh-sets<=%d-cap%d" % (nsets, cap))
    # exhaustive over the full alphabet (Sets and Gets in any order)
    nmax = 5 if thorough else 4
    for cap in (0, 1, 2):
        for n in range(1, nmax + 1):
            for seq in itertools.product(sets + gets, repeat=n):
                if seq[-1][0] != "g":
                    continue                       # a trailing Set is unobserved here; covered above
                lines.append(ring_line(cap, list(seq))); kinds.append("ring-exh-ops<=%d-cap%d" % (nmax, cap))
    # random: capacities 0..5 and 16, few ids so that current and non-current slots get overwritten
    for k in range(15000 if thorough else 1500):
        cap = rng.choice([0, 1, 2, 3, 4, 5, 16])
        nid = rng.choice([1, 2, max(1, cap - 1), cap, cap + 1, cap + 2])
        nid = max(1, min(nid, len(IDS))) if cap < 16 else rng.choice([2, 6, 17, 20])
        pool = IDS[:nid] if nid <= len(IDS) else ["%016x" % i for i in range(nid)]
        n = rng.choice([3, 8, 20, 60]) if cap < 16 else rng.choice([20, 40, 120])
        ops = []
        for _ in range(n):
            if rng.random() < 0.6:
                ops.append("s%s:%s" % (rng.choice(pool), rng.choice(ADDRS)))
            else:
                ops.append("g" + rng.choice(pool + [IDS[-1]]))
        ops += ["g" + i for i in pool[:8]]
        lines.append(ring_line(cap, ops)); kinds.append("ring-random-cap%d" % cap)
    # a larger capacity, wrapped around twice (the model is list based: keep it in the hundreds)
    ops = []
    for i in range(520):
        ops.append("s%016x:x%02x" % (i % 300, i & 255))
        if i % 37 == 0:
            ops.append("g%016x" % ((i * 7) % 300))
    ops += ["g%016x" % i for i in (0, 1, 19, 20, 21, 219, 220, 221, 299, 300, 319, 320, 519)]
    lines.append(ring_line(200, ops)); kinds.append("ring-cap200")
    return lines, kinds


FIXED_IPS = [
    "", "1.2.3.4", "0.0.0.0", "255.255.255.255", "127.0.0.1", "192.0.2.1", "10.0.0.1", "1.2.3", "1.2.3.4.5", "256.1.1.1",
    "01.2.3.4", "1.2.3.04", "1.2.3.4 ", " 1.2.3.4", "1.2.3.4\n", "1.2.3.4:80", "1.2.3.4:1", "[1.2.3.4]", "[1.2.3.4]:80",
    "::", "::1", "::0", "0::", "0::0", "0:0:0:0:0:0:0:0", "0000:0000:0000:0000:0000:0000:0000:0000", "::0.0.0.0", "::ffff:0.0.0.0",
    "::ffff:0:0", "0:0:0:0:0:ffff:0:0", "::ffff:1.2.3.4", "::ffff:102:304", "::1.2.3.4", "64:ff9b::1.2.3.4", "::fffe:0.0.0.0",
    "2001:db8::1", "2001:DB8::1", "2001:0db8:0000:0000:0000:0000:0000:0001", "2001:db8:0:0:1:0:0:1", "2001:db8:0:1:1:1:1:1",
    "2001:0:0:1:0:0:0:1", "1:0:0:2:0:0:0:3", "1:0:0:0:2:0:0:0", "0:0:1:0:0:0:0:0", "1:2:3:4:5:6:7:8", "1:2:3:4:5:6:7::", "::2:3:4:5:6:7:8",
    "1::8", "1:0:3:0:5:0:7:0", "0:1:0:0:1:0:0:0", "ffff:ffff:ffff:ffff:ffff:ffff:ffff:ffff", "fe80::1", "fe80::1%eth0", "fe80::1%25eth0",
    "::%eth0", "1.2.3.4%eth0", "[::1]", "[::1]:80", "[2001:db8::1]:443", "[fe80::1%eth0]:1", "::1:", ":::1", "1:2:3:4:5:6:7:8:9",
    "1:2:3:4:5:6:7", "12345::1", "g::1", "::g", "localhost", "example.com", "garbage", "0", "1", "-1", "0x7f.1", "0177.0.0.1",
    "1.2.3.4,5.6.7.8", "1.2.3.4, 5.6.7.8", "\x00", "1.2.3.4\x00", "٠.٠.٠.٠", "１.２.３.４", "1．2．3．4", "::ffff:1.2.3", "::ffff:256.0.0.1",
    "0.0.0.0:1", "[::]:1", "[::]", "0.0.0.00", "00.0.0.0", "0.0.0", ":", ".", "...", ":::", "::ffff:0.0.0.0%x", "0.0.0.0 ", "::ffff:00.0.0.0",
    "1:2:3:4:5:6:1.2.3.4", "1:2:3:4:5:6:0.0.0.0", "0:0:0:0:0:0:0.0.0.0", "0:0:0:0:0:ffff:0.0.0.0", "a:b:c:d:e:f:0:1", "A:B:C:D:E:F:0:1",
    # the longest spellings an address has (40..45 characters: every group written out, the last 32 bits as a dotted quad)
    "0000:0000:0000:0000:0000:ffff:192.0.2.128", "2001:0db8:0000:0000:0000:0000:203.100.113.201", "ffff:ffff:ffff:ffff:ffff:ffff:255.255.255.255",
    "0000:0000:0000:0000:0000:0000:100.100.100.100", "0000:0000:0000:0000:0000:ffff:000.0.0.0", "0000:0000:0000:0000:0000:ffff:10.20.30.40",
    "0000:0000:0000:0000:0000:0000:0.0.0.0", "0000:0000:0000:0000:0000:ffff:0.0.0.0", "2001:0db8:0000:0000:0000:0000:203.100.113.2011",
    "00001::1", "1::2::3", "2001:db8::", "::db8:1", "100::", "0:0:0:0:0:0:1:0", "abcd:0:0:12:0:0:0:1", "0:0:5:0:0:6:0:0",
]


def rand_ip(rng):
    r = rng.random()
    if r < 0.2:
        return ".".join(str(rng.choice([0, 0, 1, 9, 10, 99, 100, 255, rng.randrange(256)])) for _ in range(4))
    if r < 0.75:
        hs = [rng.choice([0, 0, 0, 1, 0xf, 0x10, 0xff, 0x100, 0xfff, 0x1000, 0xffff, rng.randrange(65536)]) for _ in range(8)]
        form = rng.random()
        parts = ["%x" % h for h in hs]
        if form < 0.25:
            parts = [("%04x" % h) if rng.random() < 0.5 else ("%X" % h) for h in hs]
            return ":".join(parts)
        if form < 0.55:
            # compress some zero run (not necessarily the canonical one)
            runs = [(i, j) for i in range(8) for j in range(i + 1, 9) if all(h == 0 for h in hs[i:j])]
            if runs:
                i, j = rng.choice(runs)
                return ":".join(parts[:i]) + "::" + ":".join(parts[j:])
            return ":".join(parts)
        if form < 0.7:
            if rng.random() < 0.5:
                parts = ["%04x" % h for h in hs]          # every group written out: up to 45 characters
            return ":".join(parts[:6]) + ":%d.%d.%d.%d" % (hs[6] >> 8, hs[6] & 255, hs[7] >> 8, hs[7] & 255)
        if form < 0.8:
            v = rng.choice(["::ffff:", "::", "::ffff:0:", "0:0:0:0:0:ffff:"])
            return v + ".".join(str(rng.choice([0, 0, 1, 255, rng.randrange(256)])) for _ in range(4))
        return ":".join(parts)
    base = rng.choice(FIXED_IPS)
    m = rng.random()
    if m < 0.3:
        return base + rng.choice(["%eth0", ":80", " ", "]", "/24", "\t", "%", "."])
    if m < 0.5:
        return rng.choice(["[", " ", "::", "0", "x"]) + base
    if m < 0.7 and base:
        k = rng.randrange(len(base))
        return base[:k] + base[k + 1:]
    if m < 0.85 and base:
        k = rng.randrange(len(base))
        return base[:k] + rng.choice("0:.%fF g") + base[k:]
    return "".join(rng.choice("0123456789abcdef:.%[] ") for _ in range(rng.randrange(0, 12)))


def parse_all(exe, strings):
    """ask the implementation what net.ParseIP returns for each string (library boundary)"""
    lines = ["%s parse %s" % (AREA, hx(s)) for s in strings]
    rc, out, err = vlib.run_impl(exe, lines, args=IMPL_ARGS)
    if rc != 0 or len(out) != len(lines):
        raise RuntimeError("parse phase of the driver failed: rc=%s %s" % (rc, err[-400:]))
    return out


def python_parse(s):
    if s == "":
        return "a"
    try:
        ip = ipaddress.ip_address(s)
    except ValueError:
        return "u"
    if getattr(ip, "scope_id", None):
        return "u"
    b = ip.packed
    if len(b) == 4:
        b = bytes(10) + b"\xff\xff" + b
    return "p" + b.hex()


def gen_san(ctx, exe):
    rng = ctx.rng
    strings = list(FIXED_IPS)
    for _ in range(6000 if ctx.tier == "thorough" else 900):
        strings.append(rand_ip(rng))
    parsed = parse_all(exe, strings)
    lines, kinds = [], []
    disagree = []
    for s, p in zip(strings, parsed):
        lines.append("%s san %s %s" % (AREA, hx(s), p))
        if p in ("a", "u"):
            k = {"a": "san-absent", "u": "san-unparsable"}[p]
        else:
            b = bytes.fromhex(p[1:])
            k = "san-unspecified" if unspecified(b) else ("san-v4" if b[:12] == bytes(10) + b"\xff\xff" else "san-v6")
        kinds.append(k)
        if python_parse(s) != p and len(disagree) < 8:
            disagree.append(s)
    ctx.extra["parseip_vs_python_ipaddress_disagreements_sample"] = disagree
    return lines, kinds, dict(zip(strings, parsed))


def gen_bb(ctx, exe):
    rng = ctx.rng
    ips = ["", "1.2.3.4", "5.6.7.8", "2001:db8::1", "0.0.0.0", "::", "garbage", "fe80::1%eth0", "::ffff:9.9.9.9", "2001:db8:0:0:1:0:0:1", "[::1]:80"]
    parsed = dict(zip(ips, parse_all(exe, ips)))
    ids = IDS[:4]

    def carrier(i, s):
        return "c%s:%s:%s" % (i, hx(s), parsed[s])

    scen = [
        (1, [carrier(ids[1], "1.2.3.4"), carrier(ids[2], "5.6.7.8"), "a" + ids[1]]),            # forgotten before the session starts
        (1, [carrier(ids[1], "1.2.3.4"), carrier(ids[2], "5.6.7.8"), "a" + ids[2], "a" + ids[1]]),
        (0, [carrier(ids[1], "1.2.3.4"), "a" + ids[1]]),
        (2, [carrier(ids[1], "1.2.3.4"), carrier(ids[1], "2001:db8::1"), "a" + ids[1], "a" + ids[1]]),   # most recent carrier wins
        (2, [carrier(ids[0], "1.2.3.4"), carrier(ids[1], "5.6.7.8"), "a" + ids[0], "a" + ids[1]]),       # zero ClientID
        (3, [carrier(ids[1], "0.0.0.0"), carrier(ids[2], "::"), carrier(ids[3], "garbage"), "a" + ids[1], "a" + ids[2], "a" + ids[3]]),
        (4, [carrier(ids[1], ""), carrier(ids[2], "fe80::1%eth0"), carrier(ids[3], "::ffff:9.9.9.9"), "a" + ids[3], "a" + ids[2], "a" + ids[1]]),
    ]
    # sessions with several streams opened at different times; between the streams: carriers of the same ClientID
    # with another / no / an unusable client_ip, carriers of other ClientIDs (evictions from the small map),
    # other sessions.  Every connection of a session carries the address looked up at its establishment.
    # (kcp-go keys its sessions by the remote address, here the ClientID: a new session of a ClientID replaces the
    # previous one, so further streams are only opened on the latest session of a ClientID.)
    A, B, V6 = "1.2.3.4", "5.6.7.8", "2001:db8::1"
    scen += [
        (2, [carrier(ids[1], A), "a" + ids[1], "t0", "t0"]),                                         # nothing in between
        (2, [carrier(ids[1], A), "a" + ids[1], carrier(ids[1], B), "t0"]),                           # later carrier, other address
        (2, [carrier(ids[1], A), "a" + ids[1], carrier(ids[1], ""), "t0", carrier(ids[1], "garbage"), "t0"]),   # later carrier, no address
        (2, [carrier(ids[1], ""), "a" + ids[1], carrier(ids[1], A), "t0"]),                          # no address at establishment stays none
        (1, [carrier(ids[1], A), "a" + ids[1], carrier(ids[2], B), "t0"]),                           # evicted in between
        (1, [carrier(ids[1], A), carrier(ids[2], B), "a" + ids[1], carrier(ids[1], V6), "t0"]),      # forgotten at establishment, re-presented later
        (0, [carrier(ids[1], A), "a" + ids[1], carrier(ids[1], B), "t0"]),
        (1, [carrier(ids[1], A), "a" + ids[1], carrier(ids[2], B), "t0", carrier(ids[1], V6), "t0", "a" + ids[2], "t1",
             "a" + ids[1], "t2", "t1", "t2"]),
        (3, [carrier(ids[0], A), carrier(ids[2], B), "a" + ids[0], "a" + ids[2], carrier(ids[0], B), "t0", carrier(ids[2], "0.0.0.0"),
             "t1", "t0", carrier(ids[1], V6), carrier(ids[3], V6), carrier(ids[1], "::"), "t0", "t1"]),
    ]
    for n in range(300 if ctx.tier == "thorough" else 30):
        cap = rng.choice([0, 1, 1, 2, 2, 3, 5])
        pool = ids[:rng.choice([2, 3, 4])]
        evs, avail, nsess, live = [], {i: 0 for i in pool}, 0, {}
        pstream = 0.0 if n % 3 == 0 else 0.3            # a third keeps the one-stream-per-session shape
        for _ in range(rng.choice([3, 5, 8]) if pstream == 0.0 else rng.choice([5, 8, 12])):
            can = [i for i in pool if avail[i] > 0]
            r = rng.random()
            if live and r < pstream:
                evs.append("t%d" % rng.choice(sorted(live.values())))
            elif can and r < pstream + 0.3:
                i = rng.choice(can)
                avail[i] -= 1
                live[i] = nsess
                nsess += 1
                evs.append("a" + i)
            else:
                # mostly re-present a ClientID that already has a session, so that its map entry changes under it
                i = rng.choice(sorted(live)) if live and pstream and rng.random() < 0.5 else rng.choice(pool)
                avail[i] += 1
                evs.append(carrier(i, rng.choice(ips)))
        for i in pool:
            # (with streams: leave some carriers unused, so that a session established earlier is still the live one
            # of its ClientID when the last streams are opened)
            if avail[i] > 0 and (not pstream or i not in live or rng.random() < 0.4):
                live[i] = nsess
                nsess += 1
                evs.append("a" + i)
        if pstream and live:
            ks = sorted(live.values())
            rng.shuffle(ks)
            evs += ["t%d" % k for k in ks[:3]]          # a last stream on (up to 3) sessions, after everything else
        if any(e[0] == "a" for e in evs):
            scen.append((cap, evs))
    lines = ["%s bb %d %s" % (AREA, cap, ",".join(evs)) for cap, evs in scen]
    kinds = ["bb-cap%d%s" % (cap, "-multistream" if any(e[0] == "t" for e in evs) else "") for cap, evs in scen]
    return lines, kinds


def gen_bbe(ctx, exe):
    """histories with carrier END events (e<k>: the k-th carrier ends) at every point: before / after the session of the
    ClientID is established, the older or the newer of two overlapping carriers of one ClientID, client_ip values that
    are the same text, different texts with the same sanitised address, or different addresses; small maps, so that an
    entry written at a carrier's end would also push another ClientID out. A session is established over the oldest
    open unused carrier of its ClientID; a further stream is only opened on a session whose carrier is still open."""
    rng = ctx.rng
    ips = ["", "4.4.4.4", "::ffff:4.4.4.4", "5.6.7.8", "2001:db8::1", "garbage"]
    parsed = dict(zip(ips, parse_all(exe, ips)))
    ids = IDS[:4]

    def carrier(i, s):
        return "c%s:%s:%s" % (i, hx(s), parsed[s])
    A = "4.4.4.4"
    scen = []
    for X in (A, "::ffff:4.4.4.4", "5.6.7.8", ""):
        c0, c1 = carrier(ids[1], A), carrier(ids[1], X)
        for cap in ((1, 2, 4) if ctx.tier == "thorough" else (1, 3)):
            scen += [
                (cap, [c0, c1, "e0", "a" + ids[1]]),                       # the older of two ends, then the session starts (on the newer)
                (cap, [c0, c1, "e1", "a" + ids[1]]),                       # the newer ends, the session starts on the older
                (cap, [c0, c1, "a" + ids[1], "e1", "t0"]),                 # established on the older, the unused newer ends
                (cap, [c0, c1, "a" + ids[1], "e0", "a" + ids[1]]),         # the session's carrier ends, a new session on the newer
                (cap, [c0, "a" + ids[1], c1, "e0", "a" + ids[1]]),
                (cap, [c0, "e0", c1, "a" + ids[1]]),                       # ended before the next one starts
                (cap, [c1, c0, "e0", "a" + ids[1]]),
                (cap, [c0, c1, c0, "e0", "e1", "a" + ids[1]]),             # three, the two older end
                (cap, [c0, c1, c0, "e1", "a" + ids[1], "e2", "t0"]),
            ]
        # another ClientID in a small map: an end must not use up a slot / evict / re-attribute
        o = carrier(ids[2], "5.6.7.8")
        for cap in (2, 3):
            scen += [
                (cap, [c0, o, c1, "e0", "a" + ids[2], "a" + ids[1]]),
                (cap, [o, c0, c1, "e0", "e1", "a" + ids[1]]),
                (cap, [c0, c1, o, "e0", "e1", "a" + ids[2]]),
                (cap, [o, c0, "a" + ids[2], c1, "e1", "t0", "a" + ids[1], "e0"]),
            ]
    for n in range(200 if ctx.tier == "thorough" else 24):
        cap = rng.choice([1, 2, 2, 3, 5])
        pool = ids[:rng.choice([1, 2, 3])]
        ipof = {i: rng.choice(ips) for i in pool}           # a client mostly keeps its address
        evs, ncar, open_unused, open_all, sess_car, nsess = [], 0, {i: [] for i in pool}, set(), [], 0
        for _ in range(rng.choice([5, 8, 12])):
            r = rng.random()
            can_a = [i for i in pool if open_unused[i]]
            latest = {i: k for k, (c, i) in enumerate(sess_car)}      # only the latest session of a ClientID is live in kcp-go
            can_t = [k for k, (c, i) in enumerate(sess_car) if c in open_all and latest[i] == k]
            if open_all and r < 0.3:
                k = rng.choice(sorted(open_all))
                open_all.discard(k)
                for l in open_unused.values():
                    if k in l:
                        l.remove(k)
                evs.append("e%d" % k)
            elif can_a and r < 0.55:
                i = rng.choice(can_a)
                sess_car.append((open_unused[i].pop(0), i))
                evs.append("a" + i)
            elif can_t and r < 0.65:
                k = rng.choice(can_t)
                evs.append("t%d" % k)
            else:
                i = rng.choice(pool)
                evs.append(carrier(i, ipof[i] if rng.random() < 0.7 else rng.choice(ips)))
                open_unused[i].append(ncar)
                open_all.add(ncar)
                ncar += 1
        for i in pool:
            if open_unused[i]:
                sess_car.append((open_unused[i].pop(0), i))
                evs.append("a" + i)
        if any(e[0] == "a" for e in evs) and any(e[0] == "e" for e in evs):
            scen.append((cap, evs))
    lines = ["%s bbe %d %s" % (AREA, cap, ",".join(evs)) for cap, evs in scen]
    kinds = ["bbe-cap%d-carrier-ends" % cap for cap, evs in scen]
    return lines, kinds


def gen_burst(ctx, exe):
    """k = 2..16 sessions of distinct clients (distinct ClientIDs and client_ip values, one of them without an
    address) whose first packets reach the KCP listener together, so that acceptSessions accepts them back to back
    and the session goroutines are scheduled after further accepts; some sessions open several streams.  The
    model runs the same burst on the interleaving machine of Model/ServerAccept.v with a start order (ranks)
    drawn here; C18_burst_order_irrelevant is why the order cannot matter."""
    rng = ctx.rng
    thorough = ctx.tier == "thorough"
    ids = ["%016x" % v for v in [0, 1, 0x0100000000000000, 0xffffffffffffffff] + [0x1000 + 7 * i for i in range(16)]]
    v4 = ["10.%d.%d.%d" % (i, 2 * i + 1, 200 - i) for i in range(1, 20)]
    v6 = ["2001:db8:%x::%x" % (i, i + 1) for i in range(1, 20)]
    none = ["", "0.0.0.0", "::", "garbage", "fe80::1%eth0"]
    allips = v4 + v6 + none
    parsed = dict(zip(allips, parse_all(exe, allips)))

    def carrier(i, s):
        return "c%s:%s:%s" % (i, hx(s), parsed[s])

    plan = []
    if thorough:
        for mode in "1nw":
            for k in range(2, 17):
                plan.append((mode, k))
        plan += [(rng.choice("1nw"), rng.randrange(2, 17)) for _ in range(60)]
    else:
        plan = [("1", k) for k in (2, 3, 5, 9, 16)] + [("n", k) for k in (2, 4, 16)] + [("w", k) for k in (2, 7, 16)]
        plan += [(rng.choice("1nw"), rng.randrange(2, 17)) for _ in range(5)]
    scen = []
    for mode, k in plan:
        pool = rng.sample(ids, k)
        good = rng.sample(v4 + v6, k)
        ips = list(good)
        for j in rng.sample(range(k), rng.choice([1, 1, 2]) if k > 2 else 1):
            ips[j] = rng.choice(none)                  # at least one session without an address
        cap = rng.choice([k, k, k + 1, k + 5, 50, max(0, k - 1), max(1, k // 2)])
        evs = []
        nsess = 0
        if rng.random() < 0.3:                         # a session before the burst: the burst's indices do not start at 0
            evs += [carrier(pool[0], rng.choice(good)), "a" + pool[0]]
            nsess += 1
        order = list(range(k))
        rng.shuffle(order)
        for j in order:
            if rng.random() < 0.25:                    # an older carrier of the same client with another address
                evs.append(carrier(pool[j], rng.choice(v4)))
            evs.append(carrier(pool[j], ips[j]))
        ranks = list(range(k))
        rng.shuffle(ranks)
        streams = [rng.choice([1, 1, 1, 2, 3, 4]) for _ in range(k)]
        evs.append("b%s+" % mode + "+".join("%s.%d.%d" % (pool[j], streams[j], ranks[j]) for j in range(k)))
        for _ in range(rng.choice([0, 0, 1, 3])):      # later streams of sessions of the burst
            evs.append("t%d" % (nsess + rng.randrange(k)))
        scen.append((cap, mode, k, evs))
    lines = ["%s burst %d %s" % (AREA, cap, ",".join(evs)) for cap, mode, k, evs in scen]
    kinds = ["burst-%s-k%s" % ({"1": "oneP", "n": "inject", "w": "carriers"}[mode], "2-4" if k <= 4 else "5-9" if k <= 9 else "10-16")
             for cap, mode, k, evs in scen]
    return lines, kinds


def race_burst(ctx, lines):
    """the burst workload once more on a -race build: an address shared between the accept loop and the session
    goroutines is a data race as well"""
    try:
        rexe = vlib.go_test_build(PKG, race=True)
    except Exception as e:
        ctx.not_shown("race build of %s failed: %s" % (PKG, str(e)[-300:]))
        return
    rc, out, err = vlib.run_impl(rexe, lines, args=IMPL_ARGS)
    ctx.extra["race_burst_cases"] = len(lines)
    reports = [r for r in err.split("WARNING: DATA RACE")[1:]]
    mine = [r for r in reports if "acceptSessions" in r or "acceptStreams" in r]
    ctx.extra["race_reports_elsewhere"] = len(reports) - len(mine)
    if mine:
        ctx.violation("race-accept-loop", "data race between the accept loop and a session goroutine (go test -race):\n" + mine[0][:1500],
                      dict(label="race-burst", case=lines[0][:20000], stderr=mine[0][:3000]))
    elif len(out) != len(lines):
        ctx.not_shown("race build of the driver died on the burst cases (rc=%s): %s" % (rc, err[-400:]))


# ------------------------------------------------------------------ the proxy side: client_ip on the relay URL

RELAY_ARGS = ["-test.run", "^TestVerifC18RelayDriver$"]


def build_relay_driver():
    """test binary of proxy/lib with ONLY this area's in-package file injected (own overlay map): another area's
    in-package file that stops compiling after a refactor cannot take this view down with it"""
    import json
    vlib.go_prepare()
    rel = os.path.join("proxy", "lib", "zz_verif_c18relay_test.go")
    ov = os.path.join(vlib.GOB, "overlay_c18relay.json")
    repl = {os.path.join(vlib.REPO, rel): os.path.join(vlib.OVERLAY_SRC, rel)}
    # the shared overlay map also carries the zz_verif/wire package and friends: keep everything outside proxy/lib
    shared = json.load(open(os.path.join(vlib.GOB, "overlay.json")))["Replace"]
    for k, v in shared.items():
        if os.sep + os.path.join("proxy", "lib") + os.sep not in k:
            repl[k] = v
    data = json.dumps({"Replace": repl}, indent=1, sort_keys=True)
    if not os.path.exists(ov) or open(ov).read() != data:
        open(ov, "w").write(data)
    out = os.path.join(vlib.GOB, "bin", "proxylib_c18relay.test")
    os.makedirs(os.path.dirname(out), exist_ok=True)
    rc, o, e = vlib.sh(["go", "test", "-c", "-vet=off", "-tags", "verif", "-modfile=" + os.path.join(vlib.GOB, "go.mod"), "-overlay", ov,
                        "-ldflags=-checklinkname=0", "-o", out, "./proxy/lib"], cwd=vlib.REPO, env=vlib.GOENV, timeout=900)
    if rc != 0:
        raise vlib.GoBuildError("go test -c ./proxy/lib (in-package C18 relay driver) failed:\n%s" % (o + e)[-3000:])
    return out


def relay_addr_pool(rng, n):
    """n distinct client addresses in the text form Go prints them (net.IP.String()), none of them local/unspecified"""
    pool = set()
    while len(pool) < n:
        c = rng.random()
        if c < 0.6:
            a = "%d.%d.%d.%d" % (rng.choice([8, 23, 45, 93, 151, 192, 198, 203]), rng.randrange(256), rng.randrange(256), rng.randrange(1, 255))
            ip = ipaddress.ip_address(a)
            if ip.is_private and not a.startswith(("192.0.2.", "198.51.100.", "203.0.113.")):
                continue
            if a.startswith(("192.168.", "100.", "169.254.")):
                continue
        else:
            ip = ipaddress.IPv6Address((0x20010db8 << 96) | rng.getrandbits(rng.choice([16, 48, 64, 96])) | (rng.choice([0, 1, 0xab]) << 64))
            a = ip.compressed
        pool.add(a)
    return sorted(pool)


def relay_line(mode, dq, sess):
    return "%s relay %s %s %s" % (AREA, mode, dq or "-", ",".join("%s;%s" % (r, ("a" + a) if a else "n") for r, a in sess))


def gen_relay(ctx):
    """histories of clients on ONE proxy: default relay (the broker assigned none) and broker-assigned relay URLs (repeated
    and distinct), clients with and without a known remote address, one after the other and all at the same moment"""
    rng = ctx.rng
    lines, kinds = [], []
    def add(mode, dq, sess, kind):
        lines.append(relay_line(mode, dq, sess)); kinds.append(kind)
    A = relay_addr_pool(rng, 12)
    # exhaustive short sequential histories over: default/assigned x known/unknown address
    alpha = [("d", A[0]), ("d", None), ("u1", A[1]), ("u1", None), ("d", A[2]), ("u2+x=1", None)]
    L = 3 if ctx.tier == "quick" else 4
    for k in range(1, L + 1):
        for seq in itertools.product(alpha, repeat=k):
            add("s", "", list(seq), "relay-seq-exhaustive")
    n = 60 if ctx.tier == "quick" else 600
    for i in range(n):
        pool = relay_addr_pool(rng, 8)
        dq = rng.choice(["", "", "", "x=1", "a=b+c=d", "client_ip=9.9.9.9", "client_ip=9.9.9.9+z=1"])
        urls = ["u%d" % j + rng.choice(["", "", "+x=1", "+k=v+x=2", "+client_ip=7.7.7.7"]) for j in range(1, 4)]
        sess = []
        for _ in range(rng.choice([2, 3, 5, 8, 12])):
            r = "d" if rng.random() < 0.6 else rng.choice(urls)
            a = rng.choice(pool) if rng.random() < 0.6 else None
            sess.append((r, a))
        add("s", dq, sess, "relay-seq-random")
    # all at the same moment: every known address is distinct, so a swapped address shows in the multiset
    m = 16 if ctx.tier == "quick" else 160
    for i in range(m):
        pool = relay_addr_pool(rng, 10)
        rng.shuffle(pool)
        dq = rng.choice(["", "", "x=1"])
        sess = []
        for _ in range(rng.choice([2, 3, 4, 6, 8])):
            r = "d" if rng.random() < 0.7 else "u%d" % rng.randrange(1, 3)
            a = pool.pop() if rng.random() < 0.7 else None
            sess.append((r, a))
        add("c", dq, sess, "relay-concurrent")
    return lines, kinds


def relay_parse(line):
    a = line.split(" ")
    mode, dq = a[2], a[3]
    def q(t):
        return [] if t in ("-", "") else [tuple(p.split("=", 1)) for p in t.split("+")]
    sess = []
    for t in a[4].split(","):
        r, ad = t.split(";")
        f = r.split("+", 1)
        base_q = q(dq) if f[0] == "d" else q(f[1] if len(f) == 2 else "")
        sess.append(dict(relay=f[0], q=base_q, addr=None if ad == "n" else ad[1:]))
    return mode, sess


def relay_expected(s):
    ips = [s["addr"]] if s["addr"] is not None else [v for k, v in s["q"] if k == "client_ip"]
    others = len([1 for k, v in s["q"] if k != "client_ip"])
    return "%s|%s|%d" % (s["relay"], "+".join(ips) or "-", others)


def analyse_relay(line, impl):
    if impl.startswith("!"):
        return ("proxy-relay-driver", "proxy relay driver: " + impl[:200])
    mode, sess = relay_parse(line)
    outs = impl.split(",")
    if len(outs) != len(sess):
        return ("proxy-relay-driver", "malformed answer " + impl[:200])
    addrs = [s["addr"] for s in sess if s["addr"] is not None]
    want = [relay_expected(s) for s in sess]

    def judge(i, got, exp, own):
        # got, exp: "<relay>|<ips>|<others>"
        try:
            g_rel, g_ip, g_oth = got.split("|")
        except ValueError:
            return ("proxy-relay-no-dial", "session %s was not dialled (%s)" % (i, got))
        e_rel, e_ip, e_oth = exp.split("|")
        foreign = [x for x in g_ip.split("+") if x != "-" and x in addrs and x != own]
        if foreign:
            return ("proxy-client-ip-from-other-session",
                    "the relay URL dialled for session %s (relay %s, remote address %s) carries client_ip=%s: the remote address of ANOTHER "
                    "session of this proxy (the server will credit the session with it)" % (i, e_rel, own or "unknown", foreign[0]))
        if g_ip != e_ip:
            return ("proxy-client-ip-wrong", "the relay URL dialled for session %s (remote address %s) carries client_ip=%s, expected %s" % (
                i, own or "unknown", g_ip, e_ip))
        if g_rel != e_rel:
            return ("proxy-dial-wrong-relay", "session %s was assigned relay %s but %s was dialled" % (i, e_rel, g_rel))
        if g_oth != e_oth:
            return ("proxy-relay-params-changed", "session %s: the relay URL's own parameters did not go through unchanged (%s, expected %s)" % (i, got, exp))
        return None
    if mode == "s":
        for i, (g, e, s) in enumerate(zip(outs, want, sess)):
            r = judge(i, g, e, s["addr"])
            if r:
                return r
        return None
    # concurrent: as multisets
    if sorted(outs) == sorted(want):
        return None
    rest = list(want)
    extra = []
    for g in outs:
        if g in rest:
            rest.remove(g)
        else:
            extra.append(g)
    g = extra[0]
    # the session this dial should have been: same relay, among the unmatched expectations
    cand = [e for e in rest if e.split("|")[0] == g.split("|")[0]] or rest
    own = cand[0].split("|")[1] if cand else "-"
    return judge("(one of %d served at the same moment)" % len(sess), g, cand[0] if cand else "-|-|0", None if own == "-" else own)


def prop_relay(line, impl, model):
    r = analyse_relay(line, impl)
    return r[1] if r else None


def key_relay(line, impl, model):
    r = analyse_relay(line, impl)
    return r[0] if r else "proxy-relay-other"


def run(ctx):
    os.environ["VERIF_DRIVER"] = "1"
    exe = vlib.go_test_build(PKG)
    ctx.trusted += [
        "net.ParseIP is a library boundary: the driver reports its result, the model (and the python reference) take it from there",
        "sync.Mutex makes clientIDMap.Set/Get atomic: histories of concurrent carriers/sessions are lists of Set/Get events",
        "black-box scenarios swap the package variable clientIDAddrMap for a small-capacity map before Transport.Listen; "
        "gorilla/websocket, kcp-go, smux carry the sessions and are not modelled; a session's further streams (t-events) are "
        "opened one at a time and the next connection the listener hands out is taken to be that stream's",
        "burst scenarios: the KCP clients' first packets are held back and delivered together - into the server's "
        "QueuePacketConn (reached in-package through the listener's http.Server handler), under runtime.GOMAXPROCS(1) in one "
        "mode, or through the carriers; each stream is attributed to its session by a tag its client writes first",
    ]
    ctx.assumptions += [
        "models = coq/Model/ClientIdRing.v, ClientAddr.v, ServerCarrier.v, ServerAccept.v (hand written); tie = correspondence on generated cases",
        "bursts: the model runs the accept-loop machine under a start order drawn by the generator, the Go runtime picks its own; "
        "C18_burst_order_irrelevant (no carrier starts during a burst) is why the answers must agree",
        "ClientIDs are exactly 8 bytes (turbotunnel.ClientID)",
    ]
    lines, kinds = gen_ring(ctx)
    ctx.correspond(exe, lines, kinds, label="clientIDMap", prop=prop, key_of=key_of, impl_args=IMPL_ARGS, crosscheck=25)
    lines, kinds, _ = gen_san(ctx, exe)
    ctx.correspond(exe, lines, kinds, label="clientAddr", prop=prop, key_of=key_of, impl_args=IMPL_ARGS, crosscheck=25)
    lines, kinds = gen_bb(ctx, exe)
    ctx.correspond(exe, lines, kinds, label="listener-attribution", prop=prop, key_of=key_of, impl_args=IMPL_ARGS, crosscheck=6)
    lines, kinds = gen_bbe(ctx, exe)
    ctx.correspond(exe, lines, kinds, label="listener-attribution, carriers ending", prop=prop, key_of=key_of, impl_args=IMPL_ARGS, crosscheck=6)
    lines, kinds = gen_burst(ctx, exe)
    ctx.correspond(exe, lines, kinds, label="listener-burst", prop=prop, key_of=key_of, impl_args=IMPL_ARGS, crosscheck=4)
    step = max(1, len(lines) // (4 if ctx.tier == "quick" else 20))
    race_burst(ctx, lines[::step])
    # ---- the proxy side of the chain: the client_ip the proxy puts on the relay URL
    ctx.trusted.append("harness/overlay/proxy/lib/zz_verif_c18relay_test.go: clients are webRTCConn values over a PeerConnection whose remote "
                       "description is a real pion offer with the case's candidate lines; the handler is called as OnDataChannel calls it; "
                       "websocket.DefaultDialer's Proxy hook records the URL and aborts the dial; net/url is a library boundary "
                       "(Model/ProxyClientIP.v: opaque base + list of query pairs)")
    try:
        rexe = build_relay_driver()
    except vlib.GoBuildError as e:
        ctx.not_shown("harness: the in-package proxy relay driver no longer builds against the repo (the proxy side of C18 was not "
                      "exercised): " + str(e)[-800:])
        return
    os.environ["VERIF_DRIVER"] = "c18relay"
    try:
        lines, kinds = gen_relay(ctx)
        ctx.correspond(rexe, lines, kinds, label="proxy-relay-client-ip", prop=prop_relay, key_of=key_relay, impl_args=RELAY_ARGS, crosscheck=8)
    finally:
        os.environ["VERIF_DRIVER"] = "1"


def replay(ctx, doc):
    os.environ["VERIF_DRIVER"] = "1"
    exe = vlib.go_test_build(PKG)
    bad = 0
    for v in doc.get("violations", []):
        case = v["replay"].get("case")
        if not case:
            continue
        m = vlib.run_model([case])[0]
        if case.split(" ")[1] == "relay":
            os.environ["VERIF_DRIVER"] = "c18relay"
            rc, r, err = vlib.run_impl(build_relay_driver(), [case], args=RELAY_ARGS)
            os.environ["VERIF_DRIVER"] = "1"
            r = r[0] if r else "!died"
            p = prop_relay(case, r, m)
            print("case: %s\n model: %s\n impl:  %s\n property: %s" % (case[:300], m[:300], r[:300], p or "holds"))
            bad += 1 if p else 0
            continue
        rc, r, err = vlib.run_impl(exe, [case], args=IMPL_ARGS)
        r = r[0] if r else "!died"
        p = prop(case, r, m)
        print("case: %s\n model: %s\n impl:  %s\n property: %s" % (case[:300], m[:300], r[:300], p or "holds"))
        bad += 1 if p else 0
    return 1 if bad else 0
