"""C07 — no IP address survives the log scrubber (common/safelog).

Pieces (see coq/Properties/C07.v for what is proved):
 * translator: the pattern strings the safelog package actually compiles are printed by an in-package
   overlay test, parsed with Go's regexp/syntax and written as Coq terms to coq/Gen/SafelogPatterns.v
   (rewritten only when the content changes; dependants are then re-checked by make);
 * correspondence: exported safelog.Scrub / LogScrubber.Write vs the extracted Coq model (backtracking
   matcher on the GENERATED patterns + the repaired scrub loop + per-line writer);
 * failing-input search (prop): every occurrence of an IP address (python's ipaddress decides what an
   address is, independently of the model) that is bounded by line boundary / whitespace / punctuation
   other than ':' in the input must be gone from what reaches the sink; output must not depend on the
   splitting into Write calls; every block the sink receives ends with a newline.
 * long lines (3 000 - 20 000 bytes, padding words and many addresses, delivered over several Writes cut inside
   addresses and at every power of two 512..16384 +-1 of pending bytes, with and without the final newline) use the
   driver op `lwrite` (compact replayable encoding). The extracted matcher needs seconds per 20 KB line, so the model
   is run ONCE per stream (the stream in a single Write; by C07_write_split_invariant its answer is the same for
   every splitting); the ~25 splittings of each stream are judged on the implementation alone: no surviving address,
   complete lines only, same output as every other splitting of the stream.
   Lines of 600 - 2 000 bytes cut the same way are compared with the model case by case (kinds write-mid-*).
 * buffer ownership: in every write / lwrite / conc case the driver hands each chunk to Write in ONE scratch array that it
   overwrites after the call returns (io.Writer: the callee must not retain or modify p) and delivers the same chunks to a
   second scrubber as fresh slices; different sink content -> caller-buffer-retained, a changed array -> caller-buffer-modified
   (model: Model/SafelogOwn.v, C07_write_no_retention; the model op `write` executes the same delivery).
 * log sinks other than the standard logger: see log_wiring (http.Server error log of broker / probetest, key
   log-sink-unscrubbed:<binary>:http-server-errorlog).
"""
import ipaddress
import os
import re

import vlib

AREA = "safelog"
GEN = os.path.join(vlib.COQ, "Gen", "SafelogPatterns.v")
SCRUBBED = b"[scrubbed]"

# ------------------------------------------------------------------ what an address occurrence is

_H = r"[0-9a-fA-F]{1,4}"
_V4 = r"\d{1,3}(?:\.\d{1,3}){3}"


def _ip6_alts():
    alts = [r"(?:%s:){7}%s" % (_H, _H), r"(?:%s:){6}%s" % (_H, _V4)]
    for i in range(0, 8):
        pre = "" if i == 0 else r"%s(?::%s){%d}" % (_H, _H, i - 1)
        k = 7 - i
        post = "" if k == 0 else r"(?:%s(?::%s){0,%d})?" % (_H, _H, k - 1)
        alts.append(pre + "::" + post)
    for i in range(0, 6):
        pre = "" if i == 0 else r"%s(?::%s){%d}" % (_H, _H, i - 1)
        alts.append(pre + "::" + r"(?:%s:){0,%d}%s" % (_H, 5 - i, _V4))
    return "(?:" + "|".join(alts) + ")"


_IP6 = _ip6_alts()
_PORT = r":\d{1,5}"
SPEC = re.compile(("(?:%s(?:%s)?|%s|\\[%s\\](?:%s)?)" % (_V4, _PORT, _IP6, _IP6, _PORT)).encode())
WORDC = set(b"0123456789abcdefghijklmnopqrstuvwxyzABCDEFGHIJKLMNOPQRSTUVWXYZ_:")
STARTC = set(b"0123456789abcdefABCDEF:[")
ENDC = set(b"0123456789abcdefABCDEF:]")


def is_delim(c):
    return c not in WORDC


def real_address(tok):
    """tok matches SPEC; is it an address Go's net package prints/accepts (ranges checked)?"""
    t = tok.decode("latin1")
    port = None
    if t.startswith("["):
        host, _, rest = t[1:].partition("]")
        if rest:
            port = rest[1:]
    elif t.count(":") == 1:
        host, port = t.split(":")
    else:
        host = t
    if port is not None and not (port.isdigit() and int(port) <= 65535):
        return False
    try:
        ipaddress.ip_address(host)
        return True
    except ValueError:
        return False


_OCC = {}


def occurrences(line):
    """all (i, j) such that line[i:j] is an address bounded on the left by line start or a
    delimiter and on the right by a delimiter (line includes its final newline)."""
    r = _OCC.get(line)
    if r is None:
        if len(_OCC) > 4096:
            _OCC.clear()
        r = _OCC[line] = _occurrences(line)
    return r


def _occurrences(line):
    n = len(line)
    starts = [i for i in range(n) if line[i] in STARTC and (i == 0 or is_delim(line[i - 1]))]
    ends = [j for j in range(1, n + 1) if line[j - 1] in ENDC and (j == n or is_delim(line[j]))]   # end of text counts
    out = []
    for i in starts:
        for j in ends:
            if i + 2 <= j <= i + 64 and SPEC.fullmatch(line, i, j) and real_address(line[i:j]):
                out.append((i, j))
    return out


def count_overlapping(hay, needle):
    c, i = 0, hay.find(needle)
    while i != -1:
        c += 1
        i = hay.find(needle, i + 1)
    return c


def classify(tok, line, i):
    """stable class (key) of a surviving address occurrence"""
    t = tok.decode("latin1").strip("[]")
    host = t.split("]")[0]
    if "::" in host:
        a, b = host.split("::")
        na = len([g for g in a.split(":") if g])
        nb = len([g for g in b.split(":") if g]) + (1 if "." in b else 0)
        if na >= 7 or nb >= 7:
            return "ipv6-seven-groups-after-compression"
    if i > 0 and line[i - 1:i] == b"\n":
        return "multi-line-write"
    j = i - 1                                   # step back over one delimiter (one UTF-8 sequence)
    while j > 0 and (line[j] & 0xC0) == 0x80:
        j -= 1
    if j >= 1 and line[j - 1] in ENDC:
        return "adjacent-address-delimiter-consumed"
    return "address-survives"


_NEED = {}


def needed(stream):
    """token -> start offsets of its bounded occurrences in stream (memoised: the same long stream is
    examined once per splitting)"""
    need = _NEED.get(stream)
    if need is None:
        need = {}
        for (i, j) in occurrences(stream):
            need.setdefault(stream[i:j], []).append(i)
        if len(_NEED) > 256:
            _NEED.clear()
        _NEED[stream] = need
    return need


# ---- coverage: the whole occurrence must lie inside a replaced range of the output (C07_covers_all)

_V4TOK = re.compile(rb"\d{1,3}(?:\.\d{1,3}){3}(?::\d{1,5})?")
WS = set(b"\t\n\x0c\r ")
COVER_STATS = {"lines_aligned": 0, "occurrences_checked": 0, "excluded_dotted_run": 0, "colon_exception_used": 0,
               "lines_without_alignment": 0}


def dotted_run(line, i, j):
    """the occurrence line[i:j] is a dotted quad (with or without port) that continues a run of dotted numbers:
    the class C07_covers_all excludes (C07_r2_dotted_run_refuted shows why)"""
    return (i >= 2 and line[i - 1] == 0x2E and 0x30 <= line[i - 2] <= 0x39 and _V4TOK.fullmatch(line, i, j) is not None)


def find_all(hay, needle):
    out, i = [], hay.find(needle)
    while i != -1:
        out.append(i)
        i = hay.find(needle, i + 1)
    return out


def alignments(line, out):
    """Every way to read `out` as `line` with n non-empty ranges replaced by the placeholder:
       line = lit0 X1 lit1 X2 ... Xn litn,  out = lit0 [scrubbed] lit1 ... [scrubbed] litn.
    Returns None when there is none, else a list with one entry per range r:
       (amin, bmax, bset)  amin = the smallest possible start of Xr, bmax = the largest possible end,
                           bset(b) = can Xr end at b?
    The start of Xr is constrained only by what precedes, its end only by what follows, so (a, b) is the r-th range of
    some alignment iff a is a possible start, b a possible end and a < b."""
    lits = out.split(SCRUBBED)
    n = len(lits) - 1
    if n == 0:
        return [] if line == out else None
    if not line.startswith(lits[0]) or not line.endswith(lits[n]) or sum(map(len, lits)) + n > len(line):
        return None
    occ = [None] + [find_all(line, lits[r]) if lits[r] else None for r in range(1, n)]      # None = every position
    amin = [None] * (n + 1)
    amin[1] = len(lits[0])
    for r in range(1, n):                      # start of X(r+1) = end of an occurrence of lit r that begins after amin[r]
        if occ[r] is None:
            amin[r + 1] = amin[r] + 1
        else:
            c = [p for p in occ[r] if p > amin[r]]
            if not c:
                return None
            amin[r + 1] = c[0] + len(lits[r])
    bmax = [None] * (n + 2)
    bmax[n] = len(line) - len(lits[n])
    for r in range(n - 1, 0, -1):              # end of Xr = begin of an occurrence of lit r that ends before bmax[r+1]
        if occ[r] is None:
            bmax[r] = bmax[r + 1] - 1
        else:
            c = [p for p in occ[r] if p + len(lits[r]) < bmax[r + 1]]
            if not c:
                return None
            bmax[r] = c[-1]
    res = []
    for r in range(1, n + 1):
        if amin[r] >= bmax[r]:
            return None
        if r == n:
            bset = (lambda b, e=bmax[n]: b == e)
        elif occ[r] is None:
            bset = (lambda b, lo=amin[r], hi=bmax[r]: lo < b <= hi)
        else:
            bset = (lambda b, ps=frozenset(occ[r]), ln=len(lits[r]), nx=bmax[r + 1]: b in ps and b + ln < nx)
        res.append((amin[r], bmax[r], bset))
    return res


STRICT_DOTTED = os.environ.get("VERIF_C07_STRICT") == "1"     # literal reading of the property: '.' is punctuation


def uncovered(line, out):
    """occurrences of `line` that no reading of `out` covers: [(i, j, touched, in_dotted_run)], or None when `out` is
    not `line` with ranges replaced by the placeholder. touched = some replaced range can overlap the occurrence."""
    al = alignments(line, out)
    if al is None:
        return None
    COVER_STATS["lines_aligned"] += 1
    bad = []
    for (i, j) in occurrences(line):
        dr = dotted_run(line, i, j)
        if dr and not STRICT_DOTTED:
            COVER_STATS["excluded_dotted_run"] += 1
            continue
        COVER_STATS["occurrences_checked"] += 1
        colon = line[j - 1] == 0x3A and j < len(line) and line[j] in WS
        ok = False
        for (amin, bmax, bset) in al:
            if amin <= i and bmax >= j:
                ok = True
                break
            if amin <= i and colon and bset(j - 1):
                COVER_STATS["colon_exception_used"] += 1
                ok = True
                break
        if not ok:
            bad.append((i, j, any(amin < j and bmax > i for (amin, bmax, _) in al), dr))
    return bad


_COVER = {}


def coverage_leak(stream, out, multiset=False):
    """(key, text) when a delimited address of a complete line of `stream` is not inside a replaced range of the
    corresponding output line (in every possible reading of the output), else None.
    multiset: the output lines are sorted (concurrent writers): a stream line may correspond to any output line."""
    ck = (stream, out, multiset)
    if ck in _COVER:
        return _COVER[ck]
    res = None
    slines = stream.split(b"\n")
    olines = out.split(b"\n")
    # a placeholder never contains a newline and a newline is never replaced: same number of lines
    if len(slines) == len(olines):
        slines = [l + b"\n" for l in slines[:-1]] + [slines[-1]]
        olines = [l + b"\n" for l in olines[:-1]] + [olines[-1]]
        pairs = []
        if multiset:
            pool = {}
            for o in olines:
                pool.setdefault(o, 0)
                pool[o] += 1
            for l in slines:
                cands = [o for o in pool if alignments(l, o) is not None]
                pairs.append((l, cands))
        else:
            pairs = [(l, [o]) for l, o in zip(slines, olines)]
        for l, cands in pairs:
            if SCRUBBED not in b"".join(cands) and not occurrences(l):
                continue
            results = [uncovered(l, o) for o in cands]
            results = [r for r in results if r is not None]
            if not results:
                COVER_STATS["lines_without_alignment"] += 1
                continue
            if all(results):
                i, j, touched, dr = min(results, key=len)[0]
                o = cands[0]
                res = ("dotted-run-address-partially-survives" if dr else "address-partially-survives" if touched else "address-survives",
                       "address %r (bytes %d..%d of the line %r) is not inside a replaced range of the scrubber output %r%s"
                       % (l[i:j].decode("latin1"), i, j, l[:200].decode("latin1"), o[:200].decode("latin1"),
                          ": a part of it is left in the output" if touched else ""))
                break
    if len(_COVER) > 512:
        _COVER.clear()
    _COVER[ck] = res
    return res


def leaks(stream, out, multiset=False):
    """stream: bytes given to the scrubber (complete lines); out: what reached the sink.
    Returns (key, text) of the first leak or None.  Two tests: (1) a bounded address of the input still appears
    verbatim in the output more often than its unbounded occurrences allow; (2) coverage: every bounded address
    lies inside one replaced range, in some reading of the output as the input with ranges replaced
    (partial survival: a prefix, suffix or inner piece of the address is left)."""
    need = needed(stream)
    for tok, pos in sorted(need.items(), key=lambda kv: kv[1][0]):
        allowed = count_overlapping(stream, tok) - len(pos)
        if count_overlapping(out, tok) > allowed:
            # which occurrence? the first one whose left context class is most specific
            keys = [classify(tok, stream, i) for i in pos]
            for pref in ("ipv6-seven-groups-after-compression", "multi-line-write", "adjacent-address-delimiter-consumed"):
                if pref in keys:
                    return pref, "address %r survives in the scrubber output %r" % (tok.decode("latin1"), out[:200].decode("latin1"))
            return keys[0], "address %r survives in the scrubber output %r" % (tok.decode("latin1"), out[:200].decode("latin1"))
    return coverage_leak(stream, out, multiset)


def occurrences_by_line(stream):
    """occurrences are per line (an address never contains a newline); stream ends with complete lines"""
    return occurrences(stream)


# ------------------------------------------------------------------ case encoding

def hx(b):
    return "x" + b.hex()


def unhex(t):
    return b"" if t == "-" else bytes.fromhex(t)


_OUT = re.compile(r"o=(\S+) nl=([01])(?: fresh=(\S+) fnl=([01]))?( mod=1)?")


def parse_out(res):
    """'o=<hex> nl=<b>[ fresh=<hex> fnl=<b>][ mod=1]' -> (bytes, nl)"""
    m = _OUT.fullmatch(res)
    if not m:
        return None, None
    return unhex(m.group(1)), m.group(2) == "1"


def ownership(res):
    """The driver hands every chunk to Write in one scratch array that it overwrites after the call (io.Writer: the
    callee must not retain or modify p) and delivers the same chunks to a second scrubber as fresh, untouched slices.
    -> (key, text) when the two sinks differ or Write changed the caller's array, else None."""
    m = _OUT.fullmatch(res)
    if not m:
        return None
    if m.group(5):
        return ("caller-buffer-modified",
                "LogScrubber.Write changed the caller's array (the slice passed or the bytes behind it): io.Writer's Write "
                "must not modify the slice data, even temporarily")
    if m.group(3) is not None:
        got, ref = unhex(m.group(1)), unhex(m.group(3))
        i = next((k for k in range(min(len(got), len(ref))) if got[k] != ref[k]), min(len(got), len(ref)))
        lo = max(0, i - 30)
        return ("caller-buffer-retained",
                "LogScrubber.Write retains the caller's slice (io.Writer: implementations must not retain p): the same chunks "
                "reach the sink as %r when each is passed in one scratch array that the caller overwrites after Write has "
                "returned (what io.Copy, bufio.Writer, os/exec do), but as %r when every chunk is a fresh slice (output offset %d)"
                % (got[lo:i + 50].decode("latin1"), ref[lo:i + 50].decode("latin1"), i))
    return None


def complete_part(stream):
    k = stream.rfind(b"\n")
    return stream[:k + 1]


def conc_stream(arg):
    """all writes of all writers (each is whole lines), in some order"""
    return b"".join(unhex(x[1:] or "-") for wr in arg.split(";") for x in wr.split(","))


def filler(n, k):
    """the w<n>.<k> piece of an lwrite case (same definition in the Go driver)"""
    return bytes(0x20 if (j + k) % 7 == 6 else 0x67 + (j + k) % 13 for j in range(n))


_LSTREAM = {}


def lwrite_stream(arg):
    st = _LSTREAM.get(arg)
    if st is None:
        out = []
        for pc in arg.split(","):
            if pc[0] == "w":
                n, k = pc[1:].split(".")
                out.append(filler(int(n), int(k)))
            else:
                out.append(unhex(pc[1:] or "-"))
        if len(_LSTREAM) > 64:
            _LSTREAM.clear()
        st = _LSTREAM[arg] = b"".join(out)
    return st


def lwrite_cuts(arg):
    return [] if arg == "-" else [int(c) for c in arg.split(",")]


def pending_peak(stream, cuts):
    """largest number of bytes without a newline that are pending at the end of a Write"""
    peak = 0
    for c in cuts + [len(stream)]:
        peak = max(peak, c - (stream.rfind(b"\n", 0, c) + 1))
    return peak


def describe_lwrite(a):
    st, cuts = lwrite_stream(a[2]), lwrite_cuts(a[3])
    longest = max(len(l) for l in st.split(b"\n"))
    return ("stream of %d bytes (longest line %d) delivered in %d Writes (cuts at %s%s; up to %d bytes pending without a newline)"
            % (len(st), longest, len(cuts) + 1, ",".join(map(str, cuts[:8])) or "-", ",..." if len(cuts) > 8 else "",
               pending_peak(st, cuts)))


EXACT = {}      # case line -> expected exact output (single address, clean context)


def prop(line, impl, model):
    a = line.split(" ")
    op = a[1]
    if impl.startswith("!") or impl == "!died":
        return "implementation panicked/died: " + impl[:200]
    if op == "scrub":
        inp, out = unhex(a[2][1:] or "-"), unhex(impl)
        lk = leaks(inp, out)
        if lk:
            return lk[1]
        want = EXACT.get(line)
        # a single ':' may stay behind the placeholder: `h:h:h:h:h:h:h::` followed by whitespace is matched as
        # seven `h:` groups with the delimiter `:\s` (alternative order of the pattern); nothing of the address remains
        if want is not None and out != want and out != want.replace(SCRUBBED, SCRUBBED + b":", 1):
            return "address not replaced as a whole: got %r, expected %r" % (out.decode("latin1"), want.decode("latin1"))
    elif op == "lwrite":
        out, nl = parse_out(impl)
        if out is None:
            return "unparsable driver output " + impl[:100]
        own = ownership(impl)
        if own:
            return "%s: %s" % (describe_lwrite(a), own[1])
        stream = lwrite_stream(a[2])
        lk = leaks(complete_part(stream), out)
        if not nl:
            return ("the sink received a block that does not end with a newline (partial line emitted): %s%s"
                    % (describe_lwrite(a), "; " + lk[1][:160] if lk else ""))
        if lk:
            return "%s: %s" % (describe_lwrite(a), lk[1])
    elif op in ("write", "conc"):
        out, nl = parse_out(impl)
        if out is None:
            return "unparsable driver output " + impl[:100]
        own = ownership(impl)
        if own:
            return own[1]
        if not nl:
            return "the sink received a block that does not end with a newline (partial line emitted)"
        if op == "write":
            stream = b"".join(unhex(x[1:] or "-") for x in a[2].split(","))
            lk = leaks(complete_part(stream), out)
            if lk:
                return lk[1]
        else:
            lk = leaks(conc_stream(a[2]), out, multiset=True)
            if lk:
                return lk[1]
    return None


def key_of(line, impl, model):
    a = line.split(" ")
    op = a[1]
    if impl.startswith("!"):
        return "driver-crash"
    if op == "scrub":
        lk = leaks(unhex(a[2][1:] or "-"), unhex(impl))
        if lk:
            return lk[0]
        inp = unhex(a[2][1:] or "-")
        for (i, j) in occurrences(inp):
            k = classify(inp[i:j], inp, i)
            if k == "ipv6-seven-groups-after-compression":
                return k
        return "not-fully-replaced"
    out, nl = parse_out(impl)
    own = ownership(impl)
    if own:
        return own[0]
    if op == "lwrite":
        st, cuts = lwrite_stream(a[2]), lwrite_cuts(a[3])
        if out is not None and not nl:
            # an unfinished line left the buffer: was it a long pending line (and nothing shorter fails)?
            k = "long-pending-line-flushed" if pending_peak(st, cuts) >= 512 else "partial-line-emitted"
            # ... and did an address that was cut by a Write boundary get out in pieces?
            return k + "-address-leaks" if leaks(complete_part(st), out) else k
        lk = leaks(complete_part(st), out or b"")
        return lk[0] if lk else "lwrite"
    if out is not None and not nl:
        return "partial-line-emitted"
    if op == "write":
        stream = b"".join(unhex(x[1:] or "-") for x in a[2].split(","))
        lk = leaks(complete_part(stream), out or b"")
        return lk[0] if lk else "write"
    lk = leaks(conc_stream(a[2]), out or b"", multiset=True)
    return lk[0] if lk else "conc"


# ------------------------------------------------------------------ generators

HEXG = ["0", "1", "a", "F", "ff", "0a", "abc", "DEF", "1234", "ffff", "FFFF", "dead", "beef", "2001", "db8", "fe80", "9097", "75b1"]


def hexgroup(rng):
    if rng.random() < 0.5:
        return rng.choice(HEXG)
    n = rng.choice([1, 2, 3, 4, 4])
    g = "".join(rng.choice("0123456789abcdef") for _ in range(n))
    return g.upper() if rng.random() < 0.25 else g


def v4(rng):
    if rng.random() < 0.2:
        return rng.choice(["0.0.0.0", "255.255.255.255", "1.2.3.4", "127.0.0.1", "192.0.2.33", "10.0.0.1", "129.97.208.23"])
    return ".".join(str(rng.choice([0, 1, 9, 10, 99, 100, 199, 255, rng.randrange(256)])) for _ in range(4))


def port(rng):
    return str(rng.choice([0, 1, 9, 55, 80, 443, 8080, 9999, 38310, 58344, 65535, rng.randrange(65536)]))


def groups(rng, n):
    return ":".join(hexgroup(rng) for _ in range(n))


def ip6(rng):
    """(text, kind) of one IPv6 spelling net.ParseIP accepts"""
    r = rng.random()
    if r < 0.12:
        return groups(rng, 8), "v6-full"
    if r < 0.2:
        return groups(rng, 6) + ":" + v4(rng), "v6-full-v4tail"
    if r < 0.32:
        a = ipaddress.IPv6Address(rng.getrandbits(128) & rng.choice([2**128 - 1, (2**32 - 1) << 96 | 0xffff, 0xffff << 112 | 1, 2**64 - 1, ~(0xffffffff << 32) & (2**128 - 1), 0xffff00000000 | rng.getrandbits(32)]))
        return a.compressed, "v6-canonical"
    if r < 0.8:
        i = rng.randrange(0, 8)
        j = rng.randrange(0, 8 - i)
        if rng.random() < 0.25:
            i, j = rng.choice([(7, 0), (0, 7), (6, 1), (1, 6), (0, 0), (3, 4), (6, 0), (0, 6), (5, 2)])
        return groups(rng, i) + "::" + groups(rng, j), "v6-compressed-%d-%d" % (i, j)
    i = rng.randrange(0, 6)
    j = rng.randrange(0, 6 - i)
    if rng.random() < 0.3:
        i, j = rng.choice([(0, 0), (0, 1), (0, 5), (5, 0), (4, 0), (2, 3)])
    return groups(rng, i) + "::" + (groups(rng, j) + ":" if j else "") + v4(rng), "v6-compressed-v4tail-%d-%d" % (i, j)


def address(rng):
    r = rng.random()
    if r < 0.22:
        return v4(rng), "v4"
    if r < 0.34:
        return v4(rng) + ":" + port(rng), "v4-port"
    t, k = ip6(rng)
    r = rng.random()
    if r < 0.45:
        return t, k
    if r < 0.7:
        return "[" + t + "]", k + "-bracket"
    return "[" + t + "]:" + port(rng), k + "-bracket-port"


CLEAN_L = ["", " ", "from ", "(", "{", "<", "\"", "'", "addr=", "x, ", "peer;", "|", "#", "@", "to\t", "http://"]
CLEAN_R = ["", " ", " closed", ")", "}", ">", "\"", "'", ", next", ";", "|", "/path", "\t", "\r"]
OTHER_L = [".", "-", "[", "]", "!", "\xe9", "\xc3\xa9", "\xff", "\x00", "\x7f", "~", "^", "`", "\\", "+", "*", "%", "$", "&", "?"]
OTHER_R = [".", ". ", "-", "[", "]", "!", "\xe9", "\xc3\xa9", "\xff", "\x00", "~", "+", "%", "?", "\x0b"]
NEG_L = ["x", "0", ":", "_", "a:", "9", "G", "z", "::"]
NEG_R = ["x", "0", ":", "_", ":x", ":9", "G", ": ", ":\t", "::", ":)"]
SEPS = [" ", " ", ", ", ",", ";", " and ", "\t", ") (", "|", "=", " -> ", "' '", "\" \"", "/", "><", ".", "-", "] [", "\xc3\xa9", "  ", "\r ", "#"]
FILL = ["test", "http2: panic serving", "a=fingerprint:sha-256 33:B6:FA:F6:94:CA:74:61:45:4A:D2:1F:2C:2F:75:8A", "2019/05/08 15:37:31 starting",
        "error: dial tcp", "12:34:56", "x_y", "v1.2.3", "1.2.3", "dead:beef", "a:b:c:d", "::", ":", "1.2.3.4.5", "fe80", "ok", "i/o timeout",
        "deadbeef", "0x1f", "[]", "[:]", "1234567.1.1.1", "aaaaa::1", "1::2::3", "1.2.3.4:999999", "256.1.1.1"]


COVER_L = ["", ".", "x.", "host.", "v1.", "[", "]", "a]", "[::1]", "(", "-", "\xe9", "1.2.3.4 ", "::1 ", "ab.", "9-", "1.2.3.4,", "[1::]:80 ", "\xc3\xa9"]
COVER_R = ["", ".", ".5", ".5.6.7.8", ". ", "]", "]:80", "[", " ", "\t", ",", ")", ".x", "-1", "\r", " ::1", ";x", "\xff"]
DOTTED_L = ["1.", "1.2.", "1.2.3.", "x 10.0.0.", "::1.2.3.", "a 1.2.3.4.", "(255."]


def L1(s):
    return s.encode("latin1")


def gen_scrub(ctx, add):
    rng = ctx.rng
    thorough = ctx.tier == "thorough"
    mul = 10 if thorough else 1
    # 1. one address, every form, clean contexts: exact expectation
    for _ in range(500 * mul):
        a, k = address(rng)
        l, r = rng.choice(CLEAN_L), rng.choice(CLEAN_R)
        nl = "" if rng.random() < 0.15 else "\n"          # Scrub is also called on texts without a final newline
        line = L1(l + a + r + nl)
        case = "%s scrub %s" % (AREA, hx(line))
        EXACT[case] = L1(l) + SCRUBBED + L1(r + nl)
        add(case, "scrub-1addr-" + re.sub(r"-\d-\d", "", k) + ("" if nl else "-noeol"))
    # every "::" placement exhaustively, bare / bracketed / bracketed with port, two contexts
    for i in range(0, 8):
        for j in range(0, 8 - i):
            for form in range(3):
                t = groups(rng, i) + "::" + groups(rng, j)
                t = [t, "[" + t + "]", "[" + t + "]:" + port(rng)][form]
                for l, r in (("", ""), ("from ", " ok")):
                    line = L1(l + t + r + "\n")
                    case = "%s scrub %s" % (AREA, hx(line))
                    EXACT[case] = L1(l) + SCRUBBED + L1(r + "\n")
                    add(case, "scrub-compressed-%d-%d" % (i, j))
    for i in range(0, 6):
        for j in range(0, 6 - i):
            for form in range(3):
                t = groups(rng, i) + "::" + (groups(rng, j) + ":" if j else "") + v4(rng)
                t = [t, "[" + t + "]", "[" + t + "]:" + port(rng)][form]
                line = L1("x " + t + " y\n")
                case = "%s scrub %s" % (AREA, hx(line))
                EXACT[case] = b"x " + SCRUBBED + b" y\n"
                add(case, "scrub-compressed-v4tail-%d-%d" % (i, j))
    # 2. one address, other punctuation / non-ASCII delimiters: leak test only
    for _ in range(300 * mul):
        a, k = address(rng)
        l = rng.choice(CLEAN_L + OTHER_L + OTHER_L)
        r = rng.choice(CLEAN_R + OTHER_R + OTHER_R)
        add("%s scrub %s" % (AREA, hx(L1(rng.choice(["", "w "]) + l + a + r + rng.choice(["", " w"]) + "\n"))), "scrub-1addr-otherdelim")
    # 3. negative contexts (':' or word character adjacent): correspondence only
    for _ in range(250 * mul):
        a, k = address(rng)
        l = rng.choice(NEG_L + CLEAN_L)
        r = rng.choice(NEG_R + CLEAN_R) if l in CLEAN_L else rng.choice(NEG_R + CLEAN_R + CLEAN_R)
        add("%s scrub %s" % (AREA, hx(L1(l + a + r + "\n"))), "scrub-negative-context")
    # 4. n addresses, all separators
    for _ in range(900 * mul):
        n = rng.choice([2, 2, 2, 3, 3, 4, 5, 8])
        s = rng.choice(CLEAN_L + [""] * 4)
        for q in range(n):
            a, k = address(rng)
            s += a
            if q + 1 < n:
                s += rng.choice(SEPS) if rng.random() < 0.8 else " " + rng.choice(FILL) + " "
        s += rng.choice(CLEAN_R + [""] * 4) + "\n"
        add("%s scrub %s" % (AREA, hx(L1(s))), "scrub-%daddr" % min(n, 5))
    # all ordered pairs of forms x single-character separators
    forms = [lambda: v4(rng), lambda: v4(rng) + ":" + port(rng), lambda: groups(rng, 8), lambda: "::" + groups(rng, 1),
             lambda: groups(rng, 2) + "::", lambda: "[" + groups(rng, 1) + "::" + groups(rng, 2) + "]",
             lambda: "[::" + groups(rng, 1) + "]:" + port(rng), lambda: "::ffff:" + v4(rng)]
    for f in forms:
        for g in forms:
            for sep in [" ", ",", "\t", ";", "=", "|", ")"]:
                add("%s scrub %s" % (AREA, hx(L1(f() + sep + g() + "\n"))), "scrub-pair")
    # 5. several lines in one Scrub call
    for _ in range(150 * mul):
        n = rng.choice([2, 2, 3, 4])
        s = ""
        for q in range(n):
            s += rng.choice(["", "", "w "]) + address(rng)[0] + rng.choice(["", "", " w", ")"]) + "\n"
        add("%s scrub %s" % (AREA, hx(L1(s))), "scrub-multiline")
    # 6. no address at all / look-alikes / raw bytes
    for _ in range(150 * mul):
        s = " ".join(rng.choice(FILL) for _ in range(rng.randrange(1, 6))) + "\n"
        add("%s scrub %s" % (AREA, hx(L1(s))), "scrub-lookalikes")
    alpha = b"0123456789abcdefF:.[] \n,x_\xc3\xa9\xff"
    for _ in range(400 * mul):
        n = rng.randrange(0, 40)
        add("%s scrub %s" % (AREA, hx(bytes(rng.choice(alpha) for _ in range(n)))), "scrub-random-bytes")
    # mutations of addresses
    for _ in range(300 * mul):
        a = bytearray(L1(rng.choice(["", "x ", "("]) + address(rng)[0] + rng.choice(["", " y", ")"]) + "\n"))
        for _ in range(rng.choice([1, 1, 2, 3])):
            p = rng.randrange(len(a))
            m = rng.random()
            if m < 0.4:
                a[p] = rng.choice(alpha)
            elif m < 0.7:
                del a[p]
            else:
                a.insert(p, rng.choice(alpha))
        add("%s scrub %s" % (AREA, hx(bytes(a))), "scrub-mutated-address")
    # 7. coverage (C07_covers_all): every address form in contexts where a match of the pattern could begin before the
    #    address (delimiters '.', '[', ']' also occur inside addresses) or end inside it ('.', ']' or ':' + whitespace)
    forms = []
    for i in range(0, 8):
        for j in range(0, 8 - i):
            forms.append((lambda i=i, j=j: groups(rng, i) + "::" + groups(rng, j), "compressed", True))
    for i in range(0, 6):
        for j in range(0, 6 - i):
            forms.append((lambda i=i, j=j: groups(rng, i) + "::" + (groups(rng, j) + ":" if j else "") + v4(rng), "compressed-v4tail", True))
    forms += [(lambda: groups(rng, 8), "full", True), (lambda: groups(rng, 6) + ":" + v4(rng), "full-v4tail", True),
              (lambda: v4(rng), "v4", False), (lambda: v4(rng) + ":" + port(rng), "v4-port", False)]
    per_form = 60 if thorough else 6
    for f, fk, v6 in forms:
        for deco in ((0, 1, 2) if v6 else (0,)):
            for _ in range(per_form):
                t = f()
                t = [t, "[" + t + "]", "[" + t + "]:" + port(rng)][deco]
                l, r = rng.choice(COVER_L), rng.choice(COVER_R)
                add("%s scrub %s" % (AREA, hx(L1(l + t + r + "\n"))), "scrub-cover-" + fk + ["", "-bracket", "-bracket-port"][deco])
    # the class C07_covers_all excludes (a dotted quad continuing a run of dotted numbers), and the colon exception
    for l in DOTTED_L:
        for t in (v4(rng), v4(rng) + ":" + port(rng), "4.5.6.7"):
            for r in (" ", ".", ".9", "\n"):
                add("%s scrub %s" % (AREA, hx(L1(l + t + r + "\n"))), "scrub-dotted-run")
    for l in ("", "x ", "("):
        for r in (" ", "\t", "\n", "\r\n", " y\n", ")", ". ", ""):
            for t in (groups(rng, 7) + "::", groups(rng, 6) + "::", groups(rng, 5) + "::", "::", groups(rng, 1) + "::"):
                add("%s scrub %s" % (AREA, hx(L1(l + t + r))), "scrub-trailing-colons")
    for s in ["", "\n", "::\n", ":\n", "[::]\n", "1.2.3.4", "1.2.3.4 5.6.7.8\n", "::1 ::2\n", "1.2.3.4\n5.6.7.8\n",
              "1:2:3:4:5:6:7::\n", "[::1:2:3:4:5:6:7]\n", "::a:b:c:d:e:f:abcd\n", "[1:2:3:4:5:6:abcd::]:80 y\n"]:
        add("%s scrub %s" % (AREA, hx(L1(s))), "scrub-fixed")


def rand_stream(rng, nl_end=None):
    n = rng.choice([1, 2, 2, 3, 4])
    s = ""
    for q in range(n):
        k = rng.choice([0, 1, 1, 2])
        parts = [rng.choice(["", "", "log: ", "("])]
        for t in range(k):
            parts.append(address(rng)[0])
            if t + 1 < k:
                parts.append(rng.choice(SEPS[:8]))
        parts.append(rng.choice(["", "", " done", ")"]))
        s += "".join(parts) + "\n"
    if nl_end is None:
        nl_end = rng.random() < 0.7
    if not nl_end:
        s += rng.choice(["tail", "1.2.3.4", "x 5.6.7", ""])
    return L1(s)


def splits_random(rng, b):
    k = rng.choice([1, 2, 2, 3, 5, 8])
    cuts = sorted(rng.randrange(0, len(b) + 1) for _ in range(k - 1))
    out, p = [], 0
    for c in cuts + [len(b)]:
        out.append(b[p:c])
        p = c
    return out


def gen_write(ctx, add, groups_out):
    rng = ctx.rng
    mul = 10 if ctx.tier == "thorough" else 1

    def emit(chunks, kind, gid):
        case = "%s write %s" % (AREA, ",".join(hx(c) for c in (chunks or [b""])))
        add(case, kind)
        groups_out.setdefault(gid, []).append(case)

    gid = 0
    fixed = [b"1.2.3.4\n5.6.7.8\n", b"test\nhttp2: panic serving [2620:101:f000:780:9097:75b1:519f:dbb8]:58344: x\n",
             b"a ::1\n::2 b\n", b"\n\n", b"x", b"", b"1.2.3.4\n\n[::1]:80\n"]
    for st in fixed + [rand_stream(rng) for _ in range(12 * mul)]:
        gid += 1
        emit([st], "write-whole", gid)
        if len(st) <= 48:
            for c in range(1, len(st)):
                emit([st[:c], st[c:]], "write-every-2split", gid)
        emit([st[i:i + 1] for i in range(len(st))] or [b""], "write-bytewise", gid)
        lines = st.split(b"\n")
        emit([l + b"\n" for l in lines[:-1]] + ([lines[-1]] if lines[-1] else []), "write-linewise", gid)
        for _ in range(4):
            emit(splits_random(rng, st), "write-random-split", gid)
    for _ in range(150 * mul):
        gid += 1
        st = rand_stream(rng)
        emit([st], "write-whole", gid)
        for _ in range(2):
            emit(splits_random(rng, st), "write-random-split", gid)
    # long lines (a pending partial line of a few hundred bytes must stay buffered)
    for q in range(12 * mul):
        gid += 1
        parts = []
        while sum(map(len, parts)) < rng.choice([90, 150, 260, 400]):
            parts.append(rng.choice([address(rng)[0], address(rng)[0], rng.choice(FILL)]))
            parts.append(rng.choice(SEPS[:8]))
        st = L1("".join(parts)) + rng.choice([b"\n", b"\n", b"\ntail 1.2.3.4", b""])
        emit([st], "write-long-whole", gid)
        emit([st[i:i + 1] for i in range(len(st))], "write-long-bytewise", gid)
        for _ in range(3):
            emit(splits_random(rng, st), "write-long-random-split", gid)


# ------------------------------------------------------------------ long lines

POW2 = [512, 1024, 2048, 4096, 8192, 16384]
LSEP = [" ", " ", " ", ",", ";", "=", "(", ")", "\t", "|", "\"", "'", "<", ">"]
LONG_LENGTHS = [3000, 4095, 4096, 4097, 5000, 8191, 8192, 8193, 12000, 16383, 16384, 16385, 20000]
MID_LENGTHS = [600, 1023, 1024, 1025, 1500, 2000]


def planted_address(rng, minlen=7):
    while True:
        a = address(rng)[0]
        if len(a) >= minlen:
            return a


def long_line(rng, L, nextra):
    """One line of exactly L bytes (without newline): filler words, look-alikes and addresses, each address
    between two delimiters; one address lies across every offset P of POW2 (so that P-1, P and P+1 are inside
    it). Returns (pieces, spans): pieces = [("w", n, k) | ("x", bytes)], spans = [(start, end)] of the addresses."""
    slots = []                                    # (start of the delimiter before, text of delimiter+address+delimiter)

    def free(s, e):
        return s >= 1 and e <= L - 1 and all(e + 1 < s2 or s2 + len(t2) + 1 < s for s2, t2 in slots)

    for P in POW2:
        if P + 70 < L:
            a = planted_address(rng)
            r = rng.randrange(2, len(a) - 1)      # address starts at P - r, ends at or after P + 2
            t = rng.choice(LSEP) + a + rng.choice(LSEP)
            slots.append((P - r - 1, t))
    for _ in range(nextra * 3):
        if len(slots) >= nextra + len(POW2):
            break
        a = address(rng)[0] if rng.random() < 0.85 else rng.choice(FILL)
        t = rng.choice(LSEP) + a + rng.choice(LSEP)
        s0 = rng.randrange(1, max(2, L - len(t) - 1))
        if free(s0, s0 + len(t)):
            slots.append((s0, t))
    slots.sort()
    pieces, spans, cur = [], [], 0
    for s0, t in slots:
        if s0 > cur:
            pieces.append(("w", s0 - cur, rng.randrange(13 * 7)))
        pieces.append(("x", L1(t)))
        spans.append((s0 + 1, s0 + len(t) - 1))
        cur = s0 + len(t)
    if L > cur:
        pieces.append(("w", L - cur, rng.randrange(13 * 7)))
    return pieces, spans


LONG_ENDINGS = [b"\n", b"", b"\ntail 1.2.3.4", b"\n", b"", b"\nnext [::1]:80 ok\n"]


def long_stream(rng, L, nextra, idx):
    """(pieces, bytes, base = offset of the long line, spans of the planted addresses, offset of the line's end);
    idx rotates through the endings (with / without the final newline, something after it)"""
    prefix = rng.choice([b"", b"", b"started 192.0.2.7:443 ok\n", b"\n", b"x\n[2001:db8::1]:80\n"])
    ending = LONG_ENDINGS[idx % len(LONG_ENDINGS)]
    pieces, spans = long_line(rng, L, nextra)
    base = len(prefix)
    pieces = ([("x", prefix)] if prefix else []) + pieces + ([("x", ending)] if ending else [])
    merged = []
    for pc in pieces:
        if pc[0] == "x" and merged and merged[-1][0] == "x":
            merged[-1] = ("x", merged[-1][1] + pc[1])
        else:
            merged.append(pc)
    st = b"".join(filler(pc[1], pc[2]) if pc[0] == "w" else pc[1] for pc in merged)
    kind = ("eol" if ending == b"\n" else "noeol" if not ending else "eol-then-tail" if not ending.endswith(b"\n") else "eol-then-line")
    return merged, st, base, [(a + base, b + base) for a, b in spans], base + L, kind


def long_splittings(rng, st, base, spans, end, full):
    """[(kind, cuts)]: the write boundaries tried on one long stream"""
    n = len(st)
    out = [("whole", [])]
    pows = [P for P in POW2 if base + P + 1 < n]
    for P in pows:
        for d in ((-1, 0, 1) if full else (rng.choice([-1, 0, 1]),)):
            out.append(("pow2%+d" % d, [base + P + d]))
    if pows:
        out.append(("pow2-all", [base + P + rng.choice([-1, 0, 1]) for P in pows]))
    inner = [rng.randrange(a + 1, b) for a, b in spans if b - a >= 2]
    if inner:
        out.append(("in-every-address", sorted(set(inner))))
        for _ in range(2):
            k = rng.choice([1, 2, 3, 5, 8])
            cuts = set(rng.sample(inner, min(k, len(inner))))
            cuts |= {rng.randrange(0, n + 1) for _ in range(rng.choice([0, 1, 3]))}
            out.append(("random-in-addresses", sorted(cuts)))
    for c in rng.sample([512, 1000, 1024, 4095, 4096, 4097, 8192], 2 if full else 1):
        if c < n:
            out.append(("chunks-%d" % c, list(range(c, n, c))))
    if end < n:
        out.append(("newline-alone", [end, end + 1]))
    else:
        out.append(("last-byte-alone", [n - 1]))
    return out


def gen_mid(ctx, add, groups_out, gid0):
    """lines of 600..2000 bytes built and cut like the long ones, as ordinary `write` cases (model + implementation)"""
    rng = ctx.rng
    gid = gid0
    for rep in range(10 if ctx.tier == "thorough" else 1):
        for q, L in enumerate(MID_LENGTHS):
            gid += 1
            pieces, st, base, spans, end, ekind = long_stream(rng, L, rng.choice([3, 10, 30]), q + rep)
            for kind, cuts in long_splittings(rng, st, base, spans, end, full=True):
                chunks = [st[a:b] for a, b in zip([0] + cuts, cuts + [len(st)])]
                case = "%s write %s" % (AREA, ",".join(hx(c) for c in chunks))
                add(case, "write-mid-%s-%s" % (ekind, re.sub(r"\d+$", "N", kind) if kind.startswith("chunks") else kind))
                groups_out.setdefault(gid, []).append(case)


def gen_long(ctx):
    """[(case lines, kinds)] per stream: lwrite cases, implementation only"""
    rng = ctx.rng
    thorough = ctx.tier == "thorough"
    lengths = list(LONG_LENGTHS) + [rng.randrange(3000, 20001) for _ in range(5)]
    if thorough:
        lengths = lengths * 3 + [rng.randrange(3000, 20001) for _ in range(40)] + [rng.choice(POW2[3:]) + rng.randrange(-40, 41) for _ in range(20)]
    streams = []
    off = rng.randrange(len(LONG_ENDINGS))
    for q, L in enumerate(lengths):
        pieces, st, base, spans, end, ekind = long_stream(rng, L, rng.choice([3, 12, 40, 120, 200]), q + off)
        enc = ",".join("w%d.%d" % (pc[1], pc[2]) if pc[0] == "w" else hx(pc[1]) for pc in pieces)
        assert lwrite_stream(enc) == st
        cases, kinds = [], []
        for kind, cuts in long_splittings(rng, st, base, spans, end, full=True):
            case = "%s lwrite %s %s" % (AREA, enc, ",".join(map(str, cuts)) or "-")
            assert len(case) < 20000, len(case)          # the replay file keeps 20000 characters of a case
            cases.append(case)
            kinds.append("lwrite-implonly-%s-%s" % (ekind, re.sub(r"\d+$", "N", kind) if kind.startswith("chunks") else kind))
        streams.append((cases, kinds))
    return streams


def gen_conc(ctx, add):
    rng = ctx.rng
    for _ in range(40 if ctx.tier == "quick" else 400):
        writers = []
        for w in range(rng.choice([2, 3, 4, 8])):
            writes = []
            for _ in range(rng.choice([1, 2, 5])):
                writes.append(hx(rand_stream(rng, nl_end=True)))
            writers.append(",".join(writes))
        add("%s conc %s" % (AREA, ";".join(writers)), "conc-%dwriters" % len(writers))


# ------------------------------------------------------------------ translator step

def regenerate_patterns(ctx=None):
    """Regenerate coq/Gen/SafelogPatterns.v from the repo's current source. Returns True if changed."""
    t = vlib.go_test_build("./common/safelog", name="safelog_patterns.test")
    rc, out, err = vlib.sh([t, "-test.run", "^TestVerifPatterns$"], env=dict(vlib.GOENV, VERIF_PATTERNS="1"), timeout=120)
    if rc != 0 or "@@full" not in out:
        raise vlib.GoBuildError("pattern dump failed: " + (out + err)[-800:])
    exe = vlib.go_build("./zz_verif/regex2coq")
    rc, txt, err = vlib.sh([exe], input=out, timeout=60)
    if rc != 0:
        raise RuntimeError("regex2coq: the safelog patterns use a construct the regex model does not cover: " + err[-400:])
    with vlib.Lock("coq"):
        old = open(GEN).read() if os.path.exists(GEN) else None
        if old != txt:
            open(GEN, "w").write(txt)
            return True
    return False


# ------------------------------------------------------------------ run

def inclusion_counterword(ctx, exe):
    """If the inclusion theorem does not hold for the generated pattern, fetch the checker's
    counter-word, concretise it and try it on the implementation."""
    if ctx.proof and not ctx.proof["problems"]:
        ctx.extra["inclusion_check"] = "proved (C07_spec_included compiled against the generated pattern)"
        return
    res = vlib.run_model(["%s inclcex -" % AREA], timeout=600)[0]
    ctx.extra["inclusion_check"] = res[:200]
    if res == "included":
        return
    if not res.startswith("cex="):
        ctx.not_shown("inclusion addr_spec <= address pattern: checker answered " + res[:200])
        return
    w = unhex(res[4:])
    lines, kinds = [], []
    for l, r in (("", ""), ("x ", " y"), ("(", ")")):
        line = L1(l) + w + L1(r) + b"\n"
        case = "%s scrub %s" % (AREA, hx(line))
        EXACT[case] = L1(l) + SCRUBBED + L1(r) + b"\n"
        lines.append(case)
        kinds.append("inclusion-counterword")
    ctx.correspond(exe, lines, kinds, label="inclusion-counterword", prop=prop, key_of=key_of, crosscheck=0)


OCT8 = ["0", "1", "9", "10", "99", "255", "256", "01"]
PORTS = ["0", "1", "80", "65535", "65536", "99999", "100000", "", "08080", "-1", "x"]
HEXS = ["0", "1", "a", "F", "ff", "abc", "ffff", "0000", "Dead"]


def net_candidates():
    """Exhaustive small scopes of address spellings (valid and invalid), as [(text, kind)]:
       IPv4: every combination of 8 boundary octet spellings in 4 positions, 1..6 components, every port spelling;
       IPv6: 1..9 groups without "::"; "::" at every position with every group count on both sides (0..8 / 0..8);
             one group replaced by a 5-digit / non-hex / empty group at every position; dotted tails after every
             group count with and without "::" and with boundary octets;
       decorations: brackets, brackets and port (every port spelling), port without brackets, unbalanced / doubled
             brackets, zone identifiers (not named by the property: net.ParseIP rejects them)."""
    out = []
    for a in OCT8:
        for b in OCT8:
            for c in OCT8:
                for d in OCT8:
                    out.append((".".join((a, b, c, d)), "v4-octets"))
    for n in range(1, 7):
        out.append((".".join(str(k + 1) for k in range(n)), "v4-components"))
    for o in ["", "1234", "0x1", "1e1", " 1", "-1", "١"]:
        out.append(("1.2.3." + o, "v4-octet-malformed"))
    for host in ["0.0.0.0", "255.255.255.255", "1.2.3.4", "256.1.1.1", "1.2.3"]:
        for p in PORTS:
            out.append((host + ":" + p, "v4-port"))

    def grp(k):
        return HEXS[k % len(HEXS)]

    def gs(n, k0=0):
        return ":".join(grp(k0 + k) for k in range(n))

    bases = []
    for n in range(1, 10):
        out.append((gs(n), "v6-%d-groups" % n))
        if n == 8:
            bases.append(gs(n))
    for i in range(0, 9):
        for j in range(0, 9):
            t = gs(i) + "::" + gs(j, i)
            out.append((t, "v6-compressed"))
            if i + j <= 7:
                bases.append(t)
            total = i + j
            for pos in range(total):                      # one malformed group
                for badg in ("12345", "g", "1.2"):
                    g = [grp(k) for k in range(total)]
                    g[pos] = badg
                    out.append((":".join(g[:i]) + "::" + ":".join(g[i:]), "v6-compressed-bad-group"))
    for t in ["1::2::3", ":::", ":", "::", "1:::2", ":1::2", "1::2:", "1:2:3:4:5:6:7:8:", ":1:2:3:4:5:6:7:8", "::1:2:3:4:5:6:7:8", "1:2:3:4:5:6:7:8::"]:
        out.append((t, "v6-colons"))
    for n in range(0, 9):
        t = (gs(n) + ":" if n else "") + "1.2.3.4"
        out.append((t, "v6-v4tail-full"))
        if n == 6:
            bases.append(t)
    for i in range(0, 7):
        for j in range(0, 7):
            for q in ("1.2.3.4", "255.255.255.255", "0.0.0.0", "256.1.1.1", "1.2.3", "01.2.3.4"):
                t = gs(i) + "::" + (gs(j, i) + ":" if j else "") + q
                out.append((t, "v6-compressed-v4tail"))
                if i + j <= 5 and q == "1.2.3.4":
                    bases.append(t)
    for t in ["::1.2.3.4:5", "1.2.3.4::", "::1.2.3.4::", "1.2.3.4:5::", "::ffff:1.2.3.4.5", "::.1.2.3", "::1.2.3.4."]:
        out.append((t, "v6-v4tail-misplaced"))
    bases += ["1.2.3.4", "0.0.0.0"]
    for t in bases:
        out.append(("[" + t + "]", "decor-bracket"))
        for p in PORTS:
            out.append(("[" + t + "]:" + p, "decor-bracket-port"))
        out.append((t + ":80", "decor-port-no-bracket"))
        for q in ("[" + t, t + "]", "[[" + t + "]]", "[" + t + "]x", "[" + t + "]80", "[" + t + "]:", "[]" + t, "[" + t + "]:80:90"):
            out.append((q, "decor-malformed"))
        for q in (t + "%eth0", "[" + t + "%eth0]", "[" + t + "%eth0]:80", t + "%1", "[" + t + "%25eth0]:80"):
            out.append((q, "decor-zone"))
    return out


def net_printed():
    """(ip bytes, port): every pattern of zero / non-zero groups of an IPv6 address (two non-zero values), IPv4-mapped
    and IPv4-compatible addresses, every combination of 7 boundary octets of an IPv4 address"""
    ips = []
    for mask in range(256):
        for val in (1, 0xABCD):
            ips.append(b"".join((val if mask >> k & 1 else 0).to_bytes(2, "big") for k in range(8)))
    for q in (b"\x01\x02\x03\x04", b"\x00\x00\x00\x00", b"\xff\xff\xff\xff"):
        ips.append(b"\x00" * 10 + b"\xff\xff" + q)
        ips.append(b"\x00" * 12 + q)
        ips.append(b"\x00\x64\xff\x9b" + b"\x00" * 8 + q)
    B = [0, 1, 9, 10, 99, 100, 255]
    for a in B:
        for b in B:
            for c in B:
                for d in B:
                    ips.append(bytes((a, b, c, d)))
    ports = [(0, 1, 80, 65535)[k % 4] for k in range(len(ips))]
    return ips, ports


def spec_vs_net(ctx, exe):
    """addr_spec (the hand-written regex the theorems quantify over) against Go's net package: whatever
    net.ParseIP / SplitHostPort accept and whatever net.IP.String / net.TCPAddr.String print must be a word of
    addr_spec. A miss is a gap of the specification (reported as `no longer shown`), not of safelog.
    Exhaustive over the small scopes of net_candidates / net_printed, plus mutated random spellings."""
    rng = ctx.rng
    n = 300 if ctx.tier == "quick" else 6000
    cands, ckinds = [], []
    for t, k in net_candidates():
        cands.append(t.encode("utf8"))
        ckinds.append(k)
    nexh = len(cands)
    for _ in range(n):
        a = address(rng)[0]
        if rng.random() < 0.5:
            b = bytearray(L1(a))
            p = rng.randrange(len(b))
            m = rng.random()
            if m < 0.4:
                b[p] = rng.choice(b"0123456789abcdefABCDEF:.[]")
            elif m < 0.7:
                del b[p]
            else:
                b.insert(p, rng.choice(b"0123456789abcdefF:."))
            a = bytes(b).decode("latin1")
        cands.append(L1(a))
        ckinds.append("random")
    cands_u = list(dict.fromkeys(cands))
    rc, acc, err = vlib.run_impl(exe, ["%s accepts %s" % (AREA, hx(c)) for c in cands_u])
    spec = vlib.run_model(["%s spec %s" % (AREA, hx(c)) for c in cands_u])
    acc_of, spec_of = dict(zip(cands_u, acc)), dict(zip(cands_u, spec))
    stat = {}
    misses = 0
    for c, k in zip(cands, ckinds):
        a, sp = acc_of.get(c), spec_of.get(c)
        ctx.count("spec accepts " + c.hex(), kind="spec-vs-net-%s-%s" % (k, "accepted" if a == "1" else "rejected"))
        st = stat.setdefault(k, dict(candidates=0, net_accepts=0, in_addr_spec=0))
        st["candidates"] += 1
        st["net_accepts"] += a == "1"
        st["in_addr_spec"] += sp == "1"
        if a == "1" and sp != "1":
            misses += 1
            if misses <= 5:
                ctx.not_shown("addr_spec does not contain %r, which Go's net package accepts" % c.decode("latin1"))
    ips, ports = net_printed()
    nprint_exh = len(ips)
    for _ in range(n // 2):
        g = [rng.choice([0, 0, 0, 1, 0xffff, 0xabcd, rng.randrange(65536)]) for _ in range(8)]
        ips.append(b"".join(x.to_bytes(2, "big") for x in g))
        ports.append(rng.choice([0, 1, 80, 443, 65535, rng.randrange(65536)]))
    rc, pr, err = vlib.run_impl(exe, ["%s prints %s %d" % (AREA, hx(b), p) for b, p in zip(ips, ports)])
    printed = list(dict.fromkeys(bytes.fromhex(x) for r in pr for x in r.split(" ")))
    spec = vlib.run_model(["%s spec %s" % (AREA, hx(c)) for c in printed])
    for c, sp in zip(printed, spec):
        ctx.count("spec prints " + c.hex(), kind="spec-vs-net-printed")
        if sp != "1":
            misses += 1
            if misses <= 5:
                ctx.not_shown("addr_spec does not contain %r, which Go's net package prints" % c.decode("latin1"))
    ctx.extra["spec_vs_net"] = dict(
        how="addr_spec must contain every spelling Go's net package accepts (net.ParseIP, net.SplitHostPort + ParseIP, "
            "brackets without port) or prints (net.IP.String, net.TCPAddr.String); exhaustive over the scopes below",
        accepts_candidates_exhaustive=nexh, accepts_candidates_random=len(cands) - nexh, by_scope=stat,
        printed_ips_exhaustive=nprint_exh, printed_ips_random=len(ips) - nprint_exh, printed_spellings_distinct=len(printed),
        scopes=net_candidates.__doc__.strip(), printed_scopes=net_printed.__doc__.strip(),
        zone_note="zone identifiers (fe80::1%eth0) are not named by the property; net.ParseIP rejects them and addr_spec "
                  "does not contain them (scope decor-zone: 0 accepted)",
        spec_misses=misses)


# ------------------------------------------------------------------ call sites: event strings and the mains' log wiring

NSHAPES = 16
EVENT_PREFIX = {"o": ("offer", b"offer creation failure "), "b": ("broker", b"broker failure "), "f": ("failed", b"trying a new proxy: ")}
SHAPE_NAMES = ["dial-tcp-refused", "read-udp-a-b", "dns-server", "addrerror", "operror-addrerror", "url-dial", "wrapped-fmt",
               "nested-operror", "dns-name-is-ip", "parseerror", "url-read-tcp", "joined-two-lines", "ipaddr-zone", "plain-text",
               "tcpaddr-zone-dns", "after-dotted-text"]


def bare_ip(rng):
    """textual IP for net.ParseIP: IPv4, or IPv6 in one of its spellings (no brackets / port)"""
    if rng.random() < 0.4:
        return v4(rng)
    while True:
        t, k = ip6(rng)
        try:
            ipaddress.ip_address(t)
            return t
        except ValueError:
            continue


def event_strings(ctx, exe):
    """common/event: String() of the three events that carry an error, for error chains of the kinds Go's net, net/url
    and net/http produce (driver op `event`, 16 shapes), with IPv4 / IPv6 addresses in every position.
    Model: String() = fixed text ++ scrub(error text) (op evstr; theorem C07_event_string_covered).
    Property: every bounded address of the error text lies inside a replaced range of the string (same predicate as
    for the scrubber)."""
    rng = ctx.rng
    cases = []
    fams = [(a, b, c, d) for a in (4, 6) for b in (4, 6) for c in (4, 6) for d in (4, 6)]
    reps = 1 if ctx.tier == "quick" else 12
    for shape in range(NSHAPES):
        for fam in fams * reps:
            ips = []
            for f in fam:
                ips.append(v4(rng) if f == 4 else bare_ip_v6(rng))
            ports = [port(rng) for _ in range(4)]
            zone = rng.choice(["eth0", "1", "wlan0", "-"]) if shape in (12, 14) else "-"
            if zone != "-" and ":" not in ips[0]:
                zone = "-"
            cases.append(("%s event %d %s %s %s" % (AREA, shape, ",".join(hx(L1(i)) for i in ips), ",".join(ports), zone),
                          "event-%s" % SHAPE_NAMES[shape]))
    lines = [c for c, _ in cases]
    rc, impl, err = vlib.run_impl(exe, lines)
    if rc != 0 or len(impl) != len(lines):
        ctx.violation("driver-crash", "implementation driver died (rc=%s) on the event cases: %s" % (rc, err[-600:]),
                      dict(label="event-strings", case=lines[len(impl)] if len(impl) < len(lines) else None))
        return
    mlines, owners = [], []
    parsed = []
    for (l, k), r in zip(cases, impl):
        ctx.count(l, kind=k)
        m = re.fullmatch(r"e=(\S+) o=(\S+) b=(\S+) f=(\S+)", r)
        if not m:
            ctx.violation("driver-crash", "event case answered %s" % r[:200], dict(label="event-strings", case=l, impl=r[:2000]))
            parsed.append(None)
            continue
        etxt = unhex(m.group(1))
        parsed.append((etxt, dict(o=unhex(m.group(2)), b=unhex(m.group(3)), f=unhex(m.group(4)))))
        for t in "obf":
            mlines.append("%s evstr %s %s" % (AREA, EVENT_PREFIX[t][0], hx(etxt)))
            owners.append((len(parsed) - 1, t))
    model = vlib.run_model(mlines)
    ndis = nleak = 0
    for (idx, t), ml, mo in zip(owners, mlines, model):
        l, k = cases[idx]
        etxt, strs = parsed[idx]
        got = strs[t]
        pre = EVENT_PREFIX[t][1]
        lk = leaks(pre + etxt, got)
        if lk:
            nleak += 1
            ctx.violation("event-string-leaks",
                          "String() of the %s event leaks an address of its error: error text %r -> %r (%s)"
                          % (EVENT_PREFIX[t][0], etxt.decode("latin1"), got.decode("latin1"), lk[1][:300]),
                          dict(label="event-strings", case=l, impl=impl[idx][:4000], model=mo[:2000], event=EVENT_PREFIX[t][0]))
        elif unhex(mo) != got:
            ndis += 1
            if ndis <= 3:
                ctx.not_shown("correspondence event-strings: String() of the %s event for the error text %r is %r, the model "
                              "(fixed text ++ scrub) gives %r; the property predicate found no failure on it (case `%s`)"
                              % (EVENT_PREFIX[t][0], etxt.decode("latin1"), got.decode("latin1"), unhex(mo).decode("latin1"), l[:300]))
    # the model op on the implementation too (errors.New(text)): ordinary correspondence, a sample of the texts
    sample = list(dict.fromkeys(mlines))
    rng.shuffle(sample)
    sample = sample[:150 if ctx.tier == "quick" else 1500]
    ctx.correspond(exe, sample, ["evstr-model-op"] * len(sample), label="evstr", crosscheck=4,
                   prop=lambda l, r, m: None, key_of=None)
    ctx.extra["event_strings"] = dict(
        chains=len(cases), shapes=SHAPE_NAMES, strings_compared=len(mlines), leaks=nleak, disagreements=ndis,
        how="driver op `event` builds the error chain from four addresses (every IPv4/IPv6 combination per shape) and returns "
            "err.Error() and the String() of EventOnOfferCreated / EventOnBrokerRendezvous / EventOnSnowflakeConnectionFailed; "
            "each string is compared with the model (event_string = fixed text ++ scrub) and judged by the coverage predicate")


def bare_ip_v6(rng):
    while True:
        t, k = ip6(rng)
        try:
            ipaddress.IPv6Address(t)
            return t
        except ValueError:
            continue


WIRING_PROBES = ["probe-c07 from 203.0.113.7:4433 to [2001:db8::7]:443 via 198.51.100.23, fe80::1 end",
                 "probe-c07 dial tcp 192.0.2.99:9001: connect: connection refused",
                 "probe-c07 http2: panic serving [2620:101:f000:780:9097:75b1:519f:dbb8]:58344: x",
                 "probe-c07 a=candidate:1 1 udp 2130706431 10.11.12.13 5000 typ host ::ffff:10.11.12.13"]

# what the handler registered by zz_verif/wiring on http.DefaultServeMux panics with: net/http itself writes
# "http: panic serving <peer>: <this>" (+ stack) to the error log of the server the request arrived on
WIRING_PANIC = "probe-c07-panic peer 203.0.113.9:4434 relay [2001:db8::9]:443 via 198.51.100.99"
WIRING_PANIC_ADDRS = [b"203.0.113.9", b"2001:db8::9", b"198.51.100.99"]
# lines written by something other than the standard logger: marker -> name of the sink in keys / evidence
HTTP_MARKERS = [(b"http: panic serving", "http-server-errorlog"), (b"http: TLS handshake error", "http-server-errorlog"),
                (b"probe-c07-errorlog ", "http-server-errorlog")]

# binary -> (package, base arguments that let main() run offline, flags it has;
#            http=True: main() builds an http.Server of its own on http.DefaultServeMux and serves it: the run goes on
#            until it listens, once with -disable-tls and once with -cert/-key (self-signed, made by the helper))
WIRING = {
    "broker": ("./broker", ["-disable-tls", "-disable-geoip", "-addr", "127.0.0.1:0"], dict(log=False, verbose=False, http=True)),
    "client": ("./client", [], dict(log=True, verbose=False)),
    "proxy": ("./proxy", ["-broker", "http://127.0.0.1:1/", "-stun", "stun:127.0.0.1:1", "-relay", "wss://127.0.0.1:1/"],
              dict(log=True, verbose=True)),
    "server": ("./server", ["-disable-tls"], dict(log=True, verbose=False)),
    "probetest": ("./probetest", ["-disable-tls", "-addr", "127.0.0.1:0"], dict(log=False, verbose=False, http=True)),
}
# Log sinks in the five mains other than the standard logger (read off the sources; reported in the evidence):
SINK_INVENTORY = {
    "broker": ["http.Server{Addr} served by main(): ErrorLog (nil on the pinned tree = the standard logger) - JUDGED: real net/http "
               "lines (handler panic; TLS handshake errors with -cert/-key) must arrive scrubbed in every observed sink",
               "metricsLogger = log.New(-metrics-log file | os.Stdout): metrics lines only, raw by design; os.Stdout is observed: "
               "no probe line may arrive there unscrubbed",
               "http.ListenAndServe(\":80\", certManager.HTTPHandler) (ACME only): a net/http default server, needs port 80 and "
               "ACME: not run"],
    "probetest": ["http.Server{Addr} served by main(): ErrorLog - JUDGED as for the broker"],
    "server": ["HTTP-01 http.Server{Addr, Handler} (ACME only, port 80): not run; the WebSocket http.Server is built in server/lib, "
               "not in main()"],
    "proxy": ["eventlogOutput (stderr and the -log file) handed to sf.NewProxyEventLogger: periodic traffic summary (numbers and "
              "units), raw by design, not judged"],
    "client": ["pt.Log to tor over stdout: event strings, judged by the event-string cases (key event-string-leaks)"],
    "all": ["pion's default LoggerFactory (error level, os.Stdout) is not configured by any main; not judged here"],
}
# which sinks the standard logger must reach: (binary, has -log, has -verbose) -> {sink}
def expected_sinks(binary, log, verbose):
    if binary == "client":
        return {"logfile"} if log else set()                    # never stderr (tor does not read it)
    if binary == "proxy":
        return ({"stderr"} if verbose else set()) | ({"logfile"} if log else set())
    if binary == "server":
        return {"logfile"} if log else {"stderr"}
    return {"stderr"}


def wiring_variant(exe, binary, unsafe, log, verbose, http=""):
    """one run of the real main() of `binary`; returns dict(case, args, sinks | error).
    http: "" | "plain" | "tls" (see zz_verif/wiring)"""
    import json as _json
    import shutil
    import subprocess
    import tempfile
    base = WIRING[binary][1]
    tmp = tempfile.mkdtemp(prefix="verif-c07-wiring")
    try:
        logf = os.path.join(tmp, "the.log")
        args = list(base) + (["-log", logf] if log else []) + (["-verbose"] if verbose else []) + (["-unsafe-logging"] if unsafe else [])
        env = dict(os.environ, VERIF_WIRING_ARGS=_json.dumps(args), VERIF_WIRING_PROBES=_json.dumps(WIRING_PROBES),
                   VERIF_WIRING_LOG=logf if log else "", VERIF_WIRING_HTTP=http, VERIF_WIRING_PANIC=WIRING_PANIC,
                   TOR_PT_MANAGED_TRANSPORT_VER="1", TOR_PT_STATE_LOCATION=os.path.join(tmp, "state"),
                   TOR_PT_CLIENT_TRANSPORTS="snowflake", TOR_PT_SERVER_TRANSPORTS="snowflake",
                   TOR_PT_SERVER_BINDADDR="snowflake-127.0.0.1:0", TOR_PT_ORPORT="127.0.0.1:1")
        env.pop("TOR_PT_EXIT_ON_STDIN_CLOSE", None)
        shown = " ".join(a if a != logf else "<log>" for a in args)
        if http == "tls":
            shown = shown.replace("-disable-tls", "-cert <self-signed> -key <key>")
        if http:
            shown += " [served until it listens: handler panic%s]" % (", plain HTTP to the TLS port" if http == "tls" else "")
        res = dict(case="wiring %s %s" % (binary, shown or "(no arguments)"), shown=shown, binary=binary, unsafe=unsafe, log=log,
                   verbose=verbose, http=http)
        try:
            r = subprocess.run([exe, "-test.run", "^TestVerifC07Wiring$"], env=env, cwd=tmp, capture_output=True, timeout=180)
        except subprocess.TimeoutExpired:
            res["error"] = "did not finish within 180 s"
            return res
        m = re.search(rb"@@wiring stderr=(\S+) stdout=(\S+) logfile=(\S+) peers=(\S+) errorlog=(\S+)", r.stdout)
        if not m:
            e = re.search(rb"@@wiring error=(\S+)", r.stdout)
            res["error"] = ("did not reach the point where logging is configured: " +
                            (bytes.fromhex(e.group(1).decode()).decode("latin1") if e else (r.stdout[-300:] + r.stderr[-300:]).decode("latin1")))
            return res
        res["sinks"] = dict(stderr=unhex(m.group(1).decode()), stdout=unhex(m.group(2).decode()), logfile=unhex(m.group(3).decode()))
        res["peers"] = [] if m.group(4) == b"-" else m.group(4).decode().split(",")
        res["errorlog"] = m.group(5).decode()
        return res
    finally:
        shutil.rmtree(tmp, ignore_errors=True)


def judge_wiring(res):
    """-> (violations [(key, what, replay)], notes [str], summary) of one wiring_variant result"""
    binary, case = res["binary"], res["case"]
    viol, notes, got = [], [], {}
    raw = [L1(p) for p in WIRING_PROBES]
    for sink, content in res["sinks"].items():
        lines = [l[l.index(b"probe-c07 "):] for l in content.split(b"\n") if b"probe-c07 " in l]
        got[sink] = lines
        if not lines or res["unsafe"]:
            continue                                  # -unsafe-logging: anything goes
        if len(lines) != len(raw):
            notes.append("log wiring: `%s`: the sink `%s` received %d of the %d probe lines" % (case, sink, len(lines), len(raw)))
            continue
        for want, line in zip(raw, lines):
            if leaks(want + b"\n", line + b"\n"):
                viol.append(("log-sink-unscrubbed:" + binary,
                             "%s %s: the sink `%s` of the standard logger is not behind the scrubber: the line %r arrived as %r"
                             % (binary, res["shown"], sink, want.decode("latin1"), line.decode("latin1")),
                             dict(label="log-wiring", case=case, binary=binary, unsafe=res["unsafe"], log=res["log"], verbose=res["verbose"],
                                  sink=sink, received=line.decode("latin1"))))
                break
    http_seen = {}
    if res.get("http"):
        # lines that net/http (or the server's own ErrorLog) wrote: none of the peers' addresses, none of the addresses of
        # the panic value may be in them, whatever sink they arrived in
        hosts = sorted({p.rsplit(":", 1)[0].strip("[]").encode() for p in res["peers"]})
        for sink, content in res["sinks"].items():
            for l in content.split(b"\n"):
                for marker, name in HTTP_MARKERS:
                    if marker in l:
                        http_seen.setdefault(marker.decode().strip(), set()).add(sink)
                        found = [t for t in hosts + WIRING_PANIC_ADDRS + [L1(p) for p in res["peers"]] if t in l]
                        if found and not res["unsafe"] and not any(v[2].get("sink") == sink and v[2].get("source") == name for v in viol):
                            viol.append(("log-sink-unscrubbed:%s:%s" % (binary, name),
                                         "%s %s: what net/http writes to the error log of the http.Server built in main() does not pass "
                                         "the scrubber: the sink `%s` received %r (address %s; peers of the run: %s; the server's ErrorLog "
                                         "field is %s)" % (binary, res["shown"], sink, l[:300].decode("latin1"),
                                                           found[-1].decode("latin1"), ", ".join(res["peers"]), res["errorlog"]),
                                         dict(label="log-wiring", case=case, binary=binary, unsafe=res["unsafe"], log=res["log"],
                                              verbose=res["verbose"], http=res["http"], sink=sink, source=name,
                                              received=l[:300].decode("latin1"))))
                        break
        needm = ["http: panic serving"] + (["http: TLS handshake error"] if res["http"] == "tls" else [])
        for mk in needm:
            if mk not in http_seen:
                notes.append("log wiring: `%s`: no `%s` line arrived in stderr, stdout or the log file within 20 s (the server's "
                             "ErrorLog field is %s): where the http.Server's error log goes cannot be judged" % (case, mk, res["errorlog"]))
    reached = {k for k, v in got.items() if v}
    want_sinks = expected_sinks(binary, res["log"], res["verbose"])
    if not want_sinks <= reached:
        notes.append("log wiring: `%s`: the probe lines did not reach %s (reached: %s); the wiring cannot be judged"
                     % (case, sorted(want_sinks - reached), sorted(reached) or "nothing"))
    summary = dict(reached=sorted(reached), unsafe=res["unsafe"],
                   scrubbed={k: all(b"[scrubbed]" in l for l in v) for k, v in got.items() if v})
    if res.get("http"):
        summary.update(http=res["http"], server_errorlog_field=res["errorlog"], peers=len(res["peers"]),
                       http_lines_arrived_in={k: sorted(v) for k, v in http_seen.items()})
    return viol, notes, summary


def log_wiring(ctx):
    """The log wiring of the five mains, on the real main(): an overlay test of each package main (zz_verif/wiring) calls
    main() with an offline command line, waits until it has configured the standard logger, writes probe lines with
    addresses through log.Print and reports what the process's stderr and the -log file received.
    Model: every sink of the standard logger is behind the LogScrubber unless -unsafe-logging was given."""
    runs = {}
    jobs = []
    for binary, (pkg, base, has) in WIRING.items():
        try:
            exe = vlib.go_test_build(pkg, name="c07_wiring_%s.test" % binary)
        except vlib.GoBuildError as e:
            ctx.not_shown("log wiring of %s: the overlay test of the main package does not build: %s" % (binary, str(e)[-400:]))
            continue
        for unsafe in (False, True):
            for log in ((False, True) if has["log"] else (False,)):
                for verbose in ((False, True) if has["verbose"] else (False,)):
                    for http in (("plain", "tls") if has.get("http") else ("",)):
                        jobs.append((exe, binary, unsafe, log, verbose, http))

    def one(job):
        # the served variants pick a free port before main() binds it: another process may take it in between
        # (main() then exits): such a run says nothing about the wiring and is repeated
        for attempt in range(3):
            res = wiring_variant(*job)
            if "error" not in res or not job[5]:
                break
        return res

    from concurrent.futures import ThreadPoolExecutor
    with ThreadPoolExecutor(max_workers=6) as pool:            # independent processes, each mostly waiting
        results = list(pool.map(one, jobs))
    for (exe, binary, unsafe, log, verbose, http), res in zip(jobs, results):
        ctx.count(res["case"], kind="wiring-%s%s%s%s%s" % (binary, "-log" if log else "", "-verbose" if verbose else "",
                                                            "-unsafe" if unsafe else "", "-http-" + http if http else ""))
        if "error" in res:
            ctx.not_shown("log wiring: `%s` %s" % (res["case"], res["error"]))
            continue
        viol, notes, summary = judge_wiring(res)
        for key, what, rp in viol:
            ctx.violation(key, what, rp)
        for n in notes:
            ctx.not_shown(n)
        runs[res["case"]] = summary
    ctx.extra["log_wiring"] = dict(
        approach="dynamic for all five mains (broker, client, proxy, server, probetest): real main() in-process up to log.SetOutput, "
                 "probe lines through the standard logger, sinks = process stderr, process stdout and the -log file; every "
                 "combination of -log / -verbose / -unsafe-logging the binary has. broker and probetest (an http.Server built in "
                 "main() on http.DefaultServeMux) are served until they listen, with -disable-tls and with -cert/-key: a handler "
                 "registered on the default mux by the test helper panics with an address-bearing value (net/http writes `http: "
                 "panic serving <peer>: ...` to that server's error log) and prints the probe lines through the server's ErrorLog "
                 "when it is not nil (the *http.Server is taken from http.ServerContextKey); with TLS, plain HTTP is spoken to the "
                 "port three times (`http: TLS handshake error from <peer>`); no observed sink may receive a peer's address or an "
                 "address of the panic value",
        sink_inventory=SINK_INVENTORY,
        runs=runs,
        not_covered="proxy: the event logger's own writer (eventlogOutput: stderr and the -log file, not behind the scrubber by "
                    "design) only receives the periodic traffic summary (numbers and units); it is not reached by the standard "
                    "logger and is not judged here")


V0_WITNESSES = ["scrub " + hx(b"1.2.3.4 5.6.7.8\n"), "scrub " + hx(b"::a:b:c:d:e:f:abcd\n"), "scrub " + hx(b"[::1:2:3:4:5:6:7]\n"),
                "write " + hx(b"1.2.3.4\n5.6.7.8\n"), "write " + hx(b"1.2.3.4\n") + "," + hx(b"5.6.7.8\n")]


def pinned_witnesses(ctx, exe, ascii_cases):
    """Evidence only (no effect on the verdict): the witnesses of the C07_v0_* theorems on the implementation.
    When the implementation still behaves like the pinned code on all of them, the pinned-algorithm model
    (scrub_v0 on the frozen pinned patterns) is also compared with it on the ASCII scrub cases."""
    impl_lines = ["%s %s" % (AREA, w) for w in V0_WITNESSES]
    v0_lines = [l.replace(" scrub ", " scrub0 ").replace(" write ", " write0 ") for l in impl_lines]
    m0 = vlib.run_model(v0_lines)
    rc, impl, err = vlib.run_impl(exe, impl_lines)
    same = [a == b for a, b in zip(m0, impl)]
    ctx.extra["pinned_witnesses"] = [dict(case=l, pinned_model=a, impl=b, impl_behaves_like_pinned=q)
                                     for l, a, b, q in zip(impl_lines, m0, impl, same)]
    if all(same) and len(impl) == len(impl_lines):
        sub = ascii_cases[:1500]
        m0 = vlib.run_model([l.replace(" scrub ", " scrub0 ") for l in sub])
        rc, impl, err = vlib.run_impl(exe, sub)
        ctx.extra["pinned_model_vs_impl"] = dict(cases=len(sub), disagreements=sum(1 for a, b in zip(m0, impl) if a != b))


def split_dependence(ctx, groups, res, mod, label):
    """the cases of one group deliver the same stream with different write boundaries: same output required.
    mod = the model's answers, or None for implementation-only cases."""
    for gid, cases in groups.items():
        outs = {res[c] for c in cases}
        if len(outs) > 1 and not any(prop(c, res[c], mod and mod[c]) for c in cases):
            # (when a case of the group already fails the property the cause is reported there)
            a = cases[0]
            b = next(c for c in cases if res[c] != res[a])
            if a.split(" ")[1] == "lwrite":
                ctx.violation("split-dependent-output-long-line",
                              "output depends on how the stream is split into Write calls: %s -> %s... but %s -> %s..."
                              % (describe_lwrite(a.split(" ")), first_difference(res[a], res[b])[0], describe_lwrite(b.split(" ")),
                                 first_difference(res[a], res[b])[1]),
                              dict(label=label, case=a, other=b, impl=res[a][:4000], impl_other=res[b][:4000]))
                continue
            # the deviating case is the one the per-line model disagrees with; if one of its writes carries
            # more than one line, that is the cause
            dev = next((c for c in (a, b) if res[c] != mod[c]), a)
            multi = any(b"\n" in unhex(x[1:] or "-")[:-1] for x in dev.split(" ")[2].split(","))
            ctx.violation("multi-line-write" if multi else "split-dependent-output",
                          "output depends on how the stream is split into Write calls: `%s` -> %s but `%s` -> %s"
                          % (a[:300], res[a][:200], b[:300], res[b][:200]),
                          dict(label=label, case=a[:20000], other=b[:20000], impl=res[a][:4000], impl_other=res[b][:4000]))


def first_difference(ra, rb):
    """readable context of the first difference of two driver answers"""
    (oa, _), (ob, _) = parse_out(ra), parse_out(rb)
    if oa is None or ob is None:
        return ra[:80], rb[:80]
    i = next((k for k in range(min(len(oa), len(ob))) if oa[k] != ob[k]), min(len(oa), len(ob)))
    lo = max(0, i - 30)
    return ("%r at output offset %d" % (oa[lo:i + 40].decode("latin1"), i), "%r" % ob[lo:i + 40].decode("latin1"))


def long_lines(ctx, exe):
    """Lines of 3 000 - 20 000 bytes: prop on every case + same answer for every splitting of one stream, on the
    implementation alone; the model (seconds per 20 KB line) is compared once per stream, on the single-Write case."""
    streams = gen_long(ctx)
    ncases = nmodel = ndis = 0
    for lo in range(0, len(streams), 8):                      # bounded memory: a few streams per driver run
        batch = streams[lo:lo + 8]
        lines = [c for cases, _ in batch for c in cases]
        kinds = [k for _, ks in batch for k in ks]
        rc, impl, err = vlib.run_impl(exe, lines)
        if rc != 0 or len(impl) != len(lines):
            idx = len(impl)
            ctx.violation("driver-crash", "implementation driver died (rc=%s) at case %d: %s" % (rc, idx, err[-600:]),
                          dict(label="long-lines", case=lines[idx] if idx < len(lines) else None, stderr=err[-2000:]))
            impl = impl + ["!died"] * (len(lines) - len(impl))
        res = dict(zip(lines, impl))
        for l, k, r in zip(lines, kinds, impl):
            ctx.count(l, kind=k)
            ncases += 1
            bad = prop(l, r, None)
            if bad:
                ctx.violation(key_of(l, r, None), bad, dict(label="long-lines", case=l, impl=r[:4000]))
        split_dependence(ctx, {g: cases for g, (cases, _) in enumerate(batch)}, res, None, "long-lines-split")
        # the model on the stream delivered in one Write (cases[0] is the splitting `whole`)
        whole = [cases[0] for cases, _ in batch]
        model = vlib.run_model(["%s write %s" % (AREA, hx(lwrite_stream(c.split(" ")[2]))) for c in whole])
        for c, m in zip(whole, model):
            nmodel += 1
            if m != res[c] and not prop(c, res[c], m):
                ndis += 1
                if ndis <= 3:
                    ctx.not_shown("correspondence long-lines: model and implementation disagree on the single-Write delivery of `%s`: "
                                  "%s; the property predicate found no failure on it" % (c[:400], " vs ".join(first_difference(m, res[c]))))
    ctx.extra["long_lines"] = dict(streams=len(streams), cases=ncases, model_compared_single_write=nmodel,
                                   how="every splitting on the implementation alone (op lwrite): no bounded address of the stream's "
                                       "complete lines in the sink, every sink block ends with a newline, identical sink content for "
                                       "every splitting of the same stream; the model is compared once per stream (stream in one Write; "
                                       "split invariance of the model is theorem C07_write_split_invariant); lines of 600-2000 bytes cut "
                                       "the same way are compared with the model case by case (kinds write-mid-*)")


def failing_sink(ctx, exe):
    """a sink whose first Write takes k bytes and fails, and which works again afterwards: what reaches it later must still be
    whole scrubbed lines (implementation only: the model has no failing sink; the reference lines are Scrub's own, which the
    other stages judge)"""
    rng = ctx.rng
    texts = [b"connection from 198.51.100.113:54321 closed\nnext line 10.1.2.3 here\n", b"a [2001:db8:aaaa:bbbb:cccc:dddd:1:2]:443 b\nplain\n",
             b"1.2.3.4 5.6.7.8 9.10.11.12\nsecond 192.0.2.77:9\nthird\n", b"no address here\nnone here either\n"]
    for _ in range(6 if ctx.tier == "quick" else 60):
        texts.append(rand_stream(rng))
    cases = []
    for st in texts:
        if b"\n" not in st:
            continue
        first = st.index(b"\n") + 1
        ks = sorted(set([0, 1, 2, first // 2, first - 1, first] + [rng.randrange(0, first + 1) for _ in range(6)] + list(range(10, min(first, 60), 3))))
        rest = st[first:]
        for k in ks:
            tail = [rest + b"tail 203.0.113.9 end\n"] if rng.random() < 0.5 else [rest, b"tail 203.0.113.9 end\n"]
            cases.append("%s writef %d %s" % (AREA, k, ",".join(hx(c) for c in [st[:first]] + [c for c in tail if c])))
            cases.append("%s writef %d %s" % (AREA, k, ",".join(hx(c) for c in [st, b"more 192.0.2.1\n"])))
    rc, out, err = vlib.run_impl(exe, cases, timeout=300)
    out += ["!died"] * (len(cases) - len(out))
    for l, r in zip(cases, out):
        ctx.count(l[:300], kind="write-failing-sink")
        if r in ("ok", "nofail"):
            continue
        if r.startswith("partial"):
            ctx.violation("partial-line-after-sink-failure", "after a Write of the sink that took %s bytes and failed, the scrubber handed the sink a line that is "
                          "not the scrubbed form of a complete line of the input: %r (only complete lines are ever emitted; a line that starts "
                          "in the middle of an address shows the rest of it)" % (l.split(" ")[2], bytes.fromhex(r.split(" x")[1])[:120]),
                          dict(label="write-failing-sink", case=l[:4000], impl=r[:400]))
        else:
            ctx.violation("driver-crash", "safelog driver answered %s to a failing-sink case" % r[:200], dict(label="write-failing-sink", case=l[:4000]))


def run(ctx):
    ctx.trusted += ["harness/overlay/zz_verif/regex2coq (Go regexp/syntax parser -> Coq term) and the in-package pattern dump",
                    "Go's regexp engine: modelled by the leftmost-first backtracking matcher of coq/Model/Regex.v, tied by correspondence only",
                    "python's ipaddress module decides what counts as an address in the failing-input search",
                    "harness/overlay/zz_verif/wiring + <main>/zz_verif_c07_wiring_test.go: main() is run inside a test binary with "
                    "os.Stderr / os.Stdout replaced by files; what the probe lines show is the wiring of log.SetOutput for the exercised flag "
                    "sets; for broker / probetest a handler registered on http.DefaultServeMux by the helper makes net/http write to the "
                    "error log of the http.Server built in main()"]
    ctx.assumptions += ["model = coq/Model/{Regex,RegexIncl,Scrub}.v over the GENERATED coq/Gen/SafelogPatterns.v",
                        "lines of 3000-20000 bytes (kinds lwrite-implonly-*): every splitting is judged on the implementation only (no surviving "
                        "address, complete lines only, output independent of the write boundaries); the model is compared once per stream "
                        "(single Write) and case by case on lines up to 2000 bytes",
                        "buffer ownership: the driver's caller reuses one scratch array (overwritten with '7' after every Write) - a Write that "
                        "changes the caller's slice and restores it before returning is not observable",
                        "bytes >= 0x80 are single symbols of the class [^\\w:] (Go decodes runes; equal output because the delimiters are not consumed)"]
    changed = regenerate_patterns(ctx)
    ctx.extra["patterns_regenerated"] = bool(changed)
    if changed:
        vlib.log("coq/Gen/SafelogPatterns.v changed: re-checking dependants")
        ctx.proof = vlib.proof_status(ctx.cid)
    exe = vlib.go_build("./zz_verif/safelog")
    lines, kinds = [], []

    def add(l, k):
        lines.append(l)
        kinds.append(k)

    gen_scrub(ctx, add)
    ctx.correspond(exe, lines, kinds, label="scrub", prop=prop, key_of=key_of, crosscheck=12)
    pinned_witnesses(ctx, exe, [l for l in lines if all(b < 0x80 for b in unhex(l.split(" ")[2][1:] or "-"))])
    inclusion_counterword(ctx, exe)
    spec_vs_net(ctx, exe)
    event_strings(ctx, exe)
    log_wiring(ctx)
    # writes: output must not depend on the splitting
    lines, kinds, groups = [], [], {}
    gen_write(ctx, add, groups)
    gen_mid(ctx, add, groups, max(groups) + 1)
    model, impl = ctx.correspond(exe, lines, kinds, label="write", prop=prop, key_of=key_of, crosscheck=6)
    split_dependence(ctx, groups, dict(zip(lines, impl)), dict(zip(lines, model)), "write-split")
    long_lines(ctx, exe)
    failing_sink(ctx, exe)
    lines, kinds = [], []
    gen_conc(ctx, add)
    race = ctx.tier == "thorough"
    cexe = vlib.go_build("./zz_verif/safelog", race=True) if race else exe
    ctx.correspond(cexe, lines, kinds, label="concurrent-writers", prop=prop, key_of=key_of, crosscheck=3)
    ctx.extra["exact_expectations"] = len(EXACT)
    ctx.extra["coverage_predicate"] = dict(
        COVER_STATS, strict_dotted_run=STRICT_DOTTED,
        how="per complete line: the output is read in every possible way as the input with non-empty ranges replaced by "
            "the placeholder; every bounded address of the input (python ipaddress) must lie inside one replaced range in "
            "some reading (all but a final ':' when whitespace follows); occurrences that continue a dotted run "
            "(digit '.' before a dotted quad) are excluded as in C07_covers_all unless VERIF_C07_STRICT=1")
    # one violation of every distinct key first (the replay file keeps the first 20)
    seen, first, rest = set(), [], []
    for v in ctx.violations:
        (rest if v["key"] in seen else first).append(v)
        seen.add(v["key"])
    ctx.violations[:] = first + rest
    ctx.extra["violation_keys"] = sorted(seen)


def replay(ctx, doc):
    regenerate_patterns(ctx)
    vlib.coq_build()
    exe = vlib.go_build("./zz_verif/safelog")
    bad = 0
    for v in doc.get("violations", []):
        rp = v["replay"]
        if rp.get("label") == "log-wiring":
            b = rp["binary"]
            res = wiring_variant(vlib.go_test_build(WIRING[b][0], name="c07_wiring_%s.test" % b), b, rp["unsafe"], rp["log"], rp["verbose"],
                                 rp.get("http", ""))
            viol = judge_wiring(res)[0] if "sinks" in res else []
            print("case: %s\n property: %s" % (rp["case"], viol[0][1] if viol else res.get("error", "holds")))
            bad += 1 if viol else 0
            continue
        if rp.get("label") == "event-strings":
            rc, r, err = vlib.run_impl(exe, [rp["case"]])
            m = re.fullmatch(r"e=(\S+) o=(\S+) b=(\S+) f=(\S+)", r[0] if r else "")
            print("case: %s\n impl:  %s" % (rp["case"][:300], (r[0] if r else "!died")[:600]))
            if m:
                etxt = unhex(m.group(1))
                for t, g in zip("obf", m.groups()[1:]):
                    lk = leaks(EVENT_PREFIX[t][1] + etxt, unhex(g))
                    print(" %s event: %r: %s" % (EVENT_PREFIX[t][0], unhex(g).decode("latin1"), lk[1] if lk else "holds"))
                    bad += 1 if lk else 0
            continue
        for case in (v["replay"].get("case"), v["replay"].get("other")):
            if not case:
                continue
            m = "(implementation only)" if case.split(" ")[1] == "lwrite" else vlib.run_model([case])[0]
            rc, r, err = vlib.run_impl(exe, [case])
            r = r[0] if r else "!died"
            p = prop(case, r, m)
            print("case: %s\n model: %s\n impl:  %s\n property: %s" % (case[:300], m[:300], r[:300], p or "holds (on this case alone)"))
            bad += 1 if p else 0
        if v["replay"].get("other"):
            a, b = v["replay"]["case"], v["replay"]["other"]
            rc, r, err = vlib.run_impl(exe, [a, b])
            if len(r) == 2 and r[0] != r[1]:
                print("split dependence reproduced: %s vs %s" % (r[0][:200], r[1][:200]))
                bad += 1
    return 1 if bad else 0
