"""C17 — turbotunnel packet adapters (common/turbotunnel): QueuePacketConn, ClientMap (over
container/heap), RedialPacketConn.  Model: coq/Model/{GoHeap,ClientMap,QueueConn,Redial}.v."""
import itertools
import os
import vlib

AREA = "turbotunnel"
KEY_LEAK_W = "redial-writer-fails-first-leak"
KEY_LEAK_R = "redial-reader-blocked-leak"
KEY_OVERLAP = "redial-carrier-overlap"
KEY_CAP = "redial-error-without-close-or-dial-failure"
QCAP = 2048        # queueSize of common/turbotunnel/consts.go (unexported; a different value shows as a mismatch)


# ------------------------------------------------------------------ container/heap

def gen_heap(ctx):
    rng = ctx.rng
    lines, kinds = [], []
    vals = [-2, -1, 0, 0, 1, 1, 2, 3, 5, 7]
    def seq(n, small):
        ops, size = [], 0
        for _ in range(n):
            c = rng.random()
            if size == 0 or c < 0.45:
                ops.append("p%d" % (rng.choice(vals) if small else rng.randrange(-50, 50))); size += 1
            elif c < 0.6:
                ops.append("o"); size -= 1
            elif c < 0.75:
                ops.append("r%d" % rng.randrange(size)); size -= 1
            elif c < 0.9:
                ops.append("f%d:%d" % (rng.randrange(size), rng.choice(vals) if small else rng.randrange(-50, 50)))
            elif c < 0.97:
                ops.append("a%d" % rng.choice(vals)); size += 1
            else:
                ops.append("n")
        return ",".join(ops)
    for i in range(300 if ctx.tier == "quick" else 3000):
        lines.append("%s heap %s" % (AREA, seq(rng.choice([3, 8, 20, 60]), i % 2 == 0))); kinds.append("heap-random")
    # exhaustive: every permutation of 5 distinct keys pushed, then popped / removed at every index / fixed
    for perm in itertools.permutations([1, 2, 3, 4, 5]):
        push = ",".join("p%d" % v for v in perm)
        lines.append("%s heap %s,o,o,o,o,o" % (AREA, push)); kinds.append("heap-exh-pop")
    for perm in itertools.permutations([1, 2, 3, 4]):
        raw = ",".join("a%d" % v for v in perm)
        lines.append("%s heap %s,n,o,o,o,o" % (AREA, raw)); kinds.append("heap-exh-init")
        push = ",".join("p%d" % v for v in perm)
        for i in range(4):
            lines.append("%s heap %s,r%d,o,o,o" % (AREA, push, i)); kinds.append("heap-exh-remove")
            for v in (0, 5):
                lines.append("%s heap %s,f%d:%d,o,o,o,o" % (AREA, push, i, v)); kinds.append("heap-exh-fix")
    return lines, kinds


def prop_heap(line, impl, model):
    if impl.startswith("!"):
        return "container/heap driver: " + impl[:100]
    ops = line.split(" ")[2].split(",")
    outs = impl.split(",")
    if len(outs) != len(ops):
        return "malformed answer"
    raw = False
    for o, r in zip(ops, outs):
        popped = None
        if ">" in r:
            popped, r = r.split(">")
        arr = [] if r == "e" else [int(x) for x in r.split(";")]
        if o[0] == "a":
            raw = True
        if o == "n":
            raw = False
        if not raw:
            for j in range(1, len(arr)):
                if arr[j] < arr[(j - 1) // 2]:
                    return "heap order broken after %s: %s" % (o, r)
            if o == "o" and popped is not None and arr and int(popped) > min(arr):
                return "Pop returned %s but %d remained" % (popped, min(arr))
    return None


# ------------------------------------------------------------------ clientMapInner, explicit clock

def gen_cm(ctx):
    rng = ctx.rng
    lines, kinds = [], []
    n = 500 if ctx.tier == "quick" else 5000
    for i in range(n):
        T = rng.choice([1, 2, 5, 10, 10, 10, 100])
        naddr = rng.choice([1, 2, 3, 3, 4, 6, 12])
        now = rng.choice([0, 0, 5, -20])
        ops = []
        for _ in range(rng.choice([2, 5, 10, 25, 60])):
            c = rng.random()
            if i % 7 == 3:
                now += rng.choice([-3, -1, 0, 1, 2, T])      # non-monotonic clock
            else:
                now += rng.choice([0, 0, 1, 1, 2, T // 2, T - 1, T, T + 1])
            if c < 0.7:
                ops.append("s%d@%d" % (rng.randrange(naddr), now))
            else:
                ops.append("e%d" % now)
        lines.append("%s cm %d %s" % (AREA, T, ",".join(ops))); kinds.append("cm-random")
    # exhaustive short sequences: 2 addresses, times on the expiry boundary
    alpha = ["s0@0", "s1@0", "s0@5", "s1@5", "s0@9", "s1@10", "e9", "e10", "e11", "e15", "e20"]
    L = 3 if ctx.tier == "quick" else 4
    for k in range(1, L + 1):
        for seq in itertools.product(alpha, repeat=k):
            lines.append("%s cm 10 %s" % (AREA, ",".join(seq))); kinds.append("cm-exhaustive")
    # three records with equal / distinct ages, every order, then sweeps
    for perm in itertools.permutations([0, 1, 2]):
        for times in ([0, 0, 0], [0, 1, 2], [2, 1, 0], [1, 0, 1]):
            s = ",".join("s%d@%d" % (a, t) for a, t in zip(perm, times))
            lines.append("%s cm 10 %s,s%d@7,e10,e11,e12,e17" % (AREA, s, perm[0])); kinds.append("cm-exh-three")
    return lines, kinds


def parse_cm_state(tok):
    if tok.startswith("q"):
        q, tok = tok.split("/", 1)
        q = int(q[1:])
    else:
        q = None
    ages, addrs, dead = tok.split("/")
    ages = [] if ages == "e" else [tuple(int(x) for x in r.split(".")) for r in ages.split(";")]
    addrs = {} if addrs == "e" else {int(a): int(i) for a, i in (e.split("=") for e in addrs.split(";"))}
    dead = set() if dead == "e" else set(int(x) for x in dead.split(";"))
    return q, ages, addrs, dead


def prop_cm(line, impl, model):
    if impl.startswith("!"):
        return "client map driver: " + impl[:200]
    a = line.split(" ")
    T = int(a[2])
    ops = a[3].split(",")
    outs = impl.split(",")
    if len(outs) != len(ops):
        return "malformed answer"
    prev = []          # list of (addr, seen, qid)
    prev_dead = set()
    maxq = -1
    for o, r in zip(ops, outs):
        q, ages, addrs, dead = parse_cm_state(r)
        # byAddr a = i <-> byAge[i].addr = a
        if len(addrs) != len(ages) or any(addrs.get(rec[0]) != i for i, rec in enumerate(ages)):
            return "index: byAddr and byAge disagree after %s: %s" % (o, r)
        before = {rec[0]: rec for rec in prev}
        after = {rec[0]: rec for rec in ages}
        if o[0] == "s":
            ad, now = (int(x) for x in o[1:].split("@"))
            if ad not in after or after[ad][1] != now or after[ad][2] != q:
                return "lost: SendQueue(%d) did not leave a record seen at %d: %s" % (ad, now, r)
            if ad in before and before[ad][2] != q:
                return "lost: SendQueue(%d) replaced the live queue" % ad
            if ad not in before and q <= maxq:
                return "lost: SendQueue(%d) handed out an old queue" % ad
            for k, rec in before.items():
                if k != ad and after.get(k) != rec:
                    return "lost: SendQueue(%d) disturbed the record of %d" % (ad, k)
            if dead != prev_dead:
                return "early: SendQueue closed a queue"
        else:
            now = int(o[1:])
            for k, rec in before.items():
                if now - rec[1] < T:
                    if after.get(k) != rec:
                        return "early: client %d seen %d before the sweep at %d (timeout %d) was discarded" % (k, now - rec[1], now, T)
                    if rec[2] in dead:
                        return "early: queue of live client %d was closed" % k
                else:
                    if k in after:
                        return "late: client %d idle for %d >= %d survived the sweep at %d" % (k, now - rec[1], T, now)
                    if rec[2] not in dead:
                        return "late: queue of discarded client %d was not closed" % k
            if set(after) - set(before):
                return "sweep created a record"
        maxq = max([maxq] + [rec[2] for rec in ages])
        prev, prev_dead = ages, dead
    return None


def key_cm(line, impl, model):
    p = prop_cm(line, impl, model) or ""
    return "clientmap-" + (p.split(":")[0] if ":" in p else "other")


# ------------------------------------------------------------------ clientMapInner with MANY clients (count boundaries of a sweep)

def gen_cmb(ctx):
    """explicit-clock histories in which a LARGE number of records (1025, 2048, 2049, 5000: above any plausible batch
    size) is expired at ONE sweep: none may remain after that sweep, and the records that are not expired stay.
    Returns (model-tied lines, implementation-only lines): the model's assoc-list heap is quadratic per sweep, the
    biggest cases are evaluated by the predicate alone in the quick tier."""
    rng = ctx.rng
    tied, alone = [], []
    def add(T, ops, n):
        line = "%s cmb %d %s" % (AREA, T, ",".join(ops))
        # quick tier: the model runs the cases just above the boundary 1024 (a few seconds each); the others are judged by
        # the predicate alone; thorough tier: everything up to 2049 records is tied (5000: a minute and a half per sweep in the model)
        (tied if (n == 1025 or (ctx.tier == "thorough" and n <= 2100)) else alone).append(line)
    T = 10
    for n in (1023, 1024, 1025, 1026, 2048, 2049, 5000):
        # all seen at one instant; swept just before, at and after the expiry instant; then seen again (new queues)
        add(T, ["S0-%d@0:1" % (n - 1), "e9", "e10", "S0-%d@11:1" % min(n - 1, 2), "e30"], n)
    for n in (1025, 2048, 5000):
        # ages spread over 0..m-1 (a real heap order): the sweep at T+m-1 expires every record, the one at T+m//2 only
        # those seen up to m//2: the others stay, with their queues open
        m = rng.choice([3, 7, 16])
        add(T, ["S0-%d@0:%d" % (n - 1, m), "e%d" % (T - 1), "e%d" % (T + m // 2), "e%d" % (T + m - 1)], n)
        # a few clients kept busy among many that leave: only the idle ones go, all of them at once
        k = rng.randrange(2, 9)
        busy = sorted(rng.sample(range(n), k))
        add(T, ["S0-%d@0:1" % (n - 1)] + ["s%d@%d" % (a, 6) for a in busy] + ["e10"] + ["s%d@%d" % (a, 12) for a in busy[:2]] + ["e16", "e22"], n)
    # two generations: the second arrives while the first is still live; each goes at its own sweep, whole
    n = rng.choice([1025, 1500, 2048])
    add(T, ["S0-%d@0:1" % (n - 1), "S%d-%d@5:1" % (n, 2 * n - 1), "e10", "e14", "e15"], 2 * n + 1)
    return tied, alone


def parse_ranges_set(t):
    return set(parse_ranges(t))


def prop_cmb(line, impl, model):
    """reference monitor on the summaries: after every operation the set of addresses in the map and the set of closed
    queues are exactly what retention says (kept while now - last_seen < timeout at a sweep, removed and closed otherwise)"""
    if impl.startswith("!"):
        return "other: client map driver: " + impl[:200]
    a = line.split(" ")
    T = int(a[2])
    ops = a[3].split(",")
    outs = impl.split(",")
    if len(outs) != len(ops):
        return "other: malformed answer"
    live, dead, nextq = {}, set(), 0          # addr -> [seen, qid]
    for idx, (o, r) in enumerate(zip(ops, outs)):
        if o[0] == "S":
            rg, tm = o[1:].split("@")
            lo, hi = (int(x) for x in rg.split("-"))
            now, m = (int(x) for x in tm.split(":"))
            sends = [(ad, now + ad % m) for ad in range(lo, hi + 1)]
        elif o[0] == "s":
            ad, now = (int(x) for x in o[1:].split("@"))
            sends = [(ad, now)]
        else:
            sends = []
            now = int(o[1:])
            for ad in [ad for ad, rec in live.items() if now - rec[0] >= T]:
                dead.add(live[ad][1])
                del live[ad]
        for ad, t in sends:
            if ad not in live:
                live[ad] = [t, nextq]
                nextq += 1
            live[ad][0] = t
        try:
            if r.endswith("!index"):
                return "index: byAddr and byAge disagree after op %d (%s)" % (idx, o)
            cnt, la, dq = r.split("/")
            got_live, got_dead = parse_ranges_set(la), parse_ranges_set(dq)
            cnt = int(cnt[1:])
        except ValueError:
            return "other: malformed answer " + r[:80]
        where = "after op %d (%s)" % (idx, o)
        late = got_live - set(live)
        if late:
            return ("late: %d client(s) idle for the whole timeout %d are still in the map %s, e.g. client %d (%d records were "
                    "due at this sweep)" % (len(late), T, where, min(late), len(late) + len(dead & got_dead)))
        early = set(live) - got_live
        if early:
            return "early: %d client(s) seen less than the timeout ago were discarded %s, e.g. client %d" % (len(early), where, min(early))
        if cnt != len(live):
            return "index: %d records for %d addresses %s" % (cnt, len(live), where)
        if dead - got_dead:
            return "late: %d queue(s) of discarded clients were not closed %s, e.g. queue %d" % (len(dead - got_dead), where, min(dead - got_dead))
        if got_dead - dead:
            return "early: %d queue(s) of live clients were closed %s, e.g. queue %d" % (len(got_dead - dead), where, min(got_dead - dead))
    return None


def key_cmb(line, impl, model):
    p = prop_cmb(line, impl, model) or ""
    return "clientmap-" + (p.split(":")[0] if ":" in p else "other")


# ------------------------------------------------------------------ outgoing queues with contents, explicit clock (qm)

def gen_qm(ctx, cap):
    """histories of WriteTo / OutgoingQueue+receive / held receive / sweep with chosen clock readings, with
    QueueIncoming / ReadFrom / Close interleaved: the model's qstep (every operation) against a real
    QueuePacketConn whose client map has no sweeper of its own (in-package driver, no sleeping)"""
    rng = ctx.rng
    lines, kinds = [], []
    def add(T, ops, kind):
        lines.append("%s qm %d %d %s" % (AREA, cap, T, chunked(ops))); kinds.append(kind)
    n = 400 if ctx.tier == "quick" else 4000
    for i in range(n):
        T = rng.choice([1, 2, 5, 10, 10, 10, 100])
        naddr = rng.choice([1, 2, 2, 3, 4, 6])
        now = rng.choice([0, 0, 5, -20])
        ops, nq = [], 0
        for _ in range(rng.choice([3, 6, 12, 25, 60])):
            c = rng.random()
            if i % 7 == 3:
                now += rng.choice([-3, -1, 0, 1, 2, T])      # non-monotonic clock
            else:
                now += rng.choice([0, 0, 0, 1, 1, 2, T // 2, T - 1, T, T + 1])
            if c < 0.45:
                ops.append("w%d:%s@%d" % (rng.randrange(naddr), rpayload(rng), now)); nq += 1
            elif c < 0.62:
                ops.append("o%d@%d" % (rng.randrange(naddr), now)); nq += 1
            elif c < 0.74:
                ops.append("h%d" % rng.randrange(min(nq, 8) + 1))
            else:
                ops.append("e%d" % now)
            # every third history also uses the receive side and closes the conn somewhere (possibly twice)
            if i % 3 == 1:
                d = rng.random()
                if d < 0.15:
                    ops.append("i%d:%s" % (rng.randrange(naddr), rpayload(rng)))
                elif d < 0.27:
                    ops.append("r%d" % rng.choice([0, 1, 2, 64, 64]))
                elif d < 0.33:
                    ops.append("c")
        add(T, ops, "qm-random-close" if i % 3 == 1 else "qm-random")
    # exhaustive short histories: two addresses, instants on the expiry boundary (timeout 10), after a
    # prefix that leaves packets queued for both
    pre = ["w0:x01@0", "w0:x02@0", "w1:x03@1"]
    alpha = ["w0:x0a@5", "w1:x0b@9", "o0@9", "o1@11", "h0", "h1", "e9", "e10", "e11", "e15", "e19", "e25"]
    L = 3 if ctx.tier == "quick" else 4
    for k in range(1, L + 1):
        for seq in itertools.product(alpha, repeat=k):
            add(10, pre + list(seq) + ["o0@30", "o1@30", "h0", "h1"], "qm-exhaustive")
    # Close at every position of short histories (timeout 10): after it WriteTo fails and leaves the map alone (the
    # record is NOT refreshed, so the next sweep past last_seen + timeout removes the client although it was "written"),
    # OutgoingQueue / held receives / sweeps go on as before, QueueIncoming drops, ReadFrom and a second Close fail
    calpha = ["w0:x0a@5", "w1:x0b@9", "o0@9", "o1@12", "h0", "e10", "e11", "e19", "i0:x21", "r64", "c"]
    for k in range(1, 3):
        for seq in itertools.product(calpha, repeat=k):
            for pos in range(k + 1):
                add(10, pre + ["i1:x20"] + list(seq[:pos]) + ["c"] + list(seq[pos:]) + ["w0:x0c@9", "e12", "o0@30", "o1@30", "h0", "h1", "r64", "c"],
                    "qm-close-exhaustive")
    # the periodic sweeper's schedule (period = timeout/2, every phase): a client written once, another
    # kept busy; kept with its packets at every tick before last_seen + timeout, gone at the first after
    T = 10
    for phase in range(0, 5):
        for t0 in range(phase, phase + 6):
            ops = ["w1:x11@%d" % t0, "w1:x12@%d" % t0, "w2:x21@%d" % t0]
            for k in range(1, 6):
                tick = phase + 5 * k
                if tick < t0:
                    continue
                ops += ["e%d" % tick, "w2:x22@%d" % tick, "h0"] if k % 2 else ["e%d" % tick, "o2@%d" % tick]
            ops += ["o1@%d" % (phase + 30)]
            add(T, ops, "qm-ticker")
    # capacity: a full queue drops, survives sweeps that do not expire it with every packet in place,
    # and goes with the queue at expiry (the closed channel still holds the packets; the new queue is empty)
    for extra in (0, 2):
        fill = ["w1:g2.%d@%d" % (j % 251, j % 3) for j in range(cap + extra)]
        mid = ["e5", "w2:x77@6", "e9", "o1@9", "o1@9", "e12", "w1:xfe@13", "e18"]
        drain = ["o1@%d" % (19 + (j % 2)) for j in range(cap + 1)]
        add(10, fill + mid + drain, "qm-full-kept")
        fill = ["w1:g2.%d@0" % (j % 251) for j in range(cap + extra)]
        add(10, fill + ["e9", "h0", "e10", "h0", "h0", "o1@11", "w1:x55@11", "o1@12", "o1@12"] + ["h0"] * 5, "qm-full-expired")
    return lines, kinds


def render_q(q):
    if len(q) <= 6:
        return "+".join("x" + p for p in q) if q else "e"
    return "x%s+x%s+#%d+x%s" % (q[0], q[1], len(q), q[-1])


def prop_qm(line, impl, model):
    """Reference monitor for the retention and FIFO clauses of C17, evaluated on the implementation's
    answers: per address a queue with identity and contents; kept with its contents while
    now - last_seen < timeout at a sweep, removed and closed (with what is left in it) otherwise;
    FIFO per queue; a new, empty queue after an expiry."""
    if impl.startswith("!"):
        return "other: outgoing queue driver: " + impl[:200]
    a = line.split(" ")
    cap, T = int(a[2]), int(a[3])
    ops = qc_ops(" ".join(a[:3] + a[4:]))
    outs = impl.split(",")
    if len(outs) != len(ops):
        return "other: malformed answer"
    live, dead, nextq = {}, {}, 0      # addr -> [seen, qid, contents]; qid -> contents
    inq, closed = [], False            # the receive queue; Close() was called
    unrefreshed, pending = {}, None    # addr -> instant the record kept although WriteTo was called later (driver: "touched" = what WriteTo itself did)
    for idx, (o, tok) in enumerate(zip(ops, outs)):
        try:
            res, lv, dd = tok.split("/")
        except ValueError:
            return "other: malformed answer " + tok[:80]
        want = None
        if o[0] == "w" and closed:
            want = "E"                 # fails, and the map is left alone (checked below: nothing created, nothing refreshed)
        elif o == "c":
            want = "E" if closed else "ok"
            closed = True
        elif o[0] == "i":
            ad, p = o[1:].split(":")
            if not closed and len(inq) < cap:
                inq.append((expand(p), ad))
            want = "-"
        elif o[0] == "r":
            n = int(o[1:])
            if closed:
                want = "E"
            elif not inq:
                want = "B"
            else:
                p, ad = inq.pop(0)
                want = "x%s@%s" % (p[:2 * n], ad)
        elif o[0] in "wo":
            body, now = o[1:].rsplit("@", 1)
            now = int(now)
            ad = int(body.split(":")[0])
            if ad not in live:
                live[ad] = [now, nextq, []]
                nextq += 1
            rec = live[ad]
            rec[0] = now
            if o[0] == "w":
                p = expand(body.split(":", 1)[1])
                if len(rec[2]) < cap:
                    rec[2].append(p)
                want = "n%d" % (len(p) // 2)
            else:
                want = "x" + rec[2].pop(0) if rec[2] else "B"
        elif o[0] == "h":
            k = int(o[1:])
            owner = [r for r in live.values() if r[1] == k]
            if owner:
                want = "x" + owner[0][2].pop(0) if owner[0][2] else "B"
            elif k in dead:
                want = "D"
            else:
                want = "B"
        elif o[0] == "e":
            now = int(o[1:])
            want = "-"
            for ad in sorted(live):
                if now - live[ad][0] >= T:
                    dead[live[ad][1]] = live[ad][2]
                    del live[ad]
        where = "after op %d (%s)" % (idx, o)
        # the map, as the implementation shows it
        got_live = {}
        if lv != "e":
            for item in lv.split(";"):
                if item.startswith("!"):
                    return "other: the map is inconsistent %s: %s" % (where, lv[:120])
                head, cont = item.split("=", 1)
                ad, seen, q = head.split(".")
                got_live[int(ad)] = (int(seen), int(q), cont)
        got_dead = {}
        if dd != "e":
            for item in dd.split(";"):
                got_dead[int(item.split("!")[0])] = item
        if closed and o[0] == "w":
            ad = int(o[1:].split(":")[0])
            if (ad in got_live) != (ad in live) or (ad in live and got_live[ad][0] != live[ad][0] and unrefreshed.get(ad) != got_live[ad][0]):
                return "after-close: WriteTo on the closed conn touched the client map (client %d: %s) %s" % (
                    ad, "record created" if ad not in live else "last seen %d, was %d" % (got_live[ad][0], live[ad][0]), where)
        for ad, rec in live.items():
            if ad not in got_live:
                if o[0] == "e":
                    return "early-removal: client %d, seen %d before the sweep at %s (timeout %d), was discarded with %d packet(s) queued" % (
                        ad, int(o[1:]) - rec[0], o[1:], T, len(rec[2]))
                return "contents-lost: client %d has no queue %s" % (ad, where)
            seen, q, cont = got_live[ad]
            if cont == "!closed":
                return "early-removal: the queue of live client %d was closed %s" % (ad, where)
            if q != rec[1]:
                return "contents-lost: client %d's queue was replaced (queue %d, expected %d) %s" % (ad, q, rec[1], where)
            if cont != render_q(rec[2]):
                return "contents-lost: client %d's queue holds %s, expected %s %s" % (ad, cont[:60], render_q(rec[2])[:60], where)
            if seen != rec[0]:
                if (o[0] == "o" or (o[0] == "w" and not closed)) and int(o[1:].rsplit("@", 1)[0].split(":")[0]) == ad and seen < rec[0]:
                    unrefreshed[ad] = seen
                    if pending is None:
                        pending = ("early-removal: %s for client %d at %d left the client's record at last seen %d (being written to, "
                                   "and having the queue fetched, both count as being seen): a sweep between %d and %d discards the queue "
                                   "less than the timeout %d after the client was seen %s" % (
                                       "WriteTo" if o[0] == "w" else "OutgoingQueue", ad, rec[0], seen, seen + T, rec[0] + T - 1, T, where))
                elif unrefreshed.get(ad) != seen:
                    return "other: client %d last seen %d, expected %d %s" % (ad, seen, rec[0], where)
            else:
                unrefreshed.pop(ad, None)
        for ad in got_live:
            if ad not in live:
                if o[0] == "e":
                    return "late: client %d survived the sweep at %s although idle for the timeout %d" % (ad, o[1:], T)
                return "late: client %d is in the map %s, expected to be gone" % (ad, where)
        for k, q in dead.items():
            if k not in got_dead:
                return "late: queue %d of a discarded client is not accounted for as closed %s" % (k, where)
            if got_dead[k].endswith("!open"):
                return "late: queue %d of a discarded client was not closed %s" % (k, where)
        for k in got_dead:
            if k not in dead:
                return "early-removal: queue %d was closed %s" % (k, where)
        if res != want:
            if closed and (o[0] in "wr" or o == "c"):
                return "after-close: %s answered %s, expected %s (WriteTo, ReadFrom and Close fail once the conn is closed)" % (where, res[:40], want[:40])
            if o[0] in "ir":
                return "fifo: %s answered %s, expected %s (receive queue: first-in-first-out, drop when full)" % (where, res[:40], want[:40])
            return "contents-lost: %s answered %s, expected %s (first-in-first-out per queue)" % (where, res[:40], want[:40])
    return pending


def key_qm(line, impl, model):
    p = prop_qm(line, impl, model) or ""
    return "clientmap-" + (p.split(":")[0] if ":" in p else "other")


# ------------------------------------------------------------------ QueuePacketConn, black box

def rpayload(rng):
    n = rng.choice([0, 1, 1, 2, 3, 8])
    return "x" + "".join("%02x" % rng.randrange(256) for _ in range(n))


def chunked(ops, n=250):
    """space separated fields of at most n ops (the model's field splitter is quadratic)"""
    if not ops:
        return "-"
    return " ".join(",".join(ops[i:i + n]) for i in range(0, len(ops), n))


def qc_ops(line):
    ops = []
    for f in line.split(" ")[3:]:
        if f != "-":
            ops += f.split(",")
    return ops


def gen_qc(ctx, cap):
    rng = ctx.rng
    lines, kinds = [], []
    n = 400 if ctx.tier == "quick" else 4000
    for i in range(n):
        naddr = rng.choice([1, 2, 3, 5])
        ops = []
        inq = 0
        closed = False
        blocks = 0
        for _ in range(rng.choice([3, 8, 20, 50])):
            c = rng.random()
            if c < 0.3:
                ops.append("i%d:%s" % (rng.randrange(1, naddr + 1), rpayload(rng)))
                if not closed:
                    inq += 1
            elif c < 0.5:
                if inq == 0 and not closed:
                    if blocks >= 2:
                        continue
                    blocks += 1
                ops.append("r%d" % rng.choice([0, 1, 2, 64, 64, 64]))
                inq = max(0, inq - 1)
            elif c < 0.75:
                ops.append("w%d:%s" % (rng.randrange(1, naddr + 1), rpayload(rng)))
            elif c < 0.95:
                ops.append("o%d" % rng.randrange(1, naddr + 1))
            else:
                ops.append("c"); closed = True
        lines.append("%s qc %d %s" % (AREA, cap, chunked(ops))); kinds.append("qc-random")
    # exhaustive short sequences over a small alphabet
    alpha = ["i1:x01", "i2:x02", "r64", "w1:x03", "w2:x04", "o1", "o2", "c"]
    for k in (1, 2, 3):
        for seq in itertools.product(alpha, repeat=k):
            if sum(1 for s in seq if s == "r64") > 2:
                continue
            lines.append("%s qc %d %s" % (AREA, cap, ",".join(seq))); kinds.append("qc-exhaustive")
    # capacity: fill beyond the bound, drain; per address
    for extra in (0, 1, 3):
        fill = ["i%d:g2.%d" % (1 + j % 3, j % 251) for j in range(cap + extra)]
        drain = ["r64"] * (cap + 1)
        lines.append("%s qc %d %s" % (AREA, cap, chunked(fill + drain))); kinds.append("qc-recv-full")
        fill = ["w%d:g2.%d" % (1 if j % 5 else 2, j % 251) for j in range(cap + cap // 4 + extra)]
        drain = ["o1"] * (cap + 1) + ["o2"] * 3
        lines.append("%s qc %d %s" % (AREA, cap, chunked(fill + drain))); kinds.append("qc-send-full")
    reps = 2 if ctx.tier == "quick" else 10
    for _ in range(reps):
        ops = []
        for j in range(cap + 5):
            ops.append("i1:g3.%d" % (j % 256))
            if rng.random() < 0.02:
                ops.append("r64")
        ops += ["r2"] * 5 + ["c", "r64", "i1:x00", "r64"]
        lines.append("%s qc %d %s" % (AREA, cap, chunked(ops))); kinds.append("qc-recv-full")
    return lines, kinds


def expand(spec):
    if spec[0] == "x":
        return spec[1:]
    n, a = spec[1:].split(".")
    return "".join("%02x" % ((int(a) + i) & 255) for i in range(int(n)))


def prop_qc(line, impl, model):
    """Reference monitor: the statement of C17 for the queue connection, evaluated on the
    implementation's answers (FIFO per address, drop when full, values intact, fail after Close)."""
    if impl.startswith("!"):
        return "block: queue connection driver: " + impl[:200]
    a = line.split(" ")
    cap = int(a[2])
    ops = qc_ops(line)
    outs = impl.split(",") if ops else []
    if len(outs) != len(ops):
        return "other: malformed answer"
    inq, outq, closed = [], {}, False
    for idx, (o, r) in enumerate(zip(ops, outs)):
        if r.startswith("!"):
            return "block: operation %d (%s) did not return as specified: %s" % (idx, o, r)
        if o[0] == "i":
            ad, p = o[1:].split(":")
            if not closed and len(inq) < cap:
                inq.append((expand(p), ad))
        elif o[0] == "r":
            n = int(o[1:])
            if closed:
                if r != "E":
                    return "after-close: ReadFrom after Close answered %s" % r
            elif not inq:
                if r != "B":
                    return "fifo: ReadFrom on an empty queue answered %s" % r
            else:
                p, ad = inq.pop(0)
                want = "x%s@%s" % (p[:2 * n], ad)
                if r != want:
                    if r == "B":
                        return "fifo: queued packet %s was not delivered" % want
                    return "fifo: ReadFrom answered %s, the oldest queued packet is %s" % (r, want)
        elif o[0] == "w":
            ad, p = o[1:].split(":")
            p = expand(p)
            if closed:
                if r != "E":
                    return "after-close: WriteTo after Close answered %s" % r
            else:
                if r != "n%d" % (len(p) // 2):
                    return "error: WriteTo answered %s" % r
                q = outq.setdefault(ad, [])
                if len(q) < cap:
                    q.append(p)
        elif o[0] == "o":
            ad = o[1:]
            q = outq.setdefault(ad, [])
            if not q:
                if r != "B":
                    return "fifo: outgoing queue of %s is empty but answered %s" % (ad, r)
            else:
                p = q.pop(0)
                if r != "x" + p:
                    return "fifo: outgoing queue of %s answered %s, the oldest packet is x%s" % (ad, r, p)
        elif o == "c":
            if r != ("E" if closed else "ok"):
                return "after-close: Close answered %s" % r
            closed = True
    return None


def key_qc(line, impl, model):
    p = prop_qc(line, impl, model) or ""
    return "queueconn-" + (p.split(":")[0] if ":" in p else "other")


# ------------------------------------------------------------------ RedialPacketConn

def gen_redial(ctx):
    rng = ctx.rng
    lines, kinds = [], []
    def add(toks, k, op="redial"):
        lines.append("%s %s 1 %s" % (AREA, op, ",".join(toks))); kinds.append(k)
    # the documented leak shapes
    add(["D1", "W", "w0:0", "D1", "W", "w1:0", "C"], "redial-writer-first")
    add(["D1", "W", "r0:0", "D1", "W", "r1:0", "C"], "redial-reader-first-writer-parked")
    add(["D1", "r0:0", "D1", "r1:0", "D1", "C"], "redial-reader-first")
    add(["D1", "C"], "redial-close")
    add(["D0", "W", "R", "C"], "redial-dial-fails")
    add(["D1", "r0:1", "r0:1", "R", "R", "R", "W", "w0:1", "W", "w0:1", "r0:0", "D0", "W", "R", "R", "C"], "redial-traffic")
    # long runs of carriers that fail at once (reader side, writer side, alternating), then a healthy one: the adapter
    # redials as long as dialling succeeds, however many carriers failed and however quickly
    for n in ([40, 70] if ctx.tier == "quick" else [33, 40, 70, 150]):
        for how in ("r", "w", "rw"):
            toks = []
            for k in range(n):
                side = how if how != "rw" else "rw"[k % 2]
                toks += ["D1"] + (["W", "w%d:0" % k] if side == "w" else ["r%d:0" % k])
            toks += ["D1", "W", "w%d:1" % n, "r%d:1" % n, "R", "C"]
            add(toks, "redial-many-quick-failures")
    # Close() DURING a dial that then succeeds (the first dial, a redial after the reader / the writer failed, after
    # traffic): the carrier that dial hands over must be closed like every other ("closes every carrier it obtained")
    for pre in ([], ["W"], ["D1", "r0:0"], ["D1", "W", "w0:0"], ["D1", "r0:1", "R", "W", "w0:1", "r0:0"], ["D1", "r0:0", "D1", "W", "w1:0"]):
        for post in ([], ["W", "R"], ["D1"], ["C"]):
            add(pre + ["C", "D1"] + post, "redial-close-during-dial")
            add(pre + ["C", "D1"] + post, "redial-close-during-dial", "redials")
            if pre[:1] == ["D1"]:
                # carriers whose Close takes time: the finished carrier's Close returns first (K), the late carrier's last
                k = sum(1 for t in pre if t == "D1")
                slow = []
                nk = 0
                for t in pre:
                    slow.append(t)
                    if t in ("r%d:0" % nk, "w%d:0" % nk):
                        slow.append("K%d" % nk); nk += 1
                add(slow + ["C", "D1"] + post + ["K%d" % k], "redial-close-during-dial", "redials")
    # exhaustive short scripts; <cur> = the carrier dialed last
    alpha = ["D1", "W", "r:0", "w:0", "w:1", "C", "D0", "r:1"]
    L = 4 if ctx.tier == "quick" else 5
    for k in range(1, L + 1):
        for seq in itertools.product(alpha[:6] if k == L else alpha, repeat=k):
            cur, toks = -1, []
            for t in seq:
                if t == "D1":
                    cur += 1
                if ":" in t:
                    if cur < 0:
                        break
                    t = "%s%d:%s" % (t[0], cur, t[2])
                toks.append(t)
            else:
                if toks[0] in ("D1", "D0", "C", "W"):
                    add(toks, "redial-exhaustive")
    for i in range(200 if ctx.tier == "quick" else 3000):
        cur, toks = -1, []
        for _ in range(rng.choice([4, 8, 16, 30])):
            c = rng.random()
            if c < 0.25:
                toks.append("D1"); cur += 1
            elif c < 0.28:
                toks.append("D0")
            elif c < 0.45:
                toks.append("W")
            elif c < 0.5:
                toks.append("R")
            elif c < 0.53:
                toks.append("C")
            elif cur >= 0:
                k = cur if rng.random() < 0.85 else rng.randrange(cur + 1)
                toks.append("%s%d:%d" % (rng.choice("rw"), k, rng.choice([0, 0, 1])))
        if toks:
            add(toks, "redial-random")
    # ---- carriers whose Close() takes time ("redials"): Close blocks until the script lets it return
    # (K<k>); a carrier counts as closed only then.  dialContext records, when it hands out a carrier,
    # how many earlier carriers' Close has not returned (oad, must be 0): the next dial must not even
    # be pending while the previous carrier's Close is (D1 answers "n" until K<k>).
    S = "redials"
    add(["D1", "r0:0", "D1", "K0", "D1", "r1:0", "D1", "D1", "K1", "D1", "C"], "redial-slowclose-reader-fails", S)
    add(["D1", "W", "w0:0", "D1", "W", "K0", "D1", "w1:0", "D1", "K1", "D1", "C"], "redial-slowclose-writer-fails", S)
    add(["D1", "W", "r0:0", "D1", "w0:0", "D1", "K0", "D1", "W", "r1:0", "C", "D1", "K1", "D1"], "redial-slowclose-both-fail", S)
    add(["D1", "C", "D1", "K0", "D1", "W", "R"], "redial-slowclose-user-close", S)
    add(["D1", "r0:0", "D0", "K0", "D0", "W", "R", "C"], "redial-slowclose-dial-fails", S)
    add(["D1", "r0:1", "r0:0", "r0:0", "w0:0", "K0", "K0", "D1", "R", "K1", "r1:0", "K1", "D1", "r2:0", "K2", "K1", "D1", "C"],
        "redial-slowclose-traffic", S)
    alpha = ["D1", "r:0", "w:0", "K", "W", "C", "D0", "r:1", "w:1"]
    L = 5 if ctx.tier == "quick" else 6
    for k in range(2, L + 1):
        for seq in itertools.product(alpha[:4] if k == L else alpha[:6] if k == L - 1 else alpha, repeat=k - 1):
            cur, toks = 0, ["D1"]
            for t in seq:
                if t == "D1":
                    cur += 1
                if ":" in t:
                    t = "%s%d:%s" % (t[0], cur, t[2])
                if t == "K":
                    t = "K%d" % cur
                toks.append(t)
            if any(t[0] == "K" or t == "D1" for t in toks[1:]):
                add(toks, "redial-slowclose-exhaustive", S)
    for i in range(150 if ctx.tier == "quick" else 2500):
        cur, toks = -1, []
        for _ in range(rng.choice([6, 10, 18, 30])):
            c = rng.random()
            if c < 0.25:
                toks.append("D1"); cur += 1
            elif c < 0.27:
                toks.append("D0")
            elif c < 0.37:
                toks.append("W")
            elif c < 0.40:
                toks.append("R")
            elif c < 0.42:
                toks.append("C")
            elif cur >= 0 and c < 0.62:
                toks.append("K%d" % (cur if rng.random() < 0.8 else rng.randrange(cur + 1)))
            elif cur >= 0:
                k = cur if rng.random() < 0.85 else rng.randrange(cur + 1)
                toks.append("%s%d:%d" % (rng.choice("rw"), k, rng.choice([0, 0, 0, 1])))
        if toks:
            add(toks, "redial-slowclose-random", S)
    return lines, kinds


def parse_redial(out):
    ans, rest = out.split(";")
    f = dict(kv.split("=") for kv in rest.split(" "))
    opn = [] if f["open"] == "e" else f["open"].split(".")
    closes = [] if f["closes"] == "e" else [int(x) for x in f["closes"].split(".")]
    oad = [] if f["oad"] == "e" else [int(x) for x in f["oad"].split(".")]
    pend = [] if f.get("pend", "e") == "e" else f["pend"].split(".")
    return ans.split(","), int(f["dials"]), opn, int(f["max"]), closes, int(f["left"]), int(f["dialing"]), oad, pend


def prop_redial(line, impl, model):
    if impl.startswith("!aliased"):
        return ("aliased: a packet that went through the adapter is not the value that was handed in "
                "(the adapter kept a reference to a buffer its caller or its carrier reuses): " + impl[:60])
    if impl.startswith("!"):
        return "other: redial driver: " + impl[:200]
    toks = line.split(" ")[3].split(",")
    try:
        ans, dials, opn, mx, closes, left, dialing, oad, pend = parse_redial(impl)
    except Exception:
        return "other: malformed answer " + impl[:100]
    ended = False
    for t, r in zip(toks, ans):
        if r == "E" and not ended:
            return "early-error: %s answered an error before Close and before any dial failure" % t
        if (t == "C" or t == "D0") and r != "n":
            ended = True
    if any(n > 0 for n in oad):
        k = [i for i, n in enumerate(oad) if n > 0][0]
        return ("carrier-overlap: when dialContext handed out carrier %d, the Close() of %d earlier carrier(s) had not returned "
                "(per dial: %s): more than one carrier is active" % (k, oad[k], oad))
    if mx > 1:
        return "two-active: %d carriers were open at the same time" % mx
    if any(c > 1 for c in closes):
        return "double-close: a carrier was closed more than once: %s" % closes
    if len(opn) > 1:
        return "unclosed: more than one carrier left open: %s" % opn
    # "closes every carrier it obtained": the adapter has ended (Close returned, or a dial failed), no dial is pending
    # and NONE of its goroutines is left (so no exchange is still waiting for the carrier's pending ReadFrom/WriteTo to
    # return, and no Close() call of the dial loop is waiting for the script): every carrier it was handed must be
    # closed -- also the carrier a dial handed over AFTER Close() was called
    if ended and not dialing and left == 0:
        stuck = [k for k in opn if k not in pend]
        if stuck:
            after_close = any(t == "C" for t in toks) and toks.index("C") < len(toks) - 1 and \
                any(t == "D1" and r != "n" for t, r in list(zip(toks, ans))[toks.index("C") + 1:])
            return ("carrier-left-open: carrier(s) %s obtained from dialContext were never closed: the adapter has ended (%s), no dial "
                    "is pending, none of its goroutines is left%s" % (
                        ",".join(stuck), "Close" if "C" in toks else "dial failure",
                        "; the carrier was handed over by a dial that was in progress when Close() was called" if after_close else ""))
    if left > (1 if (dialing or opn) else 0) + 2 * len(opn):
        return "leak: %d goroutines of the adapter are left with %d carrier(s) open and %d dial(s) pending (only the dial loop while it dials or serves a carrier, and two per open carrier, can be live)" % (left, len(opn), dialing)
    return None


def key_redial(line, impl, model):
    p = prop_redial(line, impl, model) or ""
    c = p.split(":")[0]
    if c == "leak":
        toks = line.split(" ")[3].split(",")
        return KEY_LEAK_W if any(t[0] == "w" and t.endswith(":0") for t in toks) else KEY_LEAK_R
    return "redial-" + (c or "other")


# ---- the two queues of the redial connection at their capacity

def expand_q(tokfield):
    toks = []
    for t in tokfield.split(","):
        f = t.split("*")
        toks += [f[0]] * (int(f[1]) if len(f) == 2 else 1)
    return toks


def parse_ranges(t):
    out = []
    if t == "e":
        return out
    for r in t.split("."):
        a, _, b = r.partition("-")
        out += list(range(int(a), int(b or a) + 1))
    return out


def gen_redialq(ctx):
    """capacity-boundary scripts for both queues: 2047 / 2048 / 2049 / 4100 packets written while nothing drains the
    send queue (the dial does not return; or a carrier is active and its WriteTo does not return), or delivered by
    the carrier while the user does not read; then the queues are drained (partly or completely)."""
    rng = ctx.rng
    thorough = ctx.tier == "thorough"
    lines, kinds = [], []

    def add(toks, k):
        lines.append("%s redialq 1 %d %s" % (AREA, QCAP, ",".join(toks))); kinds.append(k)

    Q = QCAP
    # small scripts (also evaluated inside coqc against the extracted runner)
    add(["W*3", "D1", "w0:1*2", "r0:1*2", "R*3", "W", "C", "W", "R"], "redialq-small")
    add(["D1", "W*2", "r0:1*3", "R", "w0:0", "D1", "w1:1*2", "R*3", "C"], "redialq-small")
    add(["W*2", "D0", "W", "R"], "redialq-small")
    for n in (Q - 1, Q, Q + 1, 2 * Q + 4):
        full = thorough or n == Q + 1
        # the first dial has not returned: nothing takes packets off the send queue
        add(["W*%d" % n, "R", "D1", "w0:1*%d" % (n + 3 if full else 3), "W*2", "w0:1*3", "C", "W", "R"], "redialq-send-dial-blocked")
    for n in (Q, Q + 1, Q + 2, 2 * Q + 4) if thorough else (Q + 1, Q + 2):
        full = thorough or n == Q + 2
        # a carrier is active, its WriteTo does not return: one packet with the carrier, the queue behind it
        add(["D1", "W*%d" % n, "w0:1*%d" % (n + 3 if full else 3), "W*2", "w0:1*3", "C", "W"], "redialq-send-carrier-blocked")
    for n in (Q - 1, Q, Q + 1, 2 * Q + 4):
        full = thorough or n == Q + 1
        # the carrier delivers, the user does not read
        add(["D1", "r0:1*%d" % n, "R*%d" % (n + 2 if full else 3), "r0:1*3", "R*5", "W", "C", "R"], "redialq-recv-unread")
    # both queues full, then the carrier's write side fails: redial; the next carrier gets the oldest packet still queued
    add(["W*%d" % (Q + 50), "D1", "r0:1*%d" % (Q + 50), "w0:1*2", "w0:0", "D1", "w1:1*3", "r1:1*2", "R*4", "W*3", "C", "W", "R"], "redialq-both-redial")
    # both full and the dial fails: only now errors
    add(["W*%d" % (Q + 1), "D0", "W", "R"], "redialq-dial-fails-when-full")
    for i in range(12 if thorough else 2):
        toks, cur, active = [], -1, False
        for _ in range(rng.choice([4, 6, 9])):
            c = rng.random()
            big = rng.choice([Q - 1, Q, Q + 1, Q + 7, 3 * Q // 2])
            if not active and c < 0.5:
                toks.append("D1"); cur += 1; active = True
            elif c < 0.55:
                toks.append("W*%d" % big)
            elif c < 0.7 and active:
                toks.append("r%d:1*%d" % (cur, big))
            elif c < 0.8 and active:
                toks.append("w%d:1*%d" % (cur, rng.choice([1, 5, big])))
            elif c < 0.9:
                toks.append("R*%d" % rng.choice([1, 5, big]))
            else:
                toks.append("W*%d" % rng.choice([1, 3]))
        toks += ["W", "R", "C", "W", "R"]
        add(toks, "redialq-random")
    return lines, kinds


def analyse_redialq(line, impl, model):
    a = line.split(" ")
    toks = expand_q(a[4])
    if impl.startswith("!hang-write"):
        return ("redial-write-blocks", "blocks: a user WriteTo did not return within 10 s (WriteTo never blocks; a full send queue drops)")
    legacy = "%s redial %s %s" % (a[0], a[2], ",".join(toks))
    if impl.startswith("!"):
        return (key_redial(legacy, impl, model), prop_redial(legacy, impl, model))
    try:
        ans = impl.split(";")[0].split(",")
        f = dict(kv.split("=") for kv in impl.split(";")[1].split(" "))
        off, got = parse_ranges(f["off"]), parse_ranges(f["got"])
    except Exception:
        return ("redial-other", "other: malformed answer " + impl[:100])
    ended, nw, nr = False, 0, 0
    for t, r in zip(toks, ans):
        if r == "E" and not ended:
            what = ("user WriteTo #%d (%d written before it, nothing or little drained)" % (nw + 1, nw)) if t == "W" else \
                   ("user ReadFrom (after %d packets delivered by the carrier)" % nr) if t == "R" else t
            return (KEY_CAP, "%s answered an error although Close was not called and no dial had failed; a full queue "
                    "(capacity %s) drops silently" % (what, a[3]))
        if (t == "C" or t == "D0") and r != "n":
            ended = True
        nw += t == "W"
        nr += t[0] == "r" and t.endswith(":1") and r == "-"
    for name, seq in (("handed to the carriers", off), ("returned by ReadFrom", got)):
        for x, y in zip(seq, seq[1:]):
            if y <= x:
                return ("redial-queue-order", "order: packets %s out of order or twice: ... %d, %d ..." % (name, x, y))
    p = prop_redial(legacy, impl, model)
    if p:
        return (key_redial(legacy, impl, model), p)
    alts = model.split("|")
    if impl not in alts:
        # same answers and carriers, other packets: what was accepted is not what came out
        strip = lambda o: o.split(" off=")[0]
        for m in alts:
            if strip(m) == strip(impl):
                fm = dict(kv.split("=") for kv in m.split(";")[1].split(" "))
                return ("redial-queue-contents",
                        "contents: the packets handed to the carriers / returned to the user are not, in order, the packets that were "
                        "accepted while the queue had room (drop-when-full keeps the queued ones): off=%s got=%s, expected off=%s got=%s"
                        % (f["off"], f["got"], fm["off"], fm["got"]))
    return None


def prop_redialq(line, impl, model):
    r = analyse_redialq(line, impl, model)
    return r[1] if r else None


def key_redialq(line, impl, model):
    r = analyse_redialq(line, impl, model)
    return r[0] if r else "redial-other"


def correspond_redial(ctx, exe, lines, kinds, prop_redial=None, key_redial=None, label="redial"):
    prop_redial = prop_redial or globals()["prop_redial"]
    key_redial = key_redial or globals()["key_redial"]
    model = vlib.run_model(lines)
    rc, impl, err = vlib.run_impl(exe, lines)
    if rc != 0 or len(impl) != len(lines):
        ctx.violation("driver-crash", "redial driver died (rc=%s): %s" % (rc, err[-500:]), dict(case=lines[len(impl)] if len(impl) < len(lines) else None))
        impl += ["!died"] * (len(lines) - len(impl))
    nd, multi, nmark = 0, 0, 0
    for l, m, r, k in zip(lines, model, impl, kinds):
        ctx.count(l, kind=k)
        if m == "!badcase":
            raise RuntimeError("model rejected case line: " + l[:200])
        marked = m.startswith("!")
        if marked:
            # a marker of the MODEL adapter (coq/Run/TurbotunnelRun.v): !fuel = a run to quiescence stopped because its
            # fuel ran out. An error of the harness, never a violation of the property and never silently compared.
            nmark += 1
            if nmark <= 5:
                ctx.not_shown("harness error (not a property violation): the model adapter coq/Run/TurbotunnelRun.v answered `%s` with the "
                              "marker %s (%s): the model has no set of outcomes for this case, so the implementation's observation was not "
                              "compared with it; raise CLOSURE_FUEL or fix the case generator" % (
                                  l[:300], m[:40], "a run to quiescence ran out of fuel with internal steps still enabled" if m == "!fuel" else "unknown marker"))
        bad = prop_redial(l, r, m)
        alts = m.split("|")
        multi += len(alts) > 1
        if bad:
            ctx.violation(key_redial(l, r, m), bad, dict(label=label, case=l, impl=r[:4000], model=m[:2000]))
        elif marked:
            pass
        elif r not in alts:
            nd += 1
            if nd <= 5:
                ctx.not_shown("correspondence %s: the implementation's observation is not among the model's outcomes on `%s`: "
                              "model=%s impl=%s; the property predicate found no failure on it" % (label, l[:300], m[:600], r[:600]))
    ctx.extra[label + "_cases_with_several_model_outcomes"] = multi
    ctx.extra[label + "_model_markers"] = nmark
    short = [(l, m) for l, m in zip(lines, model) if len(l) < 200 and len(m) < 1500]
    ctx.rng.shuffle(short)
    badx = vlib.coq_crosscheck(short[:25])
    ctx.extra["vm_compute_crosschecked"] = ctx.extra.get("vm_compute_crosschecked", 0) + len(short[:25])
    for i in badx:
        ctx.not_shown("extraction cross-check: vm_compute and extracted runner differ on `%s`" % short[i][0])


def monitors(ctx, exe):
    """real goroutine counts and real-clock sweeps: evaluated on the implementation alone"""
    n = 20 if ctx.tier == "quick" else 200
    T = 200
    nov = 6 if ctx.tier == "quick" else 40
    ov = ["%s overlap %d %s %d" % (AREA, nov, side, ms) for side, ms in (("r", 40), ("w", 40), ("b", 30))]
    lines = ["%s leak %d w" % (AREA, n), "%s leak %d r" % (AREA, n),
             "%s sweep %d expire %d" % (AREA, T, 8 if ctx.tier == "quick" else 40),
             "%s sweep %d keep %d" % (AREA, T, 4 if ctx.tier == "quick" else 16),
             "%s sweep %d mass %d" % (AREA, T, 3300 if ctx.tier == "quick" else 6000)] + ov
    # a client between two carriers: seen only by being written to (real clock, real sweeper; timeout 400 ms)
    TW = 400
    lines.append("%s sweep %d keepw %d" % (AREA, TW, 4 if ctx.tier == "quick" else 16))
    # the sweeper on a busy map (other clients written to and fetched without pause): run on its own afterwards
    busy_line = "%s sweep %d expireb %d" % (AREA, T, 2 if ctx.tier == "quick" else 6)
    rc, out, err = vlib.run_impl(exe, lines, timeout=600)
    if rc == 0 and len(out) == len(lines):
        rcb, outb, errb = vlib.run_impl(exe, [busy_line], timeout=300)
        if rcb == 0 and len(outb) == 1 and ("never" in outb[0] or any(int(it.split(":")[1]) > 3.5 * T * 1000 for it in outb[0].split(",") if it.split(":")[0].isdigit())):
            # a machine too busy to schedule the sweeper looks the same: once more before it is judged
            ctx.extra["busy_map_monitor_repeated"] = outb[0][:200]
            rcb, outb, errb = vlib.run_impl(exe, [busy_line], timeout=300)
        ctx.count(busy_line, kind="sweep-expire-busy-map")
        if rcb != 0 or len(outb) != 1:
            ctx.violation("driver-crash", "monitor driver died: " + errb[-500:], dict(case=busy_line))
        else:
            for item in outb[0].split(","):
                a, b = item.split(":")
                if a == "never":
                    ctx.violation("sweep-never", "busy map: an idle client's queue was still open %s us after it was last seen (timeout %d ms) while other "
                                  "clients of the connection were being written to: the sweeper must wait for the map, not skip its round" % (b, T),
                                  dict(case=busy_line, impl=outb[0])); break
                if int(a) < T * 1000:
                    ctx.violation("sweep-early", "busy map: a client's queue was closed %s us after it was last seen (timeout %d ms)" % (a, T), dict(case=busy_line, impl=outb[0])); break
                if int(b) > 3.5 * T * 1000:
                    ctx.violation("sweep-late", "busy map: an idle client's queue was still open %s us after it was last seen (nominal bound 1.5 x %d ms, slack 2 x)" % (b, T),
                                  dict(case=busy_line, impl=outb[0])); break
            ctx.extra["sweep_busy_answer"] = outb[0]
    if rc != 0 or len(out) != len(lines):
        ctx.violation("driver-crash", "monitor driver died: " + err[-500:], dict(case=lines[len(out)] if len(out) < len(lines) else None))
        return
    for l, r in zip(lines[:2], out[:2]):
        ctx.count(l, kind="leak-count")
        try:
            f = dict(kv.split("=") for kv in r.split(" "))
            during, after = int(f["during"]), int(f["after"])
        except Exception:
            ctx.violation("driver-crash", "leak monitor answered " + r, dict(case=l)); continue
        if during > 1 or after > 0:
            key = KEY_LEAK_W if l.endswith(" w") else KEY_LEAK_R
            ctx.violation(key, "leak: after %d redials %d goroutines of the adapter are alive (1 expected: the dial loop), %d after Close (0 expected)" % (n, during, after),
                          dict(label="leak-count", case=l, impl=r))
    l, r = lines[2], out[2]
    ctx.count(l, kind="sweep-expire")
    for item in r.split(","):
        a, b = item.split(":")
        if a == "never":
            ctx.violation("sweep-never", "an idle client's queue was still open %s us after it was last seen (timeout %d ms)" % (b, T), dict(case=l, impl=r)); break
        if int(a) < T * 1000:
            ctx.violation("sweep-early", "a client's queue was closed %s us after it was last seen (timeout %d ms)" % (a, T), dict(case=l, impl=r)); break
        if int(b) > 2.5 * T * 1000:
            ctx.violation("sweep-late", "an idle client's queue was still open %s us after it was last seen (nominal bound 1.5 x %d ms, slack 1 x)" % (b, T), dict(case=l, impl=r)); break
    l, r = lines[3], out[3]
    ctx.count(l, kind="sweep-keep")
    if any(x != "ok" for x in r.split(",")):
        ctx.violation("sweep-lost", "a client seen every timeout/4 lost its queue or its queued packet: " + r, dict(case=l, impl=r))
    l, r = lines[4], out[4]
    ctx.count(l, kind="sweep-mass-expiry")
    f = r.split(":")
    if f[0] == "never":
        ctx.violation("sweep-late", "late: %s of the %s clients that were seen at the same moment and never again still had their queue open %s us "
                      "later (timeout %d ms, sweep every %d ms): a sweep must discard EVERY record that is due, however many" % (
                          f[2], l.split(" ")[4], f[1], T, T // 2), dict(case=l, impl=r))
    elif int(f[0]) < T * 1000:
        ctx.violation("sweep-early", "a client's queue was closed %s us after it was last seen (timeout %d ms)" % (f[0], T), dict(case=l, impl=r))
    elif int(f[1]) > 2.5 * T * 1000:
        ctx.violation("sweep-late", "late: of %s clients seen at the same moment some still had their queue open %s us later (nominal bound "
                      "1.5 x %d ms, slack 1 x)" % (l.split(" ")[4], f[1], T), dict(case=l, impl=r))
    l, r = lines[-1], out[-1]
    ctx.count(l, kind="sweep-keep-written-only")
    judged = 0
    for item in r.split(","):
        f = item.split(":")
        if len(f) != 3 or not f[1].isdigit():
            ctx.violation("driver-crash", "sweep monitor answered " + r[:200], dict(case=l, impl=r)); break
        if int(f[1]) >= 0.8 * TW * 1000:
            continue            # this machine let more than 0.8 timeouts pass between two writes: nothing can be concluded
        judged += 1
        if f[0] != "ok":
            ctx.violation("sweep-early", "early-removal: a client whose queue was fetched once and that was then written to every %d ms for two "
                          "timeouts (largest time between two touches %s us, timeout %d ms) found the queue it holds %s; it held %s of the "
                          "packets WriteTo accepted: being written to counts as being seen, the queue must not be discarded before the client "
                          "has been idle for the full timeout" % (TW // 8, f[1], TW, f[0], f[2]), dict(case=l, impl=r)); break
    ctx.extra["keepw_judged"] = judged
    for l, r in zip(lines[5:-1], out[5:-1]):
        ctx.count(l, kind="overlap-slow-close")
        bad = prop_overlap(l, r)
        if bad:
            ctx.violation(bad[0], bad[1], dict(label="overlap", case=l, impl=r))
    ctx.extra["monitor_answers"] = dict(zip(lines, out))


def prop_overlap(line, r):
    """real time: carriers fail after 3 ms, their Close() takes tens of ms; at every dial the Close of
    every earlier carrier must have returned"""
    try:
        f = dict(kv.split("=") for kv in r.split(" "))
        oad = [] if f["oad"] == "e" else [int(x) for x in f["oad"].split(".")]
        unclosed, left = int(f["unclosed"]), int(f["left"])
    except Exception:
        return ("driver-crash", "overlap monitor answered " + r[:200])
    a = line.split(" ")
    if any(n > 0 for n in oad):
        return (KEY_OVERLAP, "carrier-overlap: carriers whose Close() takes %s ms: at the dials, %s earlier carrier(s) were not closed yet "
                "(0 expected at every dial: the finished carrier is closed before the next is dialed)" % (a[4], oad))
    if len(oad) != int(a[2]):
        return ("redial-other", "other: %d carriers were dialed, %s expected" % (len(oad), a[2]))
    if unclosed > 0:
        return ("redial-unclosed", "unclosed: %d carrier(s) were never closed" % unclosed)
    if left > 0:
        return (KEY_LEAK_W if a[3] == "w" else KEY_LEAK_R, "leak: %d goroutines of the adapter are alive after the dial failed and Close" % left)
    return None


def run(ctx):
    os.environ["VERIF_DRIVER"] = "1"
    exe = vlib.go_build("./zz_verif/turbotunnel")
    ctx.trusted += ["scripted carriers, goroutine-state inspection (runtime.Stack) and buffer scribbling in harness/overlay/zz_verif/turbotunnel",
                    "Go scheduler / channel semantics as modelled in coq/Model/Redial.v (select, rendezvous, close)"]
    ctx.assumptions += ["models = coq/Model/{GoHeap,ClientMap,QueueConn,Redial}.v (hand written); tie = correspondence on generated cases",
                        "QueuePacketConn.WriteTo is modelled as one atomic step; a carrier's pending ReadFrom/WriteTo fails once the carrier is closed",
                        "a carrier is closed when its Close() has RETURNED (model: LDCloseCarrier, a step of the dial loop itself); scripted carriers whose Close blocks until released, and real-time carriers whose Close takes 30-40 ms, record at every dial how many earlier carriers are not closed yet",
                        "clock: explicit for clientMapInner and for the outgoing queues with contents (in-package driver `qm`: the driver performs the bodies of WriteTo/trySend/OutgoingQueue on the inner map with the instant of the case, because the exported methods read time.Now()); real for the sweeper monitor (timeout 200 ms, slack 1 timeout)",
                        "redialq: the driver is told queueSize (2048) to know when a user ReadFrom would block; the model runs the same machine with the queue contents carried along (Model/RedialQueue.v)",
                        "no aliasing of caller buffers: observed only (drivers overwrite every buffer after the call and every received slice), not a theorem: payloads are values in the model"]
    # container/heap and QueuePacketConn: black box
    rc, capo, err = vlib.run_impl(exe, [AREA + " cap"])
    cap = int(capo[0])
    ctx.extra["queueSize_observed"] = cap
    lines, kinds = gen_heap(ctx)
    ctx.correspond(exe, lines, kinds, label="container/heap", prop=prop_heap, key_of=lambda l, r, m: "goheap", crosscheck=20)
    lines, kinds = gen_qc(ctx, cap)
    ctx.correspond(exe, lines, kinds, label="QueuePacketConn", prop=prop_qc, key_of=key_qc, crosscheck=25)
    # clientMapInner: in-package, explicit clock
    try:
        texe = vlib.go_test_build("./common/turbotunnel")
        lines, kinds = gen_cm(ctx)
        m1, _ = ctx.correspond(texe, lines, kinds, label="clientMapInner", prop=prop_cm, key_of=key_cm, crosscheck=0,
                               impl_args=("-test.run", "TestVerifDriver"))
        lines2, kinds2 = gen_qm(ctx, cap)
        m2, _ = ctx.correspond(texe, lines2, kinds2, label="outgoing queues, explicit clock", prop=prop_qm, key_of=key_qm, crosscheck=0,
                               impl_args=("-test.run", "TestVerifDriver"))
        # count boundaries of a sweep: 1025 .. 5000 records expired at once (summaries; no in-Coq cross-check: vm_compute on
        # thousands of unary naturals costs minutes)
        tied, alone = gen_cmb(ctx)
        ctx.correspond(texe, tied, ["cmb-mass-expiry"] * len(tied), label="clientMapInner, many clients", prop=prop_cmb, key_of=key_cmb,
                       crosscheck=0, impl_args=("-test.run", "TestVerifDriver"))
        if alone:
            rc, outs, err = vlib.run_impl(texe, alone, args=("-test.run", "TestVerifDriver"))
            outs += ["!died"] * (len(alone) - len(outs))
            for l, r in zip(alone, outs):
                ctx.count(l, kind="cmb-mass-expiry-implementation-only")
                bad = prop_cmb(l, r, None)
                if bad:
                    ctx.violation(key_cmb(l, r, None), bad, dict(label="clientMapInner, many clients", case=l, impl=r[:2000]))
        # the real sweeper while another goroutine is inside a critical section of the map whenever it comes (in-package:
        # the driver holds m.lock around every sweep instant): it must wait for the lock, not give the round up
        hold = ["%s sweephold %d %d" % (AREA, T_, H_) for T_, H_ in ([(300, 30), (200, 20), (400, 60)] if ctx.tier == "quick" else
                                                                     [(300, 30), (200, 20), (400, 60), (1000, 200), (600, 100), (240, 12)])]
        rc, outs, err = vlib.run_impl(texe, hold, args=("-test.run", "TestVerifDriver"), timeout=300)
        outs += ["!died"] * (len(hold) - len(outs))
        for i, r in enumerate(outs):
            if r.startswith("open:"):
                # once more, alone, before it is judged (a sweeper that skips its rounds fails again; a process that was not
                # scheduled for a few hundred milliseconds does not)
                rc2, o2, _ = vlib.run_impl(texe, [hold[i]], args=("-test.run", "TestVerifDriver"), timeout=120)
                if rc2 == 0 and len(o2) == 1:
                    outs[i] = o2[0]
        for l, r in zip(hold, outs):
            if r == "!timing":
                ctx.extra["cases_left_out_machine_too_busy"] = ctx.extra.get("cases_left_out_machine_too_busy", 0) + 1
                continue
            ctx.count(l, kind="sweep-while-lock-held")
            T_ = int(l.split(" ")[2])
            if r.startswith("open:"):
                ctx.violation("sweep-skipped-under-contention", "an idle client's queue was still open %s us after it was last seen (timeout %d ms, sweep "
                              "every %d ms) while another goroutine held the map's lock at each sweep instant: the sweeper must wait for the lock, "
                              "a sweep that is due may be delayed but not dropped" % (r[5:], T_, T_ // 2), dict(label="sweeper", case=l, impl=r))
            elif r.startswith("early:"):
                ctx.violation("sweep-early", "a client's queue was closed %s us after it was last seen (timeout %d ms)" % (r[6:], T_), dict(label="sweeper", case=l, impl=r))
            elif not r.startswith("closed:"):
                ctx.violation("driver-crash", "sweephold answered " + r[:200], dict(label="sweeper", case=l, impl=r))
        # one in-Coq cross-check of the extracted runner for both families (a coqc start costs more than the cases)
        sample = []
        for ls, ms, n in ((lines, m1, 25), (lines2, m2, 20)):
            short = [(l, m) for l, m in zip(ls, ms) if len(l) < 400 and len(m) < 2000]
            ctx.rng.shuffle(short)
            sample += short[:n]
        for i in vlib.coq_crosscheck(sample):
            ctx.not_shown("extraction cross-check: vm_compute and extracted runner differ on `%s`" % sample[i][0][:300])
        ctx.extra["vm_compute_crosschecked"] = ctx.extra.get("vm_compute_crosschecked", 0) + len(sample)
    except vlib.GoBuildError as e:
        ctx.not_shown("harness: the in-package client map driver no longer builds against the repo "
                      "(explicit-clock expiry is then only covered by the real-clock sweep monitor): " + str(e)[-800:])
    # RedialPacketConn
    lines, kinds = gen_redial(ctx)
    correspond_redial(ctx, exe, lines, kinds)
    lines, kinds = gen_redialq(ctx)
    correspond_redial(ctx, exe, lines, kinds, prop_redial=prop_redialq, key_redial=key_redialq, label="redialq")
    monitors(ctx, exe)


def replay(ctx, doc):
    os.environ["VERIF_DRIVER"] = "1"
    exe = vlib.go_build("./zz_verif/turbotunnel")
    bad = 0
    for v in doc.get("violations", []):
        case = v["replay"].get("case")
        if not case:
            continue
        a = case.split(" ")
        if a[1] == "overlap":
            rc, r, err = vlib.run_impl(exe, [case])
            p = prop_overlap(case, r[0] if r else "!died")
            print("case: %s\n impl: %s\n property: %s" % (case, r, p[1] if p else "holds"))
            bad += 1 if p else 0
            continue
        if a[1] in ("leak", "sweep"):
            rc, r, err = vlib.run_impl(exe, [case])
            print("case: %s\n impl: %s" % (case, r))
            bad += 1
            continue
        m = vlib.run_model([case])[0]
        if a[1] in ("cm", "qm", "cmb"):
            texe = vlib.go_test_build("./common/turbotunnel")
            rc, r, err = vlib.run_impl(texe, [case], args=("-test.run", "TestVerifDriver"))
        else:
            rc, r, err = vlib.run_impl(exe, [case])
        r = r[0] if r else "!died"
        p = dict(heap=prop_heap, cm=prop_cm, cmb=prop_cmb, qm=prop_qm, qc=prop_qc, redial=prop_redial, redials=prop_redial, redialq=prop_redialq)[a[1]](case, r, m)
        print("case: %s\n model: %s\n impl:  %s\n property: %s" % (case[:300], m[:300], r[:300], p or "holds"))
        bad += 1 if p else 0
    return 1 if bad else 0
