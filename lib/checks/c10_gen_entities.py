"""Generator of coq/Model/HtmlEntities.v from golang.org/x/net/html/entity.go (run once; the output is checked in).
usage: python3 c10_gen_entities.py <path of HtmlEntities.v> [<path of entity.go>]"""
import re, sys
src = open(sys.argv[2] if len(sys.argv) > 2 else '/root/go/pkg/mod/golang.org/x/net@v0.0.0-20220425223048-2871e0cb64e4/html/entity.go').read()
i2 = src.index('var entity2')
e1 = re.findall(r'^\t"([A-Za-z0-9]+;?)":\s+\'\\U([0-9A-Fa-f]{8})\',', src[:i2], re.M)
e2 = re.findall(r'^\t"([A-Za-z0-9]+;?)":\s+\{\'\\u([0-9A-Fa-f]{4})\', \'\\u([0-9A-Fa-f]{4})\'\},', src[i2:], re.M)
assert len(e1) + len(e2) == 2229, (len(e1), len(e2))
out = []
out.append("(* HtmlEntities.v — the named character references of golang.org/x/net/html (entity.go, module version\n"
           "   v0.0.0-20220425223048-2871e0cb64e4): maps `entity` (one code point) and `entity2` (two code points).\n"
           "   GENERATED from the library source by a script (regular expression over the map literals); data only.\n"
           "   Tied at run time: every name is compared against html.UnescapeString by lib/checks/c10.py. *)\n"
           "From Coq Require Import List NArith String.\nImport ListNotations.\nOpen Scope N_scope.\n\n"
           "Definition longestEntityWithoutSemicolon : nat := 6.\n\n")
chunks = []
ents = [(n, [int(a, 16)]) for n, a in e1] + [(n, [int(a, 16), int(b, 16)]) for n, a, b in e2]
# chunks of 200 to keep each definition small
names = []
for k in range(0, len(ents), 200):
    nm = "entity_part%d" % (k // 200)
    names.append(nm)
    out.append("Definition %s : list (string * list N) := [\n" % nm)
    out.append(";\n".join('  ("%s"%%string, [%s])' % (n, "; ".join(str(v) for v in vs)) for n, vs in ents[k:k + 200]))
    out.append("].\n\n")
out.append("Definition entity_names : list (string * list N) :=\n  " + " ++ ".join(names) + ".\n")
open(sys.argv[1], 'w').write("".join(out))
print(len(e1), len(e2), max(len(n) for n, _ in ents), [n for n,_ in ents if not n.endswith(';')][:5], max(len(n) for n,_ in ents if not n.endswith(';')))
