"""C16 — the proxy honours its capacity and never leaks (or doubly releases) a session slot
(proxy/lib/tokens.go, proxy/lib/snowflake.go: Start, runSession, pollOffer, datachannelHandler)."""
import os
import subprocess
import tempfile

import vlib

AREA = "proxysession"
DRIVER_ARGS = ("-test.run=^TestVerifDriver$", "-test.timeout=0")

POLL_NIL = list("ejsxku")          # pollOffer returns nil
RELAY_BAD = list("brR")
ANSWER_FAIL = list("agm")
FAST_FAIL = POLL_NIL + RELAY_BAD + ["p"] + ANSWER_FAIL
OPEN = ["o", "A", "+", "O"]        # leave a slot held after the op (and Ys: see stays_open)
# ops Y<x>: what the relay does with the handler's dial (a relay refusing the connection is q)
RELAYS = {"r": "relay-resets-connection", "e": "relay-closes-without-answer", "h": "relay-answers-http-error",
          "z": "relay-hangs", "s": "relay-stalls-after-handshake"}
RELAY_FAST_FAIL = ["Yr", "Ye", "Yh"]


def stays_open(op):
    return op[:1] in OPEN or op == "Ys"

# ops O<x> / Q<x>: the sessions o / q with a client whose offer (or data channel) looks different
VARIANTS = {"p": "public", "l": "local-only", "n": "no-candidates", "6": "ipv6-only", "m": "mdns-only",
            "u": "unordered-unlabelled-datachannel"}
OPNAME = {
    "e": "poll-http-error", "j": "poll-malformed-body", "s": "poll-empty-status", "x": "poll-error-status",
    "k": "poll-match-without-offer", "u": "poll-undecodable-offer", "n": "poll-no-match-then-error",
    "b": "relay-url-unparsable", "r": "relay-url-rejected", "R": "relay-url-scheme-rejected", "p": "peer-connection-failure",
    "a": "answer-http-error", "g": "answer-client-gone", "m": "answer-malformed-response",
    "t": "datachannel-timeout", "T": "datachannel-timeout-connected-client", "w": "poll-repeated-no-match", "o": "datachannel-open", "q": "relay-unreachable",
    "A": "answer-fail-after-datachannel-open", "+": "bare-get", "c": "client-close", "d": "relay-close",
    "-": "bare-ret", "B": "blocked-at-capacity", "E": "final-poll",
    # S<n>x<rounds> (conc cases): n sessions end at the same moment while n others take a slot, <rounds> times over, then one
    # session polls (harness/overlay/proxy/lib/zz_verif_c16conc_test.go)
    "S": "concurrent-release",
}


def opname(op):
    """stable name of an op for keys: O<x>/Q<x> carry the shape of the client's offer"""
    if op[:1] in "OQ" and len(op) == 2:
        base = OPNAME["o" if op[0] == "O" else "q"]
        return "%s-%s-offer" % (base, VARIANTS.get(op[1], op[1])) if op[1] != "u" else "%s-%s" % (base, VARIANTS["u"])
    if op[:1] == "Y" and len(op) == 2:
        return RELAYS.get(op[1], op)
    return OPNAME.get(op[:1], op[:1])


def parse_res(tok):
    """c<count>h<chlen>p<polls> -> (count, chlen, [(Clients figure, tokens.count() at that poll)]) or None"""
    try:
        if tok[0] != "c":
            return None
        c, rest = tok[1:].split("h", 1)
        h, p = rest.split("p", 1)
        polls = [] if p == "-" else [tuple(int(y) for y in x.split("@")) for x in p.split(".")]
        if any(len(x) > 2 for x in polls):
            return None
        # start mode prints the bare figure: count itself was sampled when that poll arrived
        polls = [x if len(x) == 2 else (x[0], int(c)) for x in polls]
        return int(c), int(h), polls
    except (ValueError, IndexError):
        return None


def walk(line, impl):
    """Evaluate the property on the implementation's answer. Returns (index, op, what, text) of the
    first op at which it fails, or None."""
    a = line.split(" ")
    mode, cap, ops = a[1], int(a[2]), ([] if a[3] == "-" else a[3].split(","))
    if impl.startswith("!panic") or impl == "!died":
        return (0, "?", "panic", "implementation panicked/died: " + impl[:200])
    res = impl.split(",") if impl != "-" else []
    held = set()       # session ids holding a slot
    made = {}          # session id -> the op that started it
    sid = 0
    op = "?"

    def nm():
        """the op a failure is named after: O<x>/Q<x> carry the shape of the client's offer; the slot of a session
        that never got a handler shows as a leak when its client leaves, and is named after the session"""
        if op[:1] in "cd" and op[1:].isdigit() and made.get(int(op[1:]), "o")[:1] == "O":
            return made[int(op[1:])]
        return op if op[:1] in "OQY" else op[:1]
    waiting = False    # start mode: the loop is parked in tokens.get()
    for i, op in enumerate(ops):
        k = op[0]
        if i >= len(res):
            return (i, nm(), "no-result", "no result for op %d (%s); earlier: %s" % (i, op, impl[-120:]))
        r = res[i]
        before = len(held)
        if r.startswith("!blocked-get"):
            if cap == 0 or before < cap:
                return (i, nm(), "get-blocked", "tokens.get() blocked with %d of %d slots in use: a slot was leaked" % (before, cap))
            return (i, nm(), "bad-script", "script asked for a session at capacity")
        if r.startswith("!blocked-session"):
            return (i, nm(), "session-never-returns", "runSession did not return (%s): tokens.ret() blocks on a channel another release already drained" % r[17:60])
        if r.startswith("!blocked-ret"):
            return (i, nm(), "ret-blocked", "tokens.ret() blocked: the channel was already drained (released twice)")
        if r.startswith("!"):
            return (i, nm(), "driver", "driver could not run the op: " + r[:200])
        if mode == "start" and k == "B":
            if r != "B1":
                return (i, nm(), "not-blocked", "with %d of %d slots in use the Start loop polled for one more client" % (before, cap))
            waiting = True
            continue
        if mode == "start" and k in "cd":
            held.discard(int(op[1:]))
            if r != "-":
                return (i, nm(), "format", "unexpected result " + r)
            continue
        note = ""
        if k == "S" and "~" in r:
            # ~r<first round after which tokens.count() differed from the slots held>d<the difference> (r0d0: never)
            r, diag = r.split("~", 1)
            if diag != "r0d0":
                note = "; overlapping get/ret: after round %s of the stress tokens.count() was off by %s from the slots held (update of the counter is not atomic)" % tuple(diag[1:].split("d", 1))
        pr = parse_res(r)
        if pr is None:
            return (i, nm(), "format", "unparsable result " + r)
        count, chl, polls = pr
        at_poll = before + 1
        at_polls = None    # slots in use when each poll of the op was computed (None: at_poll for all)
        if k in "cd-":
            held.discard(int(op[1:]))
        elif k == "w":
            # the session polls once per round and once more; the sessions of a round end after its poll
            at_polls = []
            for rnd in op[1:].split("/"):
                at_polls.append(len(held) + 1)
                for x in ([] if rnd == "_" else rnd.split(".")):
                    held.discard(int(x))
            at_polls.append(len(held) + 1)
            sid += 1
        else:
            if stays_open(op):
                held.add(sid)
            made[sid] = op
            sid += 1
        after = len(held)
        expect = at_poll if mode == "start" else after     # start mode samples at poll arrival
        for j, (p, measured) in enumerate(polls):
            inuse = at_poll if at_polls is None or j >= len(at_polls) else at_polls[j]
            if p % 8 != 0:
                return (i, nm(), "load-not-multiple-of-8", "poll %d of op %d (%s) reported Clients=%d, not a multiple of 8" % (j, i, op, p))
            if p < 0 or p > inuse or p > measured:
                return (i, nm(), "load-exceeds-in-use", "poll %d of op %d (%s) reported Clients=%d with %d slots in use (tokens.count()=%d at that moment)" % (j, i, op, p, inuse, measured) + note)
            if measured < inuse and k == "S":
                return (i, nm(), "count-below-in-use", "at poll %d of op %d (%s) tokens.count()=%d but %d slots are held" % (j, i, op, measured, inuse) + note)
            if measured < inuse:
                return (i, nm(), "released-twice", "at poll %d of op %d (%s) tokens.count()=%d but %d slots are held: a slot was released twice" % (j, i, op, measured, inuse) + note)
            if measured > inuse:
                return (i, nm(), "leaked", "at poll %d of op %d (%s) tokens.count()=%d but only %d slots are held: a slot leaked" % (j, i, op, measured, inuse) + note)
        if count < expect:
            return (i, nm(), "released-twice", "after op %d (%s) tokens.count()=%d but %d slots are held: a slot was released twice" % (i, op, count, expect))
        if count > expect:
            return (i, nm(), "leaked", "after op %d (%s) tokens.count()=%d but only %d slots are held: a slot leaked" % (i, op, count, expect))
        if cap != 0 and chl != expect:
            return (i, nm(), "channel", "after op %d (%s) len(tokens.ch)=%d but %d slots are held" % (i, op, chl, expect))
        if cap != 0 and count > cap:
            return (i, nm(), "over-capacity", "%d slots in use with capacity %d" % (count, cap))
        if k not in "cd-+" and len(polls) != (len(at_polls) if at_polls else 2 if k == "n" else 1):
            return (i, nm(), "polls", "op %d (%s) saw %d polls" % (i, op, len(polls)))
    return None


def prop(line, impl, model):
    w = walk(line, impl)
    return w[3] if w else None


def model_marker(model):
    """a marker of the MODEL adapter (coq/Run/ProxySessionRun.v): !skipped:<result> = it stepped over a handler's
    channel receive that was not enabled, !stuck = another step of the op was not enabled. Neither is an answer of the
    machine: the repaired machine (seq / start) never produces one on a generated case."""
    for i, t in enumerate(model.split(",")):
        if t.startswith("!"):
            return i, t.split(":")[0]
    return None


def guarded_prop(ctx):
    """prop, plus: a marker in the model's answer is an error of the harness (adapter or generator), reported as
    not-shown - never as a violation of the property, and never silently compared"""
    seen = [0]

    def p(line, impl, model):
        mk = model_marker(model)
        if mk:
            seen[0] += 1
            if seen[0] <= 5:
                ctx.not_shown("harness error (not a property violation): the model adapter coq/Run/ProxySessionRun.v answered op %d of `%s` "
                              "with the marker %s (%s): the model's answer for this case is not a run of the machine, so the case was not "
                              "compared; fix the adapter or the case generator. model=%s" % (
                                  mk[0], line[:300], mk[1],
                                  "it passed over a blocked channel receive of a handler" if mk[1] == "!skipped" else "a step of the op was not enabled",
                                  model[:300]))
        return prop(line, impl, model)
    return p


def key_of(line, impl, model):
    w = walk(line, impl)
    if not w:
        return "correspondence"
    cls = {"session-never-returns": "released-twice", "ret-blocked": "released-twice", "get-blocked": "leaked"}.get(w[2], w[2])
    return "%s:%s" % (opname(w[1]), cls)


def rand_script(rng, cap, n, allow_slow=False):
    """a script of about n ops that never starts a session at capacity and closes everything"""
    ops, held, sid = [], {}, 0
    for _ in range(n):
        room = cap == 0 or len(held) < cap
        x = rng.random()
        if room and (x < 0.72 or not held):
            y = rng.random()
            if y < 0.45:
                k = rng.choice(FAST_FAIL)
            elif y < 0.60:
                k = rng.choice(["q", "q"] + RELAY_FAST_FAIL)
            elif y < 0.68:
                k = rng.choice(["o", "o", "Ys"])
            elif y < 0.80:
                k = rng.choice(["O", "O", "Q"]) + rng.choice("pln6mu")
            elif y < 0.92:
                k = "A"
            else:
                k = "+"
            if allow_slow and rng.random() < 0.1:
                k = rng.choice("tTn")
            ops.append(k)
            if stays_open(k):
                held[sid] = k
            sid += 1
        else:
            i = rng.choice(sorted(held))
            k = held.pop(i)
            ops.append(("-" if k == "+" else rng.choice("cd")) + str(i))
    for i in sorted(held):
        ops.append(("-" if held[i] == "+" else "c") + str(i))
    return ",".join(ops) or "-"


def load_script(rng, base):
    """base bare gets, then polls (failing sessions) while the count moves across multiples of 8"""
    ops = ["+"] * base
    held = list(range(base))
    sid = base
    for _ in range(rng.randrange(4, 9)):
        x = rng.random()
        if x < 0.4:
            ops.append(rng.choice(POLL_NIL)); sid += 1
        elif x < 0.7 or not held:
            ops.append("+"); held.append(sid); sid += 1
        else:
            ops.append("-%d" % held.pop(rng.randrange(len(held))))
    ops.append("e")
    return ",".join(ops)


def repoll_script(rng, base, rounds, real=0):
    """base bare gets (and `real` served clients), then ONE session whose poll is answered "no match"
    `rounds` times while held sessions end between its polls, so the load it reports has to follow"""
    ops = ["+"] * base + ["o"] * real
    held = list(range(base + real))
    rng.shuffle(held)
    rs = []
    for r in range(rounds):
        n = rng.choice([0, 1, len(held) // 2, len(held) - 1, len(held)]) if r else rng.randrange(max(1, len(held) - 7), len(held) + 1)
        n = max(0, min(n, len(held)))
        rs.append(".".join(str(held.pop()) for _ in range(n)) or "_")
    ops.append("w" + "/".join(rs))
    ops += [("-%d" if i < base else "c%d") % i for i in sorted(held)]
    ops.append("e")
    return ",".join(ops)


def gen(ctx):
    rng = ctx.rng
    thorough = ctx.tier == "thorough"
    lines, kinds = [], []

    def add(cap, ops, k):
        lines.append("%s seq %d %s" % (AREA, cap, ops)); kinds.append(k)
    # every exit path alone, at capacities 0 (unlimited), 1, 3
    for cap in (0, 1, 3):
        for k in FAST_FAIL + ["q"]:
            add(cap, k, "single-" + OPNAME[k])
        add(cap, "o,c0", "single-open-client-close")
        add(cap, "o,d0", "single-open-relay-close")
        add(cap, "A,c0", "single-answer-fail-after-open")
        # what the relay does with the dial (the hanging relay, Yz, takes the dialer's 45 s: slow_cases)
        for k in RELAY_FAST_FAIL:
            add(cap, k + ",e", "single-" + RELAYS[k[1]])
        add(cap, "Ys,c0,e", "single-relay-stalls-client-close")
        add(cap, "Ys,d0,e", "single-relay-stalls-relay-close")
    # capacity filled by sessions whose relay misbehaves, released, refilled: a slot lost to any of them blocks a get
    add(2, "Yr,Ys,Ye,c1,Yh,Ys,o,d4,c5,e", "relay-fault-fill-release-refill")
    add(1, "Ye,Yh,Yr,Ys,c3,Yr,o,c5", "relay-fault-fill-release-refill")
    # the shape of the client's offer / data channel (ops O<x>, Q<x>): a session that reaches an open data channel must
    # get its handler - and give the slot back when the handler ends - whatever webRTCConn.RemoteAddr() makes of the offer
    for j, x in enumerate("pln6mu"):
        cap = (0, 1, 3)[j % 3]
        add(cap, "O%s,%s0,e" % (x, "cd"[j % 2]), "offer-shape-open")
        add((1, 3, 0)[j % 3], "Q%s,e" % x, "offer-shape-relay-unreachable")
    # capacity 2 filled by two such clients, released, refilled: a slot lost to either shows as a blocked get
    for x, y in (("l", "n"), ("m", "6"), ("u", "l"), ("n", "m")):
        add(2, "O%s,O%s,c0,d1,Q%s,O%s,o,c3,c4,e" % (x, y, x, y), "offer-shape-fill-release-refill")
    # the session description the peer connection cannot be made from differs with the session's index (driver: unparsable
    # offer, then a well-formed answer, provisional answer, rollback): every kind, at capacity 1 so that one lost slot
    # blocks the next get, and overlapping an open session
    add(1, "p,p,p,p,e,p,p,p,p,o,c9", "unusable-description-kinds")
    add(2, "o,p,p,p,p,p,p,p,c0,e", "unusable-description-kinds")
    add(0, "p,p,p,p,e", "unusable-description-kinds")
    # every ordered pair of exit-path classes (one representative each), overlapping an open session
    reps = ["e", "u", "b", "r", "R", "p", "a", "g", "q", "o", "A"]
    for x in reps:
        for y in reps:
            ops, held, sid = ["o"], [0], 1
            for k in (x, y):
                ops.append(k)
                if k in OPEN:
                    held.append(sid)
                sid += 1
            ops += ["c%d" % i for i in held]
            add(rng.choice([0, 3, 4]), ",".join(ops), "pair")
    # capacity filled exactly, released, refilled
    for cap in (1, 2, 3):
        ops = ["o"] * cap + ["c%d" % i for i in range(cap)] + ["e"] + ["o"] * cap + ["d%d" % (cap + 1 + i) for i in range(cap)] + ["u"]
        add(cap, ",".join(ops), "fill-release-refill")
    # random scripts
    for _ in range(60 if not thorough else 700):
        cap = rng.choice([0, 1, 1, 2, 2, 3, 5])
        add(cap, rand_script(rng, cap, rng.randrange(3, 12)), "random")
    # reported load across multiples of 8
    for base in [6, 7, 8, 9, 15, 16, 17, 23, 24] + ([rng.randrange(0, 40) for _ in range(30)] if thorough else []):
        add(rng.choice([0, 0, 64]), load_script(rng, base), "load")
    return lines, kinds


def slow_cases(ctx):
    """cases that wait for real timers (20 s data channel timeout, 5 s poll interval): one driver
    process each, run while the fast cases run"""
    rng = ctx.rng
    eight = ".".join(str(i) for i in range(8))
    cases = [("seq 2 o,t,c0,e", "timeout"), ("seq 1 n,o,c1", "no-match"),
             # a client that connects but never announces a data channel: the 20 s timer fires with an
             # ESTABLISHED peer connection
             ("seq 2 o,T,c0,e", "timeout-connected"),
             # one session polls three times while the eight served sessions end between its polls
             ("seq 0 " + ",".join(["+"] * 8) + ",w" + eight + "/_,e", "repoll"),
             ("seq 17 " + repoll_script(rng, 14, 2, real=2), "repoll"),
             ("start 1 e,o,B,c1,u,E", "start"), ("start 2 o,A,B,d0,a,p,E", "start"),
             # a relay that accepts the connection and never answers the WebSocket handshake: the slot comes back when the
             # dialer's 45 s handshake timeout fires (the driver waits 45 s + 15 s for it); with capacity 1 the proxy can
             # then serve the next client
             ("seq 2 o,Yz,c0,e", "relay-hangs"), ("seq 1 Yz,o,c1,e", "relay-hangs")]
    if ctx.tier == "thorough":
        cases += [("seq 3 Yz,Yz,o,Yr,c2,e", "relay-hangs"), ("seq 0 Ys,Yz,c0,q", "relay-hangs"),
                  ("seq 0 T,T", "timeout-connected"), ("seq 1 T,o,c1,T,e", "timeout-connected"),
                  ("seq 3 o,T,A,c0,c2,T", "timeout-connected")]
        for _ in range(8):
            base = rng.choice([8, 9, 15, 16, 17, 24, rng.randrange(8, 30)])
            cases.append(("seq %d %s" % (rng.choice([0, 40]), repoll_script(rng, base, rng.choice([1, 2, 3]), real=rng.choice([0, 0, 1]))), "repoll"))
        cases += [("seq 0 t,t", "timeout"), ("seq 1 t,n,e", "timeout"), ("seq 3 o,o,t,A,c0,c1,c3", "timeout"),
                  ("start 1 o,B,c0,b,g,o,B,d3,E", "start"), ("start 3 o,o,o,B,c1,r,o,B,c0,u,c2,c4,E", "start"),
                  ("start 0 o,e,o,j,c0,c2,E", "start")]
        for _ in range(4):
            cases.append(("seq %d %s" % (2, rand_script(rng, 2, 6, allow_slow=True)), "random-slow"))
    return [(AREA + " " + c, k) for c, k in cases]


def conc_cases(ctx):
    """overlapping token operations (op S<n>x<rounds>): n sessions end at the same moment (one barrier) while n others take a
    slot, repeated; then quiescence and one poll. 6 bare gets first: with the polling session 7 slots are in use, so the
    reported load must be 0 and a count that drifted up by one already shows as a load above the slots in use. The model has
    get/ret as atomic steps (C16_slot_accounting assumes it); these cases observe that the counter update is atomic."""
    rng = ctx.rng
    thorough = ctx.tier == "thorough"
    cases = []
    for n, cap in [(8, 0), (16, 0), (64, 0), (16, 6 + 16 + 1), (32, 256)] + ([(rng.choice([2, 4, 8, 24, 48]), rng.choice([0, 0, 200])) for _ in range(6)] if thorough else []):
        rounds = (300 if not thorough else 1500) * 16 // max(16, n)
        base = 6
        ops = ["+"] * base + ["S%dx%d" % (n, rounds)] + ["-%d" % i for i in range(base)] + ["e"]
        cases.append(("%s conc %d %s" % (AREA, cap, ",".join(ops)), "concurrent-release"))
    return cases


def run_conc(ctx, exe):
    """conc cases: the implementation's answer is compared with the extracted machine of Model/TokensConc.v run under a
    pseudo-random schedule (Run/ProxySessionRun.v `stress`; the prediction is schedule independent by
    C16_quiescent_count_schedule_independent / C16_stress_round_count); the predicate is walk() on the driver's answer"""
    cases = conc_cases(ctx)
    ctx.correspond(exe, [l for l, _ in cases], [k for _, k in cases], label="proxy-session-concurrent", prop=guarded_prop(ctx),
                   key_of=key_of, impl_args=DRIVER_ARGS, crosscheck=0)
    ctx.extra["concurrent_release_cases"] = len(cases)


def start_slow(exe, cases):
    procs = []
    for line, _ in cases:
        p = subprocess.Popen([exe] + list(DRIVER_ARGS), stdin=subprocess.PIPE, stdout=subprocess.PIPE,
                             stderr=subprocess.DEVNULL, text=True, env=dict(os.environ, VERIF_DRIVER="1"))
        p.stdin.write(line + "\n")
        p.stdin.close()
        procs.append(p)
    return procs


def collect_slow(procs, timeout=600):
    outs = []
    for p in procs:
        try:
            p.wait(timeout=timeout)
            out = p.stdout.read().strip().split("\n")[0]
        except subprocess.TimeoutExpired:
            p.kill()
            out = "!died"
        outs.append(out or "!died")
    return outs


def run(ctx):
    exe = vlib.go_test_build("./proxy/lib")
    os.environ["VERIF_DRIVER"] = "1"
    ctx.trusted += ["scripted broker / relay / pion clients in harness/overlay/proxy/lib/zz_verif_c16_test.go force the exit path named by each op",
                    "pion, gorilla/websocket, net/http and the Go scheduler are exercised, not modelled",
                    "relay kinds of the Y<x> ops are raw TCP listeners of the driver (reset / close without answer / HTTP 403 / never answer) and a stalling handler on the test relay; a hanging relay is given 45 s (HandshakeTimeout of websocket.DefaultDialer) + 15 s to release the slot"]
    ctx.assumptions += ["model = coq/Model/Tokens.v + coq/Model/ProxySession.v (hand written; V1 = code with proposed-fixes/C16-release-once.diff)",
                        "one data channel per peer connection; a handler can only start between handing the answer to the broker and pc.Close()",
                        "seq cases call tokens.get(); runSession() as Start does; start cases run SnowflakeProxy.Start itself",
                        "atomic.AddInt64 and the channel operations are the atomic steps of the model (Model/Tokens.v); overlapping callers are Model/TokensConc.v (any interleaving: C16_counter_exact_under_interleaving, C16_quiescent_count_schedule_independent); conc cases (op S: n goroutines ret() at one barrier while n others get(), a few hundred rounds, then quiescence and a real poll) compare the real tokens_t at its quiescent points with that machine under a pseudo-random schedule (at most 6 of the rounds are run by the model: every round has the same programs) - that the hardware add is atomic is observed by this stress, not proved"]
    slow = slow_cases(ctx)
    procs = start_slow(exe, slow)
    try:
        lines, kinds = gen(ctx)
        ctx.correspond(exe, lines, kinds, label="proxy-session", prop=guarded_prop(ctx), key_of=key_of, impl_args=DRIVER_ARGS)
        run_conc(ctx, exe)
        outs = collect_slow(procs)
    finally:
        for p in procs:
            if p.poll() is None:
                p.kill()
    with tempfile.NamedTemporaryFile("w", suffix=".c16", delete=False) as f:
        f.write("\n".join(outs) + "\n")
    try:
        ctx.correspond("/bin/cat", [l for l, _ in slow], [k for _, k in slow], label="proxy-session-timers",
                       prop=guarded_prop(ctx), key_of=key_of, impl_args=(f.name,), crosscheck=10)
    finally:
        os.unlink(f.name)


def replay(ctx, doc):
    exe = vlib.go_test_build("./proxy/lib")
    os.environ["VERIF_DRIVER"] = "1"
    bad = 0
    for v in doc.get("violations", []):
        case = v["replay"].get("case")
        if not case:
            continue
        if " conc " in case:
            rc, r, err = vlib.run_impl(exe, [case], args=DRIVER_ARGS)
            r = r[0] if r else "!died"
            p = prop(case, r, None)
            print("case: %s\n impl:  %s\n property: %s" % (case[:300], r[:300], p or "holds"))
            bad += 1 if p else 0
            continue
        m = vlib.run_model([case])[0]
        m0 = vlib.run_model([case.replace(" seq ", " seq0 ", 1)])[0] if " seq " in case else "-"
        rc, r, err = vlib.run_impl(exe, [case], args=DRIVER_ARGS)
        r = r[0] if r else "!died"
        p = prop(case, r, m)
        print("case: %s\n model (repaired code): %s\n model (pinned code):   %s\n impl:  %s\n property: %s" % (case[:300], m[:300], m0[:300], r[:300], p or "holds"))
        bad += 1 if p else 0
    return 1 if bad else 0
