"""C10 — AMP armor round-trips and survives cache-style rewriting (common/amp/armor_*.go)."""
import base64
import re
import vlib

AREA = "armor"
WS = [b"\t", b"\n", b"\x0c", b"\r", b" "]
LIMIT = 32 * 1024
B64 = b"ABCDEFGHIJKLMNOPQRSTUVWXYZabcdefghijklmnopqrstuvwxyz0123456789+/"
STATE = {}


def hx(b):
    return "x" + b.hex()


def doc_tokens(b):
    """a document as payload token + continuation tokens (short tokens: Wire.split_on is quadratic per token)"""
    h = b.hex()
    return " ".join(["x" + h[:1000]] + [h[i:i + 1000] for i in range(1000, len(h), 1000)])


def expand(spec):
    if spec[0] == "x":
        return bytes.fromhex(spec[1:])
    n, a = spec[1:].split(".")
    return bytes((int(a) + i) & 255 for i in range(int(n)))


def payload_spec(rng, n):
    if n <= 40 and rng.random() < 0.6:
        return hx(bytes(rng.randrange(256) for _ in range(n)))
    return "g%d.%d" % (n, rng.randrange(256))


# ---------------------------------------------------------------- python reference of the format (doc.go)

def py_words(payload):
    s = b"0" + base64.b64encode(payload)
    return [s[i:i + 32] for i in range(0, len(s), 32)]


def py_elements(payload):
    w = py_words(payload)
    return [w[i:i + 992] for i in range(0, len(w), 992)]


def py_armor(payload):
    out = [STATE["bs"]]
    for el in py_elements(payload):
        out.append(b"<pre>\n" + b"".join(x + b"\n" for x in el) + b"</pre>\n")
    out.append(STATE["be"])
    return b"".join(out)


def shape_problem(doc, payload):
    """C10's shape clause evaluated on an armored document produced by the implementation."""
    bs_, be_ = STATE["bs"], STATE["be"]
    if not doc.startswith(bs_) or not doc.endswith(be_) or len(doc) < len(bs_) + len(be_):
        return "document is not boilerplate + body + trailer"
    body = doc[len(bs_):len(doc) - len(be_)]
    pos, words = 0, []
    while pos < len(body):
        m = re.compile(rb"<pre>([^<]*)</pre>\n").match(body, pos)
        if not m:
            return "body is not a sequence of pre elements at offset %d" % pos
        text = m.group(1)
        if len(text) + 2 >= LIMIT:
            return "a pre element holds %d bytes of text (limit %d)" % (len(text), LIMIT)
        ws = text.split()
        if re.sub(rb"[\t\n\x0c\r ]", b"", text) != b"".join(ws):
            return "element text has separators outside ASCII whitespace"
        for w in ws:
            if len(w) > 32:
                return "a word of %d bytes (limit 32)" % len(w)
        words += ws
        pos = m.end()
    if not words:
        return "no pre element"
    s = b"".join(words)
    if s[:1] != b"0":
        return "version byte missing"
    if any(c not in B64 + b"=" for c in s[1:]):
        return "word bytes outside the base64 alphabet"
    try:
        if base64.b64decode(s[1:], validate=True) != payload:
            return "armored text does not carry the payload"
    except Exception:
        return "armored text is not valid base64"
    return None


# ---------------------------------------------------------------- property on the implementation's answers

def split_res(r):
    """'ok x.. g=0' / 'E:cls x.. g=1' -> (main, data hex, stuck flag); main = 'ok x..' or 'E:cls'"""
    parts = r.split(" ")
    g = None
    if parts and parts[-1].startswith("g="):
        g = parts[-1][2:]
        parts = parts[:-1]
    if parts and parts[0] == "ok":
        return " ".join(parts), (parts[1][1:] if len(parts) > 1 else ""), g
    return parts[0] if parts else "", (parts[1][1:] if len(parts) > 1 else ""), g


def leak_key(main):
    # the base64 layer failing while the HTML layer still has text to write is a defect of the pinned code
    # (proposed-fixes/C10-decoder-goroutine-leak-b64err.diff); every other exit path must release the goroutine
    return "decoder-goroutine-leak-b64err" if main.startswith("E:b64") else "decoder-goroutine-leak"


def prop(line, impl, model):
    a = line.split(" ")
    op = a[1]
    if impl.startswith("!panic") or impl in ("!died", "!hang") or impl.startswith("!mem"):
        return "implementation panicked / hung / buffered without bound: " + impl[:200]
    if op in ("enc", "stream"):
        p = expand(a[2])
        if impl.startswith("E:"):
            return "encoder failed on a bytes.Buffer"
        doc = bytes.fromhex(impl)
        sp = shape_problem(doc, p)
        if sp:
            return "shape: " + sp
        # (byte equality with the model's document is the correspondence, not the property: a
        # format change that keeps the shape and carries the payload is reported as
        # no-failing-input-found)
    elif op in ("rt", "dec"):
        main, data, g = split_res(impl)
        if op == "rt":
            if main != "ok " + hx(expand(a[2])):
                return "round trip failed: decode(encode(p)) = %s (write sizes %s, source reads %s, read buffers %s)" % (
                    impl[:60], a[3][:60], a[4], a[5])
        else:
            want = STATE.get("want", {}).get(line)
            if want is not None:
                kind, p = want
                if kind == "same" and main != "ok " + hx(p):
                    return "decoding changed under rewriting: got %s" % impl[:80]
                if kind == "same-or-error" and not (main == "ok " + hx(p) or main.startswith("E:")):
                    return "rewriting produced different data: got %s" % impl[:80]
                if kind == "error" and not main.startswith("E:"):
                    return "malformed armor was accepted: got %s" % impl[:80]
                if kind == "as-model":
                    # at the tokenizer's buffer limit the model decides whether the added token still fits
                    mmain = split_res(model)[0]
                    if mmain == "ok " + hx(p) and main != mmain:
                        return "decoding changed under markup added outside the pre elements (a token that fits the 32 KiB limit): got %s" % impl[:80]
                    if mmain.startswith("E:") and not main.startswith("E:"):
                        return "a token beyond the 32 KiB limit was accepted: got %s" % impl[:80]
            if not (main.startswith("ok x") or main.startswith("E:")):
                return "decoder result is neither data nor an error: " + impl[:80]
        if g == "1":
            return ("after the decoder returned %s the goroutine started by NewArmorDecoder is still blocked in a pipe "
                    "write: it, the tokenizer's buffer and the source reader are never released" % main[:40])
        elif g != "0":
            return "no liveness verdict from the driver: " + impl[:80]
    elif op == "ahead":
        ei, em = impl.split(" ")[1:2], model.split(" ")[1:2]
        if em and em[0].startswith("E:") and ei != em and ei and not ei[0].startswith("E:"):
            return "the decoder's Reads did not return the error %s the document calls for (they ended with `%s`)" % (em[0], ei[0])
        mi, mm = re.search(r" c=(\d+)$", impl), re.search(r" c=(\d+)$", model)
        if mi and mm and int(mi.group(1)) > int(mm.group(1)) + 2 * LIMIT:
            return ("decoder read %s bytes of the source before blocking; a demand-driven decoder needs %s "
                    "(at most one token and one read ahead)" % (mi.group(1), mm.group(1)))
    elif op == "aheadg":
        if " c=over" in impl:
            return ("decoder read %s bytes of a source that gives as much as asked for, before blocking; a demand-driven "
                    "decoder needs %s plus at most one read of the tokenizer" % (impl.rsplit(":", 1)[-1], a[4]))
    elif op == "mon":
        if impl != "returns":
            return "decoder misbehaved on arbitrary input: " + impl[:80]
    return None


def key_of(line, impl, model):
    a = line.split(" ")
    if impl.startswith("!"):
        return a[1] + "-" + impl.split(" ")[0][1:]
    if a[1] in ("rt", "dec") and impl.endswith(" g=1"):
        main = split_res(impl)[0]
        ok = True
        if a[1] == "rt":
            ok = main == "ok " + hx(expand(a[2]))
        if ok:
            return leak_key(main)
    if a[1] in ("ahead", "aheadg"):
        ei, em = impl.split(" ")[1:2], model.split(" ")[1:2]
        if a[1] == "ahead" and em and em[0].startswith("E:") and ei != em:
            return "error-not-returned-promptly"
        return "unbounded-buffering"
    k = STATE.get("kind", {}).get(line)
    return k or a[1]


# ---------------------------------------------------------------- generators

def rand_partition(rng, n):
    k = rng.choice([0, 1, 2, 3, 5, 9])
    out = []
    for _ in range(k):
        out.append(rng.choice([0, 1, 1, 2, 3, 4, 5, 23, 24, 25, 767, 768, 769, 1000, rng.randrange(0, max(1, n) + 1)]))
    return ",".join(map(str, out)) or "-"


def pat(rng, sizes, zero_ok):
    r = rng.random()
    if r < 0.6:
        return str(rng.choice(sizes))
    k = rng.choice([2, 3, 5])
    out = [rng.choice(sizes + [rng.randrange(1, 40)]) for _ in range(k)]
    if not zero_ok:
        out = [max(1, x) for x in out]
    return ",".join(map(str, out))


def rs(rng):
    """(source read sizes, caller's buffer sizes): single sizes or cyclic patterns. 0 = the whole rest in one Read.
    Buffer sizes around the base64 reader's thresholds: 1..4 (less than a quantum), 768/771 (its 1024-character
    buffer), 4096."""
    return (pat(rng, [0, 0, 1, 2, 3, 7, 100, 4096], True),
            pat(rng, [1, 2, 3, 4, 5, 6, 7, 8, 16, 767, 768, 769, 771, 4096, 4096], False))


def resep(rng, payload, style):
    out = [STATE["bs"]]
    for el in py_elements(payload):
        parts = [b"<pre>"]
        if style == "min":
            parts.append(b" ".join(el))
        else:
            lead = b"".join(rng.choice(WS) for _ in range(rng.randrange(0, 3)))
            parts.append(lead)
            for i, w in enumerate(el):
                parts.append(w)
                if style == "long" and i == 0:
                    parts.append(b"".join(rng.choice(WS) for _ in range(40)))
                else:
                    parts.append(b"".join(rng.choice(WS) for _ in range(rng.choice([1, 1, 1, 2, 3]))))
        parts.append(b"</pre>" + rng.choice(WS + [b"", b"\n\n"]))
        out.append(b"".join(parts))
    out.append(STATE["be"])
    return b"".join(out)


MARKUP = [b"<b>", b"</b>", b"<div class=\"x\">", b"</div>", b"<span title='a>b'>", b"<br/>", b"<img src=x alt=y />",
          b"<p   >", b"<A HREF=\"x\">", b"<x-y z>", b"<a b=>", b"<a =b c>", b"<a b = \"c\"d>", b"<a/b>", b"<pre/>",
          b"<!-- c -->", b"<!---->", b"<!-->", b"<!--->", b"<!--a--!>", b"<!-- a - b -- c -->", b"<!--a--!b-->", b"<!x>", b"<!DOCTYPE y>",
          b"<?php ?>", b"</ x>", b"</>", b"</a b='>'>",
          b"<textarea>a<b></textarea>", b"<title>x</title>", b"<style>p{}</style>", b"<xmp><pre></xmp>",
          b"<noscript><pre></noscript>", b"<iframe></iframe>", b"<script>var a=\"<pre>\";</script>", b"<TITLE></pre></TiTlE >",
          b"<title></titlex></title>", b"<style><</</s</style></style>",
          b"hello", b"a < b", b"1<2", b"<<b>", b"&amp;", b"<3"]


def insertion_points(doc):
    """offsets outside pre elements and outside the script element, at the start of a tag"""
    pts = []
    depth_pre = False
    for m in re.finditer(rb"<(/?)([a-z]+)[^>]*>", doc):
        name = m.group(2)
        if name == b"pre":
            if m.group(1):
                depth_pre = False
                pts.append(m.end())
            else:
                pts.append(m.start())
                depth_pre = True
            continue
        if depth_pre:
            continue
        if name == b"script" and m.group(1):
            pts.append(m.end())
            continue
        pts.append(m.start())
        if not (name == b"script" and not m.group(1)):
            pts.append(m.end())
    pts.append(len(doc))
    return sorted(set(pts))


def text_points(doc):
    """offsets in text outside pre elements, outside tags and outside raw-text elements (any position of the
    whitespace between elements, not only token boundaries)"""
    pts, pos, inpre = [], 0, False
    for m in re.finditer(rb"<(/?)([a-z]+)[^>]*>", doc):
        if not inpre and pos <= m.start():
            pts += range(pos, m.start() + 1)
        name, close = m.group(2), bool(m.group(1))
        pos = m.end()
        if name == b"pre":
            inpre = not close
        elif name in (b"script", b"style", b"noscript") and not close:
            e = doc.find(b"</" + name, m.end())
            pos = len(doc) + 1 if e < 0 else e
            pos = max(pos, m.end())
            # skip to the end tag of the raw-text element: nothing may be inserted in its content
            mm = re.compile(rb"</" + name + rb"[^>]*>").search(doc, m.end())
            pos = mm.start() if mm else len(doc) + 1
    if pos <= len(doc) and not inpre:
        pts += range(pos, len(doc) + 1)
    return sorted(set(pts))


def gen(ctx):
    rng = ctx.rng
    thorough = ctx.tier == "thorough"
    mult = 10 if thorough else 1
    lines, kinds = [], []
    want, kindmap = STATE.setdefault("want", {}), STATE.setdefault("kind", {})

    def add(l, k, w=None):
        l = AREA + " " + l
        lines.append(l); kinds.append(k); kindmap[l] = k
        if w is not None:
            want[l] = w

    # base64 model vs encoding/base64
    for n in list(range(0, 12)) + [rng.randrange(0, 200) for _ in range(20 * mult)]:
        add("b64 " + payload_spec(rng, n), "b64-encode")
    for _ in range(150 * mult):
        n = rng.randrange(0, 13)
        s = bytes(rng.choice(B64 + b"==-") if rng.random() < 0.15 else rng.choice(B64) for _ in range(n))
        if rng.random() < 0.5:
            v = base64.b64encode(bytes(rng.randrange(256) for _ in range(rng.randrange(0, 8))))
            s = v if rng.random() < 0.5 else v[:rng.randrange(0, len(v) + 1)] + s[:2]
        add("b64d " + hx(s), "b64-decode")
    # encoder: whole input, boundary sizes
    el = 23807  # 992 words of 32 characters hold the version byte and the base64 of 23807.25 bytes
    sizes = list(range(0, 50)) + [24 * k for k in (3, 4, 10, 31, 32, 33, 100)] + [24 * k + d for k in (2, 5) for d in (-1, 1)]
    sizes += [el + d for d in range(-4, 5)] + [2 * el + d for d in range(-2, 4)]
    sizes += [100001, 131072] if not thorough else [100001, 131072, 300000, 3 * el, 3 * el + 1, 4 * el + 2]
    for n in sizes:
        add("enc " + payload_spec(rng, n), "enc-size")
    # encoder: write partitions
    for i in range(300 * mult):
        n = rng.choice([0, 1, 2, 3, 4, 5, 6, 23, 24, 25, 47, 48, 49, 100, 767, 768, 769, 2000, rng.randrange(0, 3000)])
        add("stream %s %s" % (payload_spec(rng, n), rand_partition(rng, n)), "stream-partition")
    for n in [el - 1, el, el + 1, el + 2, 2 * el + 1, 100001]:
        for _ in range(2 * mult):
            add("stream %s %s" % (payload_spec(rng, n), rand_partition(rng, n)), "stream-partition-big")
    # all partitions of small payloads into up to 3 writes
    for n in range(0, 8):
        sp = payload_spec(rng, n)
        for a_ in range(0, n + 1):
            for b_ in range(0, n + 1 - a_):
                add("stream %s %d,%d" % (sp, a_, b_), "stream-allsplits")
    # round trips
    for i in range(200 * mult):
        n = rng.choice([0, 1, 2, 3, 23, 24, 25, 48, 72, 100, 1000, rng.randrange(0, 5000)])
        sc, rb = rs(rng)
        add("rt %s %s %s %s" % (payload_spec(rng, n), rand_partition(rng, n), sc, rb), "roundtrip")
    for n in [el - 1, el, el + 1, 2 * el, 100001] + ([250000] if thorough else []):
        for rb in ([4096, 3] if not thorough else [1, 2, 3, 4, 4096]):
            add("rt %s %s %s %d" % (payload_spec(rng, n), rand_partition(rng, n), rng.choice(["0", "4096", "7", "1000,3,50"]), rb), "roundtrip-big")
    # whitespace re-separation
    for i in range(120 * mult):
        n = rng.choice([0, 1, 2, 3, 24, 25, 100, 500, rng.randrange(0, 2000)])
        p = expand(payload_spec(rng, n))
        sc, rb = rs(rng)
        add("dec %s %s %s" % (sc, rb, doc_tokens(resep(rng, p, rng.choice(["min", "rand", "rand"])))), "resep", ("same", p))
    for n in [el, el + 1] + ([2 * el + 5] if thorough else []):
        p = expand(payload_spec(rng, n))
        add("dec 0 4096 %s" % doc_tokens(resep(rng, p, "min")), "resep-big", ("same", p))
        add("dec 0 4096 %s" % doc_tokens(resep(rng, p, "rand")), "resep-big-grown", ("same-or-error", p))
        add("dec 0 4096 %s" % doc_tokens(resep(rng, p, "long")), "resep-big-grown", ("same-or-error", p))
    # limit: exactly at / around the tokenizer's buffer limit with a single element
    # (payload of 3k bytes: no padding, so that the look-ahead bytes "</" which the tokenizer leaves in an
    # oversized text token do not follow a padded quantum -- see the after-padding note in Armor.v)
    p = expand("g23001.7")
    for extra in (b"", b"QU\n", b"Q\n"):
        base = py_armor(p).replace(b"</pre>", extra + b"</pre>", 1)
        textlen = len(base) - len(STATE["bs"]) - len(STATE["be"]) - len(b"<pre></pre>\n")
        for target in range(LIMIT - 6, LIMIT + 3):
            padn = target - textlen
            doc = base.replace(b"<pre>\n", b"<pre>\n" + b" " * padn, 1)
            add("dec 0 4096 %s" % doc_tokens(doc), "resep-at-limit" if not extra else "malformed-at-limit",
                ("same-or-error", p) if not extra else ("error", b""))
    # markup inserted outside the pre elements
    for i in range(250 * mult):
        n = rng.choice([0, 1, 24, 100, 700])
        p = expand(payload_spec(rng, n))
        doc = py_armor(p)
        # all insertion points are taken on the original document (never inside inserted markup)
        if i % 3 == 2:
            # anywhere in the text between elements; a lone '<' would join what follows it, so the inserted markup
            # is followed by a space when it ends in text
            pts = [x for x in text_points(doc) if x >= len(STATE["bs"])]
            for at in sorted((rng.choice(pts) for _ in range(rng.choice([1, 1, 2, 4]))), reverse=True):
                doc = doc[:at] + rng.choice(MARKUP + [b"AT&amp;T", b"&lt;pre&gt;", b"\x00", b"caf\xc3\xa9"]) + b" " + doc[at:]
            kind = "outside-text"
        else:
            pts = insertion_points(doc)
            for at in sorted((rng.choice(pts) for _ in range(rng.choice([1, 1, 2, 4]))), reverse=True):
                doc = doc[:at] + rng.choice(MARKUP) + doc[at:]
            kind = "outside-markup"
        sc, rb = rs(rng)
        add("dec %s %s %s" % (sc, rb, doc_tokens(doc)), kind, ("same", p))
    p = expand("g%d.3" % (el + 100))
    doc = py_armor(p).replace(b"</pre>\n<pre>", b"</pre><hr><!-- x --><p class=\"a\">text</p>\n<pre>")
    add("dec 0 4096 %s" % doc_tokens(doc), "outside-markup-big", ("same", p))
    # ONE LARGE token of every kind outside the pre elements (what a cache really adds: an inlined runtime <style>/<script>,
    # a long comment, a long attribute, a long text run): every token that fits the tokenizer's 32 KiB buffer is as
    # invisible as a small one, wherever it stands - before the first pre element, between two, after the last. L is the
    # raw length of the token. Well inside the limit the predicate is stated here (same data); within 32 bytes of it the
    # look-ahead of each token kind decides (text: 2 bytes, raw text: its end tag) and the model's verdict is the
    # expectation (C10_outside_anything's fit premise, C10_outside_markup's [neutral]); beyond it decoding must fail.
    def big_token(kind, L):
        if kind == "comment":
            return b"<!--" + b"c" * (L - 7) + b"-->"
        if kind == "attr":
            return b"<div data-x=\"" + b"a" * (L - 15) + b"\">"
        if kind == "attrs":
            reps = (L - 5) // 6
            return b"<p " + b"a='b' " * reps + b" " * (L - 5 - 6 * reps) + b"x>" if L >= 11 else b"<p>"
        if kind == "text":
            return b"t" * L
        if kind == "style":
            return b"<style>" + b"p{}" * ((L) // 3) + b" " * (L % 3) + b"</style>"
        if kind == "script":
            return b"<script>" + b"var a=\"<pre>\";" * (L // 14) + b" " * (L % 14) + b"</script>"
        if kind == "title":
            return b"<title>" + b"x" * L + b"</title>"
        if kind == "doctype":
            return b"<!DOCTYPE " + b"y" * (L - 11) + b">"
        raise ValueError(kind)
    KINDS = ["comment", "attr", "attrs", "text", "style", "script", "title", "doctype"]
    p2 = expand("g%d.3" % (el + 100))      # two pre elements
    docs = [(expand(payload_spec(rng, 100)), None), (p2, None)]
    def places(doc):
        first = doc.index(b"<pre>")
        last = doc.rindex(b"</pre>") + 6
        out = [("before", first), ("after", last)]
        mid = doc.find(b"</pre>\n<pre>")
        if mid >= 0:
            out.append(("between", mid + 6))
        out.append(("head", doc.index(b"<head>") + 6) if b"<head>" in doc[:first] else ("start", 0))
        return out
    sizes_same = [4095, 4096, 4097, 8192, 20000, 32767 - 32]
    for kind in KINDS:
        for j, L in enumerate(sizes_same + [rng.randrange(4098, 32700)] * (1 if not thorough else 8)):
            p = docs[0][0] if (j % 3) else p2
            doc = py_armor(p)
            name, at = rng.choice(places(doc))
            tokb = big_token(kind, L)
            # text is delimited by tags so that it is one text token of exactly L bytes
            ins = (b"<b>" + tokb + b"</b>") if kind == "text" else tokb
            d2 = doc[:at] + ins + doc[at:]
            sc, rb = rng.choice([("0", "4096"), ("0", "4096"), ("4096", "4096"), ("100", "768"), ("1000,3,50", "3")])
            add("dec %s %s %s" % (sc, rb, doc_tokens(d2)), "outside-markup", ("same", p))
        doc = py_armor(docs[0][0])
        for L in [32767 - 20, 32767 - 9, 32767 - 8, 32767 - 2, 32767 - 1, 32767, 32768, 32769, 32768 + 8]:
            name, at = rng.choice(places(doc))
            tokb = big_token(kind, L)
            ins = (b"<b>" + tokb + b"</b>") if kind == "text" else tokb
            add("dec 0 4096 %s" % doc_tokens(doc[:at] + ins + doc[at:]), "outside-markup", ("as-model", docs[0][0]))
        for L in [32768 + 40, 40000]:
            name, at = rng.choice(places(doc))
            tokb = big_token(kind, L)
            ins = (b"<b>" + tokb + b"</b>") if kind == "text" else tokb
            add("dec 0 4096 %s" % doc_tokens(doc[:at] + ins + doc[at:]), "outside-markup", ("error", b""))
    # markup inside a pre element (not required to be harmless; model and implementation must agree)
    for i in range(60 * mult):
        # payloads of 3k bytes: no padding, so inserted base64 text never follows a padded quantum
        p = expand(payload_spec(rng, rng.choice([3, 24, 99])))
        doc = py_armor(p)
        a0 = doc.index(b"<pre>") + 5
        a1 = doc.index(b"</pre>")
        at = rng.randrange(a0, a1 + 1)
        doc = doc[:at] + rng.choice([b"<b>", b"</b>", b"<!-- x -->", b"<br/>", b"<title>QUJD</title>", b"<pre/>", b" ", b"<i >"]) + doc[at:]
        add("dec %s %s %s" % (*rs(rng), doc_tokens(doc)), "inside-markup")
    # malformed armor
    good = py_armor(b"hello, world")
    S, E = STATE["bs"], STATE["be"]
    mal = [
        (b"", "error"), (S + E, "error"), (S + b"<pre></pre>" + E, "error"), (S + b"<pre> \n </pre>" + E, "error"),
        (S + b"<pre>\n0\n" + E, "error"), (S + b"<pre>\n0QUJD\n", "error"), (S + b"<pre>\n0QUJD", "error"),
        (S + b"<pre>\n0QUJD\n</pre", "error"), (S + b"<pre>\n0QUJD\n</", "error"), (S + b"<pre>\n0QUJD\n<", "error"),
        (S + b"<pre>0<pre>QUJD</pre></pre>" + E, "error"), (S + b"<pre>0QUJD</pre></pre>" + E, "error"),
        (S + b"</pre><pre>0QUJD</pre>" + E, "error"), (S + b"<pre>0QUJD</pre><pre>" + E, "error"),
        (S + b"<PRE>0<pre>QUJD</pre>" + E, "error"), (S + b"<pre>0QUJD</PRE></pre>" + E, "error"),
        (S + b"<pre>1QUJD</pre>" + E, "error"), (S + b"<pre>QUJD</pre>" + E, "error"), (S + b"<pre>\x00QUJD</pre>" + E, "error"),
        (S + b"<pre>0QUJ</pre>" + E, "error"), (S + b"<pre>0QUJDQ</pre>" + E, "error"), (S + b"<pre>0QU*D</pre>" + E, "error"),
        (S + b"<pre>0QQ=</pre>" + E, "error"), (S + b"<pre>0Q===</pre>" + E, "error"), (S + b"<pre>0=QUJ</pre>" + E, "error"),
        (S + b"<pre>0QUJD-QUJD</pre>" + E, "error"), (S + b"<pre>0QUJD</pre><pre>Q\xc3\xa9JD</pre>" + E, "error"),
        (S + b"<pre>0QUJD</pre><pre>QUJD<pre></pre>" + E, "error"),
        (S + b"<pre>0" + b"QUJD" * 8192 + b"</pre>" + E, "error"),
        (S + b"<pre>0 " + b"QUJD " * 6553 + b"QUJDQUJD</pre>" + E, "error"),
        (S + b"<pre>0QUJD</pre>" + b" " * 40000 + E, "error"),
        (S + b"<pre>0QUJD</pre><b " + b"a" * 40000 + b">" + E, "error"),
        (S + b"<pre>0QUJD</pre><!--" + b"a" * 40000 + b"-->" + E, "error"),
        (S + b"<pre>0QUJD</pre><title>" + b"a" * 40000 + b"</title>" + E, "error"),
        (b"<pre>0QUJD</pre>", None), (b"<pre>0</pre>", None), (b"<pre class=\"x\" >\t0QUJD</pre  >", None),
        (b"<Pre>0QU</pRE><pre>JD</pre>", None), (b"<pre>0Q<b>UJ</b>D</pre>", None), (b"<pre/>0<pre>0QQ==</pre>", None),
        (b"<plaintext><pre>0QUJD</pre>", "error"), (b"<pre><plaintext>0QUJD</pre>", "error"),
        (b"<pre>0QUJD</pre><title>", None), (b"<pre>0QUJD</pre><title></titl", None), (b"<pre>0QUJD</pre><!-", None),
        (b"<pre>0QUJD</pre><!--x--", None), (b"<pre>0QUJD</pre></", None), (b"<pre>0QUJD</pre><a b='", None),
    ]
    for doc, w in mal:
        for sc, rb in ([(0, 4096), (1, 1), (7, 3)] if len(doc) < 5000 else [(0, 4096)]):
            add("dec %d %d %s" % (sc, rb, doc_tokens(doc)), "malformed", (w, b"") if w else None)
    # mutations of a valid document
    for i in range(300 * mult):
        d = bytearray(good)
        a0 = d.index(b"<pre>")
        for _ in range(rng.choice([1, 1, 2])):
            r = rng.random()
            at = rng.randrange(a0, len(d) - len(E) + 2)
            if r < 0.3:
                del d[at:at + rng.choice([1, 1, 2, 5])]
            elif r < 0.6:
                d[at:at] = rng.choice([b"<pre>", b"</pre>", b"=", b"*", b"Q", b"<", b">", b"/", b"<!--", b"<title>", b"\x00",
                                       b"&", b"&#81;", b"&amp;", b"<script>", b"-->", b"</title>", b"<PRE>", b"==", b"<![CDATA["])
            else:
                d[at] = rng.choice(b"<>/=pre QA09+\n!-&;#\x00")
        s = bytes(d)
        add("dec %s %s %s" % (*rs(rng), doc_tokens(s)), "mutated")
    # every truncation of a valid document
    for k in range(0, len(good) + 1, 1 if thorough else 3):
        add("dec %s %s %s" % (*rs(rng), doc_tokens(good[:k])), "truncated")
    for k in range(len(good) - len(E) - 40, len(good) + 1):
        add("dec %s %s %s" % (*rs(rng), doc_tokens(good[:k])), "truncated")
    # arbitrary bytes: compared like everything else (the model covers character references, NUL, script
    # escapes, CDATA as bogus comment, data after base64 padding), plus the allocation monitor on a part
    soup = [b"<", b">", b"/", b"pre", b"<pre>", b"</pre>", b"&", b"&#48;", b"<!--", b"-->", b"<script>", b"</script>", b"=", b"0",
            b"QUJD", b" ", b"\n", b"\x00", b"<title>", b"'", b"\"", b"<![CDATA[", b"]]>", b"<plaintext>"]
    for i in range(300 * mult):
        if rng.random() < 0.5:
            s = bytes(rng.randrange(256) for _ in range(rng.randrange(0, 300)))
        else:
            s = b"".join(rng.choice(soup) for _ in range(rng.randrange(0, 40)))
        add("%s %s %s %s" % ("mon" if i % 4 == 0 else "dec", *rs(rng), doc_tokens(s)), "arbitrary")
    for big in (b"<pre>0" + b"QUJD" * 40000, b"<pre>0" + b"QUJD " * 40000, b"<b " + b"a='b' " * 40000):
        add("mon 0 4096 %s" % doc_tokens(big), "arbitrary-huge")
        add("dec 0 4096 %s" % doc_tokens(big), "arbitrary-huge")
    for sc, rb in (("7", "1"), ("0", "4096"), ("1", "3"), ("0", "4")):
        add("dec %s %s %s" % (sc, rb, doc_tokens(b"<pre>0QQ==</pre><pre>QUJD</pre>")), "after-padding")
        add("dec %s %s %s" % (sc, rb, doc_tokens(b"<pre>0QQ==QUJD QUI= QUJD</pre>")), "after-padding")
    gen_adversarial(ctx, add)
    return lines, kinds


# ---------------------------------------------------------------- adversarial documents (outside the encoder's grammar)

ADV = [b"<pre>", b"</pre>", b"<PRE>", b"</PRE >", b"<pRe\n>", b"<pre/>", b"<pre a='>' B=\"<pre>\">", b"</pre x=y>", b"<!--", b"-->", b"<!-- x -->",
       b"<!-->", b"<!--->", b"<!--a--!>", b"--!>", b"<script>", b"</script>", b"<SCRIPT >", b"</ScRiPt\t>",
       b"<script>a<!--<script>b</script>c--></script>", b"<script><!--<script></script>", b"<!--<script>", b"</script",
       b"<style>", b"</style>", b"<title>", b"</title>", b"</titl", b"<textarea>", b"</textarea >", b"<xmp>", b"</xmp>", b"<plaintext>",
       b"<noscript>", b"</noscript>", b"<iframe>", b"</iframe/>", b"<title/>", b"<![CDATA[", b"]]>", b"<!DOCTYPE html>", b"<!doctype", b"<?x ?>",
       b"</>", b"</ >", b"<", b">", b"</", b"<a", b"<a b=\"", b"<a b='x", b"<a/", b"<b>", b"</b>", b"<br/>", b"<p class=x>", b"<TITLE>x</TiTlE>",
       b"&", b"&amp;", b"&amp", b"&#48;", b"&#x3c;pre&#x3e;", b"&lt;pre&gt;", b"&#", b"&#x", b"&#x;", b"&#1x", b"&foo;", b"&notin;", b"&nbsp;",
       b"&equals;", b"&plus;", b"&sol;", b"&Tab;", b"&NewLine;", b"&#32;", b"&#x0a;", b"&#0;", b"&#4294967361;",
       b"\x00", b"\x00\x00\x00", b"=", b"==", b"QQ==", b"QUI=", b"Q", b"QUJD", b"*", b"\r\n", b"\x0c", b" ", b"\t", b"\xc3\xa9", b"\xff"]
ENT = {ord("+"): [b"&plus;", b"&#43;", b"&#x2b;", b"&#X2B"], ord("/"): [b"&sol;", b"&#47;"], ord("="): [b"&equals;", b"&#61;", b"&#x3D;"]}
WSENT = [b"&#32;", b"&Tab;", b"&NewLine;", b"&#10;", b"&#x20;", b"&#9;", b"&#13;", b"&#12;"]


def entity_text(rng, payload):
    """the armored text of payload with characters written as character references: the decoder sees Text(),
    i.e. the same words"""
    s = b"0" + base64.b64encode(payload)
    out = []
    for i, c in enumerate(s):
        r = rng.random()
        if r < 0.15:
            out.append(rng.choice(ENT.get(c, []) + [b"&#%d;" % c, b"&#x%x;" % c, b"&#%d " % c if False else b"&#%d;" % c]))
        else:
            out.append(bytes([c]))
        if rng.random() < 0.1:
            out.append(rng.choice(WS + WSENT))
    return b"".join(out)


def adv_doc(rng):
    r = rng.random()
    if r < 0.35:
        p = bytes(rng.randrange(256) for _ in range(rng.choice([0, 1, 2, 3, 9, 30])))
        d = bytearray(b"<pre>" + entity_text(rng, p) + b"</pre>")
        n_ins = rng.choice([0, 1, 1, 2, 4])
    elif r < 0.6:
        p = bytes(rng.randrange(256) for _ in range(rng.choice([1, 3, 24, 50])))
        d = bytearray(py_armor(p)[len(STATE["bs"]) - rng.choice([0, 0, 20]):])
        n_ins = rng.choice([1, 2, 3, 6])
    else:
        d = bytearray(rng.choice([b"", b"<pre>0", b"<pre>0", b"<pre>0QUJD", b"<pre>\n0QUJD\n", b"<PRE>0", b"<pre>0QUJD</pre>"]))
        n_ins = rng.randrange(1, 14)
    for _ in range(n_ins):
        at = rng.randrange(0, len(d) + 1)
        d[at:at] = rng.choice(ADV)
    if rng.random() < 0.25 and d:
        del d[rng.randrange(0, len(d)):]
    if rng.random() < 0.2 and d:
        for _ in range(rng.choice([1, 2, 5])):
            d[rng.randrange(0, len(d))] = rng.randrange(256)
    return bytes(d)


def entity_names():
    txt = open(vlib.COQ + "/Model/HtmlEntities.v").read()
    return [m.encode() for m in re.findall(r'\("([A-Za-z0-9]+;?)"%string', txt)]


def gen_adversarial(ctx, add):
    rng = ctx.rng
    mult = 10 if ctx.tier == "thorough" else 1
    # character references: html.UnescapeString against Armor.unescape, every name of the table in four contexts
    names = entity_names()
    STATE["n_entities"] = len(names)
    for i in range(0, len(names), 80):
        part = names[i:i + 80]
        for form in (lambda n: b"&" + n, lambda n: b"&" + n + b"x", lambda n: b"&" + n.rstrip(b";"), lambda n: b"&" + n[:-2] + b";"):
            add("unesc " + hx(b"|".join(form(n) for n in part)), "unescape-named")
    nums = [0, 1, 9, 10, 13, 32, 38, 60, 65, 127, 128, 129, 130, 142, 159, 160, 255, 256, 0x7ff, 0x800, 0xd7ff, 0xd800, 0xdfff, 0xe000, 0xfffd,
            0xffff, 0x10000, 0x10ffff, 0x110000, 2**31 - 1, 2**31, 2**31 + 65, 2**32 - 1, 2**32, 2**32 + 65, 2**33 + 0x41, 10**20]
    forms = []
    for n in nums:
        forms += [b"&#%d;" % n, b"&#%d" % n, b"&#%dz" % n, b"&#x%x;" % n, b"&#X%X" % n, b"&#x%xg" % n, b"&#0%d;" % n]
    forms += [b"&", b"&;", b"&#", b"&#;", b"&#x", b"&#x;", b"&#X;", b"&#xg", b"&#1", b"&#1x", b"&#12x", b"&#x1", b"&#x1g", b"&# 1;", b"&#-1;", b"&&amp;&",
              b"&a", b"&am", b"&amp", b"&ampx", b"&ampx;", b"&amp=", b"&notit;", b"&notin;", b"&no", b"&not", b"&lt", b"&ltx;", b"&" + b"a" * 40 + b";",
              b"&CounterClockwiseContourIntegral;", b"&CounterClockwiseContourIntegralx", b"a&b", b"&#65;&#66", b"&#x41;&#x42"]
    for i in range(0, len(forms), 12):
        add("unesc " + hx(b"|".join(forms[i:i + 12])), "unescape-numeric")
    for f in forms:
        add("unesc " + hx(f), "unescape-numeric")
    for _ in range(60 * mult):
        s = b"".join(rng.choice([b"&", b"#", b"x", b";", b"a", b"m", b"p", b"l", b"t", b"1", b"9", b"f", b"G", b" ", b"=", b"&amp", b"&#x"]) for _ in range(rng.randrange(1, 14)))
        add("unesc " + hx(s), "unescape-random")
    # the tokenizer at the decoder's granularity, and the decoder, on documents mixing everything
    for _ in range(500 * mult):
        add("tok " + doc_tokens(adv_doc(rng)), "adversarial-tokens")
    for _ in range(900 * mult):
        add("dec %s %s %s" % (*rs(rng), doc_tokens(adv_doc(rng))), "adversarial")
    fixed = [b"<pre>0QU&#74;D</pre>", b"<pre>0QU&amp;D</pre>", b"<pre>&#48;QUJD</pre>", b"<pre>0QUJD&#32;QUJD&Tab;QUJD&NewLine;</pre>",
             b"<pre>0QQ&equals;&equals;</pre>", b"<pre>0&lt;pre&gt;QUJD</pre>", b"<pre>0QUJD\x00</pre>", b"<pre>\x000QUJD</pre>",
             b"<pre><title>0QUJD</title></pre>", b"<pre><title>0QUJ&#68;</title></pre>", b"<pre><style>0QUJ&#68;</style></pre>",
             b"<pre><title>0QUJD\x00</title></pre>", b"<pre><script>0QUJD</script></pre>", b"<pre><script>0QUJD<!--<script></script>QUJD--></script>QUJD</pre>",
             b"<pre><script>0QUJD<!--</script>QUJD</pre>", b"<pre><script>0<!--<script></script >QUJD</script>QUJD</pre>", b"<pre><plaintext>0QUJD</pre>",
             b"<script><pre>0QUJD</pre></script><pre>0QQ==</pre>", b"<!--<pre>0QUJD</pre>--><pre>0QQ==</pre>", b"<![CDATA[<pre>0QUJD</pre>]]>",
             b"<title><pre>0QUJD</pre></title><pre>0QQ==</pre>", b"<textarea></pre></textarea><pre>0QQ==</pre>", b"<pre a=\"</pre>\">0QUJD</pre>",
             b"<PRE>0QUJD</PRE>", b"<pre/>0QUJD</pre>", b"<pre>0QUJD</pre/>", b"<pre>0QUJD</pre x>", b"<pre>0QUJD</pre", b"<pre>0QUJD</pre ", b"<pre",
             b"<pre >0QU<JD</pre>", b"<pre>0QUJD<</pre>", b"<pre>0QUJD</></pre>", b"<pre>0QUJD<!></pre>", b"<pre>0QUJD<?></pre>", b"<pre>0QUJD<!-</pre>-->QUJD</pre>",
             b"<pre>1QUJD</pre>", b"<pre>1 QUJD</pre>", b"<pre>1</pre><pre>QUJD</pre>", b"<pre>1</pre>", b"<pre>\x00</pre>", b"<pre>1" + b" QUJD" * 3000 + b"</pre>",
             b"<pre>0QU*D QUJD</pre>", b"<pre>0QU*D</pre><pre>QUJD</pre>", b"<pre>0QUJD=QUJD</pre>", b"<pre>0QUJD QUJD<pre>", b"<pre>0QUJD</pre></pre><pre>QUJD</pre>"]
    for doc in fixed:
        for sc, rb in (("0", "4096"), ("1", "1"), ("7", "3"), ("3,1", "4,1,768")):
            add("dec %s %s %s" % (sc, rb, doc_tokens(doc)), "exit-paths")
        add("tok " + doc_tokens(doc), "adversarial-tokens")
    # the buffer limit in the raw-text, script and comment states; a NUL-expanded word at bufio.MaxScanTokenSize
    for opn, cls in ((b"<title>", b"</title>"), (b"<xmp>", b"</xmp>"), (b"<script>", b"</script>"), (b"<script><!--<script>", b"</script>--></script>")):
        fixedlen = len(opn)
        for total in ([LIMIT - 12, LIMIT - 3, LIMIT - 2, LIMIT - 1, LIMIT, LIMIT + 5] if opn != b"<xmp>" else [LIMIT - 2, LIMIT - 1]):
            body = b"0" + b"QUJD" * ((total - 1) // 4)
            body += b" " * (total - len(body))
            doc = b"<pre>" + opn + body + cls + b"</pre>"
            add("dec 0 4096 %s" % doc_tokens(doc), "limit-raw")
            add("tok %s" % doc_tokens(doc), "limit-raw")
    for inner in (b"<!--" + b"a" * 40000 + b"-->", b"<b " + b"a" * 40000 + b">", b"<!DOCTYPE " + b"a" * 40000 + b">", b"<plaintext>" + b"a" * 40000):
        add("tok %s" % doc_tokens(b"<pre>0QUJD</pre>" + inner), "limit-raw")
        add("dec 0 4096 %s" % doc_tokens(b"<pre>0QUJD</pre>" + inner), "limit-raw")
    for nuls in (21845, 21846, 30000):
        doc = b"<pre><title>0QUJD " + b"\x00" * nuls + b" QUJD</title>QUJD</pre>"
        add("dec 0 4096 %s" % doc_tokens(doc), "scanner-too-long")
        add("dec 3 5 %s" % doc_tokens(doc), "scanner-too-long")
    # demand-driven reading: after k Reads the producer has consumed exactly what its next Write needs
    for _ in range(60 * mult):
        p = expand(payload_spec(rng, rng.choice([3, 24, 100, 500, 2000])))
        doc = resep(rng, p, "rand")
        for at in sorted((m.start() for m in re.finditer(rb"[ \n\t]", doc) if rng.random() < 0.02), reverse=True):
            doc = doc[:at] + rng.choice([b"<b>", b"</b>", b"<!-- c -->", b"<br/>"]) + doc[at:]
        doc = doc.replace(b"</pre>", b"</pre>" + b"<!-- filler -->\n" * rng.choice([0, 10, 300]), 1)
        k = rng.choice([1, 7, 100, 1000, 2048])
        add("ahead %d %s %d %s" % (k, rng.choice(["1", "3", "16", "4096", "2,5"]), rng.choice([0, 1, 2, 5, 50, 100000]), doc_tokens(doc)), "read-ahead")
    for doc in fixed[:20]:
        add("ahead %d %d %d %s" % (rng.choice([1, 5, 64]), rng.choice([1, 4, 4096]), rng.choice([0, 1, 3]), doc_tokens(doc)), "read-ahead")
    # a long document: after the first Read the decoder has consumed one element's worth, not the document
    p = expand("g100.1")
    long_doc = STATE["bs"] + b"<pre>\n0" + base64.b64encode(p) + b"\n</pre>\n" + b"<p>filler</p>\n" * 40000 + b"<pre>QUJD</pre>" + STATE["be"]
    add("ahead 2048 16 1 %s" % doc_tokens(long_doc), "read-ahead-long")
    add("ahead 1000 4096 0 %s" % doc_tokens(long_doc), "read-ahead-long")
    # a base64 error EARLY in a long document: the Read that meets the bad word returns the error once the producer
    # has reached its next Write (the next word), it does not wait for - or read - the rest of the document. The bad
    # word is followed by another word of the same element, so the producer is parked right behind it and the model's
    # consumption is exact; the tail holds further elements (a decoder that drains the pipe instead of closing it
    # walks through all of them)
    for bad, nreads in ((b"0QUJD QU*D QUJD", 4), (b"0QU*D QUJD", 2), (b"0QUJD QUJD Q=JD QUJD", 5), (b"0QUJDQUJ* QUJD", 3)):
        tail = (b"<p>filler</p>\n" * 400 + b"<pre>QUJD QUJD</pre>\n") * 60
        doc = STATE["bs"] + b"<pre>\n" + bad + b"\n</pre>\n" + tail + STATE["be"]
        for sp_, rb in (("1000,3,50", "16"), ("2048", "4096"), ("7", "3")):
            add("ahead %s %s %d %s" % (sp_, rb, nreads, doc_tokens(doc)), "error-before-long-tail")
        add("dec 2048 4096 %s" % doc_tokens(doc), "error-before-long-tail")
    # ... also from a source that returns as much as each Read asks for (what the model says a byte-wise source
    # would have delivered is given to the driver as the yardstick)
    for rb, k in (("16", 1), ("4096", 0)):
        m = vlib.run_model([AREA + " ahead 1 %s %d %s" % (rb, k, doc_tokens(long_doc))])[0]
        need = int(m.rsplit("c=", 1)[1])
        add("aheadg %s %d %d %s" % (rb, k, need, doc_tokens(long_doc)), "read-ahead-greedy")


def consts_crosscheck(ctx, boiler):
    """the model's constants against the literals in the Go source (cross-check only; the
    behavioural tie is the byte-exact encoder correspondence)"""
    try:
        src = open(vlib.REPO + "/common/amp/armor_encoder.go").read()
        m = re.search(r"boilerplateStart = `(.*?)`\s*boilerplateEnd = `(.*?)`", src, re.S)
        if not m:
            return
        if (m.group(1).encode(), m.group(2).encode()) != boiler:
            ctx.not_shown("constants: the AMP boilerplate in armor_encoder.go differs from coq/Model/Armor.v")
        ctx.extra["constants_crosschecked"] = ["boilerplateStart", "boilerplateEnd"]
    except OSError:
        pass


def entities_crosscheck(ctx):
    """the model's entity table against the map literals of the library source the repo's go.mod selects
    (cross-check only: a name the table lacks would not be exercised by the unesc cases)"""
    try:
        ver = re.search(r"golang.org/x/net (v\S+)", open(vlib.REPO + "/go.mod").read()).group(1)
        import subprocess
        cache = subprocess.run(["go", "env", "GOMODCACHE"], capture_output=True, text=True, timeout=60).stdout.strip()
        src = open("%s/golang.org/x/net@%s/html/entity.go" % (cache, ver)).read()
    except Exception:
        return
    lib = set(m.encode() for m in re.findall(r'^\t"([A-Za-z0-9]+;?)":', src, re.M))
    mine = set(entity_names())
    if lib != mine:
        ctx.not_shown("constants: coq/Model/HtmlEntities.v differs from x/net/html/entity.go (%d names only in the library, %d only in the model)"
                      % (len(lib - mine), len(mine - lib)))
    ctx.extra["entity_table_crosschecked"] = len(mine)


def run(ctx):
    exe = vlib.go_build("./zz_verif/armor")
    ctx.trusted += ["golang.org/x/net/html tokenizer, bufio.Scanner, io.Pipe and base64.NewDecoder are library code: modelled "
                    "(coq/Model/Armor.v tokenizer automaton + Text(); coq/Model/ArmorStream.v pipe and base64 reader), tied by "
                    "correspondence: token streams (op tok), html.UnescapeString on every entity name (op unesc), decoder results, "
                    "source consumption (op ahead)",
                    "python reference of the documented armor format in lib/checks/c10.py (shape / round-trip predicates)"]
    ctx.assumptions += ["model = coq/Model/Base64.v + Armor.v + ArmorStream.v + HtmlEntities.v (hand written / table generated from "
                        "the library source); tie = correspondence on generated cases",
                        "the source reader returns its bytes and then io.EOF (no I/O errors, no (0, nil) reads)"]
    b = vlib.run_model([AREA + " boiler"])[0].split(".")
    STATE["bs"], STATE["be"] = bytes.fromhex(b[0]), bytes.fromhex(b[1])
    consts_crosscheck(ctx, (STATE["bs"], STATE["be"]))
    entities_crosscheck(ctx)
    lines, kinds = gen(ctx)
    ctx.correspond(exe, lines, kinds, label="amp-armor", prop=prop, key_of=key_of)
    # bounded buffering / no hang on an endless document (implementation monitors only): a well-formed document
    # whose first pre element is complete must yield its first decoded byte after about one tokenizer buffer of
    # input, whatever follows; an endless run of markup outside pre must not be swallowed before anything is returned
    good = bytes.fromhex(vlib.run_model([AREA + " enc x414243444546"])[0])
    first_pre_end = good.find(b"</pre>") + 6
    lazy = []
    for fill in (0, 1):
        lazy.append(("lazy %d 0 %s" % (fill, doc_tokens(good[:first_pre_end])), "first=data consumed=small"))
        lazy.append(("lazy %d 0 %s" % (fill, doc_tokens(STATE["bs"] + b"<pre>\n0QUJD\n</pre>")), "first=data consumed=small"))
    # a pre element that never ends, its words separated by inner markup (every text token short): the first decoded byte
    # must still arrive after a bounded part of it
    lazy.append(("lazy 3 0 %s" % doc_tokens(STATE["bs"] + b"<pre>\n0QUJD"), "first=data consumed=small"))
    lazy.append(("lazy 3 0 %s" % doc_tokens(b"<pre>0QUJD QUJD<i></i>"), "first=data consumed=small"))
    # the same with a BAD base64 word in the complete first element: the error must be returned after a bounded part
    # of the endless (fill 0, 1) or stalled (fill 2) remainder, whether the bad word is followed by another word of
    # its element (producer parked behind it) or ends it (producer on its way through the filler), at once or after data
    S = STATE["bs"]
    for docb, fills in ((S + b"<pre>\n0QUJD QU*D QUJD\n</pre>", (0, 1, 2)), (S + b"<pre>\n0QU*D\n</pre>", (0, 2)),
                        (S + b"<pre>\n0QUJD QUJD QUJD QUJD QUJD QUJD QUJD Q-JD QUJD QUJD\n</pre>", (1,)),
                        (b"<pre>0QUJD QUJD=\n</pre>", (0,))):
        for fill in fills:
            lazy.append(("lazyerr %d 64 %s" % (fill, doc_tokens(docb)), "end=error:b64 consumed=small"))
    # ... and the other error exits in front of a remainder that never ends: unknown version (NewArmorDecoder itself
    # must return), nested and stray pre after data
    for docb, want, fills in ((S + b"<pre>\n1QUJD QUJD\n</pre>", "end=error:version consumed=small", (0, 2)),
                              (S + b"<pre>\n0QUJD QUJD\n<pre>QUJD", "end=error:err consumed=small", (1, 2)),
                              (S + b"<pre>\n0QUJD\n</pre></pre>", "end=error:err consumed=small", (0,))):
        for fill in fills:
            lazy.append(("lazyerr %d 64 %s" % (fill, doc_tokens(docb)), want))
    llines = [AREA + " " + l for l, _ in lazy]
    rc, out, err = vlib.run_impl(exe, llines, timeout=400)
    for (l, want), line, o in zip(lazy, llines, out + ["!died"] * (len(llines) - len(out))):
        ctx.count(line[:300], kind="endless-document")
        if o != want:
            if l.startswith("lazyerr") and ("end=none" in o or o in ("!hang", "!died")):
                ctx.violation("error-not-returned-promptly", "decoder fed a document with an error in its first element and a remainder that "
                              "never ends: expected '%s', got '%s' (the call that met the error did not return it)" % (want, o),
                              dict(label="amp-armor-lazy", case=line[:3000], impl=o))
            else:
                ctx.violation("unbounded-buffering", "decoder fed an endless document: expected '%s', got '%s' (input consumed before the first output)" % (want, o),
                              dict(label="amp-armor-lazy", case=line[:3000], impl=o))


def replay(ctx, doc):
    exe = vlib.go_build("./zz_verif/armor")
    b = vlib.run_model([AREA + " boiler"])[0].split(".")
    STATE["bs"], STATE["be"] = bytes.fromhex(b[0]), bytes.fromhex(b[1])
    bad = 0
    for v in doc.get("violations", []):
        case = v["replay"].get("case")
        if not case:
            continue
        m = vlib.run_model([case])[0]
        rc, r, err = vlib.run_impl(exe, [case])
        r = r[0] if r else "!died"
        p = prop(case, r, m)
        if not p and m != r:
            p = "model and implementation disagree"
        print("case: %s\n model: %s\n impl:  %s\n property: %s" % (case[:300], m[:300], r[:300], p or "holds"))
        bad += 1 if p else 0
    return 1 if bad else 0
