"""C04 — broker matching core; scenarios and model correspondence shared in brokerlib.py."""
import json
import vlib
from checks import brokerlib

CID = "C04"


def run(ctx):
    ctx.assumptions += ["model = coq/Model/Broker.v version V1 (hand written); critical sections atomic; timers may fire at any step",
                        "tie = scenario correspondence (forced-order scripts replayed in the extracted model) + property predicates on herds",
                        "matching pool relational in Model/Broker.v; the array SnowflakeHeap machine (Model/BrokerImpl.v) is proved to refine it and replays every forced-order scenario (`broker irun`); Go scheduler/timers not verified",
                        "bridge list: re-installation at any step is a label of the model (L_Install); the default-bridge rule is applied by the model (fp_of)"]
    ctx.trusted.append("harness/overlay/broker/zz_verif_broker_test.go scenario driver; lib/checks/brokerlib.py label derivation")
    scens = brokerlib.scenarios(ctx.rng, ctx.tier)
    brokerlib.run_scenarios(ctx, scens, {CID}, "broker-scenarios", burst=True)


def replay(ctx, doc):
    import os
    exe = vlib.go_test_build("./broker", name="broker.test")
    env = dict(os.environ, VERIF_DRIVER="broker")
    bad = 0
    for v in doc.get("violations", []):
        case = v["replay"].get("case")
        if not case:
            continue
        rc, out, err = vlib.run_impl(exe, [case], args=["-test.run", "^TestVerifBrokerDriver$"], env=env)
        print("case: %s\n impl: %s" % (case[:400], out[0] if out else "!died"))
        bad += 1
    return 1 if bad else 0
